#!/bin/sh
# Builds the checker offline from files on disk.
set -e
cd "$(dirname "$0")/checker"
unset GOWORK GOSUMDB
export GOFLAGS=-mod=mod GOPROXY=off
mkdir -p ../bin
python3 ../tools/gennames.py >/dev/null
go build -o ../bin/klogsa .
