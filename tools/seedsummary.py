#!/usr/bin/env python3
"""Lists the seeded changes under /verif/seeded with the properties whose static check flags them."""
import json, os, sys
root = os.path.join(os.path.dirname(os.path.dirname(os.path.abspath(__file__))), "seeded")
pat = sys.argv[1] if len(sys.argv) > 1 else ""
for d in sorted(os.listdir(root)):
    if pat not in d:
        continue
    m = json.load(open(os.path.join(root, d, "meta.json")))
    own = m.get("property") in m.get("static_checks_flagging_it", [])
    print("%-10s own=%-5s flagged=%s" % (d, own, ",".join(m.get("static_checks_flagging_it", []))))
    if "-v" in sys.argv:
        for l in m.get("static_check_details", []):
            print("      " + l[:300])
