#!/usr/bin/env python3
"""Regenerates /verif/MANIFEST.json from the checker's own rule registry (klogsa -describe)
and tools/claims.json (technique per property; reason for properties not claimed)."""
import json, os, subprocess
HERE = os.path.dirname(os.path.dirname(os.path.abspath(__file__)))
props = [json.loads(l) for l in open(os.path.join(HERE, "properties.jsonl"))]
claims = json.load(open(os.path.join(HERE, "tools", "claims.json")))
reg = {d["ID"]: d for d in json.loads(subprocess.check_output([os.path.join(HERE, "bin", "klogsa"), "-describe"]))}
checks, na = [], []
for p in props:
    c = claims.get(p["id"], {})
    d = reg.get(p["id"])
    if d and c.get("claimed", True) and not c.get("reason"):
        text, _, notcov = d["Explain"].partition("Not covered:")
        note = "Trusted: " + "; ".join(d["Trusted"] or ["go/ssa construction and dominator tree, go/types"]) + ". Not covered (left to dynamic techniques): " + (notcov.strip() or "-")
        if d["Level"] == "other":
            text = "Static analysis decides structural necessary conditions of the property for all inputs at once, not the behaviour itself. " + text.strip()
        checks.append({
            "property_id": p["id"],
            "quick_cmd": "./check %s quick" % p["id"],
            "thorough_cmd": "./check %s thorough" % p["id"],
            "evidence_file": "/verif/evidence/%s.json" % p["id"],
            "replay_cmd_template": "./check --replay {path}",
            "engine": "klogsa",
            "level_claimed": {"category": d["Level"], "text": text.strip(), "design_ref": "DESIGN.md section 4, " + p["id"]},
            "level_note": note,
            "technique": c.get("technique", "static analysis over go/ssa: dominance guards, value provenance, call-graph reachability"),
        })
    else:
        na.append({"property_id": p["id"], "reason": c.get("reason", "check not implemented yet (build in progress; see DESIGN.md section 4)")})
m = {
    "version": 1,
    "setup_cmd": "./setup.sh",
    "hooks": {"guard": "verif", "enable": "none needed: static analysis reads the sources; the thorough tier additionally analyses the -tags verif configuration",
              "baseline_off_cmd": "cd /repo && GOFLAGS=-mod=mod GOPROXY=off go test -count=1 ./...", "source_commits": [], "add_only": True},
    "engines": [{"name": "klogsa", "path": "/verif/checker", "serves_properties": [c["property_id"] for c in checks],
                 "kind_free_text": "custom static analyser over go/packages + go/ssa (dominance guards, value provenance, hybrid VTA/CHA call graph, regular-language comparison of source constants); no execution of klog code"}],
    "checks": checks,
    "not_applicable": na,
    "notes": "Static analysis only. Every claimed property is decided through structural necessary conditions (DESIGN.md section 4); level_note states what is not covered.",
}
json.dump(m, open(os.path.join(HERE, "MANIFEST.json"), "w"), indent=1)
print("claimed:", [c["property_id"] for c in checks])
