#!/usr/bin/env python3
"""Re-runs the static checks against every seeded change (patch applied to a scratch copy of /repo)
and rewrites the static_checks_flagging_it / static_check_details fields of seeded/*/meta.json.
Does not re-run tests (tools/verify_seed.py does the full confirmation). Usage: refresh_flags.py [-j N]"""
import json, os, shutil, subprocess, sys, tempfile
from concurrent.futures import ThreadPoolExecutor

HERE = os.path.dirname(os.path.dirname(os.path.abspath(__file__)))
ENV = dict(os.environ, GOFLAGS="-mod=mod -trimpath", GOPROXY="off")
for k in ("GOWORK", "GOSUMDB", "GOTOOLCHAIN"):
    ENV.pop(k, None)

def one(d):
    sd = os.path.join(HERE, "seeded", d)
    tmp = tempfile.mkdtemp(prefix="klogsa-rf-")
    try:
        subprocess.run(["rsync", "-a", "--exclude", ".git", "/repo/", tmp + "/"], check=True)
        a = subprocess.run(["git", "apply", "--whitespace=nowarn", os.path.join(sd, "patch.diff")], cwd=tmp, capture_output=True, text=True)
        if a.returncode != 0:
            a = subprocess.run(["patch", "-p1", "-s", "-i", os.path.join(sd, "patch.diff")], cwd=tmp, capture_output=True, text=True)
            if a.returncode != 0:
                return d, None, "patch does not apply: " + a.stderr[-200:]
        c = subprocess.run([os.path.join(HERE, "bin", "klogsa"), "-repo", tmp, "-prop", "all", "-no-evidence",
                            "-known", os.path.join(HERE, "known_findings.json")], env=ENV, capture_output=True, text=True)
        props = sorted(set(l.split("property=")[1].split()[0] for l in c.stdout.splitlines() if l.startswith("VIOLATION")))
        details, seen = [], set()
        for l in c.stdout.splitlines():
            if l.startswith("  violated") or l.startswith("  undecided"):
                t = l.strip()[:400]
                if t not in seen:
                    seen.add(t); details.append(t)
        mp = os.path.join(sd, "meta.json")
        m = json.load(open(mp))
        m["static_checks_flagging_it"] = props
        m["static_check_details"] = details[:8]
        json.dump(m, open(mp, "w"), indent=1)
        return d, props, None
    finally:
        shutil.rmtree(tmp, ignore_errors=True)

j = 8
if "-j" in sys.argv:
    j = int(sys.argv[sys.argv.index("-j") + 1])
dirs = sorted(os.listdir(os.path.join(HERE, "seeded")))
with ThreadPoolExecutor(j) as ex:
    for d, props, err in ex.map(one, dirs):
        print(d, err or ",".join(props))
