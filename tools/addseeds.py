#!/usr/bin/env python3
"""Adds every confirmed seeded change under /verif/seeded that is not yet in selftest/corpus.json as a patch entry."""
import json, os
root = os.path.dirname(os.path.dirname(os.path.abspath(__file__)))
cp = os.path.join(root, "selftest", "corpus.json")
c = json.load(open(cp))
have = {e.get("patch") for e in c}
for d in sorted(os.listdir(os.path.join(root, "seeded"))):
    rel = "seeded/%s/patch.diff" % d
    if rel in have:
        continue
    m = json.load(open(os.path.join(root, "seeded", d, "meta.json")))
    parts = d.split("-")
    eid = "%s-seeded-%s" % (parts[0], "-".join(parts[1:]))
    c.append({"id": eid, "props": [m["property"]], "patch": rel, "expect": "violation",
              "note": "independently seeded by a sub-agent: " + m["summary"][:200]})
    print("added", eid)
json.dump(c, open(cp, "w"), indent=1)
