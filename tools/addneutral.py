#!/usr/bin/env python3
"""Adds / refreshes the self-test corpus entries for a filed set of behaviour-preserving
refactorings (/verif/<dir>/<Cxx-y>/{patch.diff,meta.json}, written by neutralcheck.py --file).
Usage: addneutral.py DIR PREFIX LABEL   e.g.  addneutral.py neutral3 NR3 "third-round"
An entry whose meta says it is still flagged becomes expect=either with a KNOWN LIMIT note."""
import json, os, sys
HERE = os.path.dirname(os.path.dirname(os.path.abspath(__file__)))
d, prefix, label = sys.argv[1], sys.argv[2], sys.argv[3]
cp = os.path.join(HERE, "selftest", "corpus.json")
corpus = json.load(open(cp))
corpus = [e for e in corpus if not e["id"].startswith(prefix + "-")]
n = k = 0
for sid in sorted(os.listdir(os.path.join(HERE, d))):
    mp = os.path.join(HERE, d, sid, "meta.json")
    if not os.path.exists(mp):
        continue
    m = json.load(open(mp))
    note = "%s behaviour-preserving refactoring by a sub-agent (%s): %s" % (label, m.get("kind", "")[:60], m.get("summary", "")[:230])
    e = {"id": "%s-%s" % (prefix, sid), "props": ["all"], "patch": "%s/%s/patch.diff" % (d, sid), "expect": "silent", "note": note}
    if m.get("static_verdict") == "flagged":
        e["expect"] = "either"
        e["note"] = "KNOWN LIMIT (still reported by %s): %s" % (",".join(m.get("static_props", [])), note)
        k += 1
    corpus.append(e)
    n += 1
json.dump(corpus, open(cp, "w"), indent=1)
print("added %d entries (%d known limits)" % (n, k))
