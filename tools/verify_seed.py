#!/usr/bin/env python3
"""Confirms a seeded change delivered by a sub-agent and files it under /verif/seeded/<id>/.
Steps, each in a fresh scratch worktree of /repo under /tmp (removed afterwards):
 1. demo on unchanged code must PASS; 2. patch applies, builds, whole existing suite passes;
 3. demo with the patch must FAIL; 4. run the static checks on the patched tree (all properties).
Usage: verify_seed.py [--round 2] /tmp/seed/C03-a [...]   (--round N files C03-a as C03-rN-a)"""
import json, os, shutil, subprocess, sys, tempfile

HERE = os.path.dirname(os.path.dirname(os.path.abspath(__file__)))
ENV = dict(os.environ, GOFLAGS="-mod=mod -trimpath", GOPROXY="off")
for k in ("GOWORK", "GOSUMDB", "GOTOOLCHAIN"):
    ENV.pop(k, None)

def sh(cmd, cwd):
    return subprocess.run(cmd, cwd=cwd, env=ENV, shell=True, capture_output=True, text=True, errors="replace")

ROUND = None

def verify(src):
    sid = os.path.basename(src.rstrip("/"))
    if ROUND:
        p, _, x = sid.partition("-")
        sid = "%s-r%s-%s" % (p, ROUND, x)
    meta = json.load(open(os.path.join(src, "meta.json")))
    wt = tempfile.mkdtemp(prefix="klogsa-vs-")
    os.rmdir(wt)
    res = {"id": sid}
    try:
        subprocess.run(["git", "-C", "/repo", "worktree", "add", "-q", "--detach", wt, "HEAD"], check=True)
        demo_name = os.path.basename(meta["demo_path"])
        demo_src = os.path.join(src, demo_name)
        if not os.path.exists(demo_src):
            cands = [f for f in os.listdir(src) if f.endswith("_test.go")]
            demo_src = os.path.join(src, cands[0])
        demo_dst = os.path.join(wt, meta["demo_path"])
        shutil.copy(demo_src, demo_dst)
        r = sh(meta["demo_cmd"], wt)
        res["demo_unchanged"] = "pass" if r.returncode == 0 else "FAIL"
        os.remove(demo_dst)
        a = sh("git apply --whitespace=nowarn " + os.path.join(src, "patch.diff"), wt)
        if a.returncode != 0:
            res["apply"] = "FAIL " + a.stderr[-200:]
            return res
        b = sh("go build ./...", wt)
        res["build"] = "ok" if b.returncode == 0 else "FAIL"
        t = sh("go test -count=1 ./... 2>&1 | tail -20", wt)
        full = sh("go test -count=1 ./...", wt)
        res["suite"] = "pass" if full.returncode == 0 else "FAIL"
        shutil.copy(demo_src, demo_dst)
        r = sh(meta["demo_cmd"], wt)
        res["demo_patched"] = "fail" if r.returncode != 0 else "PASSES"
        os.remove(demo_dst)
        c = subprocess.run([os.environ.get("KLOGSA_BIN") or os.path.join(HERE, "bin", "klogsa"), "-repo", wt, "-prop", "all", "-no-evidence",
                            "-known", os.path.join(HERE, "known_findings.json")], env=ENV, capture_output=True, text=True)
        res["flagged_props"] = sorted(set(l.split("property=")[1].split()[0] for l in c.stdout.splitlines() if l.startswith("VIOLATION")))
        res["flag_details"] = [l.strip()[:400] for l in c.stdout.splitlines() if l.startswith("  violated") or l.startswith("  undecided")][:8]
        res["confirmed"] = (res["demo_unchanged"] == "pass" and res["build"] == "ok" and res["suite"] == "pass" and res["demo_patched"] == "fail")
        if res["confirmed"]:
            dst = os.path.join(HERE, "seeded", sid)
            os.makedirs(dst, exist_ok=True)
            shutil.copy(os.path.join(src, "patch.diff"), os.path.join(dst, "patch.diff"))
            shutil.copy(demo_src, os.path.join(dst, demo_name + ".txt"))
            meta["demo_file"] = demo_name + ".txt (copy to demo_path, without the .txt suffix, to run)"
            meta["breaks_property"] = meta.get("property")
            meta["confirmed_by"] = "tools/verify_seed.py in a scratch worktree of /repo: demo passes on the unchanged tree; patch applies and builds; the whole existing suite passes with the patch; the demo fails with the patch"
            meta["static_checks_flagging_it"] = res["flagged_props"]
            meta["static_check_details"] = res["flag_details"]
            json.dump(meta, open(os.path.join(dst, "meta.json"), "w"), indent=1)
        return res
    finally:
        subprocess.run(["git", "-C", "/repo", "worktree", "remove", "--force", wt])
        shutil.rmtree(wt, ignore_errors=True)

args = sys.argv[1:]
if args and args[0] == "--round":
    ROUND = args[1]
    args = args[2:]
for s in args:
    r = verify(s)
    print(json.dumps(r, indent=1))
