#!/usr/bin/env python3
"""Variant sweep (DESIGN §7, informational): applies the surviving variants of the design-time
mutation screen (notes/auto-mutation-results.json: [file, line, operator, old, new, status]) to
scratch copies of /repo's current tree and records which properties' rules flag them.
Never changes an exit status of a registered check.  Usage: sweep.py [-j N] [--files SUBSTR ...] [--out FILE] [--limit N]"""
import argparse, json, os, shutil, subprocess, sys, tempfile, concurrent.futures as cf

HERE = os.path.dirname(os.path.dirname(os.path.abspath(__file__)))
REPO = os.environ.get("VERIF_REPO", "/repo")
ENV = dict(os.environ, GOFLAGS="-mod=mod -trimpath", GOPROXY="off")
for k in ("GOWORK", "GOSUMDB", "GOTOOLCHAIN"):
    ENV.pop(k, None)

def locate(lines, lineno, old):
    # exact text, nearest to the recorded line
    cands = [i for i, l in enumerate(lines) if l.strip() == old.strip()]
    if not cands:
        return None
    return min(cands, key=lambda i: abs(i - (lineno - 1)))

def run_one(v):
    f, lineno, op, old, new, status = v
    d = tempfile.mkdtemp(prefix="klogsa-sw-")
    try:
        subprocess.run(["rsync", "-a", "--exclude", ".git", REPO + "/", d + "/"], check=True)
        path = os.path.join(d, f)
        lines = open(path).read().split("\n")
        i = locate(lines, lineno, old)
        if i is None:
            return dict(v=v, status="stale")
        indent = lines[i][: len(lines[i]) - len(lines[i].lstrip())]
        lines[i] = indent + new.strip()
        open(path, "w").write("\n".join(lines))
        b = subprocess.run(["go", "build", "./..."], cwd=d, env=ENV, capture_output=True, text=True)
        if b.returncode != 0:
            return dict(v=v, status="nobuild")
        c = subprocess.run([os.path.join(HERE, "bin", "klogsa"), "-repo", d, "-prop", "all", "-no-evidence",
                            "-known", os.path.join(HERE, "known_findings.json")], env=ENV, capture_output=True, text=True)
        flagged = sorted(set(l.split("property=")[1].split()[0] for l in c.stdout.splitlines() if l.startswith("VIOLATION")))
        details = [l.strip()[:300] for l in c.stdout.splitlines() if l.startswith("  violated") or l.startswith("  undecided")]
        return dict(v=v, status="flagged" if flagged else "silent", props=flagged, details=details[:6])
    finally:
        shutil.rmtree(d, ignore_errors=True)

def main():
    ap = argparse.ArgumentParser()
    ap.add_argument("-j", type=int, default=8)
    ap.add_argument("--files", nargs="*")
    ap.add_argument("--out", default="/tmp/sweep.json")
    ap.add_argument("--limit", type=int, default=0)
    ap.add_argument("--status", default="SURVIVES")
    a = ap.parse_args()
    rs = json.load(open(os.path.join(HERE, "notes", "auto-mutation-results.json")))
    sel = [v for v in rs if v[5] == a.status and (not a.files or any(s in v[0] for s in a.files))]
    if a.limit:
        sel = sel[: a.limit]
    out = []
    with cf.ThreadPoolExecutor(a.j) as ex:
        for r in ex.map(run_one, sel):
            out.append(r)
            v = r["v"]
            print("%-8s %-40s:%-4d %-14s %s  ->  %s   %s" % (r["status"], v[0], v[1], v[2], v[3].strip()[:50], v[4].strip()[:50], ",".join(r.get("props", []))))
            sys.stdout.flush()
    json.dump(out, open(a.out, "w"), indent=1)
    n = len(out)
    print("sweep: %d variants: %d flagged, %d silent, %d stale, %d nobuild" % (
        n, sum(r["status"] == "flagged" for r in out), sum(r["status"] == "silent" for r in out),
        sum(r["status"] == "stale" for r in out), sum(r["status"] == "nobuild" for r in out)))

if __name__ == "__main__":
    main()
