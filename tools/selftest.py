#!/usr/bin/env python3
"""Seeded-fault self-test of the checker (DESIGN §7).

For each corpus entry: copy /repo's working tree (without .git) to a fresh temporary directory,
apply the edit, require that it still compiles, run the static checker on the copy, compare with
the expectation, delete the copy.  Never touches /repo.  Usage:
  selftest.py [--corpus FILE] [--prop C05] [--id ID ...] [-j N] [--json OUT]
"""
import argparse, json, os, shutil, subprocess, sys, tempfile, concurrent.futures as cf

HERE = os.path.dirname(os.path.dirname(os.path.abspath(__file__)))
REPO = os.environ.get("VERIF_REPO", "/repo")
ENV = dict(os.environ, GOFLAGS="-mod=mod -trimpath", GOPROXY="off")
for k in ("GOWORK", "GOSUMDB", "GOTOOLCHAIN"):
    ENV.pop(k, None)

def run_one(e, props):
    d = tempfile.mkdtemp(prefix="klogsa-st-")
    try:
        subprocess.run(["rsync", "-a", "--exclude", ".git", REPO + "/", d + "/"], check=True)
        if e.get("patch"):
            pr = subprocess.run(["patch", "-p1", "-s", "-i", os.path.join(HERE, e["patch"])], cwd=d, capture_output=True, text=True)
            if pr.returncode != 0:
                return dict(id=e["id"], status="inconclusive", detail="patch does not apply: " + pr.stdout[-200:])
        edits = [] if e.get("patch") else (e.get("edits") or [{"file": e["file"], "find": e["find"], "replace": e["replace"]}])
        for ed in edits:
            path = os.path.join(d, ed["file"])
            src = open(path).read()
            if src.count(ed["find"]) != 1:
                return dict(id=e["id"], status="inconclusive", detail="search text occurs %d times" % src.count(ed["find"]))
            open(path, "w").write(src.replace(ed["find"], ed["replace"]))
        b = subprocess.run(["go", "build", "./..."], cwd=d, env=ENV, capture_output=True, text=True)
        if b.returncode != 0:
            return dict(id=e["id"], status="nobuild", detail=b.stderr[-400:])
        out = {}
        for prop in props:
            c = subprocess.run([os.environ.get("KLOGSA_BIN") or os.path.join(HERE, "bin", "klogsa"), "-repo", d, "-prop", prop, "-no-evidence",
                                "-known", os.path.join(HERE, "known_findings.json")],
                               env=ENV, capture_output=True, text=True)
            lines = [l for l in c.stdout.splitlines() if l.startswith("  violated") or l.startswith("  undecided")]
            out[prop] = dict(exit=c.returncode, lines=lines, err=c.stderr[-300:])
        flagged = any(v["exit"] != 0 for v in out.values())
        return dict(id=e["id"], status="flagged" if flagged else "silent", results=out)
    finally:
        shutil.rmtree(d, ignore_errors=True)

def main():
    ap = argparse.ArgumentParser()
    ap.add_argument("--corpus", default=os.path.join(HERE, "selftest", "corpus.json"))
    ap.add_argument("--prop")
    ap.add_argument("--id", nargs="*")
    ap.add_argument("-j", type=int, default=6)
    ap.add_argument("--json")
    ap.add_argument("-v", action="store_true")
    a = ap.parse_args()
    corpus = json.load(open(a.corpus))
    sel = []
    for e in corpus:
        props = e.get("props") or [e["id"].split("-")[0]]
        if a.prop and a.prop not in props:
            continue
        if a.id and e["id"] not in a.id:
            continue
        sel.append((e, [a.prop] if a.prop else props))
    bad = 0
    results = []
    with cf.ThreadPoolExecutor(a.j) as ex:
        futs = {ex.submit(run_one, e, props): e for e, props in sel}
        for f in cf.as_completed(futs):
            e = futs[f]
            r = f.result()
            r["expect"] = e["expect"]
            results.append(r)
            exp = e["expect"]
            ok = (r["status"] == "inconclusive" or exp in ("either", "uncovered") or
                  (exp == "violation" and r["status"] == "flagged") or (exp == "silent" and r["status"] == "silent"))
            if exp == "uncovered" and r["status"] == "flagged":
                ok = True
            mark = "ok  " if ok else "FAIL"
            if not ok:
                bad += 1
            print("%s %-40s expect=%-9s got=%-12s %s" % (mark, e["id"], exp, r["status"], e.get("note", "")))
            if a.v or not ok:
                for p, v in (r.get("results") or {}).items():
                    for l in v["lines"][:6]:
                        print("       ", p, l[:260])
                    if v["err"]:
                        print("        stderr:", v["err"])
                if r.get("detail"):
                    print("       ", r["detail"])
            sys.stdout.flush()
    if a.json:
        json.dump(sorted(results, key=lambda x: x["id"]), open(a.json, "w"), indent=1)
    print("selftest: %d entries, %d unexpected" % (len(results), bad))
    sys.exit(1 if bad else 0)

if __name__ == "__main__":
    main()
