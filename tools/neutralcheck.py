#!/usr/bin/env python3
"""Runs the static checks against behaviour-preserving refactorings delivered by sub-agents
(/tmp/neutral/Cxx-y/{patch.diff,meta.json}): applies each patch to a scratch copy of /repo, builds,
runs the whole existing test suite (must pass) and all twenty checks.  Prints which are flagged.
With --file, copies every delivery into /verif/neutral/<id>/ (patch + meta with the verdict).
Usage: neutralcheck.py [-j N] [--file] DIR..."""
import json, os, shutil, subprocess, sys, tempfile
from concurrent.futures import ThreadPoolExecutor

HERE = os.path.dirname(os.path.dirname(os.path.abspath(__file__)))
ENV = dict(os.environ, GOFLAGS="-mod=mod -trimpath", GOPROXY="off")
for k in ("GOWORK", "GOSUMDB", "GOTOOLCHAIN"):
    ENV.pop(k, None)

def one(src):
    sid = os.path.basename(src.rstrip("/"))
    tmp = tempfile.mkdtemp(prefix="klogsa-nc-")
    res = {"id": sid}
    try:
        subprocess.run(["rsync", "-a", "--exclude", ".git", "/repo/", tmp + "/"], check=True)
        a = subprocess.run(["git", "apply", "--whitespace=nowarn", os.path.join(src, "patch.diff")], cwd=tmp, capture_output=True, text=True)
        if a.returncode != 0:
            res["status"] = "patch does not apply"
            return res
        b = subprocess.run(["go", "build", "./..."], cwd=tmp, env=ENV, capture_output=True, text=True)
        if b.returncode != 0:
            res["status"] = "does not build"
            return res
        if "--notest" not in sys.argv:
            t = subprocess.run(["go", "test", "-count=1", "./..."], cwd=tmp, env=ENV, capture_output=True, text=True, errors="replace")
            if t.returncode != 0:
                res["status"] = "suite fails"
                return res
        c = subprocess.run([os.path.join(HERE, "bin", "klogsa"), "-repo", tmp, "-prop", "all", "-no-evidence",
                            "-known", os.path.join(HERE, "known_findings.json")], env=ENV, capture_output=True, text=True)
        props = sorted(set(l.split("property=")[1].split()[0] for l in c.stdout.splitlines() if l.startswith("VIOLATION")))
        details, seen = [], set()
        for l in c.stdout.splitlines():
            if l.startswith("  violated") or l.startswith("  undecided"):
                t = l.strip()[:400]
                if t not in seen:
                    seen.add(t); details.append(t)
        res["status"] = "flagged" if props else "silent"
        res["props"] = props
        res["details"] = details[:6]
        return res
    finally:
        shutil.rmtree(tmp, ignore_errors=True)

args = [a for a in sys.argv[1:] if not a.startswith("-")]
j = 8
if "-j" in sys.argv:
    j = int(sys.argv[sys.argv.index("-j") + 1]); args = [a for a in args if a != str(j)]
with ThreadPoolExecutor(j) as ex:
    for r in ex.map(one, args):
        print("%-8s %-8s %s" % (r["id"], r["status"], ",".join(r.get("props", []))))
        for d in r.get("details", []):
            print("      " + d[:300])
        if "--file" in sys.argv and r["status"] in ("silent", "flagged"):
            src = [a for a in args if os.path.basename(a.rstrip("/")) == r["id"]][0]
            dst = os.path.join(HERE, os.environ.get("NEUTRAL_DEST", "neutral"), r["id"])
            os.makedirs(dst, exist_ok=True)
            if os.path.realpath(src) != os.path.realpath(dst):
                shutil.copy(os.path.join(src, "patch.diff"), os.path.join(dst, "patch.diff"))
            m = json.load(open(os.path.join(src, "meta.json")))
            m["static_verdict"] = r["status"]
            m["static_props"] = r.get("props", [])
            json.dump(m, open(os.path.join(dst, "meta.json"), "w"), indent=1)
