package main

// C02 — total, should-total and diff.

import (
	"fmt"
	"go/constant"
	"go/token"
	"go/types"
	"strings"

	"golang.org/x/tools/go/ssa"
)

func init() {
	register(&propSpec{
		id:    "C02",
		level: "other",
		explain: "Decides which value each entry kind contributes and that nothing is skipped or merged: (P02-arms) Entry.Duration maps a range to its own Duration(), a duration to its minutes and an open range to zero, arms identified by parameter type; " +
			"(P02-fold) service.Total is an unconditional fold of e.Duration() with Plus over every entry of every record given, ShouldTotalSum an unconditional fold of r.ShouldTotal() (no branch, no de-duplication, no merge by date); (P02-diff) Diff = actual.Minus(should); " +
			"(P02-range) a range lasts end offset minus start offset minutes and MidnightOffset is 60h+m-1440 / 60h+m / 60h+m+1440 for yesterday / today / tomorrow; " +
			"(P02-close) evaluation at an instant closes ranges at the clock time for records dated that day, +1440 minutes for the day before and fails otherwise. " +
			"Not covered: that the parser put the right numbers into the model (C01), Plus/Minus arithmetic on minutes beyond their linear form, rendering of the totals.",
		rules: []ruleFn{ruleP02Arms, ruleP02Fold, ruleP02Diff, ruleP02Range, ruleP02Close},
	})
}

// unboxArms finds, in function f, the (single) call of klog.Unbox and returns the handler
// closures keyed by the parameter type name (Range, Duration, OpenRange).
func (p *Prog) unboxArms(f *ssa.Function) (map[string]*ssa.Function, ssa.CallInstruction) {
	unbox := p.fn("klog", "Unbox")
	var call ssa.CallInstruction
	n := 0
	scope := append([]*ssa.Function{f}, helpersCalledFrom([]*ssa.Function{f})...)
	found := false
	for _, g := range scope {
		eachInstr(g, func(in ssa.Instruction) {
			if c, ok := in.(ssa.CallInstruction); ok && sameFn(staticCallee(c), unbox) {
				found = true
			}
		})
	}
	if !found {
		// the dispatch sits in a closure of f (a predicate handed to a helper)
		scope = withAnons(f)
	}
	for _, g := range scope {
		eachInstr(g, func(in ssa.Instruction) {
			if c, ok := in.(ssa.CallInstruction); ok && sameFn(staticCallee(c), unbox) {
				call = c
				n++
			}
		})
	}
	if n != 1 {
		return nil, nil
	}
	arms := map[string]*ssa.Function{}
	for _, a := range call.Common().Args[1:] {
		lit := funcLiteral(a)
		if lit != nil && lit.Synthetic != "" {
			// an arm written as a method and passed as a method value
			if t := boundTarget(lit); t != nil && t != lit {
				lit = t
			}
		}
		if lit == nil || len(lit.Params) == 0 {
			return nil, call
		}
		// closures have their free variables first? no: Params are the declared parameters
		arms[typeNameOf(lit.Params[len(lit.Params)-1].Type())] = lit
	}
	return arms, call
}

func ruleP02Arms(p *Prog, r *Report) {
	const rule = "P02-arms"
	f := p.method("klog", "Entry", "Duration")
	if !r.anchorFn(rule, f, "klog.(*Entry).Duration") {
		return
	}
	arms, call := p.unboxArms(f)
	if arms == nil || len(arms) != 3 {
		r.undecided(rule, "unbox", p.pos(f.Pos()), "Entry.Duration does not dispatch through one klog.Unbox call with three handler literals")
		return
	}
	// the value unboxed is the receiver, and its result is returned
	r.check(strip(call.Common().Args[0]) == ssa.Value(f.Params[0]), rule, "receiver", p.instrPos(call), "dispatches on the receiver entry", "Duration() does not dispatch on its own entry")
	for _, ret := range returnsOf(f) {
		r.check(strip(retResult(ret, 0)) == call.Value(), rule, "returns-dispatch", p.instrPos(ret), "returns the handler's value", "Duration() does not return the handler's value")
	}
	for _, kind := range []string{"Range", "Duration", "OpenRange"} {
		h := arms[kind]
		if h == nil {
			r.bad(rule, "arm:"+kind, p.instrPos(call), "no handler for %s", kind)
			continue
		}
		prm := h.Params[len(h.Params)-1]
		for i, ret := range returnsOf(h) {
			key := fmt.Sprintf("arm:%s#%d", kind, i)
			v := retResult(ret, 0)
			switch kind {
			case "Range":
				n, recv, _, _ := methodCall(v)
				r.check(n == "Duration" && strip(recv) == ssa.Value(prm), rule, key, p.instrPos(ret), "range counts its own Duration() (end - start)", "a range entry does not count r.Duration()")
			case "Duration":
				m, ok := p.durationMinutes(v)
				good := false
				if ok && m.C == 0 && len(m.Terms) == 1 {
					for k, c := range m.Terms {
						n, recv, _, _ := methodCall(m.leafV[k])
						good = c == 1 && n == "InMinutes" && strip(recv) == ssa.Value(prm)
					}
				}
				if !good && strip(v) == ssa.Value(prm) {
					good = true // returning the duration itself is the same value
				}
				r.check(good, rule, key, p.instrPos(ret), "duration entry counts exactly its minutes", "a duration entry does not count exactly d.InMinutes() minutes")
			case "OpenRange":
				m, ok := p.durationMinutes(v)
				r.check(ok && m.isConst() && m.C == 0, rule, key, p.instrPos(ret), "open range counts zero", "an open range does not count zero minutes")
			}
		}
	}
	r.floor(rule, 5)
}

// foldCheck decides that fn is an unconditional fold: result = init; for each element x of the
// collection(s): result = result.Plus(term(x)); return result.  termOK validates the added
// term.  Returns the Plus call.
func (p *Prog) foldCheck(r *Report, rule, key string, fn *ssa.Function, resultVal ssa.Value, termOK func(arg ssa.Value) (bool, string)) {
	phis, inputs := phiCycle(resultVal)
	// the accumulator may be a variable that a local function literal updates (a cell instead of
	// a phi): its stores are the inputs, a read of it is "the running total"
	var accCell *ssa.Alloc
	if u, isU := strip(resultVal).(*ssa.UnOp); isU && u.Op == token.MUL && len(phis) == 0 {
		if cell := cellOf(u.X); cell != nil && len(storesTo(cell)) >= 2 {
			accCell = cell
			inputs = nil
			for _, st := range storesTo(cell) {
				inputs = append(inputs, strip(st.val))
			}
		}
	}
	if len(phis) == 0 && accCell == nil {
		r.bad(rule, key+":shape", p.pos(fn.Pos()), "the result is not accumulated in a loop")
		return
	}
	nPlus := 0
	for _, in := range inputs {
		if m, ok := p.durationMinutes(in); ok {
			r.check(m.isConst() && m.C == 0, rule, key+":init", p.pos(in.Pos()), "accumulation starts at zero", "accumulation does not start at zero")
			continue
		}
		name, recv, args, call := methodCall(in)
		if name != "Plus" || len(args) != 1 {
			r.bad(rule, key+":step", p.pos(in.Pos()), "the accumulator receives a value that is neither the zero duration nor acc.Plus(term)")
			continue
		}
		nPlus++
		ph, isPhi := strip(recv).(*ssa.Phi)
		isAcc := isPhi && phis[ph]
		if accCell != nil {
			if lu, isLoad := strip(recv).(*ssa.UnOp); isLoad && lu.Op == token.MUL && cellOf(lu.X) == accCell {
				isAcc = true
			}
		}
		r.check(isAcc, rule, key+":acc", p.instrPos(call), "term is added to the running total", "a term is added to something other than the running total")
		ok, why := termOK(args[0])
		r.check(ok, rule, key+":term", p.instrPos(call), "adds "+why, "adds the wrong term: "+why)
		only, g := onlyLoopGuards(call.Block())
		pos := p.instrPos(call)
		if g != nil {
			pos = p.instrPos(g.If)
		}
		r.check(only, rule, key+":unconditional", pos, "the addition is executed for every element (no branch skips it)", "the addition is conditional: some elements can be skipped")
	}
	r.check(nPlus == 1, rule, key+":single", p.pos(fn.Pos()), "exactly one accumulation site", fmt.Sprintf("%d accumulation sites", nPlus))
	// the loops are left only by exhausting the collections: no other edge into the return block
	for _, ret := range returnsOf(fn) {
		only, _ := onlyLoopGuards(ret.Block())
		_ = only
	}
}

func ruleP02Fold(p *Prog, r *Report) {
	const rule = "P02-fold"
	total := p.fn("klog/service", "Total")
	should := p.fn("klog/service", "ShouldTotalSum")
	entDur := p.method("klog", "Entry", "Duration")
	if !r.anchorFn(rule, total, "service.Total") || !r.anchorFn(rule, should, "service.ShouldTotalSum") || !r.anchorFn(rule, entDur, "Entry.Duration") {
		return
	}
	rets := returnsOf(total)
	if len(rets) != 1 {
		r.bad(rule, "Total:returns", p.pos(total.Pos()), "service.Total has %d return statements: an early return skips records", len(rets))
	} else {
		p.foldCheck(r, rule, "Total", total, retResult(rets[0], 0), func(arg ssa.Value) (bool, string) {
			c, ok := isCallTo(arg, entDur, 0)
			if !ok {
				return false, "not e.Duration()"
			}
			ents := rangeElemOf(c.Common().Args[0])
			if ents == nil {
				return false, "e is not the loop element"
			}
			entriesOfEvery := func(v ssa.Value) (bool, string) {
				n, recv, _, _ := methodCall(v)
				if n != "Entries" {
					return false, "e does not range over r.Entries()"
				}
				rs := rangeElemOf(recv)
				if rs == nil || strip(rs) != ssa.Value(total.Params[0]) {
					return false, "r does not range over the records given"
				}
				return true, ""
			}
			if ok, why := entriesOfEvery(ents); !ok {
				// the entries of all records collected first, in one list: every append to that
				// list is r.Entries()... of every record given, nothing else goes in
				apps, leaves := accWeb(ents)
				okList := len(apps) > 0
				for _, l := range leaves {
					if !isNilConst(l) && !isEmptySliceLit(l) {
						okList = false
					}
				}
				for _, a := range apps {
					if len(a.Call.Args) < 2 {
						okList = false
						continue
					}
					if ok2, _ := entriesOfEvery(a.Call.Args[1]); !ok2 {
						okList = false
					}
					if only, _ := onlyLoopGuards(a.Block()); !only {
						okList = false
					}
				}
				if !okList {
					return false, why
				}
			}
			return true, "e.Duration() for every entry e of every record r given"
		})
	}
	rets = returnsOf(should)
	if len(rets) != 1 {
		r.bad(rule, "ShouldTotalSum:returns", p.pos(should.Pos()), "ShouldTotalSum has %d return statements", len(rets))
	} else {
		// return NewShouldTotal(0, total.InMinutes())
		m, ok := p.durationMinutes(retResult(rets[0], 0))
		var acc ssa.Value
		if ok && m.C == 0 && len(m.Terms) == 1 {
			for k, c := range m.Terms {
				if n, recv, _, _ := methodCall(m.leafV[k]); c == 1 && n == "InMinutes" {
					acc = recv
				}
			}
		}
		if acc == nil {
			acc = retResult(rets[0], 0)
		}
		p.foldCheck(r, rule, "ShouldTotalSum", should, acc, func(arg ssa.Value) (bool, string) {
			n, recv, _, _ := methodCall(arg)
			if n != "ShouldTotal" {
				return false, "not r.ShouldTotal()"
			}
			rs := rangeElemOf(recv)
			if rs == nil || strip(rs) != ssa.Value(should.Params[0]) {
				return false, "r does not range over the records given"
			}
			return true, "r.ShouldTotal() for every record r given"
		})
	}
	r.floor(rule, 10)
}

func ruleP02Diff(p *Prog, r *Report) {
	const rule = "P02-diff"
	f := p.fn("klog/service", "Diff")
	if !r.anchorFn(rule, f, "service.Diff") {
		return
	}
	for i, ret := range returnsOf(f) {
		n, recv, args, _ := methodCall(retResult(ret, 0))
		ok := n == "Minus" && len(args) == 1 && strip(recv) == ssa.Value(f.Params[1]) && strip(args[0]) == ssa.Value(f.Params[0])
		r.check(ok, rule, fmt.Sprintf("return#%d", i), p.instrPos(ret), "Diff(should, actual) = actual.Minus(should)", "Diff is not actual.Minus(should)")
	}
	// call sites: Diff(should-total of X, total of X)
	diffSites := 0
	for _, g := range p.srcFns {
		for _, c := range callsTo(g, f) {
			diffSites++
			key := "callsite:" + fnName(g)
			sc, _ := callOf(c.Common().Args[0])
			tc, _ := callOf(c.Common().Args[1])
			okS, okT, okSame := false, false, true
			var sArg, tArg ssa.Value
			if sc != nil && staticCallee(sc) != nil {
				switch fnBase(staticCallee(sc)) {
				case "ShouldTotalSum":
					okS = true
					sArg = sc.Common().Args[0]
				case "NewShouldTotal":
					okS = true
				}
			} else if sc != nil {
				if n, _, _, _ := methodCallOf(sc); n == "ShouldTotal" {
					okS = true
				}
			}
			if tc != nil && staticCallee(tc) != nil && fnBase(staticCallee(tc)) == "Total" {
				okT = true
				tArg = tc.Common().Args[0]
			} else if tc != nil {
				if n, _, _, _ := methodCallOf(tc); n == "Plus" || n == "Duration" {
					okT = true
				}
			}
			if sArg != nil && tArg != nil {
				okSame = sameValue(sArg, tArg) || sameSliceSource(sArg, tArg)
			}
			r.check(okS && okT && okSame, rule, key, p.instrPos(c), "Diff(should-total, total) of the same records", "Diff is not called as Diff(should-total of X, total of X)")
		}
	}
	if diffSites < 4 {
		r.undecided(rule, "floor:callsites", "-", "found %d call sites of service.Diff, expected at least 4", diffSites)
	}
	// Minus(d) = Plus(-d) ; Plus adds minutes
	minus := p.method("klog", "duration", "Minus")
	plus := p.method("klog", "duration", "Plus")
	if r.anchorFn(rule, minus, "duration.Minus") && r.anchorFn(rule, plus, "duration.Plus") {
		for _, ret := range returnsOf(minus) {
			n, recv, args, _ := methodCall(retResult(ret, 0))
			ok := false
			if n == "Plus" && len(args) == 1 && sameValue(recv, minus.Params[0]) || (n == "Plus" && len(args) == 1) {
				if m, okd := p.durationMinutes(args[0]); okd && m.C == 0 && len(m.Terms) == 1 {
					for k, c := range m.Terms {
						nn, rr, _, _ := methodCall(m.leafV[k])
						ok = c == -1 && nn == "InMinutes" && strip(rr) == ssa.Value(minus.Params[1])
					}
				}
			}
			r.check(ok, rule, "Minus", p.instrPos(ret), "a.Minus(b) = a.Plus(-b.InMinutes())", "Minus is not Plus of the negated minutes")
		}
		// Plus: result minutes = d.InMinutes() + additional.InMinutes() (via safemath.Add)
		okPlus := false
		for _, vi := range virtualInstrs(plus) {
			vi := vi
			vi.run(func() {
				c, ok := vi.in.(ssa.CallInstruction)
				if !ok {
					return
				}
				if g := staticCallee(c); g != nil && fnBase(g) == "Add" && len(c.Common().Args) == 2 {
					// the minutes of a duration: x.InMinutes(), or the field itself on the receiver
					minutesOperand := func(v ssa.Value) (string, ssa.Value) {
						if n, rv, _, _ := methodCall(v); n == "InMinutes" {
							return n, rv
						}
						if base, fld := fieldLoad(v); fld == "minutes" && base != nil {
							return "InMinutes", base
						}
						return "", nil
					}
					n1, r1 := minutesOperand(c.Common().Args[0])
					n2, r2 := minutesOperand(c.Common().Args[1])
					if n1 == "InMinutes" && n2 == "InMinutes" && r1 != nil && r2 != nil {
						recvIsSelf := func(v ssa.Value) bool {
							if a, isA := v.(*ssa.Alloc); isA {
								// the local copy of a value receiver
								if sts := storesTo(a); len(sts) == 1 && strip(sts[0].val) == ssa.Value(plus.Params[0]) {
									return true
								}
							}
							return leafKey(v) == leafKey(plus.Params[0]) || sameValue(v, plus.Params[0]) || isLoadOfParamCopy(v, plus.Params[0])
						}
						if (recvIsSelf(r1) && strip(r2) == ssa.Value(plus.Params[1])) || (recvIsSelf(r2) && strip(r1) == ssa.Value(plus.Params[1])) {
							// and the sum is what is returned
							sum := resultOf(c, 0)
							for _, ret := range returnsOf(plus) {
								if m, okd := p.durationMinutes(retResult(ret, 0)); okd && sum != nil && m.C == 0 && len(m.Terms) == 1 {
									for k := range m.Terms {
										if sameValue(m.leafV[k], sum) && m.Terms[k] == 1 {
											okPlus = true
										}
									}
								}
							}
						}
					}
				}
			})
		}
		r.check(okPlus, rule, "Plus", p.pos(plus.Pos()), "a.Plus(b) has a.InMinutes() + b.InMinutes() minutes", "Plus does not return the sum of both minute values")
	}
}

// isLoadOfParamCopy: v is a load of the local copy of a value-receiver parameter.
func isLoadOfParamCopy(v ssa.Value, prm *ssa.Parameter) bool {
	d := deref(v)
	return d == ssa.Value(prm)
}

func ruleP02Range(p *Prog, r *Report) {
	const rule = "P02-range"
	dur := p.method("klog", "timeRange", "Duration")
	off := p.method("klog", "time", "MidnightOffset")
	if !r.anchorFn(rule, dur, "timeRange.Duration") || !r.anchorFn(rule, off, "time.MidnightOffset") {
		return
	}
	for _, ret := range returnsOf(dur) {
		m, ok := p.durationMinutesArith(retResult(ret, 0))
		good := false
		if ok && m.C == 0 && len(m.Terms) == 2 {
			var pos, neg string
			for k, c := range m.Terms {
				if c == 1 {
					pos = k
				}
				if c == -1 {
					neg = k
				}
			}
			if pos != "" && neg != "" {
				good = offsetOf(m.leafV[pos]) == "End" && offsetOf(m.leafV[neg]) == "Start"
			}
		}
		det := ""
		if ok {
			det = m.String()
		}
		r.check(good, rule, "range-duration", p.instrPos(ret), "range lasts End().MidnightOffset() - Start().MidnightOffset() minutes", "a range does not last end offset minus start offset minutes: "+det)
	}
	// MidnightOffset: per guard IsYesterday / IsTomorrow / neither
	seen := map[string]bool{}
	type offRow struct {
		m      *Poly
		guards []Guard
		ret    *ssa.Return
	}
	var offRows []offRow
	for i, ret := range returnsOf(off) {
		m, ok := p.durationMinutes(retResult(ret, 0))
		if !ok {
			r.bad(rule, fmt.Sprintf("offset#%d", i), p.instrPos(ret), "MidnightOffset is not built from hours and minutes")
			continue
		}
		// one return whose hour (or minute) argument was chosen by the day before: one row per way
		expanded := false
		if c, idx := callOf(retResult(ret, 0)); c != nil && idx == 0 && len(c.Common().Args) >= 2 {
			hs := polyRows(c.Common().Args[0], 0)
			ms := polyRows(c.Common().Args[1], 0)
			if len(hs)*len(ms) > 1 && len(hs)*len(ms) <= 9 {
				expanded = true
				for _, h := range hs {
					for _, mi := range ms {
						pl := newPoly()
						pl.addScaled(h.pl, 60)
						pl.addScaled(mi.pl, 1)
						gs := append(append(append([]Guard{}, h.guards...), mi.guards...), guardsOf(ret.Block())...)
						offRows = append(offRows, offRow{pl, gs, ret})
					}
				}
			}
		}
		if !expanded {
			offRows = append(offRows, offRow{m, guardsOf(ret.Block()), ret})
		}
	}
	for _, row := range offRows {
		m, ret := row.m, row.ret
		cls := dayClass(row.guards)
		seen[cls] = true
		// expect 60*Hour + Minute + shift (through the accessors or the fields themselves)
		var h, mi int64
		mx := expandAccessors(m, 0)
		for k, c := range mx.Terms {
			switch {
			case strings.HasSuffix(k, ".hour"):
				h += c
			case strings.HasSuffix(k, ".minute"):
				mi += c
			default:
				h = -999
			}
		}
		want := map[string]int64{"yesterday": -1440, "today": 0, "tomorrow": 1440}[cls]
		r.check(h == 60 && mi == 1 && m.C == want, rule, "offset:"+cls, p.instrPos(ret), fmt.Sprintf("offset of a time on %s = 60h+m%+d", cls, want), fmt.Sprintf("offset of a time on %s is %s, expected 60*Hour+Minute%+d", cls, m.String(), want))
	}
	for _, cls := range []string{"yesterday", "today", "tomorrow"} {
		r.check(seen[cls], rule, "offset-row:"+cls, p.pos(off.Pos()), "row present", "MidnightOffset has no case for "+cls)
	}
	// IsYesterday/IsTomorrow/IsToday read the sign of dayShift
	for name, op := range map[string]string{"IsYesterday": "<", "IsTomorrow": ">", "IsToday": "=="} {
		f := p.method("klog", "time", name)
		if !r.anchorFn(rule, f, "time."+name) {
			continue
		}
		for _, ret := range returnsOf(f) {
			b, ok := strip(retResult(ret, 0)).(*ssa.BinOp)
			good := false
			if ok {
				_, fld := fieldLoad(b.X)
				k, isK := constInt(b.Y)
				good = fld == "dayShift" && isK && k == 0 && b.Op.String() == op
			}
			r.check(good, rule, "shift-sign:"+name, p.instrPos(ret), name+"() is dayShift "+op+" 0", name+"() is not dayShift "+op+" 0")
		}
	}
}

// offsetOf: v == X.<Start|End>().MidnightOffset().InMinutes() -> "Start"/"End".
func offsetOf(v ssa.Value) string {
	var n string
	var recv ssa.Value
	if m, isM := v.(*minutesOf); isM {
		// the duration itself was handed to Minus / Plus
		recv = m.of
	} else {
		n, recv, _, _ = methodCall(v)
		if n != "InMinutes" {
			return ""
		}
	}
	n, recv, _, _ = methodCall(recv)
	if n != "MidnightOffset" {
		return ""
	}
	n, _, _, _ = methodCall(recv)
	if n == "" {
		// the field read directly instead of through its getter (tr.end for tr.End())
		if _, fld := fieldLoad(recv); fld == "start" {
			return "Start"
		} else if fld == "end" {
			return "End"
		}
	}
	return n
}

// ruleP02Close = P17-close-table: service.CloseOpenRanges.
func ruleP02Close(p *Prog, r *Report) {
	const rule = "P02-close"
	f := p.fn("klog/service", "CloseOpenRanges")
	fromGoD := p.fn("klog", "NewDateFromGo")
	fromGoT := p.fn("klog", "NewTimeFromGo")
	if !r.anchorFn(rule, f, "service.CloseOpenRanges") || !r.anchorFn(rule, fromGoD, "NewDateFromGo") || !r.anchorFn(rule, fromGoT, "NewTimeFromGo") {
		return
	}
	ref := f.Params[0]
	isRef := func(v ssa.Value) bool { return deref(v) == ssa.Value(ref) }
	isThisDay := func(v ssa.Value) bool {
		c, ok := isCallTo(v, fromGoD, 0)
		return ok && isRef(c.Common().Args[0])
	}
	isClock := func(v ssa.Value) bool {
		c, ok := isCallTo(v, fromGoT, 0)
		return ok && isRef(c.Common().Args[0])
	}
	// locate the EndOpenRange call and the value it closes with
	var eor ssa.CallInstruction
	eachInstr(f, func(in ssa.Instruction) {
		if c, ok := in.(ssa.CallInstruction); ok {
			if n, _, _, _ := methodCallOf(c); n == "EndOpenRange" {
				eor = c
			}
		}
	})
	if eor == nil {
		r.bad(rule, "close", p.pos(f.Pos()), "CloseOpenRanges never calls EndOpenRange")
		return
	}
	_, rec, args, _ := methodCallOf(eor)
	recColl := rangeElemOf(rec)
	r.check(recColl != nil && strip(recColl) == ssa.Value(f.Params[1]), rule, "close:record", p.instrPos(eor), "EndOpenRange is applied to each record given", "EndOpenRange is not applied to the loop's record")
	// … to EACH of them: the loop over the records is left before its end only with an error —
	// a successful return from inside the loop leaves the open ranges of the later records open
	// (they then count zero although --now was given)
	for i, ret := range returnsOf(f) {
		inLoop := false
		for _, g := range guardsOf(ret.Block()) {
			if isLoopGuard(g) {
				inLoop = true
			}
		}
		if !inLoop || len(ret.Results) == 0 {
			continue
		}
		ev := retResult(ret, len(ret.Results)-1)
		r.check(!isNilConst(ev) && p.nilnessAt(ret.Block(), ev, 0) == nnNonNil, rule, fmt.Sprintf("close:every-record:return#%d", i), p.instrPos(ret), "a return from inside the loop over the records reports an error", "CloseOpenRanges returns successfully from inside its loop over the records: the open ranges of the records after that one are not closed, and count zero although --now was given")
	}
	// its error must fail the evaluation
	if e := resultOf(eor, 0); e == nil {
		r.bad(rule, "close:error", p.instrPos(eor), "the error of EndOpenRange is discarded (an unclosable range would be silently skipped)")
	} else {
		msg, how := p.checkForwarding(f, e, lastResultIdx)
		r.check(msg == "", rule, "close:error", p.instrPos(eor), "EndOpenRange error -> error ("+how+")", "an EndOpenRange error does not fail the evaluation: "+msg)
	}
	// the end time: gather (guards, value, error) rows through a local closure's returns and
	// through phis (inlined if/else chains)
	rows := valueRows(args[0], 0, map[ssa.Value]bool{})
	for i := range rows {
		rows[i].guards = append(rows[i].guards, guardsOf(eor.Block())...)
	}
	seen := map[int64]bool{}
	for i, rw := range rows {
		key := fmt.Sprintf("end-time:row#%d", i)
		var posK []int64
		for _, g := range rw.guards {
			a, b, ok := dateEqGuard(g)
			if !ok {
				continue
			}
			var k int64
			found := false
			for _, pr := range [][2]ssa.Value{{a, b}, {b, a}} {
				n, rr, _, _ := methodCall(pr[0])
				base, kk := dateShift(pr[1])
				if n == "Date" && rangeElemOf(rr) != nil && isThisDay(base) {
					k, found = kk, true
				}
			}
			if !found {
				r.undecided(rule, key+":guard", p.instrPos(g.If), "date comparison whose operands are not the record's date and the reference day(+k)")
				continue
			}
			if g.Pol {
				posK = append(posK, k)
			}
		}
		pos := p.instrPos(eor)
		if rw.at != nil {
			pos = p.instrPos(rw.at)
		}
		if rw.val == nil || isNilConst(rw.val) {
			// no end time on this path: it must carry an error that stops the evaluation
			okE := rw.errv != nil && p.nilnessAt(rw.at.Block(), rw.errv, 0) == nnNonNil
			r.check(okE, rule, key+":error", pos, "no end time -> error", "a path yields neither an end time nor an error")
			if rw.call != nil {
				tErr := resultOf(rw.call, 1)
				if tErr == nil {
					r.bad(rule, key+":error-forwarded", p.instrPos(rw.call), "the error of the end-time selection is discarded")
				} else {
					msg, how := p.checkForwarding(f, tErr, lastResultIdx)
					r.check(msg == "" && knownNil(eor.Block(), tErr), rule, key+":error-forwarded", p.instrPos(rw.call), "unclosable record -> error before EndOpenRange ("+how+")", "a record that cannot be closed at this instant does not fail the evaluation: "+msg)
				}
			}
			continue
		}
		if len(posK) != 1 {
			r.bad(rule, key, pos, "an end time is used for a record whose date is not established by exactly one comparison with the reference day (%d positive date guards): records of other dates would be closed", len(posK))
			continue
		}
		k := posK[0]
		seen[k] = true
		switch {
		case k == 0:
			r.check(isClock(rw.val), rule, key+":k=0", pos, "record dated the reference day -> the clock time", "for a record dated the reference day the end time is not the (fresh) clock time")
		case k == -1:
			n, recv, a2, call := methodCall(rw.val)
			ok := n == "Plus" && len(a2) == 1 && isClock(recv)
			det := ""
			if ok {
				m, okd := p.durationMinutes(a2[0])
				ok = okd && m.isConst() && m.C == 1440
				if okd {
					det = m.String()
				}
				e := resultOf(call, 1)
				if e == nil {
					ok = false
					det += " (error of Plus discarded)"
				} else if rw.errv != nil {
					ok = ok && sameValue(rw.errv, e)
				} else {
					msg, _ := p.checkForwarding(f, e, lastResultIdx)
					ok = ok && msg == ""
				}
			}
			r.check(ok, rule, key+":k=-1", pos, "record dated the day before -> clock time + 1440 minutes, Plus error returned", "for a record dated the day before the end time is not the (fresh) clock time + 1440 min with its error returned ("+det+")")
		default:
			r.bad(rule, key+fmt.Sprintf(":k=%d", k), pos, "a record dated reference day%+d is closed", k)
		}
	}
	r.check(seen[0] && seen[-1], rule, "end-time:rows", p.instrPos(eor), "rows for the reference day and the day before present", "missing row for the reference day or the day before")
}

// vrow is one way a value can come about: the branch outcomes on that path, the value, and
// (for closures returning (value, error)) the error returned with it.
type vrow struct {
	guards []Guard
	val    ssa.Value
	errv   ssa.Value
	at     ssa.Instruction
	call   ssa.CallInstruction // the closure call the row came through, if any
}

var unknownValue ssa.Value = &ssa.Alloc{Comment: "loop-carried value"}

// valueRows expands v through immediately-invoked closures and phis.
func valueRows(v ssa.Value, depth int, visiting map[ssa.Value]bool) []vrow {
	v = strip(v)
	if depth > 6 || visiting[v] {
		return []vrow{{val: unknownValue}} // cyclic (loop-carried): a value that is nothing in particular
	}
	if ex, ok := v.(*ssa.Extract); ok {
		if c, ok := ex.Tuple.(*ssa.Call); ok {
			if g := staticCallee(c); g != nil && (g.Parent() != nil || isHelper(g)) {
				if isHelper(g) {
					g = originFn(g)
					ht.ctx[g] = c
				}
				var out []vrow
				for _, ret := range returnsOf(g) {
					rw := vrow{guards: guardsOf(ret.Block()), at: ret, call: c}
					if ex.Index < len(ret.Results) {
						rw.val = ret.Results[ex.Index]
					}
					if len(ret.Results) == 2 && ex.Index == 0 {
						rw.errv = retResult(ret, 1)
					}
					out = append(out, rw)
				}
				return out
			}
		}
	}
	// a field of the small struct a closure or helper hands back instead of several results
	if cv, idx, isComp := componentOf(v); isComp {
		if c, isCall := cv.(*ssa.Call); isCall {
			if g := staticCallee(c); g != nil && (g.Parent() != nil || isHelper(g)) && g.Signature.Results().Len() == 1 && len(returnsOf(g)) > 0 {
				if isHelper(g) {
					g = originFn(g)
					ht.ctx[g] = c
				}
				var out []vrow
				okAll := true
				for _, ret := range returnsOf(g) {
					fv, isLit := compositeLitField(ret.Results[0], idx)
					if !isLit {
						okAll = false
						break
					}
					rw := vrow{guards: guardsOf(ret.Block()), at: ret, call: c, val: fv}
					st, _ := ret.Results[0].Type().Underlying().(*types.Struct)
					for fi := 0; st != nil && fi < st.NumFields(); fi++ {
						if fi != idx && isErrorType(st.Field(fi).Type()) {
							if ev, _ := compositeLitField(ret.Results[0], fi); ev != nil {
								rw.errv = ev
							} else {
								rw.errv = ssa.NewConst(nil, st.Field(fi).Type()) // left at its zero value
							}
						}
					}
					if fv == nil && st != nil && idx < st.NumFields() {
						rw.val = zeroConst(st.Field(idx).Type()) // a field the literal leaves out
					}
					out = append(out, rw)
				}
				if okAll {
					return out
				}
			}
		}
	}
	if c, ok := v.(*ssa.Call); ok {
		if g := staticCallee(c); g != nil && (g.Parent() != nil || isHelper(g)) && g.Signature.Results().Len() == 1 {
			if isHelper(g) {
				g = originFn(g)
				ht.ctx[g] = c
			}
			var out []vrow
			for _, ret := range returnsOf(g) {
				out = append(out, vrow{guards: guardsOf(ret.Block()), at: ret, call: c, val: retResult(ret, 0)})
			}
			return out
		}
	}
	// a variable that is assigned in several branches and captured by a closure (a cell instead
	// of a phi): one row per assignment, under the conditions of the assignment
	if u, ok := v.(*ssa.UnOp); ok && u.Op == token.MUL {
		if cell := cellOf(u.X); cell != nil {
			if sts := storesTo(cell); len(sts) > 1 && len(sts) <= 6 {
				visiting[v] = true
				defer delete(visiting, v)
				var out []vrow
				for _, st := range sts {
					if st.in.Parent() != cell.Parent() {
						return []vrow{{val: v}}
					}
					for _, sub := range valueRows(st.val, depth+1, visiting) {
						sub.guards = append(sub.guards, guardsOf(st.in.Block())...)
						if sub.at == nil {
							sub.at = st.in
						}
						out = append(out, sub)
					}
				}
				return out
			}
		}
	}
	if ph, ok := v.(*ssa.Phi); ok {
		visiting[v] = true
		defer delete(visiting, v)
		var out []vrow
		for i, e := range ph.Edges {
			pb := ph.Block().Preds[i]
			eg := append(append([]Guard{}, guardsOf(pb)...), edgeGuard(pb, ph.Block())...)
			for _, sub := range valueRows(e, depth+1, visiting) {
				sub.guards = append(sub.guards, eg...)
				if sub.at == nil && len(pb.Instrs) > 0 {
					sub.at = pb.Instrs[len(pb.Instrs)-1]
				}
				out = append(out, sub)
			}
		}
		return out
	}
	return []vrow{{val: v}}
}

// sameSliceSource: both variadic arguments are the same slice value or single-element slice
// literals of the same value.
func sameSliceSource(a, b ssa.Value) bool {
	if sameValue(a, b) {
		return true
	}
	ea, ok1 := sliceLitElems(a)
	eb, ok2 := sliceLitElems(b)
	if ok1 && ok2 && len(ea) == len(eb) && len(ea) > 0 {
		for i := range ea {
			if !sameValue(ea[i], eb[i]) {
				return false
			}
		}
		return true
	}
	return false
}

// dayClass: which day a time lies on, as far as the guards tell: the predicates IsYesterday /
// IsToday / IsTomorrow or comparisons of the dayShift field (which is -1, 0 or +1) with a
// constant, in either polarity.  "?" when the guards leave more than one day open.
func dayClass(gs []Guard) string {
	possible := map[int64]bool{-1: true, 0: true, 1: true}
	restrict := func(holds func(s int64) bool, pol bool) {
		for s := range possible {
			if holds(s) != pol {
				delete(possible, s)
			}
		}
	}
	for _, g := range gs {
		cond, pol := g.Cond, g.Pol
		for {
			u, isU := cond.(*ssa.UnOp)
			if !isU || u.Op != token.NOT {
				break
			}
			cond, pol = u.X, !pol
		}
		if n, _, _, c := methodCall(cond); c != nil {
			switch n {
			case "IsYesterday":
				restrict(func(s int64) bool { return s < 0 }, pol)
			case "IsTomorrow":
				restrict(func(s int64) bool { return s > 0 }, pol)
			case "IsToday":
				restrict(func(s int64) bool { return s == 0 }, pol)
			}
			continue
		}
		bo, ok := cond.(*ssa.BinOp)
		if !ok {
			continue
		}
		x, y, op := bo.X, bo.Y, bo.Op
		if _, isK := constInt(x); isK {
			x, y = y, x
			op = map[token.Token]token.Token{token.LSS: token.GTR, token.GTR: token.LSS, token.LEQ: token.GEQ, token.GEQ: token.LEQ, token.EQL: token.EQL, token.NEQ: token.NEQ}[op]
		}
		k, isK := constInt(y)
		if _, fld := fieldLoad(x); !isK || fld != "dayShift" {
			continue
		}
		restrict(func(s int64) bool {
			return map[token.Token]bool{token.EQL: s == k, token.NEQ: s != k, token.LSS: s < k, token.LEQ: s <= k, token.GTR: s > k, token.GEQ: s >= k}[op]
		}, pol)
	}
	if len(possible) == 3 {
		return "today" // no case distinction on this path: the plain case
	}
	if len(possible) != 1 {
		return "?"
	}
	for s := range possible {
		return map[int64]string{-1: "yesterday", 0: "today", 1: "tomorrow"}[s]
	}
	return "?"
}

// zeroConst: the zero value of t as an SSA constant (nil for types that have no constant form).
func zeroConst(t types.Type) ssa.Value {
	switch u := t.Underlying().(type) {
	case *types.Basic:
		switch {
		case u.Info()&types.IsString != 0:
			return ssa.NewConst(constant.MakeString(""), t)
		case u.Info()&types.IsBoolean != 0:
			return ssa.NewConst(constant.MakeBool(false), t)
		case u.Info()&types.IsNumeric != 0:
			return ssa.NewConst(constant.MakeInt64(0), t)
		}
	case *types.Pointer, *types.Interface, *types.Slice, *types.Map, *types.Signature, *types.Chan:
		return ssa.NewConst(nil, t)
	}
	return nil
}

// compositeLitField: v is a struct value built by a composite literal on the spot (`T{a: x}`);
// returns what the literal puts into field i (nil when it leaves the field out).
func compositeLitField(v ssa.Value, i int) (ssa.Value, bool) {
	u, ok := v.(*ssa.UnOp)
	if !ok || u.Op != token.MUL {
		return nil, false
	}
	a, ok := u.X.(*ssa.Alloc)
	if !ok || a.Comment != "complit" {
		return nil, false
	}
	var out ssa.Value
	for _, ref := range *a.Referrers() {
		fa, isFA := ref.(*ssa.FieldAddr)
		if !isFA || fa.Field != i {
			continue
		}
		for _, r2 := range *fa.Referrers() {
			if st, isSt := r2.(*ssa.Store); isSt && st.Addr == ssa.Value(fa) {
				if out != nil {
					return nil, false
				}
				out = st.Val
			}
		}
	}
	return out, true
}

// isEmptySliceLit: v is `[]T{}` (a slice of a zero-length array literal) or make([]T, 0[, n]).
func isEmptySliceLit(v ssa.Value) bool {
	switch x := strip(v).(type) {
	case *ssa.Slice:
		if a, ok := x.X.(*ssa.Alloc); ok {
			if pt, ok := a.Type().Underlying().(*types.Pointer); ok {
				if at, ok := pt.Elem().Underlying().(*types.Array); ok && at.Len() == 0 {
					return true
				}
			}
		}
	case *ssa.MakeSlice:
		if k, ok := constInt(x.Len); ok && k == 0 {
			return true
		}
	}
	return false
}

// polyRows: the ways an integer expression comes about, each as a polynomial under the
// conditions of that way — a value chosen in branches before it is used (a phi, a variable
// assigned under an if), also when such a value is one operand of a sum or difference.
type polyRow struct {
	pl     *Poly
	guards []Guard
}

func polyRows(v ssa.Value, depth int) []polyRow {
	if b, ok := strip(v).(*ssa.BinOp); ok && depth < 4 && (b.Op == token.ADD || b.Op == token.SUB) {
		xs, ys := polyRows(b.X, depth+1), polyRows(b.Y, depth+1)
		if len(xs)*len(ys) <= 9 {
			var out []polyRow
			for _, x := range xs {
				for _, y := range ys {
					pl := newPoly()
					pl.addScaled(x.pl, 1)
					if b.Op == token.ADD {
						pl.addScaled(y.pl, 1)
					} else {
						pl.addScaled(y.pl, -1)
					}
					out = append(out, polyRow{pl, append(append([]Guard{}, x.guards...), y.guards...)})
				}
			}
			return out
		}
	}
	var out []polyRow
	for _, rw := range valueRows(v, 0, map[ssa.Value]bool{}) {
		if rw.val == nil {
			continue
		}
		out = append(out, polyRow{polyOf(rw.val), rw.guards})
	}
	if len(out) == 0 {
		out = append(out, polyRow{polyOf(v), nil})
	}
	return out
}
