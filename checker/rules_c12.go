package main

// C12 — all evaluation views partition the same total. (P12-hash is shared with C15.)

import (
	"fmt"
	"go/token"
	"go/types"
	"math"
	"regexp"
	"strings"

	"golang.org/x/tools/go/ssa"
)

func init() {
	register(&propSpec{
		id:    "C12",
		level: "other",
		explain: "Decided on the SSA program: (P12-hash) every period hash packs exactly the components that identify the period (day: d,m,y; week: ISO week and ISO week-year; month: m,y; quarter: q,y; year: y), each in a bit field wide enough for the accessor's maximum, within 32 bits, and each aggregator's DateHash uses its own period kind, selected by the --aggregate letter; " +
			"(P12-group) groupByDate appends every record exactly once to the group of hash(r.Date()) and lists a date exactly when its hash is new; the report's row loop takes each row's total from the group of the row's hash and visits a hash at most once; (P12-grand) grand total and groups are computed from the same record slice; " +
			"(P12-today) today's split puts every record in exactly one of three lists and every return hands back all non-empty lists; (P12-print) --with-totals prefixes are Total(record) and Entries()[i].Duration(); " +
			"(P12-now-applied) every command embedding NowArgs/DecimalArgs applies them, and returns ApplyNow's error. " +
			"Not covered: calendar correctness of the hash components (C15), sums as numbers, gap filling arithmetic, row rendering.",
		rules: []ruleFn{ruleP12Hash, ruleP12Populate, ruleP12Group, ruleP12Today, ruleP12Print, ruleP12NowApplied, ruleP12NowAll, ruleP12Fill, ruleP02Diff, ruleP13SortCopy},
	})
}

// bitWidth evaluates populate's formula ceil(log2(max))+k (k = 1 in the pinned tree; read from the source).
func bitWidth(max int64) int { return int(math.Ceil(math.Log2(float64(max)))) + populateExtraBits }

var populateExtraBits = 1

// checkPopulate validates the bit-packing helper structurally: value is OR-ed in at the
// current offset and the offset advances by ceil(log2(maxValue))+1.
func (p *Prog) checkPopulate(r *Report, rule string) bool {
	f := p.method("klog/service/period", "bitMask", "populate")
	if !r.anchorFn(rule, f, "period.(*bitMask).populate") {
		return false
	}
	val, max := f.Params[1], f.Params[2]
	okShift, okOr, okWidth, okAdvance := false, false, false, false
	var widthVal ssa.Value
	eachInstr(f, func(in ssa.Instruction) {
		switch x := in.(type) {
		case *ssa.BinOp:
			switch x.Op {
			case token.SHL:
				if _, fld := fieldLoad(x.Y); fld == "bitsConsumed" && strip(x.X) == ssa.Value(val) {
					okShift = true
				}
			case token.OR:
				_, f1 := fieldLoad(x.X)
				_, f2 := fieldLoad(x.Y)
				if f1 == "value" || f2 == "value" {
					okOr = true
				}
			case token.ADD:
				// ceil(log2(float64(max))) + 1
				kv, other := x.Y, x.X
				if _, isK := constInt(x.X); isK {
					kv, other = x.X, x.Y // 1 + ceil(…)
				}
				if k, ok := constInt(kv); ok && k >= 1 {
					if cv, ok := other.(*ssa.Convert); ok {
						if c1, ok := cv.X.(*ssa.Call); ok && staticCallee(c1) != nil && staticCallee(c1).String() == "math.Ceil" {
							if c2, ok := c1.Call.Args[0].(*ssa.Call); ok && staticCallee(c2) != nil && staticCallee(c2).String() == "math.Log2" {
								if cv2, ok := c2.Call.Args[0].(*ssa.Convert); ok && cv2.X == ssa.Value(max) {
									populateExtraBits = int(k)
									okWidth = true
									widthVal = x
								}
							}
						}
					}
				}
			}
		}
	})
	eachInstr(f, func(in ssa.Instruction) {
		if st, ok := in.(*ssa.Store); ok {
			if fa, ok := st.Addr.(*ssa.FieldAddr); ok && fieldName(fa) == "bitsConsumed" {
				if b, ok := st.Val.(*ssa.BinOp); ok && b.Op == token.ADD {
					_, fl := fieldLoad(b.X)
					_, fr := fieldLoad(b.Y)
					if (fl == "bitsConsumed" && b.Y == widthVal) || (fr == "bitsConsumed" && b.X == widthVal) {
						okAdvance = true
					}
				}
			}
		}
	})
	// packing never fails because of the VALUE packed: the widths are constants (checked per Hash
	// method), but a component may lie outside its declared maximum for a valid date — Week.Hash
	// packs the ISO week-year, which is -1 (a huge uint32) for 0000-01-01 — and still yields a
	// usable bucket key
	nPanics := 0
	for _, b := range f.Blocks {
		pn, isPanic := b.Instrs[len(b.Instrs)-1].(*ssa.Panic)
		if !isPanic {
			continue
		}
		nPanics++
		dep := ""
		for _, g := range guardsOf(b) {
			if valueDependsOn(g.Cond, val, 0) {
				dep = p.instrPos(g.If)
			}
		}
		r.check(dep == "", rule, fmt.Sprintf("populate:any-value#%d", nPanics), p.instrPos(pn), "the failure of populate does not depend on the value packed", "populate fails depending on the value it is given (test at "+dep+"): the bucket of a valid date whose component exceeds the declared maximum (the ISO week-year -1 of 0000-01-01) cannot be computed, report --aggregate week crashes")
	}
	ok := okShift && okOr && okWidth && okAdvance
	if ok {
		r.ok(rule, "populate", p.pos(f.Pos()), "populate ORs the value in at the current offset and advances by ceil(log2(max))+1 bits")
	} else {
		r.undecided(rule, "populate", p.pos(f.Pos()), "populate is not the packing helper the rule understands (shift=%v or=%v width=%v advance=%v)", okShift, okOr, okWidth, okAdvance)
	}
	return ok
}

// valueDependsOn: v is computed from target (through arithmetic, conversions, phis).
func valueDependsOn(v ssa.Value, target ssa.Value, depth int) bool {
	if depth > 8 {
		return false
	}
	v = strip(v)
	if v == target {
		return true
	}
	switch x := v.(type) {
	case *ssa.BinOp:
		return valueDependsOn(x.X, target, depth+1) || valueDependsOn(x.Y, target, depth+1)
	case *ssa.UnOp:
		return valueDependsOn(x.X, target, depth+1)
	case *ssa.Convert:
		return valueDependsOn(x.X, target, depth+1)
	case *ssa.Phi:
		for _, e := range x.Edges {
			if valueDependsOn(e, target, depth+1) {
				return true
			}
		}
	}
	return false
}

type hashComp struct {
	acc   string // accessor, e.g. Day, Month, Year, Quarter, WeekNumber#0
	max   int64
	width int
}

// hashComponents lists the populate calls of a period kind's Hash method.
func (p *Prog) hashComponents(f *ssa.Function) ([]hashComp, bool) {
	pop := p.method("klog/service/period", "bitMask", "populate")
	var out []hashComp
	ok := true
	eachInstr(f, func(in ssa.Instruction) {
		c, isCall := in.(ssa.CallInstruction)
		if !isCall || !sameFn(staticCallee(c), pop) {
			return
		}
		a := c.Common().Args
		max, isK := constInt(a[2])
		if !isK || max < 1 {
			ok = false
			return
		}
		v := strip(a[1])
		if cv, isCv := v.(*ssa.Convert); isCv {
			v = strip(cv.X)
		}
		acc := "?"
		if ex, isEx := v.(*ssa.Extract); isEx {
			if n, recv, _, _ := methodCall(ex.Tuple); n != "" {
				if _, fld := fieldLoad(recv); fld == "date" {
					acc = fmt.Sprintf("%s#%d", n, ex.Index)
				}
			}
		} else if n, recv, _, _ := methodCall(v); n != "" {
			if _, fld := fieldLoad(recv); fld == "date" {
				acc = n
			}
		}
		out = append(out, hashComp{acc, max, bitWidth(max)})
	})
	return out, ok
}

var accessorMax = map[string]int64{"Day": 31, "Month": 12, "Year": 9999, "Quarter": 4, "WeekNumber#1": 53, "WeekNumber#0": 9999}

var kindComponents = map[string][]string{
	"Day":     {"Day", "Month", "Year"},
	"Week":    {"WeekNumber#1", "WeekNumber#0"},
	"Month":   {"Month", "Year"},
	"Quarter": {"Quarter", "Year"},
	"Year":    {"Year"},
}

func ruleP12Hash(p *Prog, r *Report) {
	const rule = "P12-hash"
	if !p.checkPopulate(r, rule) {
		return
	}
	for _, kind := range []string{"Day", "Week", "Month", "Quarter", "Year"} {
		f := p.method("klog/service/period", kind, "Hash")
		if !r.anchorFn(rule, f, "period."+kind+".Hash") {
			continue
		}
		comps, ok := p.hashComponents(f)
		if !ok {
			r.undecided(rule, kind+":components", p.pos(f.Pos()), "a populate call of %s.Hash has a non-constant maximum", kind)
			continue
		}
		have := map[string]hashComp{}
		total := 0
		for _, c := range comps {
			have[c.acc] = c
			total += c.width
		}
		for _, need := range kindComponents[kind] {
			c, ok := have[need]
			if !ok {
				r.bad(rule, kind+":"+need, p.pos(f.Pos()), "%s.Hash does not include %s of the date: dates of different periods can share a bucket", kind, need)
				continue
			}
			cap := int64(1) << uint(c.width)
			r.check(cap > accessorMax[need], rule, kind+":"+need, p.pos(f.Pos()), fmt.Sprintf("%s packed in %d bits (max value %d)", need, c.width, accessorMax[need]), fmt.Sprintf("%s gets %d bits (populate max %d) but ranges up to %d: distinct periods collide", need, c.width, c.max, accessorMax[need]))
		}
		for acc := range have {
			found := false
			for _, need := range kindComponents[kind] {
				if need == acc {
					found = true
				}
			}
			if !found {
				r.bad(rule, kind+":extra:"+acc, p.pos(f.Pos()), "%s.Hash also packs %s: dates of the same period fall into different buckets", kind, acc)
			}
		}
		r.check(total <= 32, rule, kind+":width", p.pos(f.Pos()), fmt.Sprintf("%d bits in total", total), fmt.Sprintf("%d bits exceed the 32-bit hash (populate panics)", total))
		// result is the mask's Value()
		for _, ret := range returnsOf(f) {
			c, _ := callOf(retResult(ret, 0))
			r.check(c != nil && staticCallee(c) != nil && fnBase(staticCallee(c)) == "Value", rule, kind+":value", p.instrPos(ret), "returns the packed value", "Hash does not return the packed value")
		}
	}
	// aggregators use their own kind
	aggRe := regexp.MustCompile(`^(day|week|month|quarter|year)Aggregator$`)
	pk := p.pkg("klog/app/cli/report")
	nAgg := 0
	if pk != nil {
		for _, name := range pk.Types.Scope().Names() {
			m := aggRe.FindStringSubmatch(name)
			if m == nil {
				continue
			}
			kind := strings.ToUpper(m[1][:1]) + m[1][1:]
			f := p.method("klog/app/cli/report", name, "DateHash")
			if !r.anchorFn(rule, f, name+".DateHash") {
				continue
			}
			nAgg++
			for _, ret := range returnsOf(f) {
				ok := false
				v := strip(retResult(ret, 0))
				if cv, isCv := v.(*ssa.Convert); isCv {
					v = strip(cv.X)
				}
				if c, idx := callOf(v); c != nil && idx == 0 {
					if g := staticCallee(c); g != nil && fnBase(g) == "Hash" && typeNameOf(g.Signature.Recv().Type()) == kind {
						if c2, _ := callOf(c.Common().Args[0]); c2 != nil {
							if g2 := staticCallee(c2); g2 != nil && fnBase(g2) == "New"+kind+"FromDate" && strip(c2.Common().Args[0]) == ssa.Value(f.Params[1]) {
								ok = true
							}
						}
					}
				}
				r.check(ok, rule, "aggregator:"+name, p.instrPos(ret), name+" buckets by "+kind+".Hash of the date", name+".DateHash is not New"+kind+"FromDate(date).Hash()")
			}
		}
	}
	if nAgg < 5 {
		r.undecided(rule, "floor:aggregators", "-", "found %d aggregators, expected 5", nAgg)
	}
	// --aggregate letter selects the matching aggregator
	// (the selecting function: whichever function of package cli hands back a report.Aggregator
	// built by one of the constructors — a method of Report or a free function)
	sel := p.method("klog/app/cli", "Report", "aggregator")
	if sel == nil {
		for _, f := range p.srcFns {
			if pkgPathOfFn(f) != modPath+"/klog/app/cli" || f.Signature.Results().Len() != 1 || typeNameOf(f.Signature.Results().At(0).Type()) != "Aggregator" {
				continue
			}
			n := 0
			for _, ret := range returnsOf(f) {
				if c, _ := callOf(retResult(ret, 0)); c != nil && staticCallee(c) != nil && strings.HasSuffix(fnBase(staticCallee(c)), "Aggregator") {
					n++
				}
			}
			if n >= 2 {
				sel = f
			}
		}
	}
	if r.anchorFn(rule, sel, "the function of package cli that selects the report aggregator") {
		want := map[string]string{"y": "Year", "q": "Quarter", "m": "Month", "w": "Week", "": "Day"}
		for _, ret := range returnsOf(sel) {
			letter := ""
			for _, g := range guardsOf(ret.Block()) {
				if b, ok := g.Cond.(*ssa.BinOp); ok && b.Op == token.EQL && g.Pol {
					if s, isS := constString(b.Y); isS {
						letter = s
					}
				}
			}
			c, _ := callOf(retResult(ret, 0))
			got := ""
			if c != nil && staticCallee(c) != nil {
				got = fnBase(staticCallee(c))
			}
			w, known := want[letter]
			r.check(known && got == "New"+w+"Aggregator", rule, "select:"+letter, p.instrPos(ret), fmt.Sprintf("--aggregate %q -> %s", letter, got), fmt.Sprintf("--aggregate %q selects %s", letter, got))
		}
	}
}

func ruleP12Group(p *Prog, r *Report) {
	const rule = "P12-group"
	f := p.fn("klog/app/cli", "groupByDate")
	run := p.method("klog/app/cli", "Report", "Run")
	total := p.fn("klog/service", "Total")
	if !r.anchorFn(rule, f, "cli.groupByDate") || !r.anchorFn(rule, run, "Report.Run") || !r.anchorFn(rule, total, "service.Total") {
		return
	}
	hp, rs := f.Params[0], f.Params[1]
	var groups *ssa.MakeMap
	eachInstr(f, func(in ssa.Instruction) {
		if mm, ok := in.(*ssa.MakeMap); ok {
			groups = mm
		}
	})
	rets := returnsOf(f)
	if groups == nil || len(rets) != 1 || strip(retResult(rets[0], 0)) != ssa.Value(groups) {
		r.undecided(rule, "groups", p.pos(f.Pos()), "groupByDate does not return a single map it created")
		return
	}
	isHashOfElem := func(v ssa.Value) bool {
		c, ok := strip(v).(*ssa.Call)
		if !ok || strip(c.Call.Value) != ssa.Value(hp) || len(c.Call.Args) != 1 {
			return false
		}
		n, recv, _, _ := methodCall(c.Call.Args[0])
		coll := rangeElemOf(recv)
		return n == "Date" && coll != nil && strip(coll) == ssa.Value(rs)
	}
	// every record appended once, unconditionally, to groups[hash(r.Date())]
	nApp := 0
	eachInstr(f, func(in ssa.Instruction) {
		mu, ok := in.(*ssa.MapUpdate)
		if !ok || mu.Map != ssa.Value(groups) {
			return
		}
		c, isCall := strip(mu.Value).(*ssa.Call)
		if !isCall {
			return // initialisation with an empty slice
		}
		bi, isB := c.Call.Value.(*ssa.Builtin)
		if !isB || bi.Name() != "append" {
			return
		}
		nApp++
		els, ok2 := sliceLitElems(c.Call.Args[1])
		okElem := ok2 && len(els) == 1 && rangeElemOf(els[0]) != nil && strip(rangeElemOf(els[0])) == ssa.Value(rs)
		lk, isLk := strip(c.Call.Args[0]).(*ssa.Lookup)
		if ex, isEx := strip(c.Call.Args[0]).(*ssa.Extract); isEx && ex.Index == 0 {
			lk, isLk = ex.Tuple.(*ssa.Lookup) // the value of `group, ok := groups[h]`
		}
		okBase := isLk && lk.X == ssa.Value(groups) && sameValue(lk.Index, mu.Key)
		only, _ := onlyLoopGuards(mu.Block())
		r.check(isHashOfElem(mu.Key) && okElem && okBase, rule, "group:append", p.instrPos(mu), "groups[hash(r.Date())] = append(groups[same hash], r)", "a record is not appended to the group of the hash of its own date")
		r.check(only, rule, "group:every-record", p.instrPos(mu), "executed for every record", "some records are not added to any group")
	})
	r.check(nApp == 1, rule, "group:once", p.pos(f.Pos()), "one append per record", fmt.Sprintf("%d append sites per record", nApp))
	// order: a date is listed exactly when its hash is new
	okOrder := false
	eachInstr(f, func(in ssa.Instruction) {
		c, ok := in.(*ssa.Call)
		if !ok {
			return
		}
		bi, isB := c.Call.Value.(*ssa.Builtin)
		if !isB || bi.Name() != "append" || !isSliceOf(c.Type(), "Date") {
			return
		}
		for _, g := range guardsOf(c.Block()) {
			if ex, isEx := g.Cond.(*ssa.Extract); isEx && !g.Pol && ex.Index == 1 {
				if lk, isLk := ex.Tuple.(*ssa.Lookup); isLk && lk.X == ssa.Value(groups) && isHashOfElem(lk.Index) {
					okOrder = true
				}
			}
		}
	})
	r.check(okOrder, rule, "order:first-seen", p.pos(f.Pos()), "a date is listed exactly when its hash is seen for the first time", "the date list is not extended exactly when a hash is new")
	r.check(len(rets) == 1 && func() bool { ph, _ := phiCycle(retResult(rets[0], 1)); return len(ph) > 0 }(), rule, "order:returned", p.instrPos(rets[0]), "the ordered date list is returned", "the date list returned is not the one built in the loop")

	// Report.Run: rows
	gc := callsTo(run, f)
	if len(gc) != 1 {
		r.undecided(rule, "report:group-call", p.pos(run.Pos()), "expected one groupByDate call in Report.Run")
		return
	}
	recs := gc[0].Common().Args[1]
	grp, dates := resultOf(gc[0], 0), resultOf(gc[0], 1)
	// hash provider is the aggregator's DateHash
	okProv := false
	if mc, ok := strip(gc[0].Common().Args[0]).(*ssa.MakeClosure); ok && strings.Contains(mc.Fn.Name(), "DateHash") {
		okProv = true
	}
	r.check(okProv, rule, "report:provider", p.instrPos(gc[0]), "records are grouped by the aggregator's DateHash", "records are not grouped by the aggregator's DateHash")
	// per-row total
	nRow, nGrand := 0, 0
	for _, vc := range virtualCallsTo(run, total) {
		vc := vc
		vc.run(func() {
			c := vc.call
			arg := strip(c.Common().Args[0])
			if lk, ok := arg.(*ssa.Lookup); ok {
				nRow++
				okMap := grp != nil && sameValue(lk.X, grp)
				// index = aggregator.DateHash(date), date element of the dates list (or the filled list)
				n, _, a, _ := methodCall(lk.Index)
				if hc, _ := callOf(strip(lk.Index)); n == "" && hc != nil {
					// the method bound to a local once (`hashOf := aggregator.DateHash`)
					if mc, isMC := deref(hc.Common().Value).(*ssa.MakeClosure); isMC && strings.HasSuffix(mc.Fn.Name(), "$bound") && sameValue(mc, gc[0].Common().Args[0]) {
						n, a = strings.TrimSuffix(mc.Fn.Name(), "$bound"), hc.Common().Args
					}
				}
				okIdx := n == "DateHash" && len(a) == 1 && rangeElemOf(a[0]) != nil
				r.check(okMap && okIdx, rule, "report:row-total", p.instrPos(c), "row total = Total(group of the row's hash)", "a row's total is not computed from the group of the row's own hash")
				// visited at most once: a MapUpdate seen[hash]=true dominates, guarded by !seen[hash]
				once := false
				for _, g := range guardsOf(vc.where()) {
					if lk2 := membershipTest(g.Cond); lk2 != nil && !g.Pol && sameValue(lk2.Index, lk.Index) {
						eachInstr(run, func(in ssa.Instruction) {
							if mu, ok := in.(*ssa.MapUpdate); ok && sameValue(mu.Map, lk2.X) && sameValue(mu.Key, lk.Index) && mu.Block().Dominates(vc.where()) {
								// a presence test (comma-ok) is satisfied by any stored value;
								// a test of the stored bool needs `true`
								if b, isB := constBool(mu.Value); (isB && b) || lk2.CommaOk && isPresenceTest(g.Cond) {
									once = true
								}
							}
						})
					}
				}
				r.check(once, rule, "report:row-once", p.instrPos(c), "each hash yields at most one row", "a period can be printed (and counted) in more than one row")
				return
			}
			nGrand++
			r.check(sameValue(arg, recs), "P12-grand", "report:grand-total", p.instrPos(c), "grand total is computed from the very slice that was grouped", "grand total and rows are computed from different record slices")
		})
	}
	shouldSum := p.fn("klog/service", "ShouldTotalSum")
	for _, vc := range virtualCallsTo(run, shouldSum) {
		vc := vc
		vc.run(func() {
			c := vc.call
			arg := strip(c.Common().Args[0])
			if _, ok := arg.(*ssa.Lookup); ok {
				return // row: covered by P02-diff (same records as the row total)
			}
			r.check(sameValue(arg, recs), "P12-grand", "report:grand-should", p.instrPos(c), "grand should-total is computed from the very slice that was grouped", "grand should-total is computed from a different record slice")
		})
	}
	r.check(nRow == 1 && nGrand == 1, rule, "report:totals", p.pos(run.Pos()), "one row total and one grand total", fmt.Sprintf("%d row totals, %d grand totals", nRow, nGrand))
	// rows iterate the ordered date list (or the filled range), not the map
	okIter := false
	eachInstr(run, func(in ssa.Instruction) {
		if ia, ok := in.(*ssa.IndexAddr); ok && isRangeIndex(ia.Index) && isSliceOf(ia.X.Type(), "Date") {
			_, ins := phiCycle(ia.X)
			all := len(ins) > 0
			for _, x0 := range ins {
				// (the choice between the two may sit in a private helper)
				for _, rw := range valueRows(x0, 0, map[ssa.Value]bool{}) {
					x := rw.val
					if x != nil && dates != nil && sameValue(x, dates) {
						continue
					}
					if c, _ := callOf(x); x != nil && c != nil && staticCallee(c) != nil && fnBase(staticCallee(c)) == "allDatesRange" {
						continue
					}
					all = false
				}
			}
			if all {
				okIter = true
			}
		}
	})
	r.check(okIter, rule, "report:row-order", p.pos(run.Pos()), "rows follow the ordered date list (or the filled range)", "rows are not produced from the ordered date list")
	// the grouped slice is sorted ascending: Sort(records, true)
	if c, ok := isCallTo(recs, p.fn("klog/service", "Sort"), 0); ok {
		b, isB := constBool(c.Common().Args[1])
		r.check(isB && b, rule, "report:sorted", p.instrPos(c), "records are sorted ascending before grouping", "records are not sorted ascending before grouping (rows would not be chronological)")
	} else {
		r.bad(rule, "report:sorted", p.instrPos(gc[0]), "the grouped records are not the result of service.Sort")
	}
}

func ruleP12Today(p *Prog, r *Report) {
	const rule = "P12-today"
	f := p.fn("klog/app/cli", "splitIntoCurrentAndOther")
	if !r.anchorFn(rule, f, "cli.splitIntoCurrentAndOther") {
		return
	}
	recs := f.Params[1]
	// appends of the loop element
	type app struct {
		c    *ssa.Call
		list *ssa.Phi
	}
	var apps []*ssa.Call
	eachInstr(f, func(in ssa.Instruction) {
		c, ok := in.(*ssa.Call)
		if !ok {
			return
		}
		bi, isB := c.Call.Value.(*ssa.Builtin)
		if !isB || bi.Name() != "append" {
			return
		}
		els, ok2 := sliceLitElems(c.Call.Args[1])
		if ok2 && len(els) == 1 && rangeElemOf(els[0]) != nil && strip(rangeElemOf(els[0])) == ssa.Value(recs) {
			apps = append(apps, c)
		}
	})
	if len(apps) < 2 {
		r.undecided(rule, "lists", p.pos(f.Pos()), "expected the records to be distributed over several lists")
		return
	}
	// exactly-once partition: the append blocks are pairwise exclusive and cover the loop body:
	// every path from the loop body entry to the latch passes through exactly one of them.
	blocks := map[*ssa.BasicBlock]bool{}
	for _, c := range apps {
		blocks[c.Block()] = true
	}
	var header *ssa.BasicBlock
	eachInstr(f, func(in ssa.Instruction) {
		if ia, ok := in.(*ssa.IndexAddr); ok && strip(ia.X) == ssa.Value(recs) && isRangeIndex(ia.Index) {
			header = ia.Index.(*ssa.BinOp).Block()
		}
	})
	if header == nil {
		r.undecided(rule, "loop", p.pos(f.Pos()), "no range loop over the records")
		return
	}
	body := header.Succs[0]
	// count append blocks on every path body -> header
	okOnce := true
	var walk func(b *ssa.BasicBlock, n int, seen map[*ssa.BasicBlock]bool)
	walk = func(b *ssa.BasicBlock, n int, seen map[*ssa.BasicBlock]bool) {
		if blocks[b] {
			n++
		}
		for _, s := range b.Succs {
			if s == header {
				if n != 1 {
					okOnce = false
				}
				continue
			}
			if !header.Dominates(s) || seen[s] {
				okOnce = okOnce && header.Dominates(s)
				continue
			}
			seen[s] = true
			walk(s, n, seen)
			delete(seen, s)
		}
	}
	walk(body, 0, map[*ssa.BasicBlock]bool{body: true})
	r.check(okOnce, rule, "partition", p.pos(f.Pos()), fmt.Sprintf("every record is appended to exactly one of %d lists", len(apps)), "a record can end up in no list or in more than one")
	// each list accumulates: append(list phi, r)
	lists := map[*ssa.Phi]bool{}
	for _, c := range apps {
		ph, ok := strip(c.Call.Args[0]).(*ssa.Phi)
		if ok {
			lists[ph] = true
		}
	}
	r.check(len(lists) == len(apps), rule, "lists:distinct", p.pos(f.Pos()), "each branch feeds its own list", "two branches feed the same list or a list is not accumulated")
	// returns: every list that can be non-empty is part of the result
	for i, ret := range returnsOf(f) {
		key := fmt.Sprintf("return#%d", i)
		included := map[*ssa.Phi]bool{}
		var scan func(v ssa.Value, d int)
		scan = func(v ssa.Value, d int) {
			if d > 6 {
				return
			}
			v = strip(v)
			if ph, ok := v.(*ssa.Phi); ok {
				// the list after the loop is the header phi (or a phi cycle containing the list phis)
				cyc, _ := phiCycle(ph)
				for l := range lists {
					if cyc[l] {
						included[l] = true
					}
				}
				return
			}
			if c, ok := v.(*ssa.Call); ok {
				for _, a := range c.Call.Args {
					scan(a, d+1)
				}
			}
		}
		scan(retResult(ret, 0), 0)
		scan(retResult(ret, 1), 0)
		missing := 0
		for l := range lists {
			if included[l] {
				continue
			}
			// allowed only if the list is known empty here: guard len(list) > 0 is false
			empty := false
			for _, g := range guardsOf(ret.Block()) {
				if x, isNil, ok := nilFact(g); ok && isNil {
					if ph, ok := strip(x).(*ssa.Phi); ok {
						cyc, _ := phiCycle(ph)
						if cyc[l] {
							empty = true
						}
					}
				}
			}
			if !empty {
				missing++
			}
		}
		r.check(missing == 0, rule, key, p.instrPos(ret), "all non-empty lists are returned", fmt.Sprintf("%d list(s) that may contain records are dropped from the result", missing))
	}
	// handle(): the grand total is current + other
	h := p.fn("klog/app/cli", "handle")
	var evFn *ssa.Function
	evMixed := false
	if r.anchorFn(rule, h, "cli.handle") {
		sc := callsTo(h, f)
		okUse := false
		if len(sc) == 1 {
			cur, oth := resultOf(sc[0], 0), resultOf(sc[0], 1)
			var evals []ssa.CallInstruction
			eachInstr(h, func(in ssa.Instruction) {
				// the evaluation of one part: whatever it is called, the function of this package
				// that is handed one of the two lists and answers with three durations
				if c, ok := in.(ssa.CallInstruction); ok && staticCallee(c) != nil && fnBase(staticCallee(c)) == "evaluate" {
					evals = append(evals, c)
				} else if ok && staticCallee(c) != nil && staticCallee(c).Pkg == h.Pkg && len(c.Common().Args) > 0 && c.Common().Signature().Results().Len() == 3 {
					if la := c.Common().Args[len(c.Common().Args)-1]; (cur != nil && sameValue(la, cur)) || (oth != nil && sameValue(la, oth)) {
						evals = append(evals, c)
						if evFn == nil {
							evFn = staticCallee(c)
						} else if !sameFn(evFn, staticCallee(c)) {
							evMixed = true
						}
					}
				}
			})
			if len(evals) == 2 && cur != nil && oth != nil {
				a0 := evals[0].Common().Args[len(evals[0].Common().Args)-1]
				a1 := evals[1].Common().Args[len(evals[1].Common().Args)-1]
				if (sameValue(a0, cur) && sameValue(a1, oth)) || (sameValue(a0, oth) && sameValue(a1, cur)) {
					// grand total = t0.Plus(t1)
					t0, t1 := resultOf(evals[0], 0), resultOf(evals[1], 0)
					eachInstr(h, func(in ssa.Instruction) {
						if c, ok := in.(ssa.CallInstruction); ok {
							if n, recv, args, _ := methodCallOf(c); n == "Plus" && len(args) == 1 && typeNameOf(recv.Type()) == "Duration" {
								if (sameValue(recv, t0) && sameValue(args[0], t1)) || (sameValue(recv, t1) && sameValue(args[0], t0)) {
									okUse = true
								}
							}
						}
					})
				}
			}
			// and the split gets the records that were read (after --now)
			r.check(func() bool {
				c, idx := callOf(sc[0].Common().Args[1])
				return c != nil && idx == 0 && c.Common().IsInvoke() && c.Common().Method.Name() == "ReadInputs"
			}(), rule, "today:input", p.instrPos(sc[0]), "the split receives all records read", "the split does not receive the records read")
		}
		r.check(okUse, rule, "today:sum", p.pos(h.Pos()), "today's grand total = total(current) + total(other)", "today's grand total is not the sum of the current and other parts")
	}
	// evaluate: Total / ShouldTotalSum / Diff of the same records
	ev := p.method("klog/app/cli", "Today", "evaluate")
	if ev == nil && evFn != nil && !evMixed {
		ev = evFn
		markAnchor(ev)
	}
	if r.anchorFn(rule, ev, "Today.evaluate") {
		ok := false
		recPar := ev.Params[len(ev.Params)-1]
		for _, ret := range returnsOf(ev) {
			c0, _ := callOf(retResult(ret, 0))
			c1, _ := callOf(retResult(ret, 1))
			c2, _ := callOf(retResult(ret, 2))
			if c0 != nil && c1 != nil && c2 != nil && staticCallee(c0) != nil && staticCallee(c1) != nil && staticCallee(c2) != nil {
				ok = fnBase(staticCallee(c0)) == "Total" && fnBase(staticCallee(c1)) == "ShouldTotalSum" && fnBase(staticCallee(c2)) == "Diff" &&
					strip(c0.Common().Args[0]) == ssa.Value(recPar) && strip(c1.Common().Args[0]) == ssa.Value(recPar) &&
					sameValue(c2.Common().Args[0], c1.Value()) && sameValue(c2.Common().Args[1], c0.Value())
			}
		}
		r.check(ok, rule, "today:evaluate", p.pos(ev.Pos()), "evaluate = (Total, ShouldTotalSum, Diff(should,total)) of the same records", "evaluate does not return Total/ShouldTotalSum/Diff of the records given")
	}
}

func ruleP12Print(p *Prog, r *Report) {
	const rule = "P12-print"
	f := p.fn("klog/app/cli", "printWithDurations")
	if !r.anchorFn(rule, f, "cli.printWithDurations") {
		return
	}
	// Prefix literals: {service.Total(l.Record), false} and {l.Record.Entries()[l.EntryI].Duration(), true}
	nRec, nEnt := 0, 0
	for _, g := range withAnons(f) {
		eachInstr(g, func(in ssa.Instruction) {
			st, ok := in.(*ssa.Store)
			if !ok {
				return
			}
			fa, ok := st.Addr.(*ssa.FieldAddr)
			// (the prefix struct: whatever it is called, the duration goes into its field of type
			// klog.Duration)
			if !ok || typeNameOf(fa.Type()) != "Duration" || !p.inModType(fa.X.Type()) {
				return
			}
			if _, isStruct := derefType(fa.X.Type()).Underlying().(*types.Struct); !isStruct {
				return
			}
			v := st.Val
			if c, idx := callOf(v); c != nil && idx == 0 {
				if callee := staticCallee(c); callee != nil && fnBase(callee) == "Total" && pkgPathOfFn(callee) == modPath+"/klog/service" {
					els, ok2 := sliceLitElems(c.Common().Args[0])
					okRec := false
					if ok2 && len(els) == 1 {
						_, fld := fieldLoad(els[0])
						okRec = fld == "Record"
					}
					nRec++
					r.check(okRec, rule, "record-prefix", p.instrPos(st), "record line is prefixed with Total(that record)", "the record prefix is not Total(l.Record)")
					return
				}
				if callee := staticCallee(c); callee != nil && fnBase(callee) == "Duration" && typeNameOf(callee.Signature.Recv().Type()) == "Entry" {
					nEnt++
					okE := false
					if ia, ok := strip(c.Common().Args[0]).(*ssa.IndexAddr); ok {
						_, fi := fieldLoad(ia.Index)
						n, recv, _, _ := methodCall(ia.X)
						_, fr := fieldLoad(recv)
						okE = fi == "EntryI" && n == "Entries" && fr == "Record"
					}
					r.check(okE, rule, "entry-prefix", p.instrPos(st), "entry line is prefixed with Entries()[EntryI].Duration()", "the entry prefix is not l.Record.Entries()[l.EntryI].Duration()")
					return
				}
			}
			r.bad(rule, "prefix", p.instrPos(st), "a prefix value that is neither a record total nor an entry duration")
		})
	}
	r.check(nRec == 1 && nEnt == 1, rule, "prefixes", p.pos(f.Pos()), "one record-total and one entry-duration prefix", fmt.Sprintf("%d record and %d entry prefixes", nRec, nEnt))
	_ = types.Typ
}

func ruleP12NowApplied(p *Prog, r *Report) {
	const rule = "P12-now-applied"
	for name, calls := range p.argsApplied(r, rule, "NowArgs", "ApplyNow") {
		runs := p.commandRuns()
		for i, c := range calls {
			key := fmt.Sprintf("%s:ApplyNow#%d", name, i)
			e := resultOf(c, 0)
			if e == nil {
				r.bad(rule, key, p.instrPos(c), "the error of ApplyNow is discarded (unclosable ranges would be silently ignored)")
				continue
			}
			msg, how := p.checkForwarding(c.Parent(), e, lastResultIdx)
			r.check(msg == "", rule, key, p.instrPos(c), "ApplyNow is called and its error returned ("+how+")", "ApplyNow's error is not returned: "+msg)
			// nothing is totalled before the open ranges are closed (CloseOpenRanges works in
			// place: a total taken earlier from the very same slice lacks the running entry)
			_ = runs
			for _, evName := range []string{"Total", "ShouldTotalSum", "AggregateTotalsByTags"} {
				ev := p.fn("klog/service", evName)
				if ev == nil {
					continue
				}
				for _, vc := range virtualCallsTo(c.Parent(), ev) {
					at := vc.where()
					if at.Parent() != c.Parent() {
						continue
					}
					var site ssa.Instruction = vc.call
					if len(vc.chain) > 0 {
						site = vc.chain[0]
					}
					after := c.Block().Dominates(at) && (c.Block() != at || instrIndex(c) < instrIndex(site))
					if !after {
						r.bad(rule, key+":before-"+evName, p.instrPos(site), "%s is evaluated at a point that --now has not (always) been applied before: the figure lacks the running entry that the rest of the output counts", evName)
					}
				}
			}
		}
	}
	for name, calls := range p.argsApplied(r, rule, "DecimalArgs", "Apply") {
		for i, c := range calls {
			key := fmt.Sprintf("%s:DecimalArgs.Apply#%d", name, i)
			// must precede obtaining the serialiser
			okBefore := true
			eachInstr(c.Parent(), func(in ssa.Instruction) {
				if c2, ok := in.(ssa.CallInstruction); ok && c2.Common().IsInvoke() && c2.Common().Method.Name() == "Serialise" {
					if !c.Block().Dominates(c2.Block()) || (c.Block() == c2.Block() && instrIndex(c) > instrIndex(c2)) {
						okBefore = false
					}
				}
			})
			r.check(okBefore, rule, key, p.instrPos(c), "--decimal is applied before the serialiser is obtained", "--decimal is applied after the serialiser was obtained")
		}
	}
	// ApplyNow itself: closes when the flag is set, returns an error when CloseOpenRanges fails
	an := p.method("klog/app/cli/util", "NowArgs", "ApplyNow")
	cor := p.fn("klog/service", "CloseOpenRanges")
	if r.anchorFn(rule, an, "NowArgs.ApplyNow") && r.anchorFn(rule, cor, "CloseOpenRanges") {
		cs := callsTo(an, cor)
		if len(cs) != 1 {
			r.bad(rule, "ApplyNow:close", p.pos(an.Pos()), "ApplyNow does not call CloseOpenRanges exactly once")
		} else {
			c := cs[0]
			flag := false
			for _, g := range guardsOf(c.Block()) {
				if tag, _ := fieldTagOfLoad(g.Cond); tag == "now" && g.Pol {
					flag = true
				}
			}
			okArgs := strip(c.Common().Args[0]) == ssa.Value(an.Params[1]) && strip(c.Common().Args[1]) == ssa.Value(an.Params[2])
			r.check(flag && okArgs && len(guardsOf(c.Block())) == 1, rule, "ApplyNow:close", p.instrPos(c), "--now -> CloseOpenRanges(reference, records)", "CloseOpenRanges is not called exactly when --now is set, on the reference time and records given")
			if e := resultOf(c, 1); e != nil {
				msg, how := p.checkForwarding(an, e, lastResultIdx)
				r.check(msg == "", rule, "ApplyNow:error", p.instrPos(c), "unclosable range -> error ("+how+")", "an unclosable range does not make ApplyNow fail: "+msg)
			} else {
				r.bad(rule, "ApplyNow:error", p.instrPos(c), "the error of CloseOpenRanges is discarded")
			}
		}
	}
	r.floor(rule, 8)
}

func instrIndex(in ssa.Instruction) int {
	for i, x := range in.Block().Instrs {
		if x == in {
			return i
		}
	}
	return -1
}

// membershipTest: cond reads a map[K]bool used as a set — m[k], or the ok (or the value) of
// `v, ok := m[k]`.  With only `true` ever stored these are the same test.
func membershipTest(cond ssa.Value) *ssa.Lookup {
	switch x := cond.(type) {
	case *ssa.Lookup:
		if !x.CommaOk {
			return x
		}
	case *ssa.Extract:
		if lk, ok := x.Tuple.(*ssa.Lookup); ok && lk.CommaOk {
			return lk
		}
	}
	return nil
}

// isPresenceTest: cond is the ok of `_, ok := m[k]`.
func isPresenceTest(cond ssa.Value) bool {
	ex, ok := cond.(*ssa.Extract)
	if !ok || ex.Index != 1 {
		return false
	}
	lk, ok := ex.Tuple.(*ssa.Lookup)
	return ok && lk.CommaOk
}
