package main

// B3 (error discipline), B11a (polynomial normal forms), small provenance matchers.

import (
	"fmt"
	"go/token"
	"go/types"
	"regexp"
	"sort"
	"strings"

	"golang.org/x/tools/go/ssa"
)

// ---------------------------------------------------------------------------------------------
// B11a: polynomials over SSA leaves (linear: sum of coef*leaf + const)

type Poly struct {
	C     int64
	Terms map[string]int64 // leaf key -> coefficient
	leafV map[string]ssa.Value
}

func newPoly() *Poly { return &Poly{Terms: map[string]int64{}, leafV: map[string]ssa.Value{}} }

func (a *Poly) addScaled(b *Poly, k int64) {
	a.C += k * b.C
	for t, c := range b.Terms {
		a.Terms[t] += k * c
		a.leafV[t] = b.leafV[t]
		if a.Terms[t] == 0 {
			delete(a.Terms, t)
		}
	}
}

func (a *Poly) isConst() bool { return len(a.Terms) == 0 }

func (a *Poly) String() string {
	var ks []string
	for k := range a.Terms {
		ks = append(ks, k)
	}
	sort.Strings(ks)
	var sb strings.Builder
	for _, k := range ks {
		fmt.Fprintf(&sb, "%+d*%s ", a.Terms[k], k)
	}
	fmt.Fprintf(&sb, "%+d", a.C)
	return sb.String()
}

func (a *Poly) equal(b *Poly) bool {
	if a.C != b.C || len(a.Terms) != len(b.Terms) {
		return false
	}
	for k, v := range a.Terms {
		if b.Terms[k] != v {
			return false
		}
	}
	return true
}

// leafKey names a leaf value so that two loads of the same variable cell, or two calls of the
// same accessor on the same receiver, are the same leaf.
func leafKey(v ssa.Value) string {
	v = deref(v)
	switch x := v.(type) {
	case *ssa.UnOp:
		if x.Op == token.MUL {
			if c := cellOf(x.X); c != nil {
				return fmt.Sprintf("cell:%s@%p", c.Comment, c)
			}
			if fa, ok := x.X.(*ssa.FieldAddr); ok {
				return "field:" + leafKey(fa.X) + "." + fieldName(fa)
			}
		}
	case *ssa.Parameter:
		return "param:" + x.Name()
	case *ssa.Call:
		cc := x.Common()
		name := ""
		if bi, isB := cc.Value.(*ssa.Builtin); isB && bi.Name() == "len" && len(cc.Args) == 1 {
			return "len(" + leafKey(cc.Args[0]) + ")"
		}
		if cc.IsInvoke() {
			name = cc.Method.Name()
			if len(cc.Args) == 0 {
				return "call:" + leafKey(cc.Value) + "." + name + "()"
			}
		} else if f := staticCallee(x); f != nil && len(cc.Args) <= 1 {
			name = fnBase(f)
			if len(cc.Args) == 1 {
				return "call:" + name + "(" + leafKey(cc.Args[0]) + ")"
			}
			return "call:" + name + "()"
		}
	case *ssa.Extract:
		return fmt.Sprintf("extract%d:%s", x.Index, leafKey(x.Tuple))
	}
	return fmt.Sprintf("%s@%p", v.Name(), v)
}

func fieldName(fa *ssa.FieldAddr) string {
	st := fa.X.Type().Underlying().(*types.Pointer).Elem().Underlying().(*types.Struct)
	return st.Field(fa.Field).Name()
}

// polyOf normalises an integer SSA expression.
func polyOf(v ssa.Value) *Poly {
	return polyOfD(v, 0)
}

func polyOfD(v ssa.Value, depth int) *Poly {
	p := newPoly()
	orig := v
	v = deref(v)
	// a leaf that is reached through a transparent helper is context dependent (its meaning is
	// relative to the call it was entered through): remember the OUTER value, which re-establishes
	// the context whenever it is resolved again
	leafValue := func() ssa.Value {
		if plainDeref(orig) != v {
			return orig
		}
		return v
	}
	if depth > 12 {
		k := leafKey(v)
		p.Terms[k] = 1
		p.leafV[k] = leafValue()
		return p
	}
	if k, ok := constInt(v); ok {
		p.C = k
		return p
	}
	switch x := v.(type) {
	case *ssa.Convert:
		// int <-> int64 etc.
		if isIntType(x.Type()) && isIntType(x.X.Type()) {
			return polyOfD(x.X, depth+1)
		}
	case *ssa.BinOp:
		switch x.Op {
		case token.ADD:
			p.addScaled(polyOfD(x.X, depth+1), 1)
			p.addScaled(polyOfD(x.Y, depth+1), 1)
			return p
		case token.SUB:
			p.addScaled(polyOfD(x.X, depth+1), 1)
			p.addScaled(polyOfD(x.Y, depth+1), -1)
			return p
		case token.MUL:
			a, b := polyOfD(x.X, depth+1), polyOfD(x.Y, depth+1)
			if a.isConst() {
				p.addScaled(b, a.C)
				return p
			}
			if b.isConst() {
				p.addScaled(a, b.C)
				return p
			}
		}
	case *ssa.UnOp:
		if x.Op == token.SUB {
			p.addScaled(polyOfD(x.X, depth+1), -1)
			return p
		}
	}
	k := leafKey(v)
	p.Terms[k] = 1
	p.leafV[k] = leafValue()
	return p
}

// plainDeref: deref without looking through transparent helpers.
func plainDeref(v ssa.Value) ssa.Value {
	was := ht.enabled
	ht.enabled = false
	defer func() { ht.enabled = was }()
	return deref(v)
}

func isIntType(t types.Type) bool {
	b, ok := t.Underlying().(*types.Basic)
	return ok && b.Info()&types.IsInteger != 0
}

// durationMinutes: v is a klog.Duration built by NewDuration(h, m) / NewDurationWithFormat:
// its value in minutes as a polynomial 60h+m.
// durationMinutesArith is durationMinutes that also reads duration arithmetic.
func (p *Prog) durationMinutesArith(v ssa.Value) (*Poly, bool) {
	c, idx := callOf(v)
	if c == nil || idx != 0 {
		return nil, false
	}
	// duration arithmetic: a.Minus(b) / a.Plus(b) have a-b / a+b minutes (P02-arith); an operand
	// that is not a constructor call counts as the leaf <operand>.InMinutes()
	if n, recv, args, mc := methodCallOf(c); mc != nil && (n == "Minus" || n == "Plus") && len(args) == 1 && recv != nil && typeNameOf(recv.Type()) == "Duration" {
		side := func(x ssa.Value) *Poly {
			if sub, ok := p.durationMinutesArith(x); ok {
				return sub
			}
			leaf := newPoly()
			k := "call:InMinutes(" + leafKey(x) + ")"
			leaf.Terms[k] = 1
			leaf.leafV[k] = &minutesOf{of: x}
			return leaf
		}
		res := newPoly()
		res.addScaled(side(recv), 1)
		if n == "Minus" {
			res.addScaled(side(args[0]), -1)
		} else {
			res.addScaled(side(args[0]), 1)
		}
		return res, true
	}
	return p.durationMinutes(v)
}

func (p *Prog) durationMinutes(v ssa.Value) (*Poly, bool) {
	c, idx := callOf(v)
	if c == nil || idx != 0 {
		return nil, false
	}
	f := staticCallee(c)
	if f == nil {
		return nil, false
	}
	if sameFn(f, p.fn("klog", "NewDuration")) || sameFn(f, p.fn("klog", "NewDurationWithFormat")) || sameFn(f, p.fn("klog", "NewShouldTotal")) {
		a := c.Common().Args
		if len(a) < 2 {
			return nil, false
		}
		// (x/60, x%60) is x minutes again (Go's division truncates, the remainder keeps the sign)
		if q, isQ := strip(a[0]).(*ssa.BinOp); isQ && q.Op == token.QUO {
			if m, isM := strip(a[1]).(*ssa.BinOp); isM && m.Op == token.REM {
				kq, okq := constInt(q.Y)
				km, okm := constInt(m.Y)
				if okq && okm && kq == 60 && km == 60 && (sameValue(q.X, m.X) || polyOf(q.X).equal(polyOf(m.X))) {
					return polyOf(q.X), true
				}
			}
		}
		res := newPoly()
		res.addScaled(polyOf(a[0]), 60)
		res.addScaled(polyOf(a[1]), 1)
		return res, true
	}
	return nil, false
}

// dateShift: v == base.PlusDays(k) for constant k (k=0 when v is no PlusDays call).
func dateShift(v ssa.Value) (ssa.Value, int64) {
	v = deref(v)
	if c, idx := callOf(v); c != nil && idx == 0 {
		cc := c.Common()
		name := ""
		var recv ssa.Value
		var args []ssa.Value
		if cc.IsInvoke() {
			name, recv, args = cc.Method.Name(), cc.Value, cc.Args
		} else if f := staticCallee(c); f != nil && f.Signature.Recv() != nil && len(cc.Args) > 0 {
			name, recv, args = fnBase(f), cc.Args[0], cc.Args[1:]
		}
		if name == "PlusDays" && len(args) == 1 {
			if k, ok := constInt(args[0]); ok {
				b, k0 := dateShift(recv)
				return b, k0 + k
			}
		}
	}
	return v, 0
}

// methodCall matches v == recv.name(args...) for an interface invoke or a concrete method call.
func methodCall(v ssa.Value) (name string, recv ssa.Value, args []ssa.Value, call ssa.CallInstruction) {
	c, idx := callOf(v)
	if c == nil || idx > 0 && false {
		return "", nil, nil, nil
	}
	return methodCallOf(c)
}

func methodCallOf(c ssa.CallInstruction) (name string, recv ssa.Value, args []ssa.Value, call ssa.CallInstruction) {
	if c == nil {
		return "", nil, nil, nil
	}
	cc := c.Common()
	if cc.IsInvoke() {
		return cc.Method.Name(), cc.Value, cc.Args, c
	}
	if f := staticCallee(c); f != nil && f.Signature.Recv() != nil && len(cc.Args) > 0 {
		return fnBase(f), cc.Args[0], cc.Args[1:], c
	}
	return "", nil, nil, nil
}

// ---------------------------------------------------------------------------------------------
// B3: error discipline

type errClass string

const (
	errChecked   errClass = "checked"     // tested for nil / returned / passed on
	errConstant  errClass = "constant"    // all inputs are compile-time constants
	errNilGuard  errClass = "nil-guarded" // error dropped, every use of the value is behind a non-nil test of the value
	errUnusedVal errClass = "value-unused"
	errDropped   errClass = "dropped" // error dropped and the value used anyway
)

// classifyErr classifies how the error result of call c is treated.
func (p *Prog) classifyErr(c ssa.CallInstruction) (errClass, string) {
	sig := c.Common().Signature()
	ei := errResultIndex(sig)
	if ei < 0 {
		return errChecked, "no error result"
	}
	e := resultOf(c, ei)
	if e != nil && len(*e.Referrers()) > 0 {
		return errChecked, "error value is used"
	}
	if c.Value() == nil {
		return errDropped, "call in go/defer position"
	}
	// blank: are all operands constants?
	allConst := true
	ops := c.Common().Args
	if c.Common().IsInvoke() {
		allConst = false
	}
	for _, a := range ops {
		if _, ok := strip(a).(*ssa.Const); !ok {
			// a slice literal of constants (variadic) counts as constant
			if !isConstSlice(a) {
				allConst = false
			}
		}
	}
	if allConst {
		return errConstant, "all arguments are compile-time constants"
	}
	// value results
	var vals []ssa.Value
	if sig.Results().Len() == 1 {
		return errDropped, "the only result, an error, is discarded"
	}
	for i := 0; i < sig.Results().Len(); i++ {
		if i == ei {
			continue
		}
		if v := resultOf(c, i); v != nil && len(*v.Referrers()) > 0 {
			vals = append(vals, v)
		}
	}
	if len(vals) == 0 {
		return errUnusedVal, "value results unused"
	}
	for _, v := range vals {
		for _, ref := range *v.Referrers() {
			if isNilTestUse(ref, v) {
				continue
			}
			if !knownNonNil(ref.Block(), v) && !nilSafeArgument(ref, v, 0) {
				return errDropped, fmt.Sprintf("error discarded and the value is used at %s without a nil test", p.instrPos(ref))
			}
		}
	}
	return errNilGuard, "every use of the value is dominated by a non-nil test"
}

func isNilTestUse(ref ssa.Instruction, v ssa.Value) bool {
	b, ok := ref.(*ssa.BinOp)
	if !ok {
		return false
	}
	return (b.Op == token.EQL || b.Op == token.NEQ) && (isNilConst(b.X) || isNilConst(b.Y))
}

func isConstSlice(v ssa.Value) bool {
	s, ok := strip(v).(*ssa.Slice)
	if !ok {
		return false
	}
	a, ok := s.X.(*ssa.Alloc)
	if !ok {
		return false
	}
	for _, ref := range *a.Referrers() {
		switch x := ref.(type) {
		case *ssa.IndexAddr:
			for _, r2 := range *x.Referrers() {
				if st, ok := r2.(*ssa.Store); ok {
					if _, isC := strip(st.Val).(*ssa.Const); !isC {
						return false
					}
				}
			}
		case *ssa.Slice:
		default:
			return false
		}
	}
	return true
}

// calleeName gives "pkgname.Func" or "Type.Method" for a call (static or invoke).
func calleeName(c ssa.CallInstruction) string {
	cc := c.Common()
	if cc.IsInvoke() {
		return typeNameOf(cc.Value.Type()) + "." + cc.Method.Name()
	}
	if f := staticCallee(c); f != nil {
		if f.Signature.Recv() != nil {
			return typeNameOf(f.Signature.Recv().Type()) + "." + fnBase(f)
		}
		if f.Pkg != nil {
			return f.Pkg.Pkg.Name() + "." + fnBase(f)
		}
		if o := f.Origin(); o != nil && o.Pkg != nil {
			return o.Pkg.Pkg.Name() + "." + fnBase(f)
		}
		return fnBase(f)
	}
	return "dynamic"
}

// calleePkgPath returns the package path of the static callee or of the invoked interface's type.
func calleePkgPath(c ssa.CallInstruction) string {
	cc := c.Common()
	if cc.IsInvoke() {
		return typePkgPath(cc.Value.Type())
	}
	if f := staticCallee(c); f != nil {
		g := originFn(f)
		if g.Pkg != nil {
			return g.Pkg.Pkg.Path()
		}
		if g.Object() != nil && g.Object().Pkg() != nil {
			return g.Object().Pkg().Path()
		}
		for h := g.Parent(); h != nil; h = h.Parent() {
			if h.Pkg != nil {
				return h.Pkg.Pkg.Path()
			}
		}
	}
	return ""
}

func pkgPathOfFn(f *ssa.Function) string {
	for g := f; g != nil; g = g.Parent() {
		h := originFn(g)
		if h.Pkg != nil {
			return h.Pkg.Pkg.Path()
		}
		if h.Object() != nil && h.Object().Pkg() != nil {
			return h.Object().Pkg().Path()
		}
	}
	return ""
}

// boolFieldGuard: the guard tests a bool field named `name` of some struct (args.Yesterday).
func boolFieldGuard(g Guard) (field string, pol bool, ok bool) {
	_, f := fieldLoad(g.Cond)
	if f != "" {
		if b, isB := g.Cond.Type().Underlying().(*types.Basic); isB && b.Kind() == types.Bool {
			return f, g.Pol, true
		}
	}
	return "", false, false
}

// polyX is polyOf with the integer accessors of module types replaced by their bodies, so that
// x.RemainingLength(), x.Length()-x.PointerPosition and len(x.Chars)-x.PointerPosition are one
// and the same polynomial.
func polyX(v ssa.Value) *Poly { return expandAccessors(polyOf(v), 0) }

func expandAccessors(pl *Poly, depth int) *Poly {
	out := newPoly()
	out.C = pl.C
	for k, c := range pl.Terms {
		v := pl.leafV[k]
		if sub := accessorBody(v, depth); sub != nil {
			out.addScaled(sub, c)
			continue
		}
		out.Terms[k] += c
		out.leafV[k] = v
		if out.Terms[k] == 0 {
			delete(out.Terms, k)
		}
	}
	return out
}

// accessorBody: v is a call x.m() of a module method that only computes an integer from its
// receiver (one block, no stores, no calls but len and other accessors): its result as a
// polynomial over the receiver at the call site.
func accessorBody(v ssa.Value, depth int) *Poly {
	if depth > 4 || v == nil || gp == nil {
		return nil
	}
	call, ok := deref(v).(*ssa.Call)
	if !ok || call.Call.IsInvoke() || len(call.Call.Args) != 1 {
		return nil
	}
	g := rawStaticCallee(call)
	if g == nil || !gp.inMod(g) || len(g.Params) != 1 || len(g.Blocks) != 1 || g.Signature.Results().Len() != 1 || !isIntType(g.Signature.Results().At(0).Type()) {
		return nil
	}
	var ret *ssa.Return
	for _, in := range g.Blocks[0].Instrs {
		switch x := in.(type) {
		case *ssa.FieldAddr, *ssa.Field, *ssa.BinOp, *ssa.Convert, *ssa.DebugRef:
		case *ssa.UnOp:
			if x.Op != token.MUL && x.Op != token.SUB {
				return nil
			}
		case *ssa.Call:
			if bi, isB := x.Call.Value.(*ssa.Builtin); isB && bi.Name() == "len" {
				continue
			}
			if x.Call.IsInvoke() || rawStaticCallee(x) == nil || len(x.Call.Args) != 1 {
				return nil
			}
		case *ssa.Return:
			ret = x
		default:
			return nil
		}
	}
	if ret == nil || len(ret.Results) != 1 {
		return nil
	}
	was := ht.enabled
	ht.enabled = false
	cp := expandAccessors(polyOf(ret.Results[0]), depth+1)
	ht.enabled = was
	re := regexp.MustCompile(`param:` + regexp.QuoteMeta(g.Params[0].Name()) + `\b`)
	recvKey := leafKey(call.Call.Args[0])
	out := newPoly()
	out.C = cp.C
	for k, c := range cp.Terms {
		if !re.MatchString(k) {
			return nil // depends on something that is not the receiver
		}
		nk := re.ReplaceAllLiteralString(k, recvKey)
		out.Terms[nk] += c
		out.leafV[nk] = cp.leafV[k]
		if out.Terms[nk] == 0 {
			delete(out.Terms, nk)
		}
	}
	return out
}

// nilSafeArgument: the use of v is handing it to a module function that itself touches the
// parameter only behind a nil test (the test moved into a helper together with the use).
func nilSafeArgument(ref ssa.Instruction, v ssa.Value, depth int) bool {
	c, ok := ref.(ssa.CallInstruction)
	if !ok || depth > 2 || gp == nil {
		return false
	}
	g := rawStaticCallee(c)
	if g == nil || !gp.inMod(g) || len(g.Blocks) == 0 {
		return false
	}
	args := c.Common().Args
	if len(args) != len(g.Params) {
		return false
	}
	seen := false
	for i, a := range args {
		if a != v {
			continue
		}
		seen = true
		prm := g.Params[i]
		if prm.Referrers() == nil {
			continue
		}
		for _, r2 := range *prm.Referrers() {
			if _, isDbg := r2.(*ssa.DebugRef); isDbg || isNilTestUse(r2, prm) {
				continue
			}
			if !knownNonNil(r2.Block(), prm) && !nilSafeArgument(r2, prm, depth+1) {
				return false
			}
		}
	}
	return seen
}

// minutesOf stands for x.InMinutes() of a duration value x that the program never converts to
// minutes itself (it hands the duration on to Minus / Plus): a synthetic leaf of a polynomial.
type minutesOf struct {
	ssa.Value
	of ssa.Value
}

func (m *minutesOf) Name() string   { return "minutes(" + m.of.Name() + ")" }
func (m *minutesOf) String() string { return m.Name() }

// fieldInitValue: v is a load of field f of a module struct type that is written in exactly one
// place of the module (the literal that builds the value: a handler struct carrying what a
// closure used to capture); returns what is stored there.
var fieldInitMemo = map[string]ssa.Value{}
var fieldInitDone = map[string]bool{}

func fieldInitValue(v ssa.Value) (ssa.Value, bool) {
	if gp == nil {
		return nil, false
	}
	var x ssa.Value
	var idx int
	switch y := plainDeref(v).(type) {
	case *ssa.UnOp:
		fa, ok := y.X.(*ssa.FieldAddr)
		if !ok || y.Op != token.MUL {
			return nil, false
		}
		x, idx = fa.X, fa.Field
	case *ssa.Field:
		x, idx = y.X, y.Field
	default:
		return nil, false
	}
	t := x.Type()
	if pt, ok := t.Underlying().(*types.Pointer); ok {
		t = pt.Elem()
	}
	named, ok := t.(*types.Named)
	if !ok || named.Obj().Pkg() == nil || !strings.HasPrefix(named.Obj().Pkg().Path(), modPath) || named.Obj().Exported() {
		return nil, false
	}
	key := fmt.Sprintf("%s.%s#%d", named.Obj().Pkg().Path(), named.Obj().Name(), idx)
	if fieldInitDone[key] {
		r := fieldInitMemo[key]
		return r, r != nil
	}
	fieldInitDone[key] = true
	var val ssa.Value
	n := 0
	for _, f := range gp.srcFns {
		eachInstr(f, func(in ssa.Instruction) {
			st, ok := in.(*ssa.Store)
			if !ok {
				return
			}
			fa, ok := st.Addr.(*ssa.FieldAddr)
			if !ok || fa.Field != idx {
				return
			}
			ft := fa.X.Type()
			if pt, ok := ft.Underlying().(*types.Pointer); ok {
				ft = pt.Elem()
			}
			if types.Identical(ft, named) {
				n++
				val = st.Val
			}
		})
	}
	if n != 1 {
		return nil, false
	}
	fieldInitMemo[key] = val
	return val, true
}
