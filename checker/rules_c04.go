package main

// C04 — mutating commands have exactly their intended effect (wiring of commands to creators
// and steps). Also P17-stop-fallback.

import (
	"fmt"
	"go/token"
	"go/types"
	"strings"

	"golang.org/x/tools/go/ssa"
)

func init() {
	register(&propSpec{
		id:    "C04",
		level: "other",
		explain: "Decides the wiring of each mutating command, as structural necessary conditions on the SSA program: (P04-creators) the creator chain passed to ReconcileFile per command — track/start: existing record at the target date, else a new record at that date; stop: record at the date, then yesterday's only when date and time were automatic, never a new record; switch: only the existing record; pause: today's then yesterday's record; create: only a new record; " +
			"(P04-steps) the step closures call AppendEntry / StartOpenRange / CloseOpenRange / AppendPause / ExtendPause with the command's own entry, time and summary, and switch closes and starts with one and the same time value; " +
			"(P04-pause-arith) the pause loop extends by exactly minus the not-yet-captured whole minutes since the start and accounts for them; (P04-reject) the reconciler steps reject (second open range, nothing to close/pause) before modifying any line. " +
			"Not covered: the records obtained by re-reading after a history (needs an abstract model evaluated on inputs), --resume selection, chronological placement arithmetic.",
		rules:   []ruleFn{ruleP04Creators, ruleP17StopFallback, ruleP17ErrAbort, ruleP04Steps, ruleP04PauseArith, ruleP04Reject, ruleP04ResumePrevious, ruleP04Resume, ruleP04PauseToken},
		trusted: []string{"ApplyReconciler takes the first creator that yields a reconciler (P05-apply-abort checks the loop's abort discipline)"},
	})
}

// sliceLitElems returns the elements of a slice literal / varargs slice, in index order.
func sliceLitElems(v ssa.Value) ([]ssa.Value, bool) {
	v = deref(v)
	if isNilConst(v) {
		return nil, true
	}
	s, ok := v.(*ssa.Slice)
	if !ok || s.Low != nil || s.High != nil {
		return nil, false
	}
	a, ok := s.X.(*ssa.Alloc)
	if !ok {
		return nil, false
	}
	arr, ok := a.Type().Underlying().(*types.Pointer).Elem().Underlying().(*types.Array)
	if !ok {
		return nil, false
	}
	out := make([]ssa.Value, arr.Len())
	for _, ref := range *a.Referrers() {
		switch x := ref.(type) {
		case *ssa.IndexAddr:
			i, ok := constInt(x.Index)
			if !ok {
				return nil, false
			}
			for _, r2 := range *x.Referrers() {
				if st, ok := r2.(*ssa.Store); ok {
					if out[i] != nil {
						return nil, false
					}
					out[i] = st.Val
				}
			}
		case *ssa.Slice:
		default:
			return nil, false
		}
	}
	for _, e := range out {
		if e == nil {
			return nil, false
		}
	}
	return out, true
}

type creatorAlt struct {
	kind  string // AtRecord | ForNewRecord | nil | phony | unknown
	date  ssa.Value
	cond  []Guard // guards inside a conditional wrapper (IIFE)
	where ssa.Instruction
}

// describeCreator expands a creator-slice element into its alternatives.
func (p *Prog) describeCreator(v ssa.Value, depth int) []creatorAlt {
	atRec := p.fn("klog/parser/reconciling", "NewReconcilerAtRecord")
	newRec := p.fn("klog/parser/reconciling", "NewReconcilerForNewRecord")
	v = deref(v)
	if isNilConst(v) {
		return []creatorAlt{{kind: "nil"}}
	}
	// a variable assigned on some paths only: alternatives per incoming edge
	if ph, isPhi := strip(v).(*ssa.Phi); isPhi && depth < 3 {
		var out []creatorAlt
		for i, e := range ph.Edges {
			pb := ph.Block().Preds[i]
			eg := append(append([]Guard{}, guardsOf(pb)...), edgeGuard(pb, ph.Block())...)
			for _, alt := range p.describeCreator(e, depth+1) {
				alt.cond = append(alt.cond, eg...)
				if alt.where == nil && len(pb.Instrs) > 0 {
					alt.where = pb.Instrs[len(pb.Instrs)-1]
				}
				out = append(out, alt)
			}
		}
		return out
	}
	c, idx := callOf(v)
	if c == nil || idx != 0 {
		return []creatorAlt{{kind: "unknown"}}
	}
	callee := staticCallee(c)
	switch {
	case sameFn(callee, atRec):
		return []creatorAlt{{kind: "AtRecord", date: c.Common().Args[0], where: c}}
	case sameFn(callee, newRec):
		return []creatorAlt{{kind: "ForNewRecord", date: c.Common().Args[0], where: c}}
	}
	if callee != nil && depth < 2 && p.inMod(callee) {
		// a wrapper: look at what it returns
		if callee.Parent() != nil {
			// local closure (IIFE): alternatives per return, with the return's guards
			var out []creatorAlt
			for _, ret := range returnsOf(callee) {
				for _, alt := range p.describeCreator(retResult(ret, 0), depth+1) {
					alt.cond = append(alt.cond, guardsOf(ret.Block())...)
					if alt.where == nil {
						alt.where = ret
					}
					out = append(out, alt)
				}
			}
			return out
		}
		// named function/method returning a creator closure that yields nil on all paths
		allPhony := true
		for _, ret := range returnsOf(callee) {
			lit := funcLiteral(retResult(ret, 0))
			if lit == nil {
				allPhony = false
				break
			}
			for _, r2 := range returnsOf(lit) {
				if !isNilConst(retResult(r2, 0)) {
					allPhony = false
				}
			}
		}
		if allPhony {
			return []creatorAlt{{kind: "phony", where: c}}
		}
	}
	return []creatorAlt{{kind: "unknown", where: c}}
}

// reconcileCall finds, in a command's Run (and nested closures), the calls that carry a
// []reconciling.Creator argument, returning the call, the creators argument and the variadic
// steps argument.
type reconCall struct {
	fn       *ssa.Function
	call     ssa.CallInstruction
	creators ssa.Value
	steps    ssa.Value
}

func findReconcileCalls(run *ssa.Function) []reconCall {
	var out []reconCall
	for _, f := range withAnons(run) {
		eachInstr(f, func(in ssa.Instruction) {
			c, ok := in.(ssa.CallInstruction)
			if !ok {
				return
			}
			var rc reconCall
			rc.fn, rc.call = f, c
			for _, a := range c.Common().Args {
				if sl, ok := a.Type().Underlying().(*types.Slice); ok {
					switch typeNameOf(sl.Elem()) {
					case "Creator":
						rc.creators = a
					case "Reconcile":
						rc.steps = a
					}
				}
			}
			if rc.creators != nil {
				out = append(out, rc)
			}
		})
	}
	return out
}

// dateDesc describes a date value relative to its base: ("atdate"|"today"|other, k).
func (p *Prog) dateDesc(v ssa.Value) (string, ssa.Value, int64) {
	base, k := dateShift(v)
	base = deref(base)
	if c, idx := callOf(base); c != nil && idx == 0 {
		if f := staticCallee(c); f != nil {
			switch {
			case fnBase(f) == "AtDate":
				// AtDate(now) with now = ctx.Now()
				if n, _, _, _ := methodCall(c.Common().Args[len(c.Common().Args)-1]); n == "Now" {
					return "atdate", base, k
				}
			case sameFn(f, p.fn("klog", "NewDateFromGo")):
				if n, _, _, _ := methodCall(c.Common().Args[0]); n == "Now" {
					return "today", base, k
				}
			}
		}
	}
	return "other", base, k
}

func ruleP04Creators(p *Prog, r *Report) {
	p.creatorsRule(r, "Track", "Start", "Stop", "Switch", "Pause", "Create")
	r.floor("P04-creators", 10)
}

func (p *Prog) creatorsRule(r *Report, only ...string) {
	const rule = "P04-creators"
	mut, _, _ := p.mutatingCommands()
	type exp struct {
		kind string
		base string // atdate | today
		k    int64
	}
	want := map[string][]exp{
		"Track":  {{"AtRecord", "atdate", 0}, {"ForNewRecord", "atdate", 0}},
		"Start":  {{"phony", "", 0}, {"AtRecord", "atdate", 0}, {"ForNewRecord", "atdate", 0}},
		"Stop":   {{"AtRecord", "atdate", 0}, {"cond", "atdate", -1}},
		"Switch": {{"AtRecord", "atdate", 0}},
		"Pause":  {{"AtRecord", "today", 0}, {"AtRecord", "today", -1}},
		"Create": {{"ForNewRecord", "atdate", 0}},
	}
	for _, name := range only {
		run := mut[name]
		if run == nil {
			r.undecided(rule, name, "-", "command %s is not a mutating command in the current tree (does not reach ReconcileFile)", name)
			continue
		}
		calls := findReconcileCalls(run)
		if len(calls) != 1 {
			r.undecided(rule, name+":call", p.pos(run.Pos()), "expected exactly one call carrying a creator list in %s.Run, found %d", name, len(calls))
			continue
		}
		rc := calls[0]
		elems, ok := sliceLitElems(rc.creators)
		if !ok {
			r.undecided(rule, name+":list", p.instrPos(rc.call), "the creator list of %s is not a slice literal", name)
			continue
		}
		w := want[name]
		if len(elems) != len(w) {
			r.bad(rule, name+":list", p.instrPos(rc.call), "%s passes %d creators, its definition needs %d (%v)", name, len(elems), len(w), w)
			continue
		}
		var base0 ssa.Value
		for i, e := range elems {
			key := fmt.Sprintf("%s:creator#%d", name, i)
			alts := p.describeCreator(e, 0)
			ex := w[i]
			switch ex.kind {
			case "phony":
				r.check(len(alts) == 1 && alts[0].kind == "phony", rule, key, p.instrPos(rc.call), "pass-through creator that never yields a reconciler", "first creator of start is not a pass-through (it may select a record)")
			case "cond":
				// yesterday fallback: {WasAutomatic true -> AtRecord(d-1); otherwise nil}
				okc := len(alts) == 2
				var pos, neg *creatorAlt
				for j := range alts {
					if alts[j].kind == "AtRecord" {
						pos = &alts[j]
					} else if alts[j].kind == "nil" {
						neg = &alts[j]
					}
				}
				okc = okc && pos != nil && neg != nil
				if okc {
					b, bv, k := p.dateDesc(pos.date)
					okc = b == ex.base && k == ex.k && (base0 == nil || sameValue(bv, base0))
					// the positive alternative must be guarded by WasAutomatic() == true
					g := false
					for _, gd := range pos.cond {
						if automaticGuard(gd) {
							g = true
						}
					}
					okc = okc && g
				}
				r.check(okc, rule, key, p.instrPos(rc.call), "yesterday's record only when date and time were automatic, otherwise no second creator", "the second creator of stop is not {automatic -> record of the day before; otherwise none}")
			default:
				okc := len(alts) == 1 && alts[0].kind == ex.kind
				detail := ""
				var bv ssa.Value
				if okc {
					var b string
					var k int64
					b, bv, k = p.dateDesc(alts[0].date)
					if i == 0 || base0 == nil {
						base0 = bv
					}
					okc = b == ex.base && k == ex.k && sameValue(bv, base0)
					detail = fmt.Sprintf("%s(%s%+d)", alts[0].kind, b, k)
				} else if len(alts) > 0 {
					detail = alts[0].kind
				}
				r.check(okc, rule, key, p.instrPos(rc.call), fmt.Sprintf("%s at %s%+d", ex.kind, ex.base, ex.k), fmt.Sprintf("creator #%d of %s is %s, its definition needs %s(%s%+d) on the same date value", i, name, detail, ex.kind, ex.base, ex.k))
				if okc && name == "Pause" && i == 0 {
					// pause keeps writing for as long as it runs: the day it works on is fixed when
					// the command starts, not re-read from the clock at every write
					if bc, isCall := bv.(*ssa.Call); isCall {
						r.check(bc.Parent() == run, rule, "Pause:date-once", p.instrPos(bc), "the target date is read from the clock once, when the command starts", "the target date of pause is re-read from the clock inside a closure that runs at every periodic write: after midnight a different record is selected")
					}
				}
				if okc && ex.kind == "ForNewRecord" {
					p.checkShouldTotalSource(r, rule, name, run, alts[0].where.(ssa.CallInstruction))
				}
			}
		}
	}
}

// checkShouldTotalSource: the AdditionalData given to NewReconcilerForNewRecord receives the
// configured default should-total (and, for create, the --should flag first).
func (p *Prog) checkShouldTotalSource(r *Report, rule, name string, run *ssa.Function, c ssa.CallInstruction) {
	key := name + ":new-record:should-total"
	ad := strip(c.Common().Args[2])
	u, ok := ad.(*ssa.UnOp)
	if !ok || u.Op != token.MUL {
		r.undecided(rule, key, p.instrPos(c), "the additional data of the new record is not a local variable")
		return
	}
	cell := cellOf(u.X)
	if cell == nil {
		r.undecided(rule, key, p.instrPos(c), "the additional data of the new record is not a local variable")
		return
	}
	fromConfig := false
	for _, f := range withAnons(run) {
		eachInstr(f, func(in ssa.Instruction) {
			st, ok := in.(*ssa.Store)
			if !ok {
				return
			}
			fa, ok := st.Addr.(*ssa.FieldAddr)
			if !ok || fieldName(fa) != "ShouldTotal" || cellOf(fa.X) != cell {
				return
			}
			if f == run || f.Parent() == nil {
				return // the literal's own initialisation (in Run or in a helper that builds the data)
			}
			// the closure is passed to <config>.DefaultShouldTotal.Unwrap(...)
			for _, mc := range closureUses(f.Parent(), f) {
				for _, ref := range *mc.(*ssa.MakeClosure).Referrers() {
					call, ok := ref.(ssa.CallInstruction)
					if !ok {
						continue
					}
					if g := staticCallee(call); g != nil && strings.HasPrefix(originFn(g).Name(), "Unwrap") && len(call.Common().Args) == 2 {
						if _, fld := fieldLoad(call.Common().Args[0]); fld == "DefaultShouldTotal" {
							// stored value is the closure's parameter
							if len(f.Params) == 1 && strip(st.Val) == ssa.Value(f.Params[0]) {
								fromConfig = true
							}
							// when the default is conditional, the condition is "the data has no
							// should-total yet" — the very field, or the value it was built with
							for _, g := range guardsOf(call.Block()) {
								x, isNil, isN := nilFact(g)
								if !isN || typeNameOf(x.Type()) != "ShouldTotal" {
									continue
								}
								same := false
								if fa2, isFA := fieldAddrOfLoad(x); isFA && fieldName(fa2) == "ShouldTotal" && cellOf(fa2.X) == cell {
									same = true
								}
								eachInstr(run, func(in2 ssa.Instruction) {
									if st2, isS := in2.(*ssa.Store); isS {
										if fa3, isF := st2.Addr.(*ssa.FieldAddr); isF && fieldName(fa3) == "ShouldTotal" && cellOf(fa3.X) == cell && sameValue(st2.Val, x) {
											same = true
										}
									}
								})
								r.check(same && isNil, rule, key+":default-guard", p.instrPos(call), "the default applies exactly when the data carries no should-total", name+" decides about the configured default should-total by testing something other than the should-total the new record is given (an alias flag would be overridden by the default)")
							}
						}
					}
				}
			}
		})
	}
	r.check(fromConfig, rule, key, p.instrPos(c), "a new record receives the configured default should-total", name+" creates records without the configured default should-total")
}

// ruleP17StopFallback: the +24h of stop is applied only when the fallback chose yesterday's record.
func ruleP17StopFallback(p *Prog, r *Report) {
	const rule = "P17-stop-fallback"
	run := p.method("klog/app/cli", "Stop", "Run")
	if !r.anchorFn(rule, run, "cli.(*Stop).Run") {
		return
	}
	n := 0
	for _, f := range withAnons(run) {
		eachInstr(f, func(in ssa.Instruction) {
			c, ok := in.(ssa.CallInstruction)
			if !ok {
				return
			}
			name, recv, args, _ := methodCallOf(c)
			if name != "Plus" || typeNameOf(recv.Type()) != "Time" || len(args) != 1 {
				return
			}
			n++
			key := fmt.Sprintf("%s:Plus#%d", fnName(f), n)
			mins, okd := p.durationMinutes(args[0])
			r.check(okd && mins.isConst() && mins.C == 1440, rule, key+":amount", p.instrPos(c), "shift is +1440 minutes", "the shift for yesterday's record is not +1440 minutes")
			auto, yest := false, false
			for _, g := range guardsOf(c.Block()) {
				if automaticGuard(g) {
					auto = true
				}
				if a, b, ok := dateEqGuard(g); ok && g.Pol {
					// reconciler.Record.Date() == date.PlusDays(-1)
					for _, pr := range [][2]ssa.Value{{a, b}, {b, a}} {
						nm, _, _, _ := methodCall(pr[0])
						kind, _, k := p.dateDesc(pr[1])
						if nm == "Date" && kind == "atdate" && k == -1 {
							yest = true
						}
					}
				}
			}
			r.check(auto && yest, rule, key+":guard", p.instrPos(c), "+24h only when the fallback is active and the chosen record is yesterday's", "the +24h shift is not restricted to the case where yesterday's record was chosen by the automatic fallback")
		})
	}
	if n == 0 {
		r.bad(rule, "shift", p.pos(run.Pos()), "stop never shifts the time for yesterday's record")
	}
	// order and condition of the fallback creator
	p.creatorsRule(r, "Stop")
	// WasAutomatic() is true only when neither --date nor --time was given
	wa := p.method("klog/app/cli/util", "AtDateAndTimeArgs", "WasAutomatic")
	if wa == nil && p.automaticInline(run) {
		// the test written out in stop itself (checked where it guards the fallback)
		r.ok(rule, "WasAutomatic#inline", p.pos(run.Pos()), "automatic means: neither --date nor --time given (written out in stop)")
	} else if r.anchorFn(rule, wa, "WasAutomatic") {
		for i, ret := range returnsOf(wa) {
			alts, ok := truthAlts(retResult(ret, 0), 0)
			good := ok && len(alts) > 0
			for _, alt := range alts {
				hasDate, hasTime := false, false
				for _, g := range alt {
					if x, isNil, ok := nilFact(g); ok && isNil {
						switch tag, _ := fieldTagOfLoad(x); tag {
						case "date":
							hasDate = true
						case "time":
							hasTime = true
						}
					}
				}
				if !hasDate || !hasTime {
					good = false
				}
			}
			r.check(good, rule, fmt.Sprintf("WasAutomatic#%d", i), p.instrPos(ret), "automatic means: neither --date nor --time given", "WasAutomatic() can be true although --date or --time was given")
		}
	}
}

// stepClosures returns the closures passed as variadic reconcile steps.
func stepClosures(rc reconCall) ([]*ssa.Function, bool) {
	if rc.steps == nil {
		return nil, true
	}
	elems, ok := sliceLitElems(rc.steps)
	if !ok {
		// a single Reconcile passed through a parameter (pause's doReconcile)
		return nil, false
	}
	var out []*ssa.Function
	for _, e := range elems {
		f := funcLiteral(e)
		if f == nil {
			return nil, false
		}
		out = append(out, f)
	}
	return out, true
}

// reconcilerCalls lists the calls of methods of *reconciling.Reconciler made on the closure's
// parameter, that are returned by the closure.
type recCall struct {
	name string
	args []ssa.Value
	call ssa.CallInstruction
	ret  *ssa.Return
}

func returnedReconcilerCalls(f *ssa.Function) ([]recCall, []*ssa.Return) {
	var out []recCall
	var other []*ssa.Return
	for _, ret := range returnsOf(f) {
		if len(ret.Results) != 1 {
			continue
		}
		name, recv, args, c := methodCall(retResult(ret, 0))
		// the reconciler the step is given: its (only) parameter of that type — the first one of
		// a closure, the one after the receiver when the step is a method of a handler struct
		var recParam ssa.Value
		for _, prm := range f.Params {
			if typeNameOf(prm.Type()) == "Reconciler" {
				recParam = prm
			}
		}
		if c != nil && recParam != nil && strip(recv) == recParam && typeNameOf(recv.Type()) == "Reconciler" {
			out = append(out, recCall{name, args, c, ret})
		} else {
			other = append(other, ret)
		}
	}
	return out, other
}

func ruleP04Steps(p *Prog, r *Report) {
	const rule = "P04-steps"
	mut, _, _ := p.mutatingCommands()
	atTime := p.method("klog/app/cli/util", "AtDateAndTimeArgs", "AtTime")
	if !r.anchorFn(rule, atTime, "AtTime") {
		return
	}
	var isCmdTime func(v ssa.Value) bool
	cmdTimeDepth := 0
	isCmdTime = func(v ssa.Value) bool {
		// the command's time: result 0 of AtTime(now, config) (possibly through the variable it is
		// stored in), or that time moved to another day with Plus (the shift itself is P17's business)
		v = strip(v)
		if n, recv, _, c := methodCall(v); n == "Plus" && c != nil && recv != nil {
			if _, idx := callOf(v); idx == 0 {
				return isCmdTime(recv)
			}
		}
		// chosen between the time and the shifted time in a local variable
		if ph, isPhi := v.(*ssa.Phi); isPhi && cmdTimeDepth < 6 {
			cmdTimeDepth++
			defer func() { cmdTimeDepth-- }()
			for _, e := range ph.Edges {
				if !isCmdTime(e) {
					return false
				}
			}
			return len(ph.Edges) > 0
		}
		// carried in a field of a handler struct that is filled in one place
		if iv, ok := fieldInitValue(v); ok && cmdTimeDepth < 6 {
			cmdTimeDepth++
			defer func() { cmdTimeDepth-- }()
			return isCmdTime(iv)
		}
		if u, ok := v.(*ssa.UnOp); ok && u.Op == token.MUL {
			if cell := cellOf(u.X); cell != nil {
				for _, s := range storesTo(cell) {
					if _, ok := isCallTo(s.val, atTime, 0); ok {
						return true
					}
				}
			}
		}
		_, ok := isCallTo(v, atTime, 0)
		return ok
	}
	timeCell := func(v ssa.Value) *ssa.Alloc {
		if u, ok := strip(v).(*ssa.UnOp); ok && u.Op == token.MUL {
			return cellOf(u.X)
		}
		return nil
	}
	optField := func(v ssa.Value) string {
		tag, _ := fieldTagOfLoad(v)
		if tag == "" {
			// handed to a step constructor as a parameter and captured there
			tag, _ = fieldTagOfLoad(deref(v))
		}
		return tag
	}
	summaryCall := func(v ssa.Value) bool {
		c, idx := callOf(v)
		if c == nil || idx != 0 {
			return false
		}
		f := staticCallee(c)
		return f != nil && fnBase(f) == "Summary" && typeNameOf(f.Signature.Recv().Type()) == "SummaryArgs"
	}
	// every non-step return of a closure must be a non-nil error (an early failure)
	failing := func(name string, f *ssa.Function, others []*ssa.Return) {
		for i, ret := range others {
			r.check(p.nilnessAt(ret.Block(), retResult(ret, 0), 0) == nnNonNil, rule, fmt.Sprintf("%s:%s:early-return#%d", name, fnName(f), i), p.instrPos(ret), "a return without a reconciler step is a failure", "a step closure may return nil without having applied its step")
		}
	}
	for _, name := range []string{"Track", "Start", "Stop", "Switch"} {
		run := mut[name]
		if run == nil {
			continue
		}
		calls := findReconcileCalls(run)
		if len(calls) != 1 {
			continue // reported by P04-creators
		}
		cls, ok := stepClosures(calls[0])
		if !ok {
			r.undecided(rule, name+":steps", p.instrPos(calls[0].call), "the steps of %s are not closure literals", name)
			continue
		}
		wantN := map[string]int{"Track": 1, "Start": 1, "Stop": 1, "Switch": 2}[name]
		if len(cls) != wantN {
			r.bad(rule, name+":steps", p.instrPos(calls[0].call), "%s passes %d steps, its definition needs %d", name, len(cls), wantN)
			continue
		}
		var switchCell *ssa.Alloc
		for si, cl := range cls {
			rcs, others := returnedReconcilerCalls(cl)
			failing(name, cl, others)
			key := fmt.Sprintf("%s:step#%d", name, si)
			if len(rcs) == 0 {
				r.bad(rule, key, p.pos(cl.Pos()), "step %d of %s does not return the result of a reconciler operation", si, name)
				continue
			}
			for _, rc := range rcs {
				switch {
				case name == "Track":
					ok := rc.name == "AppendEntry" && len(rc.args) == 1 && optField(rc.args[0]) == "Entry"
					r.check(ok, rule, key, p.instrPos(rc.call), "AppendEntry(the ENTRY argument)", "track does not append exactly its ENTRY argument")
				case name == "Start" || (name == "Switch" && si == 1):
					ok := rc.name == "StartOpenRange" && len(rc.args) == 3 && isCmdTime(rc.args[0]) && summaryCall(rc.args[2])
					r.check(ok, rule, key, p.instrPos(rc.call), "StartOpenRange(command time, _, SummaryArgs.Summary(...))", "the open range is not started with the command's time and the summary selected by the summary flags")
					if name == "Switch" {
						c := timeCell(rc.args[0])
						same := (c != nil && c == switchCell) || (switchCell == nil && false)
						if c == nil && switchCell == nil {
							same = true // both are the SSA value itself (checked by isCmdTime)
						}
						if !same && c != nil && switchCell != nil {
							// each step built by its own constructor, which captures its own
							// parameter: the same when both were handed the same value
							a, b := storesTo(c), storesTo(switchCell)
							if len(a) == 1 && len(b) == 1 && (strip(a[0].val) == strip(b[0].val) || sameValue(a[0].val, b[0].val)) {
								same = true
							}
						}
						r.check(same && len(storesToExcludingInit(c, atTime)) == 0, rule, key+":same-time", p.instrPos(rc.call), "switch starts the new range at the very time it closed the old one", "switch does not start the new range with the same, unmodified time value it closed the old one with")
					}
				case name == "Stop" || (name == "Switch" && si == 0):
					ok := rc.name == "CloseOpenRange" && len(rc.args) == 3 && isCmdTime(rc.args[0])
					if name == "Stop" {
						ok = ok && optField(rc.args[2]) == "summary"
					} else {
						ok = ok && isNilConst(rc.args[2])
						switchCell = timeCell(rc.args[0])
					}
					r.check(ok, rule, key, p.instrPos(rc.call), "CloseOpenRange(command time, _, summary)", "the open range is not closed with the command's time (and, for stop, its --summary)")
				}
			}
		}
	}
	// pause: initial step and loop step
	if run := mut["Pause"]; run != nil {
		nInit, nLoop := 0, 0
		cands := withAnons(run)
		// a step written as a method of the command and passed as a method value
		for _, f := range withAnons(run) {
			eachInstr(f, func(in ssa.Instruction) {
				if mc, ok := in.(*ssa.MakeClosure); ok {
					if t := boundTarget(mc.Fn.(*ssa.Function)); t != nil && t != mc.Fn && t.Signature.Recv() != nil {
						cands = append(cands, t)
					}
				}
			})
		}
		for _, f := range cands {
			np := len(f.Params)
			if f.Signature.Recv() != nil {
				np--
			}
			if np != 1 || typeNameOf(f.Params[len(f.Params)-1].Type()) != "Reconciler" {
				continue
			}
			rcs, others := returnedReconcilerCalls(f)
			failing("Pause", f, others)
			for _, rc := range rcs {
				key := fmt.Sprintf("Pause:%s:%s", fnName(f), rc.name)
				switch rc.name {
				case "AppendPause":
					nInit++
					okA := len(rc.args) == 2 && optField(rc.args[0]) == "summary"
					// second argument: !opt.NoAppendTags
					if okA {
						u, isNot := strip(rc.args[1]).(*ssa.UnOp)
						okA = isNot && u.Op == token.NOT && optField(u.X) == "no-tags"
					}
					neg := false
					for _, g := range guardsOf(rc.ret.Block()) {
						if optField(g.Cond) == "extend" && !g.Pol {
							neg = true
						}
					}
					r.check(okA && neg, rule, key, p.instrPos(rc.call), "without --extend: AppendPause(--summary, !--no-tags)", "the initial pause step is not AppendPause(summary, !no-tags) under !--extend")
				case "ExtendPause":
					mins, okd := p.durationMinutes(rc.args[0])
					ext := false
					for _, g := range guardsOf(rc.ret.Block()) {
						if optField(g.Cond) == "extend" && g.Pol {
							ext = true
						}
					}
					if ext {
						nInit++
						r.check(okd && mins.isConst() && mins.C == 0, rule, key+":initial", p.instrPos(rc.call), "with --extend: ExtendPause(0m)", "the initial --extend step does not extend by zero minutes")
					} else {
						nLoop++
						r.check(okd && !mins.isConst(), rule, key+":loop", p.instrPos(rc.call), "loop step: ExtendPause(variable amount) — amount decided by P04-pause-arith", "the loop step extends by a constant amount")
					}
				default:
					r.bad(rule, key, p.instrPos(rc.call), "pause applies an unexpected reconciler operation %s", rc.name)
				}
			}
		}
		r.check(nInit == 2 && nLoop == 1, rule, "Pause:steps", p.pos(run.Pos()), "pause has AppendPause / ExtendPause(0) initial steps and one loop step", fmt.Sprintf("pause has %d initial and %d loop steps (expected 2 and 1)", nInit, nLoop))
	}
	r.floor(rule, 8)
}

func storesToExcludingInit(c *ssa.Alloc, init *ssa.Function) []storeSite {
	if c == nil {
		return nil
	}
	var out []storeSite
	for _, s := range storesTo(c) {
		if _, ok := isCallTo(s.val, init, 0); ok {
			continue
		}
		out = append(out, s)
	}
	return out
}

func ruleP04PauseArith(p *Prog, r *Report) {
	const rule = "P04-pause-arith"
	run := p.method("klog/app/cli", "Pause", "Run")
	diff := p.fn("klog/app/cli", "diffInMinutes")
	if !r.anchorFn(rule, run, "cli.(*Pause).Run") {
		return
	}
	// (a.Unix() - b.Unix()) / 60 — in the helper diffInMinutes(a, b), or written out where the
	// elapsed minutes are needed
	minuteDiff := func(v ssa.Value) (a, b ssa.Value, ok bool) {
		v = strip(v)
		if cv, isConv := v.(*ssa.Convert); isConv {
			v = strip(cv.X)
		}
		q, isBin := v.(*ssa.BinOp)
		if !isBin || q.Op != token.QUO {
			return nil, nil, false
		}
		if k, isK := constInt(q.Y); !isK || k != 60 {
			return nil, nil, false
		}
		num := strip(q.X)
		if cv, isConv := num.(*ssa.Convert); isConv {
			num = strip(cv.X)
		}
		sub, isSub := num.(*ssa.BinOp)
		if !isSub || sub.Op != token.SUB {
			return nil, nil, false
		}
		n1, r1, _, _ := methodCall(sub.X)
		n2, r2, _, _ := methodCall(sub.Y)
		if n1 != "Unix" || n2 != "Unix" || r1 == nil || r2 == nil {
			return nil, nil, false
		}
		return r1, r2, true
	}
	var elapsed ssa.Value // the elapsed minutes as the loop computes them
	var elapsedAt ssa.Instruction
	var a0, a1 ssa.Value
	var loop *ssa.Function
	if diff != nil {
		for _, ret := range returnsOf(diff) {
			a, b, ok := minuteDiff(retResult(ret, 0))
			ok = ok && strip(a) == ssa.Value(diff.Params[0]) && strip(b) == ssa.Value(diff.Params[1])
			r.check(ok, rule, "diffInMinutes", p.instrPos(ret), "diffInMinutes(a,b) = (a.Unix() - b.Unix()) / 60", "diffInMinutes is not (first.Unix() - second.Unix()) / 60")
		}
		// the loop closure: the one that calls diffInMinutes
		for _, f := range withAnons(run) {
			if len(callsTo(f, diff)) > 0 {
				loop = f
			}
		}
		if loop == nil {
			r.bad(rule, "loop", p.pos(run.Pos()), "the pause loop does not measure elapsed minutes with diffInMinutes")
			return
		}
		dc0 := callsTo(loop, diff)[0]
		elapsed, elapsedAt = dc0.Value(), dc0
		a0, a1 = dc0.Common().Args[0], dc0.Common().Args[1]
	} else {
		for _, f := range withAnons(run) {
			eachInstr(f, func(in ssa.Instruction) {
				v, isV := in.(ssa.Value)
				if !isV {
					return
				}
				if _, isQ := in.(*ssa.BinOp); !isQ {
					return
				}
				if a, b, ok := minuteDiff(v); ok {
					loop, elapsed, elapsedAt, a0, a1 = f, v, in, a, b
				}
			})
		}
		if loop == nil {
			r.undecided(rule, "loop", p.pos(run.Pos()), "neither diffInMinutes nor a written-out (a.Unix() - b.Unix()) / 60 was found in the pause loop")
			return
		}
		r.ok(rule, "diffInMinutes", p.instrPos(elapsedAt), "elapsed minutes = (a.Unix() - b.Unix()) / 60, written out in the loop")
	}
	dc := elapsedAt
	n0, _, _, _ := methodCall(a0)
	okArgs := n0 == "Now"
	var startCell *ssa.Alloc
	if u, ok := strip(a1).(*ssa.UnOp); ok && u.Op == token.MUL {
		startCell = cellOf(u.X)
	}
	if startCell != nil {
		sts := storesTo(startCell)
		okArgs = okArgs && len(sts) == 1 && sts[0].in.Parent() == run
		if len(sts) == 1 {
			n, _, _, _ := methodCall(sts[0].val)
			okArgs = okArgs && n == "Now"
		}
	} else {
		okArgs = false
	}
	r.check(okArgs, rule, "loop:elapsed", p.instrPos(dc), "elapsed = diffInMinutes(Now(), start) with start assigned once before the loop", "elapsed minutes are not measured from a start time that is fixed before the loop")
	// find the ExtendPause step closure inside loop and its amount
	ext := p.method("klog/parser/reconciling", "Reconciler", "ExtendPause")
	var extCall ssa.CallInstruction
	var extFn *ssa.Function
	for _, f := range withAnons(loop) {
		if cs := callsTo(f, ext); len(cs) == 1 {
			extCall, extFn = cs[0], f
		}
	}
	if extCall == nil {
		r.bad(rule, "loop:extend", p.pos(loop.Pos()), "the pause loop does not call ExtendPause")
		return
	}
	mins, okd := p.durationMinutes(extCall.Common().Args[1])
	if !okd {
		r.bad(rule, "loop:amount", p.instrPos(extCall), "the extension amount is not built with NewDuration")
		return
	}
	// resolve the leaf: inc is a free variable of the closure bound to a value of loop
	incPoly := newPoly()
	for k, c := range mins.Terms {
		v := mins.leafV[k]
		if fv, ok := strip(v).(*ssa.FreeVar); ok {
			if b := freeVarBinding(fv); b != nil {
				incPoly.addScaled(polyOf(b), c)
				continue
			}
		}
		if u, ok := strip(v).(*ssa.UnOp); ok && u.Op == token.MUL {
			if cell := cellOf(u.X); cell != nil && len(storesTo(cell)) == 1 {
				incPoly.addScaled(polyOf(storesTo(cell)[0].val), c)
				continue
			}
		}
		incPoly.Terms[k] += c
		incPoly.leafV[k] = v
	}
	incPoly.C += mins.C
	// expected: -(diff - captured) = -diff + captured
	var capturedKey, diffKey string
	for k := range incPoly.Terms {
		lv := strip(incPoly.leafV[k])
		if cv, isConv := lv.(*ssa.Convert); isConv && strip(cv.X) == elapsed {
			lv = elapsed
		}
		if strings.Contains(k, "diffInMinutes") || incPoly.leafV[k] == elapsed || lv == elapsed {
			diffKey = k
		} else {
			capturedKey = k
		}
	}
	okAmt := len(incPoly.Terms) == 2 && incPoly.C == 0 && diffKey != "" && capturedKey != "" && incPoly.Terms[diffKey] == -1 && incPoly.Terms[capturedKey] == 1
	r.check(okAmt, rule, "loop:amount", p.instrPos(extCall), "ExtendPause(-(elapsed - captured)) minutes: "+incPoly.String(), "the pause is not extended by minus the not-yet-captured minutes; amount = "+incPoly.String())
	_ = extFn
	// captured += inc on the path that extends: a store to the captured cell of captured + inc
	var capCell *ssa.Alloc
	if capturedKey != "" {
		if u, ok := strip(incPoly.leafV[capturedKey]).(*ssa.UnOp); ok && u.Op == token.MUL {
			capCell = cellOf(u.X)
		}
	}
	if capCell == nil {
		r.bad(rule, "loop:captured", p.pos(loop.Pos()), "the captured-minutes counter is not a variable")
		return
	}
	okCap := false
	nCapStores := 0
	var mc ssa.Instruction
	for _, in := range closureUses(loop, extFn) {
		mc = in
	}
	for _, s := range storesTo(capCell) {
		if s.in.Parent() == run {
			if k, ok := constInt(s.val); ok && k == 0 {
				continue // initialisation
			}
		}
		nCapStores++
		pl := polyOf(s.val)
		// captured + (diff - captured_at_inc) = diff  — i.e. the new value equals elapsed, or captured+inc symbolically
		exp := newPoly()
		exp.Terms[capturedKey] = 1
		exp.addScaled(incPoly, -1) // captured - (-(diff-captured)) = captured + diff - captured
		if pl.equal(exp) || (len(pl.Terms) == 1 && pl.Terms[diffKey] == 1 && pl.C == 0) {
			if mc != nil && s.in.Parent() == loop && mc.Block() == s.in.Block() || (mc != nil && mc.Block().Dominates(s.in.Block())) {
				okCap = true
			}
		}
	}
	r.check(okCap && nCapStores == 1, rule, "loop:captured", p.pos(capCell.Pos()), "captured minutes are increased by exactly the extension, on the extending path", "the captured-minutes counter is not increased by exactly the extension on the path that extends the pause")
	r.floor(rule, 4)
}

func ruleP04Reject(p *Prog, r *Report) {
	const rule = "P04-reject"
	// In StartOpenRange, CloseOpenRange, AppendPause, ExtendPause: the domain rejection returns
	// an error before any store to r.lines (or call that stores to it).
	type spec struct {
		name    string
		wantNeg bool // reject when findOpenRangeIndex() == -1 (true) or != -1 (false)
	}
	find := p.method("klog/parser/reconciling", "Reconciler", "findOpenRangeIndex")
	if !r.anchorFn(rule, find, "findOpenRangeIndex") {
		return
	}
	mutators := p.lineMutators()
	for _, s := range []spec{{"StartOpenRange", false}, {"CloseOpenRange", true}, {"AppendPause", true}, {"ExtendPause", true}} {
		f := p.method("klog/parser/reconciling", "Reconciler", s.name)
		if !r.anchorFn(rule, f, s.name) {
			continue
		}
		fc := callsTo(f, find)
		if len(fc) < 1 {
			r.bad(rule, s.name+":check", p.pos(f.Pos()), "%s does not look for the open range", s.name)
			continue
		}
		idx := fc[0].Value()
		// find the If comparing idx with -1
		var iff *ssa.If
		rejectSucc := -1
		for _, ref := range *idx.Referrers() {
			b, ok := ref.(*ssa.BinOp)
			if !ok {
				continue
			}
			k, isK := constInt(b.Y)
			if !isK {
				continue
			}
			// "no open range" is index -1, however the comparison is spelled
			var absentOnTrue, known bool
			switch {
			case (b.Op == token.EQL && k == -1) || (b.Op == token.LSS && k == 0) || (b.Op == token.LEQ && k == -1):
				absentOnTrue, known = true, true
			case (b.Op == token.NEQ && k == -1) || (b.Op == token.GEQ && k == 0) || (b.Op == token.GTR && k == -1):
				absentOnTrue, known = false, true
			}
			if !known {
				continue
			}
			for _, r2 := range *b.Referrers() {
				if i2, ok := r2.(*ssa.If); ok {
					iff = i2
					// reject edge: "absent" when wantNeg, "present" otherwise
					if absentOnTrue == s.wantNeg {
						rejectSucc = 0
					} else {
						rejectSucc = 1
					}
				}
			}
		}
		if iff == nil {
			r.bad(rule, s.name+":check", p.instrPos(fc[0]), "%s does not test whether an open range exists", s.name)
			continue
		}
		rej := iff.Block().Succs[rejectSucc]
		msg := ""
		{
			msg = rejectComplete(rej, func(ret *ssa.Return) string {
				if p.nilnessAt(ret.Block(), retResult(ret, 0), 0) != nnNonNil {
					return "returns nil on the rejecting edge"
				}
				return ""
			})
		}
		what := "no open range"
		if !s.wantNeg {
			what = "an open range already exists"
		}
		r.check(msg == "", rule, s.name+":rejects", p.instrPos(iff), what+" -> error on every path", s.name+" does not reject when "+what+": "+msg)
		// no line mutation before the test or on the reject edge
		okOrder := true
		eachInstr(f, func(in ssa.Instruction) {
			if !p.mutatesLines(in, mutators) {
				return
			}
			if !iff.Block().Dominates(in.Block()) || in.Block() == iff.Block() || rej.Dominates(in.Block()) {
				okOrder = false
			}
		})
		r.check(okOrder, rule, s.name+":order", p.instrPos(iff), "no line is modified before the rejection test", s.name+" modifies lines before (or despite) the rejection test")
	}
	// CloseOpenRange: EndOpenRange error -> error before mutation
	f := p.method("klog/parser/reconciling", "Reconciler", "CloseOpenRange")
	if f != nil {
		var eor ssa.CallInstruction
		eachInstr(f, func(in ssa.Instruction) {
			if c, ok := in.(ssa.CallInstruction); ok {
				if n, _, _, _ := methodCallOf(c); n == "EndOpenRange" {
					eor = c
				}
			}
		})
		if eor == nil {
			r.bad(rule, "CloseOpenRange:domain", p.pos(f.Pos()), "CloseOpenRange does not apply EndOpenRange to the record (end before start would not be rejected)")
		} else {
			e := resultOf(eor, 0)
			if e == nil {
				r.bad(rule, "CloseOpenRange:domain", p.instrPos(eor), "the error of EndOpenRange is discarded")
			} else {
				msg, how := p.checkForwarding(f, e, lastResultIdx)
				okOrder := true
				eachInstr(f, func(in ssa.Instruction) {
					if p.mutatesLines(in, mutators) && !knownNil(in.Block(), e) {
						okOrder = false
					}
				})
				r.check(msg == "" && okOrder, rule, "CloseOpenRange:domain", p.instrPos(eor), "EndOpenRange error -> error, lines only modified on its nil edge ("+how+")", "an EndOpenRange error does not abort before the text is modified: "+msg)
			}
		}
	}
	r.floor(rule, 9)
}

// lineMutators: methods of *Reconciler that (transitively) store to r.lines or to fields of
// its elements.
func (p *Prog) lineMutators() map[*ssa.Function]bool {
	out := map[*ssa.Function]bool{}
	rt := p.namedType("klog/parser/reconciling", "Reconciler")
	if rt == nil {
		return out
	}
	var methods []*ssa.Function
	for i := 0; i < rt.NumMethods(); i++ {
		if f := p.prog.FuncValue(rt.Method(i)); f != nil {
			methods = append(methods, f)
		}
	}
	direct := func(f *ssa.Function) bool {
		found := false
		for _, g := range withAnons(f) {
			eachInstr(g, func(in ssa.Instruction) {
				if p.storesToLines(in) {
					found = true
				}
			})
		}
		return found
	}
	for _, f := range methods {
		if direct(f) {
			out[f] = true
		}
	}
	for changed := true; changed; {
		changed = false
		for _, f := range methods {
			if out[f] {
				continue
			}
			for _, g := range withAnons(f) {
				eachInstr(g, func(in ssa.Instruction) {
					if c, ok := in.(ssa.CallInstruction); ok {
						if h := staticCallee(c); h != nil && out[originFn(h)] && !out[f] {
							out[f] = true
							changed = true
						}
					}
				})
			}
		}
	}
	return out
}

// storesToLines: a store to the `lines` field of a Reconciler or to a field of an element of it.
func (p *Prog) storesToLines(in ssa.Instruction) bool {
	st, ok := in.(*ssa.Store)
	if !ok {
		return false
	}
	addr := st.Addr
	for i := 0; i < 4; i++ {
		switch x := addr.(type) {
		case *ssa.FieldAddr:
			if typeNameOf(x.X.Type()) == "Reconciler" && fieldName(x) == "lines" {
				return true
			}
			addr = x.X
		case *ssa.IndexAddr:
			// element of r.lines ?
			if u, ok := x.X.(*ssa.UnOp); ok && u.Op == token.MUL {
				if fa, ok := u.X.(*ssa.FieldAddr); ok && typeNameOf(fa.X.Type()) == "Reconciler" && fieldName(fa) == "lines" {
					return true
				}
			}
			return false
		default:
			return false
		}
	}
	return false
}

func (p *Prog) mutatesLines(in ssa.Instruction, mutators map[*ssa.Function]bool) bool {
	if p.storesToLines(in) {
		return true
	}
	if c, ok := in.(ssa.CallInstruction); ok {
		if h := staticCallee(c); h != nil && mutators[originFn(h)] {
			return true
		}
	}
	return false
}

// fieldAddrOfLoad: v is a load *(&x.f); returns the FieldAddr.
func fieldAddrOfLoad(v ssa.Value) (*ssa.FieldAddr, bool) {
	u, ok := plainDeref(v).(*ssa.UnOp)
	if !ok || u.Op != token.MUL {
		if u2, ok2 := v.(*ssa.UnOp); ok2 && u2.Op == token.MUL {
			u, ok = u2, true
		} else {
			return nil, false
		}
	}
	fa, ok := u.X.(*ssa.FieldAddr)
	return fa, ok
}

// automaticGuard: the guard says "date and time were both chosen automatically" — the accessor
// WasAutomatic() is true, or the same test written out (--date and --time both absent).
func automaticGuard(gd Guard) bool {
	c := deref(gd.Cond)
	if n, _, _, _ := methodCall(c); n == "WasAutomatic" {
		return gd.Pol
	}
	if !gd.Pol {
		return false
	}
	return automaticValue(c)
}

func automaticValue(c ssa.Value) bool {
	alts, ok := truthAlts(c, 0)
	if !ok || len(alts) != 1 {
		return false
	}
	hasDate, hasTime := false, false
	for _, g := range alts[0] {
		if x, isNil, ok := nilFact(g); ok && isNil {
			switch tag, _ := fieldTagOfLoad(x); tag {
			case "date":
				hasDate = true
			case "time":
				hasTime = true
			}
		}
	}
	return hasDate && hasTime
}

// automaticInline: run keeps that written-out test in a boolean of its own.
func (p *Prog) automaticInline(run *ssa.Function) bool {
	found := false
	eachInstr(run, func(in ssa.Instruction) {
		if ph, ok := in.(*ssa.Phi); ok && automaticValue(ph) {
			if bt, isB := ph.Type().Underlying().(*types.Basic); isB && bt.Kind() == types.Bool {
				found = true
			}
		}
	})
	return found
}
