package main

// C05 — a mutating command either leaves a valid file or leaves the file untouched.

import (
	"fmt"
	"go/constant"
	"go/token"
	"go/types"
	"sort"
	"strings"

	"golang.org/x/tools/go/ssa"
)

func init() {
	register(&propSpec{
		id:    "C05",
		level: "proof",
		explain: "Control/data-flow obligations over the type-checked SSA program, all of which must be discharged: " +
			"(P05-writers) from the Run methods of the mutating commands the only reachable OS file-mutation primitive is the one behind the validated write call in Context.ReconcileFile; " +
			"(P05-guarded-write) that write is dominated by the nil edges of target retrieval, Parse and ApplyReconciler, writes the AllSerialised field of that very result to the file that was read, and success is returned only on the write's nil-error edge; " +
			"(P05-apply-abort) every reconcile step's error is tested in the same iteration and aborts with (nil, error) before MakeResult; " +
			"(P05-makeresult-guard) MakeResult returns a result only on the errs==nil edge of re-parsing exactly the text it returns; " +
			"(P05-write-result) WriteToFile reports failure exactly when the OS write failed; (P05-propagate) every caller up to the command's Run returns the error; " +
			"(P05-exit) exit status 0 only on the nil edge of the command error, all error codes are >= 1 and reach os.Exit. " +
			"(P05-after-write) after the write the command can only succeed: it returns nil, and nothing it still runs (printing the record, the warnings) reaches a panic that C06 leaves open — on the pinned tree one such panic IS reachable (duration.Plus overflow in the more-than-24-hours warning, a consequence of the recorded defect D4), which the check reports as a known finding of this property: the statement is proven for every run in which the sum of a record's entries does not overflow. " +
			"Not covered: atomicity of os.WriteFile itself and I/O faults; that the parser used for validation is the specification's (C01/C07).",
		rules: []ruleFn{ruleP05Writers, ruleP05GuardedWrite, ruleP05ApplyAbort, ruleP05MakeResultGuard, ruleP05WriteResult, ruleP05Propagate, ruleP05Exit, ruleP05ToInt},
		trusted: []string{
			"call-graph soundness: VTA seeded by CHA with CHA fallback for interface invokes without VTA callee; no reflection/cgo/unsafe writes in module code (checked: module imports neither unsafe nor C)",
			"go/ssa dominator tree",
			"os.WriteFile either fails or writes the bytes given (atomicity and I/O faults out of scope)",
		},
	})
}

// isFileMutationPrim: OS primitives that can create, change or delete files or run programs.
func isFileMutationPrim(f *ssa.Function) bool {
	if f == nil {
		return false
	}
	pkg := ""
	if f.Pkg != nil {
		pkg = f.Pkg.Pkg.Path()
	} else if f.Object() != nil && f.Object().Pkg() != nil {
		pkg = f.Object().Pkg().Path()
	}
	name := fnBase(f)
	recv := ""
	if f.Signature.Recv() != nil {
		recv = typeNameOf(f.Signature.Recv().Type())
	}
	switch pkg {
	case "os":
		if recv == "" {
			switch name {
			case "WriteFile", "Create", "OpenFile", "Rename", "Remove", "RemoveAll", "Truncate", "Mkdir", "MkdirAll",
				"MkdirTemp", "CreateTemp", "Chmod", "Chown", "Lchown", "Chtimes", "Link", "Symlink", "StartProcess", "CopyFS":
				return true
			}
		}
		if recv == "File" {
			switch name {
			case "Write", "WriteString", "WriteAt", "Truncate", "ReadFrom", "Chmod", "Chown", "WriteTo":
				return true
			}
		}
		if recv == "Root" {
			return true
		}
	case "io/ioutil":
		switch name {
		case "WriteFile", "TempFile", "TempDir":
			return true
		}
	case "os/exec":
		switch name {
		case "Command", "CommandContext", "Run", "Start", "Output", "CombinedOutput":
			return true
		}
	case "syscall", "golang.org/x/sys/unix":
		switch name {
		case "Open", "Openat", "Write", "Pwrite", "Rename", "Renameat", "Unlink", "Unlinkat", "Mkdir", "Mkdirat", "Truncate",
			"Ftruncate", "Rmdir", "Link", "Symlink", "Chmod", "Creat", "Exec", "ForkExec", "Syscall", "Syscall6", "RawSyscall":
			return true
		}
	}
	return false
}

// stdoutWrite: (*os.File).Write* on os.Stdout / os.Stderr is terminal output, not a file edit.
func isStdStreamWrite(site ssa.CallInstruction) bool {
	cc := site.Common()
	if len(cc.Args) == 0 {
		return false
	}
	u, ok := strip(cc.Args[0]).(*ssa.UnOp)
	if !ok || u.Op != token.MUL {
		return false
	}
	g, ok := u.X.(*ssa.Global)
	return ok && g.Pkg.Pkg.Path() == "os" && (g.Name() == "Stdout" || g.Name() == "Stderr")
}

type primSite struct {
	site ssa.CallInstruction
	prim *ssa.Function
}

// primSitesIn lists the direct file-mutation primitive call sites of f.
func primSitesIn(f *ssa.Function) []primSite {
	var out []primSite
	eachInstr(f, func(in ssa.Instruction) {
		c, ok := in.(ssa.CallInstruction)
		if !ok {
			return
		}
		if g := staticCallee(c); isFileMutationPrim(g) && !isStdStreamWrite(c) {
			out = append(out, primSite{c, g})
		}
	})
	return out
}

// mutatingCommands: command structs whose Run reaches an implementation of Context.ReconcileFile.
func (p *Prog) mutatingCommands() (mut map[string]*ssa.Function, readOnly map[string]*ssa.Function, other map[string]*ssa.Function) {
	mut, readOnly, other = map[string]*ssa.Function{}, map[string]*ssa.Function{}, map[string]*ssa.Function{}
	rfImpls := p.implsOf("klog/app", "Context", "ReconcileFile")
	riImpls := p.implsOf("klog/app", "Context", "ReadInputs")
	for name, run := range p.commandRuns() {
		r := p.reach([]*ssa.Function{run}, nil, nil)
		isMut, isRO := false, false
		for _, f := range rfImpls {
			if r.has(f) {
				isMut = true
			}
		}
		for _, f := range riImpls {
			if r.has(f) {
				isRO = true
			}
		}
		switch {
		case isMut:
			mut[name] = run
		case isRO:
			readOnly[name] = run
		default:
			other[name] = run
		}
	}
	return
}

func sortedKeys[V any](m map[string]V) []string {
	var ks []string
	for k := range m {
		ks = append(ks, k)
	}
	sort.Strings(ks)
	return ks
}

// writeSitesIn: call sites in f (incl. nested closures) from which a file-mutation primitive
// is reachable (the callee is, or can reach, a primitive).
func (p *Prog) writeSitesIn(f *ssa.Function) []ssa.CallInstruction {
	var out []ssa.CallInstruction
	// call sites of f itself (and its closures) through which a file mutation is reachable;
	// helpers are not expanded here: the call of the helper is the site
	for _, g := range plainWithAnons(f) {
		eachInstr(g, func(in ssa.Instruction) {
			c, ok := in.(ssa.CallInstruction)
			if !ok {
				return
			}
			if _, isGo := in.(*ssa.Go); isGo {
				// still a call site
			}
			// a transparent helper is looked into: its own sites stand for the call
			if h := rawStaticCallee(c); h != nil && isHelper(h) {
				if inner := p.writeSitesIn(originFn(h)); len(inner) > 0 {
					out = append(out, inner...)
					return
				}
			}
			for _, callee := range p.calleesAt(c) {
				if isFileMutationPrim(callee) && !isStdStreamWrite(c) {
					out = append(out, c)
					return
				}
				if !p.inMod(callee) {
					continue
				}
				r := p.reach([]*ssa.Function{callee}, nil, nil)
				for _, h := range r.moduleFuncs() {
					if len(primSitesIn(h)) > 0 {
						out = append(out, c)
						return
					}
				}
			}
		})
	}
	return out
}

func ruleP05Writers(p *Prog, r *Report) {
	const rule = "P05-writers"
	mut, ro, _ := p.mutatingCommands()
	r.note("mutating commands (reach Context.ReconcileFile): %v; read-only commands (reach Context.ReadInputs): %v", sortedKeys(mut), sortedKeys(ro))
	if len(mut) < 6 {
		r.undecided(rule, "anchor:mutating-commands", "-", "found %d mutating commands %v, expected at least track/start/stop/switch/pause/create", len(mut), sortedKeys(mut))
		return
	}
	impls := p.implsOf("klog/app", "Context", "ReconcileFile")
	if len(impls) == 0 {
		r.undecided(rule, "anchor:ReconcileFile", "-", "no implementation of app.Context.ReconcileFile found")
		return
	}
	guarded := map[ssa.CallInstruction]bool{}
	for _, f := range impls {
		for _, s := range p.writeSitesIn(f) {
			guarded[s] = true
		}
	}
	var roots []*ssa.Function
	for _, k := range sortedKeys(mut) {
		roots = append(roots, mut[k])
	}
	// Traverse everything the mutating commands can reach, with the validated write call
	// sites of ReconcileFile removed: no file-mutation primitive may remain reachable.
	rc := p.reach(roots, func(c ssa.CallInstruction) bool { return guarded[c] }, nil)
	nSites := 0
	for _, f := range rc.moduleFuncs() {
		for _, ps := range primSitesIn(f) {
			nSites++
			r.bad(rule, fnName(f)+"->"+ps.prim.String(), p.instrPos(ps.site),
				"file-mutation primitive %s is reachable from a mutating command outside the validated write of ReconcileFile; call path: %s",
				ps.prim, strings.Join(rc.path(f), " -> "))
		}
	}
	// And through the guarded sites, which primitives are reached (evidence + floor).
	rall := p.reach(roots, nil, nil)
	nGuardedPrims := 0
	for _, f := range rall.moduleFuncs() {
		for _, ps := range primSitesIn(f) {
			if !rc.has(f) || true {
				if rc.has(f) {
					continue
				}
				nGuardedPrims++
				r.ok(rule, fnName(f)+"->"+ps.prim.String(), p.instrPos(ps.site),
					"primitive %s reachable from mutating commands only through the validated write call(s) of ReconcileFile; path: %s", ps.prim, strings.Join(rall.path(f), " -> "))
			}
		}
	}
	if nGuardedPrims == 0 {
		r.undecided(rule, "floor:no-write", "-", "no file write is reachable from the mutating commands at all (call graph incomplete?)")
	}
	// Inventory of all primitive sites in the module (who-may-write), for the evidence.
	for _, f := range p.srcFns {
		for _, ps := range primSitesIn(f) {
			if !rall.has(f) {
				r.ok(rule, "inventory:"+fnName(f)+"->"+ps.prim.String(), p.instrPos(ps.site), "primitive site not reachable from any mutating command (%d functions reachable)", len(rall.funcs))
			}
		}
	}
	r.ok(rule, "reach:mutating-commands", p.pos(roots[0].Pos()), "%d functions reachable from %d mutating commands with the %d guarded write site(s) removed; %d unguarded primitive sites", len(rc.funcs), len(roots), len(guarded), nSites)
}

// fieldLoad: if v is a load of base.field (through a pointer), return base and the field name.
func fieldLoad(v ssa.Value) (ssa.Value, string) {
	v = strip(v)
	switch x := v.(type) {
	case *ssa.UnOp:
		if x.Op != token.MUL {
			return nil, ""
		}
		if fa, ok := x.X.(*ssa.FieldAddr); ok {
			st := fa.X.Type().Underlying().(*types.Pointer).Elem().Underlying().(*types.Struct)
			return structBase(fa.X), st.Field(fa.Field).Name()
		}
	case *ssa.Field:
		st := x.X.Type().Underlying().(*types.Struct)
		return structBase(x.X), st.Field(x.Field).Name()
	case *ssa.Call:
		// a getter: a module method that only returns a field of its receiver
		if fld := getterField(x); fld != "" {
			return structBase(x.Call.Args[0]), fld
		}
	}
	return nil, ""
}

// getterField: c calls a module function with one parameter whose whole body is
// `return param.field`; returns the field's name.
func getterField(c *ssa.Call) string {
	if c.Call.IsInvoke() || len(c.Call.Args) != 1 || gp == nil {
		return ""
	}
	g := rawStaticCallee(c)
	if g == nil || !gp.inMod(g) || len(g.Blocks) != 1 || len(g.Params) != 1 {
		return ""
	}
	var ret *ssa.Return
	for _, in := range g.Blocks[0].Instrs {
		switch x := in.(type) {
		case *ssa.FieldAddr, *ssa.Field, *ssa.DebugRef:
		case *ssa.UnOp:
			if x.Op != token.MUL {
				return ""
			}
		case *ssa.Alloc:
			// value receiver spilled into a local
		case *ssa.Store:
			if _, isP := x.Val.(*ssa.Parameter); !isP {
				return ""
			}
		case *ssa.Return:
			ret = x
		default:
			return ""
		}
	}
	if ret == nil || len(ret.Results) != 1 {
		return ""
	}
	was := ht.enabled
	ht.enabled = false
	defer func() { ht.enabled = was }()
	base, fld := fieldLoad(ret.Results[0])
	if fld == "" || base == nil {
		return ""
	}
	if b := plainDeref(base); b != ssa.Value(g.Params[0]) {
		// value receiver: the base is the local copy of the parameter
		if a, isA := base.(*ssa.Alloc); !isA || len(storesTo(a)) != 1 || storesTo(a)[0].val != ssa.Value(g.Params[0]) {
			return ""
		}
	}
	return fld
}

// structBase: a struct that is a local copy of a value loaded from somewhere (a by-value
// parameter of a transparent helper, `t := xs[i]`) stands for the place it was loaded from.
func structBase(b ssa.Value) ssa.Value {
	for i := 0; i < 4; i++ {
		if a, ok := b.(*ssa.Alloc); ok {
			sts := storesTo(a)
			if len(sts) != 1 {
				return b
			}
			v := strip(sts[0].val)
			if u, isU := v.(*ssa.UnOp); isU && u.Op == token.MUL {
				b = u.X
				continue
			}
			return b
		}
		if _, isStruct := b.Type().Underlying().(*types.Struct); isStruct {
			v := strip(b)
			if u, isU := v.(*ssa.UnOp); isU && u.Op == token.MUL {
				b = u.X
				continue
			}
		}
		return b
	}
	return b
}

// errResultIndex returns the index of the last result if it is an error-like interface.
func errResultIndex(sig *types.Signature) int {
	n := sig.Results().Len()
	if n == 0 {
		return -1
	}
	t := sig.Results().At(n - 1).Type()
	if isErrorLike(t) {
		return n - 1
	}
	return -1
}

func isErrorLike(t types.Type) bool {
	if !types.IsInterface(t) {
		return false
	}
	it := t.Underlying().(*types.Interface)
	for i := 0; i < it.NumMethods(); i++ {
		m := it.Method(i)
		if m.Name() == "Error" {
			sig := m.Type().(*types.Signature)
			if sig.Params().Len() == 0 && sig.Results().Len() == 1 {
				return true
			}
		}
	}
	return false
}

func ruleP05GuardedWrite(p *Prog, r *Report) {
	const rule = "P05-guarded-write"
	impls := p.implsOf("klog/app", "Context", "ReconcileFile")
	apply := p.fn("klog/app", "ApplyReconciler")
	if !r.anchorFn(rule, apply, "app.ApplyReconciler") {
		return
	}
	if len(impls) == 0 {
		r.undecided(rule, "anchor:ReconcileFile", "-", "no implementation of app.Context.ReconcileFile found")
		return
	}
	for _, f := range impls {
		key := fnName(f)
		sites := p.writeSitesIn(f)
		if len(sites) == 0 {
			r.undecided(rule, key+":write", p.pos(f.Pos()), "no call that can reach a file write found in %s", key)
			continue
		}
		// anchors inside f
		var parse, retrieve ssa.CallInstruction
		eachInstr(f, func(in ssa.Instruction) {
			c, ok := in.(ssa.CallInstruction)
			if !ok {
				return
			}
			if c.Common().IsInvoke() && c.Common().Method.Name() == "Parse" && typeNameOf(c.Common().Value.Type()) == "Parser" {
				parse = c
			}
			if callee := staticCallee(c); callee != nil && fnBase(callee) == "RetrieveTargetFile" {
				retrieve = c
			}
			if c.Common().IsInvoke() && c.Common().Method.Name() == "RetrieveTargetFile" {
				retrieve = c
			}
		})
		applyCalls := callsTo(f, apply)
		if parse == nil || retrieve == nil || len(applyCalls) != 1 {
			r.undecided(rule, key+":anchors", p.pos(f.Pos()), "expected one Parse invoke, one RetrieveTargetFile call and one ApplyReconciler call in %s (found parse=%v retrieve=%v apply=%d)", key, parse != nil, retrieve != nil, len(applyCalls))
			continue
		}
		ac := applyCalls[0]
		target := resultOf(retrieve, 0)
		tErr := resultOf(retrieve, 1)
		pErrs := resultOf(parse, 2)
		aRes := resultOf(ac, 0)
		aErr := resultOf(ac, 1)
		if target == nil || tErr == nil || pErrs == nil || aRes == nil || aErr == nil {
			r.bad(rule, key+":results", p.pos(f.Pos()), "a result of RetrieveTargetFile/Parse/ApplyReconciler is discarded (target=%v tErr=%v parseErrs=%v result=%v applyErr=%v)", target != nil, tErr != nil, pErrs != nil, aRes != nil, aErr != nil)
			continue
		}
		// Parse must read the contents of the very target
		okParseArg := false
		if c, idx := callOf(parse.Common().Args[0]); c != nil && idx == 0 && c.Common().IsInvoke() && c.Common().Method.Name() == "Contents" && sameValue(c.Common().Value, target) {
			okParseArg = true
		}
		r.check(okParseArg, rule, key+":parse-arg", p.instrPos(parse), "Parse is applied to target.Contents() of the retrieved target", "the text parsed is not the contents of the retrieved target file")
		// ApplyReconciler consumes the records and blocks of that Parse
		okApplyArgs := len(ac.Common().Args) >= 2 && sameValue(ac.Common().Args[0], resultOf(parse, 0)) && sameValue(ac.Common().Args[1], resultOf(parse, 1))
		r.check(okApplyArgs, rule, key+":apply-args", p.instrPos(ac), "ApplyReconciler receives the records and blocks of that Parse", "ApplyReconciler does not receive the records/blocks returned by Parse")
		for i, s := range sites {
			skey := fmt.Sprintf("%s:write#%d", key, i)
			b := s.Block()
			r.check(knownNil(b, tErr), rule, skey+":target-ok", p.instrPos(s), "write dominated by the nil edge of the target-retrieval error", "write is reachable although retrieving the target failed")
			r.check(knownNil(b, pErrs), rule, skey+":parse-ok", p.instrPos(s), "write dominated by the errs==nil edge of Parse", "write is reachable although the target file has parse errors")
			r.check(knownNil(b, aErr), rule, skey+":apply-ok", p.instrPos(s), "write dominated by the nil edge of ApplyReconciler's error", "write is reachable although ApplyReconciler failed")
			// data argument and file argument
			dataOK, fileOK, nStr := false, false, 0
			for _, a := range s.Common().Args {
				if bt, ok := a.Type().Underlying().(*types.Basic); ok && bt.Info()&types.IsString != 0 {
					nStr++
					base, fld := fieldLoad(a)
					if base != nil && fld == "AllSerialised" && sameValue(base, aRes) {
						dataOK = true
					}
				}
				if sameValue(a, target) {
					fileOK = true
				}
			}
			r.check(dataOK && nStr == 1, rule, skey+":data", p.instrPos(s), "bytes written are the AllSerialised field of ApplyReconciler's result", "bytes written are not (only) result.AllSerialised of the validated result")
			r.check(fileOK, rule, skey+":file", p.instrPos(s), "file written is the retrieved target", "file written is not the retrieved target file")
		}
		// returns
		if len(sites) != 1 {
			r.undecided(rule, key+":single-write", p.pos(f.Pos()), "%d write sites in %s; the return discipline is only decided for a single write", len(sites), key)
			continue
		}
		s := sites[0]
		wErr := resultOf(s, errResultIndex(s.Common().Signature()))
		if wErr == nil {
			r.bad(rule, key+":write-err", p.instrPos(s), "the error result of the write is discarded")
			continue
		}
		after := reachableFrom(s.Block(), nil)
		for i, ret := range returnsOf(f) {
			rkey := fmt.Sprintf("%s:return#%d", key, i)
			if len(ret.Results) != 2 {
				continue
			}
			res, e := retResult(ret, 0), retResult(ret, 1)
			en := p.nilnessAt(ret.Block(), e, 0)
			if en != nnNonNil {
				// reports success (or may): must be after a successful write, returning that result
				ok := s.Block().Dominates(ret.Block()) && knownNil(ret.Block(), wErr) && isNilConst(e)
				r.check(ok, rule, rkey+":success", p.instrPos(ret), "success return dominated by the write's nil-error edge", "a return that may report success is not dominated by a successful write")
				r.check(sameValue(res, aRes), rule, rkey+":result", p.instrPos(ret), "returns the validated result", "success return does not return ApplyReconciler's result")
			} else {
				// reports failure: must not come after a write unless the write itself failed
				if after[ret.Block()] && s.Block() != ret.Block() || (s.Block() == ret.Block()) {
					ok := knownNonNil(ret.Block(), wErr)
					r.check(ok, rule, rkey+":failure-after-write", p.instrPos(ret), "failure after the write only on the write's own error edge", "failure is reported on a path on which the file has already been written")
				} else {
					r.ok(rule, rkey+":failure-before-write", p.instrPos(ret), "failure return not reachable from the write")
				}
				r.check(isNilConst(res), rule, rkey+":nil-result", p.instrPos(ret), "failure returns a nil result", "failure return carries a non-nil result")
			}
		}
	}
	r.floor(rule, 8)
}

// rejectComplete: starting at block s (entered only when the guard holds), every path stays in
// the region dominated by s and ends in a return that satisfies pred. Returns a description of
// the first offending construct, or "".
func rejectComplete(s *ssa.BasicBlock, pred func(*ssa.Return) string) string {
	// inside a boolean predicate helper (transparent.go): the region must answer with one
	// constant, and the caller's branch on that answer is the region that must reject
	if fn := s.Parent(); isHelper(fn) && fn.Signature.Results().Len() == 1 {
		if bt, isB := fn.Signature.Results().At(0).Type().Underlying().(*types.Basic); isB && bt.Kind() == types.Bool {
			if next, msg := predicateContinuation(s); msg != "" {
				return msg
			} else if next != nil {
				return rejectComplete(next, pred)
			}
		}
	}
	region := reachableFrom(s, nil)
	nRet := 0
	for b := range region {
		if !s.Dominates(b) {
			return fmt.Sprintf("the path continues at block %d (%s) instead of returning", b.Index, b.Comment)
		}
		if len(b.Instrs) > 0 {
			switch t := b.Instrs[len(b.Instrs)-1].(type) {
			case *ssa.Return:
				nRet++
				if msg := pred(t); msg != "" {
					return msg
				}
			}
		}
	}
	if nRet == 0 {
		return "no return on this edge"
	}
	return ""
}

// predicateContinuation: every path from s (a block of a boolean helper, dominated by s) returns
// the same constant; returns the caller's block that is entered exactly on that answer.
func predicateContinuation(s *ssa.BasicBlock) (*ssa.BasicBlock, string) {
	fn := s.Parent()
	var answer *bool
	for b := range reachableFrom(s, nil) {
		if !s.Dominates(b) {
			return nil, "the path continues inside " + fn.Name() + " instead of answering"
		}
		if ret, ok := b.Instrs[len(b.Instrs)-1].(*ssa.Return); ok {
			v, isK := constBool(retResult(ret, 0))
			if !isK {
				return nil, fn.Name() + " does not answer with a constant on this path"
			}
			if answer != nil && *answer != v {
				return nil, fn.Name() + " answers both true and false on this path"
			}
			answer = &v
		}
	}
	site := helperCallSite(fn)
	if answer == nil || site == nil || site.Value() == nil {
		return nil, "the answer of " + fn.Name() + " is not used by a caller"
	}
	// the If in the caller that tests the call's value (possibly negated)
	for _, ref := range *site.Value().Referrers() {
		pol := true
		cur := ref
		for {
			if u, ok := cur.(*ssa.UnOp); ok && u.Op == token.NOT && len(*u.Referrers()) == 1 {
				pol = !pol
				cur = (*u.Referrers())[0]
				continue
			}
			break
		}
		if iff, ok := cur.(*ssa.If); ok {
			// successor taken when the call's value == *answer
			if *answer == pol {
				return iff.Block().Succs[0], ""
			}
			return iff.Block().Succs[1], ""
		}
	}
	return nil, "the answer of " + fn.Name() + " is not tested by its caller"
}

// errorEdge finds the successor block entered exactly when v != nil; ok=false if v is never
// tested (directly) in fn.
func errorEdge(fn *ssa.Function, v ssa.Value) (nonNil *ssa.BasicBlock, nilB *ssa.BasicBlock, ok bool) {
	ts := nilTestsOf(fn, v)
	if len(ts) != 1 {
		return nil, nil, false
	}
	t := ts[0]
	b := t.If.Block()
	nilB = b.Succs[t.NilSucc]
	nonNil = b.Succs[1-t.NilSucc]
	return nonNil, nilB, true
}

func ruleP05ApplyAbort(p *Prog, r *Report) {
	const rule = "P05-apply-abort"
	f := p.fn("klog/app", "ApplyReconciler")
	mk := p.method("klog/parser/reconciling", "Reconciler", "MakeResult")
	if !r.anchorFn(rule, f, "app.ApplyReconciler") || !r.anchorFn(rule, mk, "reconciling.(*Reconciler).MakeResult") {
		return
	}
	// steps: dynamic calls of a value of named type reconciling.Reconcile
	var steps []ssa.CallInstruction
	stepChain := map[ssa.CallInstruction][]ssa.CallInstruction{}
	for _, vi := range virtualInstrs(f) {
		c, ok := vi.in.(ssa.CallInstruction)
		if !ok || c.Common().IsInvoke() || staticCallee(c) != nil {
			continue
		}
		if typeNameOf(c.Common().Value.Type()) == "Reconcile" {
			steps = append(steps, c)
			stepChain[c] = vi.chain
		}
	}
	mkCalls := callsTo(f, mk)
	// the tail of ApplyReconciler extracted into a helper that runs the steps and forwards
	// MakeResult's two results: the helper call stands for MakeResult in ApplyReconciler
	var inner ssa.CallInstruction
	var recArg ssa.Value
	if len(mkCalls) == 0 {
		if vcs := virtualCallsTo(f, mk); len(vcs) == 1 && len(vcs[0].chain) == 1 {
			in, hc := vcs[0].call, vcs[0].chain[0]
			h := in.Parent()
			fwd, okFwd := 0, h.Signature.Results().Len() == 2 && hc.Parent() == f
			for _, ret := range returnsOf(h) {
				if len(ret.Results) != 2 {
					okFwd = false
					continue
				}
				if a, b := resultOf(in, 0), resultOf(in, 1); a != nil && b != nil && sameValue(retResult(ret, 0), a) && sameValue(retResult(ret, 1), b) {
					fwd++
					continue
				}
				if !isNilConst(retResult(ret, 0)) || p.nilnessAt(ret.Block(), retResult(ret, 1), 0) != nnNonNil {
					okFwd = false
				}
			}
			if par, isPar := in.Common().Args[0].(*ssa.Parameter); okFwd && fwd == 1 && isPar {
				if i := paramIndex(h, par); i >= 0 && i < len(hc.Common().Args) {
					inner, recArg = in, hc.Common().Args[i]
					mkCalls = []ssa.CallInstruction{hc}
				}
			}
		}
	}
	if len(steps) == 0 || len(mkCalls) != 1 {
		r.undecided(rule, "anchors", p.pos(f.Pos()), "expected >=1 dynamic Reconcile step call and exactly one MakeResult call (found %d, %d)", len(steps), len(mkCalls))
		return
	}
	m := mkCalls[0]
	mRes, mErr := resultOf(m, 0), resultOf(m, 1)
	failRet := func(ret *ssa.Return) string {
		if len(ret.Results) != 2 {
			return "unexpected result arity"
		}
		if !isNilConst(retResult(ret, 0)) {
			return "returns a non-nil result on an error path at " + p.instrPos(ret)
		}
		if p.nilnessAt(ret.Block(), retResult(ret, 1), 0) != nnNonNil {
			return "does not return a non-nil error on an error path at " + p.instrPos(ret)
		}
		return ""
	}
	afterMk := reachableFrom(m.Block(), nil)
	for i, st := range steps {
		key := fmt.Sprintf("step#%d", i)
		e := resultOf(st, 0)
		if e == nil {
			r.bad(rule, key+":tested", p.instrPos(st), "the error of a reconcile step is discarded")
			continue
		}
		if chain := stepChain[st]; len(chain) == 1 && st.Parent() != f {
			// the steps run in a helper: a failing step makes the helper return a non-nil error at
			// once, and the caller aborts on the helper's error
			h := st.Parent()
			hNonNil, _, okH := errorEdge(h, e)
			if !okH {
				r.bad(rule, key+":tested", p.instrPos(st), "the error of a reconcile step is not tested for nil right after the call")
				continue
			}
			msgH := rejectComplete(hNonNil, func(ret *ssa.Return) string {
				if len(ret.Results) == 0 || p.nilnessAt(ret.Block(), retResult(ret, len(ret.Results)-1), 0) != nnNonNil {
					return "the helper goes on (or returns without an error) after a failing step at " + p.instrPos(ret)
				}
				return ""
			})
			hc := chain[0]
			he := resultOf(hc, errResultIndex(hc.Common().Signature()))
			msg := msgH
			if msg == "" {
				if he == nil {
					msg = "the error of " + calleeName(hc) + " is discarded"
				} else if fNonNil, _, okF := errorEdge(f, he); !okF {
					msg = "the error of " + calleeName(hc) + " is not tested"
				} else {
					msg = rejectComplete(fNonNil, failRet)
				}
			}
			r.check(msg == "", rule, key+":aborts", p.instrPos(st), "a failing step returns (nil, error) on every path", "a failing step does not abort: "+msg)
			var ok2 bool
			vcall{call: hc, chain: chain}.run(func() {
				ok2 = len(st.Common().Args) == 1 && sameValue(st.Common().Args[0], m.Common().Args[0])
			})
			if inner != nil && hc == m {
				// steps and MakeResult in the same helper
				ok2 = len(st.Common().Args) == 1 && st.Common().Args[0] == inner.Common().Args[0]
				r.check(!reachableFrom(inner.Block(), nil)[st.Block()], rule, key+":before-makeresult", p.instrPos(st), "step is not reachable after MakeResult", "a step can run after MakeResult was computed")
				r.check(ok2, rule, key+":same-reconciler", p.instrPos(st), "step and MakeResult operate on the same reconciler", "MakeResult is not called on the reconciler the steps modified")
				continue
			}
			r.check(!afterMk[hc.Block()], rule, key+":before-makeresult", p.instrPos(st), "step is not reachable after MakeResult", "a step can run after MakeResult was computed")
			r.check(ok2, rule, key+":same-reconciler", p.instrPos(st), "step and MakeResult operate on the same reconciler", "MakeResult is not called on the reconciler the steps modified")
			continue
		}
		nonNil, _, ok := errorEdge(f, e)
		if !ok {
			r.bad(rule, key+":tested", p.instrPos(st), "the error of a reconcile step is not tested for nil right after the call")
			continue
		}
		msg := rejectComplete(nonNil, failRet)
		r.check(msg == "", rule, key+":aborts", p.instrPos(st), "a failing step returns (nil, error) on every path", "a failing step does not abort: "+msg)
		// the step runs before MakeResult and on the same reconciler
		r.check(!afterMk[st.Block()] || st.Block() == m.Block() && false, rule, key+":before-makeresult", p.instrPos(st), "step is not reachable after MakeResult", "a step can run after MakeResult was computed")
		r.check(len(st.Common().Args) == 1 && sameValue(st.Common().Args[0], m.Common().Args[0]), rule, key+":same-reconciler", p.instrPos(st), "step and MakeResult operate on the same reconciler", "MakeResult is not called on the reconciler the steps modified")
		// MakeResult may only run when no step failed: every path from the step to MakeResult
		// passes the nil edge (implied by rejectComplete on the other edge).
	}
	if mRes == nil || mErr == nil {
		r.bad(rule, "makeresult:results", p.instrPos(m), "a result of MakeResult is discarded")
		return
	}
	nonNil, _, ok := errorEdge(f, mErr)
	if !ok {
		r.bad(rule, "makeresult:tested", p.instrPos(m), "MakeResult's error is not tested")
	} else {
		msg := rejectComplete(nonNil, failRet)
		r.check(msg == "", rule, "makeresult:aborts", p.instrPos(m), "a failing MakeResult returns (nil, error)", "a failing MakeResult does not abort: "+msg)
	}
	for i, ret := range returnsOf(f) {
		if len(ret.Results) != 2 || isNilConst(retResult(ret, 0)) {
			// failure-shaped return: must carry a non-nil error
			if len(ret.Results) == 2 {
				r.check(p.nilnessAt(ret.Block(), retResult(ret, 1), 0) == nnNonNil, rule, fmt.Sprintf("return#%d:nil-result-has-error", i), p.instrPos(ret), "a nil result is accompanied by a non-nil error", "returns (nil, nil): failure reported as success")
			}
			continue
		}
		key := fmt.Sprintf("return#%d", i)
		ok := sameValue(retResult(ret, 0), mRes) && knownNil(ret.Block(), mErr) && isNilConst(retResult(ret, 1))
		r.check(ok, rule, key+":success", p.instrPos(ret), "a non-nil result is MakeResult's, returned on its nil-error edge", "a non-nil result is returned that is not MakeResult's validated result on its nil-error edge")
	}
	// nil reconciler -> error before any step
	rec := m.Common().Args[0]
	if inner != nil {
		rec = recArg
	}
	if nonNilB, nilB, ok := errorEdge(f, rec); ok {
		_ = nonNilB
		msg := rejectComplete(nilB, failRet)
		r.check(msg == "", rule, "no-reconciler:aborts", p.pos(f.Pos()), "no eligible record -> (nil, error) before any step", "a nil reconciler does not abort: "+msg)
	} else {
		r.bad(rule, "no-reconciler:tested", p.pos(f.Pos()), "the reconciler chosen by the creators is not tested for nil")
	}
	r.floor(rule, 6)
}

func ruleP05MakeResultGuard(p *Prog, r *Report) {
	const rule = "P05-makeresult-guard"
	f := p.method("klog/parser/reconciling", "Reconciler", "MakeResult")
	if !r.anchorFn(rule, f, "reconciling.(*Reconciler).MakeResult") {
		return
	}
	var parse ssa.CallInstruction
	n := 0
	eachInstr(f, func(in ssa.Instruction) {
		c, ok := in.(ssa.CallInstruction)
		if !ok {
			return
		}
		if c.Common().IsInvoke() && c.Common().Method.Name() == "Parse" {
			parse = c
			n++
		} else if g := staticCallee(c); g != nil && fnBase(g) == "Parse" && g.Signature.Recv() != nil {
			parse = c
			n++
		}
	})
	if n != 1 {
		r.bad(rule, "reparse", p.pos(f.Pos()), "MakeResult does not re-parse the edited text exactly once (found %d Parse calls)", n)
		return
	}
	text := parse.Common().Args[len(parse.Common().Args)-1]
	errs := resultOf(parse, 2)
	if errs == nil {
		r.bad(rule, "reparse:errs", p.instrPos(parse), "the errors of the safeguard re-parse are discarded")
		return
	}
	r.ok(rule, "reparse", p.instrPos(parse), "safeguard re-parse found")
	// the parser used for the safeguard: the serial engine
	if c, idx := callOf(parse.Common().Value); c != nil && idx == 0 {
		if g := staticCallee(c); g != nil {
			r.ok(rule, "reparse:engine", p.instrPos(parse), "safeguard parser obtained from %s", fnName(g))
		}
	}
	nSucc := 0
	for i, ret := range returnsOf(f) {
		key := fmt.Sprintf("return#%d", i)
		if len(ret.Results) != 2 {
			continue
		}
		if isNilConst(retResult(ret, 0)) {
			r.check(p.nilnessAt(ret.Block(), retResult(ret, 1), 0) == nnNonNil, rule, key+":nil-result-has-error", p.instrPos(ret), "a nil result is accompanied by a non-nil error", "returns (nil, nil)")
			continue
		}
		nSucc++
		ok := knownNil(ret.Block(), errs) && isNilConst(retResult(ret, 1))
		r.check(ok, rule, key+":guarded", p.instrPos(ret), "result returned only on the errs==nil edge of the re-parse", "a result is returned although the re-parse reported errors (or it is not tested)")
		// AllSerialised of the returned struct is the parsed text
		a, isAlloc := strip(retResult(ret, 0)).(*ssa.Alloc)
		okText := false
		if isAlloc {
			for _, ref := range *a.Referrers() {
				fa, ok := ref.(*ssa.FieldAddr)
				if !ok {
					continue
				}
				st := a.Type().Underlying().(*types.Pointer).Elem().Underlying().(*types.Struct)
				if st.Field(fa.Field).Name() != "AllSerialised" {
					continue
				}
				for _, ref2 := range *fa.Referrers() {
					if s, ok := ref2.(*ssa.Store); ok && sameValue(s.Val, text) {
						okText = true
					}
				}
			}
		}
		r.check(okText, rule, key+":same-text", p.instrPos(ret), "AllSerialised is exactly the text that was re-parsed", "AllSerialised is not the text that was validated by the re-parse")
	}
	if nSucc == 0 {
		r.undecided(rule, "floor", p.pos(f.Pos()), "no success return found in MakeResult")
	}
	// on the errs != nil edge every path returns (nil, error)
	if nonNil, _, ok := errorEdge(f, errs); ok {
		msg := rejectComplete(nonNil, func(ret *ssa.Return) string {
			if !isNilConst(retResult(ret, 0)) || p.nilnessAt(ret.Block(), retResult(ret, 1), 0) != nnNonNil {
				return "does not return (nil, error) at " + p.instrPos(ret)
			}
			return ""
		})
		r.check(msg == "", rule, "reparse-errors:abort", p.instrPos(parse), "re-parse errors -> (nil, error) on every path", "re-parse errors do not abort: "+msg)
	} else {
		r.bad(rule, "reparse-errors:tested", p.instrPos(parse), "the errors of the re-parse are not tested")
	}
}

// checkForwarding decides, for the error value e produced in fn, that e is either returned as
// is, or tested with every path of the non-nil edge returning a non-nil error.
// Returns ("", how) when fine, (problem, "") otherwise.
func (p *Prog) checkForwarding(fn *ssa.Function, e ssa.Value, errIdxOf func(*ssa.Return) int) (string, string) {
	// an error that arises inside a transparent helper: it must be forwarded by the helper, and
	// the helper's error result by fn
	if inst, ok := e.(ssa.Instruction); ok && inst.Parent() != nil && inst.Parent() != fn {
		h := inst.Parent()
		top := h
		for top.Parent() != nil {
			top = top.Parent()
		}
		if top != fn && h == top && isHelper(h) {
			if msg, _ := p.checkForwarding(h, e, errIdxOf); msg != "" {
				return msg, ""
			}
			site := helperCallSite(h)
			if site == nil {
				return "the helper " + h.Name() + " has no unique call site", ""
			}
			ei := errResultIndex(site.Common().Signature())
			e2 := resultOf(site, ei)
			if ei < 0 || e2 == nil {
				return "the error result of " + h.Name() + " is discarded", ""
			}
			msg, how := p.checkForwarding(site.Parent(), e2, errIdxOf)
			return msg, how + " (through " + h.Name() + ")"
		}
	}
	// directly returned?
	direct := false
	for _, ret := range plainReturnsOf(fn) {
		i := errIdxOf(ret)
		if i >= 0 && i < len(ret.Results) && (sameValue(ret.Results[i], e) || sameValue(derefFlow(ret.Results[i]), e)) {
			if !knownNil(ret.Block(), e) {
				direct = true
			}
		}
	}
	ts := nilTestsOf(fn, e)
	if len(ts) == 0 {
		if direct {
			return "", "returned directly"
		}
		return "error is neither tested nor returned", ""
	}
	for _, t := range ts {
		b := t.If.Block()
		nonNil := b.Succs[1-t.NilSucc]
		msg := rejectComplete(nonNil, func(ret *ssa.Return) string {
			i := errIdxOf(ret)
			if i < 0 || i >= len(ret.Results) {
				return "return without error result"
			}
			if p.nilnessAt(ret.Block(), ret.Results[i], 0) != nnNonNil {
				return "returns a possibly-nil error on the failing edge at " + p.instrPos(ret)
			}
			return ""
		})
		if msg != "" {
			return msg, ""
		}
	}
	return "", "tested; non-nil edge returns the error on every path"
}

func lastResultIdx(ret *ssa.Return) int { return len(ret.Results) - 1 }

func ruleP05WriteResult(p *Prog, r *Report) {
	const rule = "P05-write-result"
	// The functions behind the validated write of ReconcileFile: every module function with a
	// direct file-mutation primitive that is reachable from that call site.
	var writers []*ssa.Function
	seenW := map[*ssa.Function]bool{}
	for _, impl := range p.implsOf("klog/app", "Context", "ReconcileFile") {
		for _, site := range p.writeSitesIn(impl) {
			for _, callee := range p.calleesAt(site) {
				rc := p.reach([]*ssa.Function{callee}, nil, nil)
				for _, h := range rc.moduleFuncs() {
					if len(primSitesIn(h)) > 0 && !seenW[h] {
						seenW[h] = true
						writers = append(writers, h)
					}
				}
			}
		}
	}
	if len(writers) == 0 {
		r.undecided(rule, "floor", "-", "no function with a file-write primitive is reachable from the validated write of ReconcileFile")
		return
	}
	oTrunc, haveTrunc := p.osConst("O_TRUNC")
	for _, f := range writers {
		key := fnName(f)
		if errResultIndex(f.Signature) < 0 {
			r.bad(rule, key+":sig", p.pos(f.Pos()), "%s writes a file but cannot report failure", key)
			continue
		}
		truncates := false
		// every fallible os-level call in the writer must have its error forwarded
		eachInstr(f, func(in ssa.Instruction) {
			c, ok := in.(ssa.CallInstruction)
			if !ok {
				return
			}
			g := staticCallee(c)
			if g == nil || pkgPathOfFn(g) != "os" && !(g.Signature.Recv() != nil && typePkgPath(g.Signature.Recv().Type()) == "os") {
				return
			}
			switch {
			case g.String() == "os.WriteFile", g.String() == "os.Create":
				truncates = true
			case g.String() == "os.OpenFile":
				if k, isK := constInt(c.Common().Args[1]); isK && haveTrunc && k&oTrunc != 0 {
					truncates = true
				}
			case g.String() == "(*os.File).Truncate":
				if k, isK := constInt(c.Common().Args[1]); isK && k == 0 {
					truncates = true
				}
			}
			ei := errResultIndex(c.Common().Signature())
			if ei < 0 {
				return
			}
			if _, isDefer := in.(*ssa.Defer); isDefer {
				return
			}
			ck := key + ":" + fnBase(g)
			e := resultOf(c, ei)
			if e == nil || len(*e.Referrers()) == 0 {
				if fnBase(g) == "Close" {
					r.ok(rule, ck, p.instrPos(c), "Close error not checked (data errors are reported by Write/Sync)")
					return
				}
				r.bad(rule, ck, p.instrPos(c), "the error of %s is discarded: a failed write is reported as success", g)
				return
			}
			msg, how := p.checkForwarding(f, e, lastResultIdx)
			r.check(msg == "", rule, ck+":failure-reported", p.instrPos(c), "failure of "+fnBase(g)+" is reported: "+how, "failure of "+fnBase(g)+" is not reported: "+msg)
			okNil := true
			for _, ret := range returnsOf(f) {
				if knownNil(ret.Block(), e) && !knownNonNilAny(ret.Block()) && isLastFallible(f, c) && p.nilnessAt(ret.Block(), ret.Results[len(ret.Results)-1], 0) != nnNil {
					okNil = false
				}
			}
			r.check(okNil, rule, ck+":success-reported", p.instrPos(c), "success is returned as nil", "a successful write is reported as failure")
		})
		r.check(truncates, rule, key+":replaces-content", p.pos(f.Pos()), "the write replaces the whole file (WriteFile / Create / O_TRUNC)", "the file is opened for writing without truncation: when the new text is shorter, the old tail stays on disk and the file no longer is the validated text")
	}
}

// osConst returns the value of an integer constant of package os in the analysed configuration.
func (p *Prog) osConst(name string) (int64, bool) {
	pk := p.all["os"]
	if pk == nil {
		return 0, false
	}
	c, ok := pk.Types.Scope().Lookup(name).(*types.Const)
	if !ok {
		return 0, false
	}
	v, exact := constant.Int64Val(c.Val())
	return v, exact
}

// knownNonNilAny is a placeholder for returns that are failures of another call.
func knownNonNilAny(b *ssa.BasicBlock) bool { return false }

// isLastFallible: c is the last fallible os call of f in program order along the dominator
// tree (the success return follows it).
func isLastFallible(f *ssa.Function, c ssa.CallInstruction) bool {
	last := true
	eachInstr(f, func(in ssa.Instruction) {
		d, ok := in.(ssa.CallInstruction)
		if !ok || d == c {
			return
		}
		if _, isDefer := in.(*ssa.Defer); isDefer {
			return
		}
		g := staticCallee(d)
		if g == nil || errResultIndex(d.Common().Signature()) < 0 {
			return
		}
		if pkgPathOfFn(g) != "os" && !(g.Signature.Recv() != nil && typePkgPath(g.Signature.Recv().Type()) == "os") {
			return
		}
		if c.Block().Dominates(d.Block()) && (c.Block() != d.Block() || instrIndex(c) < instrIndex(d)) {
			last = false
		}
	})
	return last
}

func ruleP05Propagate(p *Prog, r *Report) {
	const rule = "P05-propagate"
	// Sources: invokes of Context.ReconcileFile. A function that forwards the error result of a
	// source to its own error result becomes a source for its callers (fixpoint), up to the
	// command Run methods.
	type src struct {
		fn  *ssa.Function // enclosing function
		c   ssa.CallInstruction
		why string
	}
	forwarders := map[*ssa.Function]bool{}
	runs := map[*ssa.Function]bool{}
	for _, f := range p.commandRuns() {
		runs[f] = true
	}
	// a forwarding function literal handed to a module function as a callback (pause's periodic
	// update handed to WithRepeat): the call of that parameter is a source in the receiver
	cbParams := map[*ssa.Parameter]bool{}
	registerCallback := func(g *ssa.Function) {
		parent := g.Parent()
		if parent == nil {
			return
		}
		eachInstr(parent, func(in ssa.Instruction) {
			mc, ok := in.(*ssa.MakeClosure)
			if !ok || mc.Fn != ssa.Value(g) {
				return
			}
			for _, ref := range *mc.Referrers() {
				site, isCall := ref.(ssa.CallInstruction)
				if !isCall || site.Common().Value == ssa.Value(mc) {
					continue
				}
				w := rawStaticCallee(site)
				if w == nil || !p.inModFn(w) {
					continue
				}
				for i, a := range site.Common().Args {
					if a == ssa.Value(mc) && i < len(w.Params) {
						cbParams[w.Params[i]] = true
					}
				}
			}
		})
	}
	isSourceCall := func(c ssa.CallInstruction) bool {
		if c.Common().IsInvoke() && c.Common().Method.Name() == "ReconcileFile" {
			return true
		}
		if prm, ok := c.Common().Value.(*ssa.Parameter); ok && cbParams[prm] {
			return true
		}
		if g := funcLiteralOrStatic(c); g != nil && forwarders[originFn(g)] {
			return true
		}
		return false
	}
	checked := map[ssa.CallInstruction]bool{}
	for round := 0; round < 6; round++ {
		progress := false
		for _, f := range p.srcFns {
			if !strings.Contains(f.String(), "klog/app/cli") {
				continue
			}
			eachInstr(f, func(in ssa.Instruction) {
				c, ok := in.(ssa.CallInstruction)
				if !ok || checked[c] || !isSourceCall(c) {
					return
				}
				checked[c] = true
				progress = true
				key := fnName(f) + "<-" + calleeLabel(c)
				ei := errResultIndex(c.Common().Signature())
				e := resultOf(c, ei)
				if ei < 0 || e == nil {
					r.bad(rule, key, p.instrPos(c), "the error of a reconcile call is discarded")
					return
				}
				// the error may be stored into a captured cell (pause): use the cell's loads
				msg, how := p.checkForwardingThroughCell(f, e)
				r.check(msg == "", rule, key, p.instrPos(c), "reconcile error propagated: "+how, "reconcile error not propagated: "+msg)
				if errResultIndex(f.Signature) >= 0 && !runs[f] {
					forwarders[originFn(f)] = true
					registerCallback(f)
				}
			})
		}
		if !progress {
			break
		}
	}
	r.floor(rule, 9)
}

func funcLiteralOrStatic(c ssa.CallInstruction) *ssa.Function {
	if g := staticCallee(c); g != nil {
		return g
	}
	if c.Common().IsInvoke() {
		return nil
	}
	return funcLiteral(c.Common().Value)
}

func calleeLabel(c ssa.CallInstruction) string {
	if c.Common().IsInvoke() {
		return typeNameOf(c.Common().Value.Type()) + "." + c.Common().Method.Name()
	}
	if g := funcLiteralOrStatic(c); g != nil {
		return fnName(g)
	}
	if prm, ok := c.Common().Value.(*ssa.Parameter); ok {
		return "callback:" + prm.Name()
	}
	return "dynamic"
}

// checkForwardingThroughCell: like checkForwarding, but when e is stored into a variable
// cell (assignment to a captured variable), the test/return may use a load of that cell.
func (p *Prog) checkForwardingThroughCell(f *ssa.Function, e ssa.Value) (string, string) {
	msg, how := p.checkForwarding(f, e, lastResultIdx)
	if msg == "" {
		return msg, how
	}
	// stored into a cell?
	for _, ref := range *e.Referrers() {
		st, ok := ref.(*ssa.Store)
		if !ok || st.Val != e {
			continue
		}
		cell := cellOf(st.Addr)
		if cell == nil {
			continue
		}
		// find loads of the cell in f that follow the store in the same block or dominated blocks
		var loads []ssa.Value
		eachInstr(f, func(in ssa.Instruction) {
			if u, ok := in.(*ssa.UnOp); ok && u.Op == token.MUL && cellOf(u.X) == cell {
				if st.Block().Dominates(u.Block()) {
					loads = append(loads, u)
				}
			}
		})
		for _, l := range loads {
			if m2, h2 := p.checkForwarding(f, l, lastResultIdx); m2 == "" {
				return "", h2 + " (via variable)"
			}
		}
	}
	return msg, ""
}

func ruleP05Exit(p *Prog, r *Report) {
	const rule = "P05-exit"
	run := p.fn("klog/app/main", "Run")
	if !r.anchorFn(rule, run, "klog/app/main.Run") {
		return
	}
	// rErr: result of (*kong.Context).Run
	var kongRun ssa.CallInstruction
	eachInstr(run, func(in ssa.Instruction) {
		if c, ok := in.(ssa.CallInstruction); ok {
			if g := staticCallee(c); g != nil && fnBase(g) == "Run" && g.Signature.Recv() != nil && strings.Contains(g.String(), "kong.Context") {
				kongRun = c
			}
		}
	})
	if kongRun == nil {
		r.undecided(rule, "anchor:kong-run", p.pos(run.Pos()), "call of (*kong.Context).Run not found in main.Run")
		return
	}
	rErr := resultOf(kongRun, 0)
	if rErr == nil {
		r.bad(rule, "run-error", p.instrPos(kongRun), "the command's error is discarded")
		return
	}
	for i, ret := range expandReturns(run) {
		key := fmt.Sprintf("Run:return#%d", i)
		code := retResult(ret, 0)
		after := kongRun.Block().Dominates(blockIn(run, ret))
		if k, ok := constInt(code); ok && k == 0 {
			okk := after && knownNil(ret.Block(), rErr)
			r.check(okk, rule, key+":zero", p.instrPos(ret), "status 0 only on the nil edge of the command error", "status 0 is returned on a path where the command error is not known to be nil")
			continue
		}
		// non-zero status: must come with a non-nil error (main only exits when err != nil)
		if k, ok := constInt(code); ok {
			r.check(k >= 1, rule, key+":code", p.instrPos(ret), "constant non-zero status", "non-positive constant status")
		} else {
			// provenance: Code.ToInt()
			c, _ := callOf(code)
			okk := c != nil && staticCallee(c) != nil && fnBase(staticCallee(c)) == "ToInt"
			r.check(okk, rule, key+":code", p.instrPos(ret), "status is an app.Code converted with ToInt", "status is not derived from an app.Code")
		}
		if after {
			r.check(knownNonNil(ret.Block(), rErr) || !knownNil(ret.Block(), rErr), rule, key+":on-error-edge", p.instrPos(ret), "non-zero status not on the nil edge of the command error", "error status returned although the command succeeded")
		}
		nn := p.nilnessAt(ret.Block(), retResult(ret, 1), 0)
		r.check(nn == nnNonNil, rule, key+":err-nonnil", p.instrPos(ret), "a non-zero status is accompanied by a non-nil error (main exits only then)", "a non-zero status may be accompanied by a nil error, so main would exit 0")
	}
	// when rErr != nil, no return yields 0: the region of the non-nil edge
	for _, ret := range expandReturns(run) {
		if knownNonNil(ret.Block(), rErr) {
			if k, ok := constInt(retResult(ret, 0)); ok && k == 0 {
				r.bad(rule, "Run:error->zero", p.instrPos(ret), "status 0 on the command-error edge")
			}
		}
	}
	// all Code constants >= 1
	pk := p.pkg("klog/app")
	codeT := p.namedType("klog/app", "Code")
	nConst := 0
	if pk != nil && codeT != nil {
		sc := pk.Types.Scope()
		for _, name := range sc.Names() {
			if c, ok := sc.Lookup(name).(*types.Const); ok && types.Identical(c.Type(), codeT) {
				nConst++
				v, _ := constant.Int64Val(c.Val())
				r.check(v >= 1 && v <= 125, rule, "code:"+name, p.pos(c.Pos()), fmt.Sprintf("%s = %d is a valid non-zero exit status", name, v), fmt.Sprintf("%s = %d is not a non-zero exit status", name, v))
			}
		}
	}
	if nConst < 8 {
		r.undecided(rule, "floor:codes", "-", "found %d app.Code constants, expected at least 8", nConst)
	}
	// every NewErrorWithCode call passes a Code constant (or forwards its own parameter)
	nwc := p.fn("klog/app", "NewErrorWithCode")
	if r.anchorFn(rule, nwc, "app.NewErrorWithCode") {
		n := 0
		for _, f := range p.srcFns {
			for _, c := range callsTo(f, nwc) {
				n++
				a := c.Common().Args[0]
				// the code is one of several constants (chosen on the way) or a forwarded parameter
				_, ins := phiCycle(a)
				bad := false
				for _, in := range ins {
					if k, ok := constInt(in); ok {
						if k < 1 {
							r.bad(rule, "NewErrorWithCode:"+fnName(f), p.instrPos(c), "error constructed with status %d", k)
						}
					} else if _, isParam := strip(in).(*ssa.Parameter); !isParam {
						bad = true
					}
				}
				if bad {
					r.bad(rule, "NewErrorWithCode:"+fnName(f), p.instrPos(c), "error code is neither a constant nor a forwarded parameter")
				}
			}
		}
		r.ok(rule, "NewErrorWithCode:sites", p.pos(nwc.Pos()), "%d call sites pass a constant code >= 1", n)
		// Code() of the two error types returns the stored code / a constant
	}
	for _, tn := range []string{"AppError", "parserErrors"} {
		m := p.method("klog/app", tn, "Code")
		if !r.anchorFn(rule, m, "app."+tn+".Code") {
			continue
		}
		for _, ret := range returnsOf(m) {
			v := retResult(ret, 0)
			if k, ok := constInt(v); ok {
				r.check(k >= 1, rule, "Code():"+tn, p.instrPos(ret), "constant code >= 1", "constant code < 1")
			} else if _, fld := fieldLoad(v); fld == "code" {
				r.ok(rule, "Code():"+tn, p.instrPos(ret), "returns the code the error was constructed with")
			} else {
				r.bad(rule, "Code():"+tn, p.instrPos(ret), "Code() returns neither the stored code nor a constant")
			}
		}
	}
	// AppError literals only inside NewErrorWithCode (so the stored code is a checked argument)
	appErr := p.namedType("klog/app", "AppError")
	for _, f := range p.srcFns {
		eachInstr(f, func(in ssa.Instruction) {
			if a, ok := in.(*ssa.Alloc); ok && appErr != nil && types.Identical(a.Type().Underlying().(*types.Pointer).Elem(), appErr) {
				if !sameFn(f, nwc) {
					// a local of type AppError that is only a target for errors.As is fine: no field store
					// a literal elsewhere is as good if its code field is given a constant code >= 1
					// or a parameter (forwarded); a literal WITHOUT a code (exit status 0) is not
					hasStore, codeOK := false, false
					for _, ref := range *a.Referrers() {
						if fa, ok := ref.(*ssa.FieldAddr); ok {
							for _, r2 := range *fa.Referrers() {
								if st, isStore := r2.(*ssa.Store); isStore {
									hasStore = true
									if fieldName(fa) == "code" {
										if k, isK := constInt(st.Val); isK && k >= 1 {
											codeOK = true
										} else if _, isPrm := strip(st.Val).(*ssa.Parameter); isPrm {
											codeOK = true
										}
									}
								}
							}
						}
					}
					if hasStore && !codeOK {
						r.bad(rule, "AppError-literal:"+fnName(f), p.instrPos(in), "AppError constructed outside NewErrorWithCode without a non-zero code")
					}
				}
			}
		})
	}
	// main.main exits with that status when the error is non-nil
	mainFn := p.fn("", "main")
	if !r.anchorFn(rule, mainFn, "main.main") {
		return
	}
	p.checkProcessRecover(r, rule, mainFn, run)
	calls := callsTo(mainFn, run)
	if len(calls) != 1 {
		r.undecided(rule, "main:call", p.pos(mainFn.Pos()), "expected exactly one call of main.Run in main.main")
		return
	}
	code, err := resultOf(calls[0], 0), resultOf(calls[0], 1)
	if code == nil || err == nil {
		r.bad(rule, "main:results", p.instrPos(calls[0]), "status or error of Run is discarded by main")
		return
	}
	exits := false
	exitPos := "-"
	eachInstr(mainFn, func(in ssa.Instruction) {
		c, ok := in.(ssa.CallInstruction)
		if !ok || !calls[0].Block().Dominates(c.Block()) {
			return
		}
		g := staticCallee(c)
		if g == nil {
			return
		}
		for ai, a := range c.Common().Args {
			if !sameValue(a, code) {
				continue
			}
			if exitsWithParam(g, ai) && knownNonNil(c.Block(), err) {
				exits = true
				exitPos = p.instrPos(c)
			}
		}
	})
	r.check(exits, rule, "main:exit", exitPos, "main exits with Run's status on the err != nil edge", "main does not pass Run's status to os.Exit when err != nil")
	// every path from Run's return on err != nil reaches that exit: the err test's non-nil
	// successor contains the exiting call (checked by dominance of the call's block = successor)
}

// checkProcessRecover — a panic that reaches main ends the process with status 2 (the runtime's
// doing). A recover() in main / main.Run (or in a function they defer) takes that over: once
// it has caught something, every way on must be a new panic or an exit with a constant status
// >= 1 — not a status held in a variable (still zero while Run has not returned), and not a
// plain return (main then ends with status 0).
func (p *Prog) checkProcessRecover(r *Report, rule string, roots ...*ssa.Function) {
	n := 0
	for _, root := range roots {
		for _, f := range plainWithAnons(root) {
			eachInstr(f, func(in ssa.Instruction) {
				c, ok := in.(*ssa.Call)
				if !ok {
					return
				}
				b, isB := c.Call.Value.(*ssa.Builtin)
				if !isB || b.Name() != "recover" {
					return
				}
				n++
				key := fmt.Sprintf("recover:%s#%d", fnName(f), n)
				bad := ""
				// walk forward from where something is known (or not excluded) to have been caught
				seen := map[*ssa.BasicBlock]bool{}
				var walk func(blk *ssa.BasicBlock, from int)
				walk = func(blk *ssa.BasicBlock, from int) {
					if from == 0 {
						if seen[blk] || knownNil(blk, c) {
							return
						}
						seen[blk] = true
					}
					for _, i2 := range blk.Instrs[from:] {
						switch x := i2.(type) {
						case *ssa.Panic:
							return
						case *ssa.Return:
							if bad == "" {
								bad = "after recovering, the function returns normally at " + p.instrPos(x) + ": the process ends with status 0"
							}
							return
						case ssa.CallInstruction:
							if g := staticCallee(x); g != nil {
								for ai := range x.Common().Args {
									if exitsWithParam(g, ai) {
										if k, isK := constInt(x.Common().Args[ai]); (!isK || k < 1) && bad == "" {
											bad = "the exit status passed at " + p.instrPos(x) + " is not a constant >= 1 (a status variable is still 0 while the command has not returned)"
										}
										return
									}
								}
							}
						}
					}
					for _, sc := range blk.Succs {
						walk(sc, 0)
					}
				}
				walk(c.Block(), instrIndex(c)+1)
				r.check(bad == "", rule, key, p.instrPos(c), "a recovered panic ends in a new panic or a constant non-zero exit status", "a panic caught here does not end the process with a failure status: "+bad)
			})
		}
	}
	r.ok(rule, "recover:sites", "-", "%d recover() sites in main / main.Run", n)
}

// exitsWithParam: g is os.Exit, or unconditionally calls os.Exit with its parameter #idx.
func exitsWithParam(g *ssa.Function, idx int) bool {
	if g.Pkg != nil && g.Pkg.Pkg.Path() == "os" && fnBase(g) == "Exit" {
		return idx == 0
	}
	if len(g.Blocks) == 0 || idx >= len(g.Params) {
		return false
	}
	ok := false
	eachInstr(g, func(in ssa.Instruction) {
		c, isCall := in.(ssa.CallInstruction)
		if !isCall {
			return
		}
		h := staticCallee(c)
		if h != nil && h.Pkg != nil && h.Pkg.Pkg.Path() == "os" && fnBase(h) == "Exit" && len(c.Common().Args) == 1 &&
			strip(c.Common().Args[0]) == ssa.Value(g.Params[idx]) && len(guardsOf(c.Block())) == 0 && c.Block().Dominates(g.Blocks[len(g.Blocks)-1]) || (h != nil && h.Pkg != nil && h.Pkg.Pkg.Path() == "os" && fnBase(h) == "Exit" && len(c.Common().Args) == 1 && strip(c.Common().Args[0]) == ssa.Value(g.Params[idx]) && len(guardsOf(c.Block())) == 0) {
			ok = true
		}
	})
	return ok
}
