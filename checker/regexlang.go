package main

// B9: language inclusion / equivalence of Go regular expressions in full-match reading, by
// on-the-fly subset construction over the partition of the rune alphabet induced by both
// automata (regexp/syntax programs). Analysis of constants found in the source; nothing of klog
// is executed.

import (
	"fmt"
	"regexp/syntax"
	"sort"
	"unicode"
)

type nfa struct{ p *syntax.Prog }

func compileRe(re string) (*nfa, error) {
	r, err := syntax.Parse("^(?:"+re+")$", syntax.Perl)
	if err != nil {
		return nil, err
	}
	p, err := syntax.Compile(r.Simplify())
	if err != nil {
		return nil, err
	}
	for _, in := range p.Inst {
		if in.Op == syntax.InstEmptyWidth && syntax.EmptyOp(in.Arg)&(syntax.EmptyWordBoundary|syntax.EmptyNoWordBoundary) != 0 {
			return nil, fmt.Errorf("word boundaries are not supported")
		}
	}
	return &nfa{p}, nil
}

// closure follows Alt, Capture, Nop and EmptyWidth (begin only at start, end only at end).
func (n *nfa) closure(set map[uint32]bool, atStart, atEnd bool) map[uint32]bool {
	out := map[uint32]bool{}
	var stack []uint32
	for pc := range set {
		stack = append(stack, pc)
	}
	for len(stack) > 0 {
		pc := stack[len(stack)-1]
		stack = stack[:len(stack)-1]
		if out[pc] {
			continue
		}
		out[pc] = true
		in := &n.p.Inst[pc]
		switch in.Op {
		case syntax.InstAlt, syntax.InstAltMatch:
			stack = append(stack, in.Out, in.Arg)
		case syntax.InstCapture, syntax.InstNop:
			stack = append(stack, in.Out)
		case syntax.InstEmptyWidth:
			op := syntax.EmptyOp(in.Arg)
			ok := true
			if op&(syntax.EmptyBeginText|syntax.EmptyBeginLine) != 0 && !atStart {
				ok = false
			}
			if op&(syntax.EmptyEndText|syntax.EmptyEndLine) != 0 && !atEnd {
				ok = false
			}
			if op&(syntax.EmptyWordBoundary|syntax.EmptyNoWordBoundary) != 0 {
				ok = false
			}
			if ok {
				stack = append(stack, in.Out)
			}
		}
	}
	return out
}

func (n *nfa) step(set map[uint32]bool, r rune) map[uint32]bool {
	out := map[uint32]bool{}
	for pc := range set {
		in := &n.p.Inst[pc]
		switch in.Op {
		case syntax.InstRune, syntax.InstRune1, syntax.InstRuneAny, syntax.InstRuneAnyNotNL:
			if in.MatchRune(r) {
				out[in.Out] = true
			}
		}
	}
	return out
}

func (n *nfa) accepting(set map[uint32]bool, atStart bool) bool {
	for pc := range n.closure(set, atStart, true) {
		if n.p.Inst[pc].Op == syntax.InstMatch {
			return true
		}
	}
	return false
}

// boundaries: every returned rune represents the class [b_i, b_{i+1}) of the joint partition.
func boundaries(ns ...*nfa) []rune {
	b := map[rune]bool{0: true}
	for _, n := range ns {
		for _, in := range n.p.Inst {
			switch in.Op {
			case syntax.InstRune, syntax.InstRune1:
				rs := in.Rune
				if len(rs) == 1 {
					rs = []rune{rs[0], rs[0]}
				}
				for i := 0; i+1 < len(rs); i += 2 {
					b[rs[i]], b[rs[i+1]+1] = true, true
					if syntax.Flags(in.Arg)&syntax.FoldCase != 0 { // TODO: exact fold orbits
						for r := rs[i]; r <= rs[i+1] && r < rs[i]+300; r++ {
							for f := unicode.SimpleFold(r); f != r; f = unicode.SimpleFold(f) {
								b[f], b[f+1] = true, true
							}
						}
					}
				}
			case syntax.InstRuneAnyNotNL:
				b['\n'], b['\n'+1] = true, true
			}
		}
	}
	var out []rune
	for r := range b {
		if r <= unicode.MaxRune {
			out = append(out, r)
		}
	}
	sort.Slice(out, func(i, j int) bool { return out[i] < out[j] })
	return out
}

func setKey(s map[uint32]bool) string {
	var ks []int
	for k := range s {
		ks = append(ks, int(k))
	}
	sort.Ints(ks)
	return fmt.Sprint(ks)
}

// included reports whether L(a) ⊆ L(b) and returns a shortest witness otherwise (BFS).
func included(a, b *nfa) (bool, string) {
	reps := boundaries(a, b)
	sa0 := map[uint32]bool{uint32(a.p.Start): true}
	sb0 := map[uint32]bool{uint32(b.p.Start): true}
	if a.accepting(sa0, true) && !b.accepting(sb0, true) {
		return false, ""
	}
	type st struct {
		sa, sb map[uint32]bool
		w      string
	}
	init := st{a.closure(sa0, true, false), b.closure(sb0, true, false), ""}
	seen := map[string]bool{setKey(init.sa) + "|" + setKey(init.sb): true}
	q := []st{init}
	for len(q) > 0 {
		cur := q[0]
		q = q[1:]
		for _, r := range reps {
			na := a.step(cur.sa, r)
			if len(na) == 0 {
				continue
			}
			na = a.closure(na, false, false)
			nb := b.closure(b.step(cur.sb, r), false, false)
			w := cur.w + string(r)
			if a.accepting(na, false) && !b.accepting(nb, false) {
				return false, w
			}
			if k := setKey(na) + "|" + setKey(nb); !seen[k] {
				seen[k] = true
				q = append(q, st{na, nb, w})
			}
		}
	}
	return true, ""
}

// reIncluded: L(a) ⊆ L(b) in full-match reading; witness is a shortest string in L(a) \ L(b).
func reIncluded(a, b string) (bool, string, error) {
	na, err := compileRe(a)
	if err != nil {
		return false, "", fmt.Errorf("%q: %v", a, err)
	}
	nb, err := compileRe(b)
	if err != nil {
		return false, "", fmt.Errorf("%q: %v", b, err)
	}
	ok, w := included(na, nb)
	return ok, w, nil
}

// reEquivalent: both inclusions; the witness says which side accepts it.
func reEquivalent(a, b string) (bool, string, error) {
	ok, w, err := reIncluded(a, b)
	if err != nil {
		return false, "", err
	}
	if !ok {
		return false, fmt.Sprintf("%q is accepted by the code's pattern but not by the specification", w), nil
	}
	ok, w, err = reIncluded(b, a)
	if err != nil {
		return false, "", err
	}
	if !ok {
		return false, fmt.Sprintf("%q is required by the specification but not accepted by the code's pattern", w), nil
	}
	return true, "", nil
}

// reMatchesFully: does the constant string s fully match pattern a?
func reMatchesFully(a string, s string) (bool, error) {
	n, err := compileRe(a)
	if err != nil {
		return false, err
	}
	set := n.closure(map[uint32]bool{uint32(n.p.Start): true}, true, len(s) == 0)
	rs := []rune(s)
	for i, r := range rs {
		set = n.closure(n.step(set, r), false, i == len(rs)-1)
		if len(set) == 0 {
			return false, nil
		}
	}
	for pc := range set {
		if n.p.Inst[pc].Op == syntax.InstMatch {
			return true, nil
		}
	}
	return n.accepting(set, len(rs) == 0), nil
}
