package main

// P07-chunks, P12-fill, P13-entrytypes, P09-notation: small table/shape rules added for depth.

import (
	"fmt"
	"go/token"
	"go/types"
	"sort"
	"strings"

	"golang.org/x/tools/go/ssa"
)

// P07-chunks — the chunks are contiguous slices of the text: every chunk starts where the
// previous one ended (initially 0) and the last one runs to the end; nothing is dropped or
// duplicated. (Where the cuts fall is not constrained.)
func ruleP07Chunks(p *Prog, r *Report) {
	const rule = "P07-chunks"
	f := p.fn("klog/parser/engine", "splitIntoChunks")
	if !r.anchorFn(rule, f, "engine.splitIntoChunks") {
		return
	}
	txt := f.Params[0]
	var mk *ssa.MakeSlice
	eachInstr(f, func(in ssa.Instruction) {
		if m, ok := in.(*ssa.MakeSlice); ok {
			mk = m
		}
	})
	if mk == nil {
		r.undecided(rule, "batches", p.pos(f.Pos()), "splitIntoChunks does not build its result with make([]string, n)")
		return
	}
	n := 0
	var pointer *ssa.Phi
	eachInstr(f, func(in ssa.Instruction) {
		st, ok := in.(*ssa.Store)
		if !ok {
			return
		}
		ia, ok := st.Addr.(*ssa.IndexAddr)
		if !ok || ia.X != ssa.Value(mk) {
			return
		}
		n++
		key := fmt.Sprintf("chunk-store#%d", n)
		sl, ok := strip(st.Val).(*ssa.Slice)
		if !ok || strip(sl.X) != ssa.Value(txt) || sl.Low == nil {
			r.bad(rule, key, p.instrPos(st), "a chunk is not a slice txt[pointer:next] of the text")
			return
		}
		ph, isPhi := strip(sl.Low).(*ssa.Phi)
		if !isPhi {
			r.bad(rule, key, p.instrPos(st), "a chunk does not start at the running pointer")
			return
		}
		if pointer == nil {
			pointer = ph
		} else if pointer != ph {
			r.bad(rule, key, p.instrPos(st), "chunks start at different pointers")
			return
		}
		// the values the pointer can take when the next iteration is entered from this store
		hdr := ph.Block()
		region := map[*ssa.BasicBlock]bool{st.Block(): true}
		for _, s := range st.Block().Succs {
			for b := range reachableFrom(s, map[*ssa.BasicBlock]bool{hdr: true}) {
				region[b] = true
			}
		}
		var leaves func(v ssa.Value, depth int, pred func(ssa.Value) bool) bool
		leaves = func(v ssa.Value, depth int, pred func(ssa.Value) bool) bool {
			if pred(v) {
				return true
			}
			if q, isPhi := strip(v).(*ssa.Phi); isPhi && q != ph && depth < 6 {
				any := false
				for i, e := range q.Edges {
					if region[q.Block().Preds[i]] {
						any = true
						if !leaves(e, depth+1, pred) {
							return false
						}
					}
				}
				return any
			}
			return false
		}
		nextIs := func(pred func(ssa.Value) bool) bool {
			for i, e := range ph.Edges {
				if region[hdr.Preds[i]] && !leaves(e, 0, pred) {
					return false
				}
			}
			return true
		}
		// `txt[pointer:min(next, len(txt))]` is both chunks in one statement: the regular one
		// when next <= len(txt), the final one (to the end of the text) otherwise
		if mc, isC := strip(sl.High).(*ssa.Call); isC {
			if bi, isB := mc.Call.Value.(*ssa.Builtin); isB && bi.Name() == "min" && len(mc.Call.Args) == 2 {
				isLen := func(v ssa.Value) bool {
					c, _ := callOf(strip(v))
					if c == nil {
						return false
					}
					b, isB2 := c.Common().Value.(*ssa.Builtin)
					return isB2 && b.Name() == "len" && strip(c.Common().Args[0]) == ssa.Value(txt)
				}
				var other ssa.Value
				switch {
				case isLen(mc.Call.Args[1]):
					other = mc.Call.Args[0]
				case isLen(mc.Call.Args[0]):
					other = mc.Call.Args[1]
				}
				if other != nil {
					n++ // counts as the final chunk as well
					sl = &ssa.Slice{X: sl.X, Low: sl.Low, High: other}
				}
			}
		}
		if sl.High == nil {
			// the final chunk: either the loop is left, or the pointer continues at len(txt)
			// (every further chunk is then empty)
			good := nextIs(func(v ssa.Value) bool {
				c, _ := callOf(strip(v))
				if c == nil {
					return false
				}
				b, isB := c.Common().Value.(*ssa.Builtin)
				return isB && b.Name() == "len" && strip(c.Common().Args[0]) == ssa.Value(txt)
			})
			r.check(good, rule, key+":last", p.instrPos(st), "after the chunk that runs to the end of the text no further bytes are cut", "after the chunk that runs to the end of the text further chunks are cut from an earlier position")
			return
		}
		// coverage: n chunks of at least ceil(len/n) bytes reach the end of the text. The end of
		// a chunk starts at pointer + size and may only be moved FORWARD (to a rune boundary)
		hphis, hins := phiCycle(sl.High)
		okGrow := true
		for _, in := range hins {
			b, isB := in.(*ssa.BinOp)
			if !isB || b.Op != token.ADD {
				okGrow = false
				continue
			}
			if q, isQ := strip(b.X).(*ssa.Phi); isQ && hphis[q] {
				if k, isK := constInt(b.Y); !isK || k <= 0 {
					okGrow = false
				}
				continue
			}
			if strip(b.X) != ssa.Value(ph) && strip(b.Y) != ssa.Value(ph) {
				okGrow = false
			}
		}
		if len(hphis) == 0 {
			if b, isB := strip(sl.High).(*ssa.BinOp); !isB || b.Op != token.ADD || (strip(b.X) != ssa.Value(ph) && strip(b.Y) != ssa.Value(ph)) {
				okGrow = false
			}
		}
		r.check(okGrow, rule, key+":at-least-size", p.instrPos(st), "a chunk ends at pointer + size or later (moved forward only)", "the end of a chunk can be moved backwards from pointer + size: the chunks no longer add up to the whole text and its last bytes are never parsed")
		good := nextIs(func(v ssa.Value) bool { return sameValue(v, sl.High) })
		r.check(good, rule, key+":contiguous", p.instrPos(st), "the next chunk starts where this one ends", "the next chunk does not start where this one ends: bytes are dropped or repeated between chunks")
	})
	if pointer != nil {
		okInit := false
		for _, e := range pointer.Edges {
			if k, isK := constInt(e); isK && k == 0 {
				okInit = true
			}
		}
		r.check(okInit, rule, "start", p.pos(pointer.Pos()), "the first chunk starts at byte 0", "the first chunk does not start at the beginning of the text")
	}
	if n < 2 {
		r.undecided(rule, "floor", "-", "found %d chunk stores, expected the regular and the final one", n)
	}
	for _, ret := range returnsOf(f) {
		r.check(strip(retResult(ret, 0)) == ssa.Value(mk), rule, "returned", p.instrPos(ret), "the chunks built are returned", "the chunks returned are not the ones built")
	}
}

// P12-fill — gap filling walks one day at a time from the first to the last record's date.
func ruleP12Fill(p *Prog, r *Report) {
	const rule = "P12-fill"
	f := p.fn("klog/app/cli", "allDatesRange")
	run := p.method("klog/app/cli", "Report", "Run")
	if !r.anchorFn(rule, f, "cli.allDatesRange") || !r.anchorFn(rule, run, "Report.Run") {
		return
	}
	from, to := f.Params[0], f.Params[1]
	okStep, okStop, okInit := false, false, false
	eachInstr(f, func(in ssa.Instruction) {
		c, ok := in.(ssa.CallInstruction)
		if !ok {
			return
		}
		n, _, args, _ := methodCallOf(c)
		switch n {
		case "PlusDays":
			if k, isK := constInt(args[0]); isK && k == 1 {
				okStep = true
			}
		case "IsAfterOrEqual":
			if strip(args[0]) == ssa.Value(to) {
				// true edge leaves the loop
				for _, ref := range *c.Value().Referrers() {
					if iff, isIf := ref.(*ssa.If); isIf {
						t := iff.Block().Succs[0]
						if !reachableFrom(t, nil)[iff.Block()] {
							okStop = true
						}
					}
				}
			}
		}
	})
	eachInstr(f, func(in ssa.Instruction) {
		if st, ok := in.(*ssa.Store); ok && strip(st.Val) == ssa.Value(from) {
			if ia, ok := st.Addr.(*ssa.IndexAddr); ok {
				if k, isK := constInt(ia.Index); isK && k == 0 {
					okInit = true
				}
			}
		}
	})
	r.check(okInit, rule, "start", p.pos(f.Pos()), "the range starts with the first date", "the filled range does not start with the first date")
	r.check(okStep, rule, "step", p.pos(f.Pos()), "one day at a time", "the filled range does not advance by exactly one day")
	r.check(okStop, rule, "stop", p.pos(f.Pos()), "stops once the last date is reached", "the filled range does not stop when the last date is reached")
	// call site: from = records[0].Date(), to = records[len-1].Date(), only under --fill
	for _, c := range callsTo(run, f) {
		a := c.Common().Args
		first := func(v ssa.Value) (int64, bool) {
			n, recv, _, _ := methodCall(v)
			if n != "Date" {
				return 0, false
			}
			u, ok := strip(recv).(*ssa.UnOp)
			if !ok {
				return 0, false
			}
			ia, ok := u.X.(*ssa.IndexAddr)
			if !ok {
				return 0, false
			}
			pl := polyOf(ia.Index)
			if pl.isConst() {
				return pl.C, true
			}
			if pl.C == -1 && len(pl.Terms) == 1 {
				return -1, true // len(x) - 1
			}
			return 0, false
		}
		i0, ok0 := first(a[0])
		i1, ok1 := first(a[1])
		flag := false
		for _, g := range guardsOf(c.Block()) {
			if tag, _ := fieldTagOfLoad(g.Cond); tag == "fill" && g.Pol {
				flag = true
			}
		}
		r.check(ok0 && ok1 && i0 == 0 && i1 == -1 && flag, rule, "call", p.instrPos(c), "--fill: every date from the first to the last (sorted) record", "--fill does not range from the first to the last record's date (or is not tied to the flag)")
	}
}

// P13-entrytypes — each entry kind matches exactly its own type constants.
func ruleP13EntryTypes(p *Prog, r *Report) {
	const rule = "P13-entrytypes"
	f := p.fn("klog/service", "reduceRecordToMatchingEntryTypes")
	if !r.anchorFn(rule, f, "service.reduceRecordToMatchingEntryTypes") {
		return
	}
	arms, _ := p.unboxArms(f)
	if arms == nil || len(arms) != 3 {
		r.undecided(rule, "unbox", p.pos(f.Pos()), "the entry-type filter does not dispatch through klog.Unbox")
		return
	}
	// Each arm is reduced to the disjunction of conditions under which it returns true.
	atomOf := func(g Guard) string {
		bo, ok := g.Cond.(*ssa.BinOp)
		if !ok {
			return "?" + g.Cond.String()
		}
		if s, isS := constString(bo.Y); isS && (bo.Op == token.EQL || bo.Op == token.NEQ) {
			if !strings.HasSuffix(bo.X.Type().String(), "service.EntryType") {
				return "?" + bo.String()
			}
			if (bo.Op == token.EQL) == g.Pol {
				return "t==" + s
			}
			return "t!=" + s
		}
		if k, isK := constInt(bo.Y); isK {
			if n, _, _, _ := methodCall(bo.X); n == "InMinutes" {
				op := bo.Op
				if !g.Pol {
					op = map[token.Token]token.Token{token.LSS: token.GEQ, token.GEQ: token.LSS, token.GTR: token.LEQ, token.LEQ: token.GTR, token.EQL: token.NEQ, token.NEQ: token.EQL}[op]
				}
				switch {
				case op == token.GEQ && k == 0, op == token.GTR && k == -1:
					return "m>=0"
				case op == token.LSS && k == 0, op == token.LEQ && k == -1:
					return "m<0"
				}
				return fmt.Sprintf("m%s%d", op, k)
			}
		}
		return "?" + bo.String()
	}
	dnf := func(h *ssa.Function) (string, bool) {
		var out []string
		for _, ret := range returnsOf(h) {
			alts, ok := truthAlts(retResult(ret, 0), 0)
			if !ok {
				return "", false
			}
			for _, alt := range alts {
				set := map[string]bool{}
				pos := false
				for _, g := range append(guardsOf(ret.Block()), alt...) {
					a := atomOf(g)
					set[a] = true
					if strings.HasPrefix(a, "t==") {
						pos = true
					}
				}
				var atoms []string
				for a := range set {
					if pos && strings.HasPrefix(a, "t!=") {
						continue
					}
					atoms = append(atoms, a)
				}
				sort.Strings(atoms)
				out = append(out, strings.Join(atoms, " && "))
			}
		}
		sort.Strings(out)
		return strings.Join(out, " || "), true
	}
	want := map[string]string{
		"Range":     "t==RANGE",
		"OpenRange": "t==OPEN_RANGE",
		"Duration":  "m<0 && t==DURATION_NEGATIVE || m>=0 && t==DURATION_POSITIVE || t==DURATION",
	}
	for kind, w := range want {
		h := arms[kind]
		got, ok := dnf(h)
		if !ok {
			r.undecided(rule, "arm:"+kind, p.pos(h.Pos()), "the conditions under which a %s entry matches could not be enumerated", kind)
			continue
		}
		r.check(got == w, rule, "arm:"+kind, p.pos(h.Pos()), kind+" entries match iff "+w, fmt.Sprintf("%s entries match iff %s; expected %s", kind, got, w))
	}
}

// P09-notation — the value types print the notation they carry.
func ruleP09Notation(p *Prog, r *Report) {
	const rule = "P09-notation"
	// date: separator "-" iff UseDashes else "/" ; layout %04d sep %02d sep %02d
	df := p.method("klog", "date", "ToString")
	if r.anchorFn(rule, df, "date.ToString") {
		okFmt, okSep := false, false
		// the separator(s) handed to Sprintf: "-" exactly under UseDashes, "/" otherwise — chosen
		// by an if, a helper, a switch …
		sepOK := func(v ssa.Value) bool {
			var dash, slash, other bool
			for _, row := range valueRows(v, 0, map[ssa.Value]bool{}) {
				s, isS := constString(row.val)
				if !isS {
					other = true
					continue
				}
				useDashes, decided := true, false
				for _, g := range row.guards {
					if _, fld := fieldLoad(g.Cond); fld == "UseDashes" {
						useDashes, decided = g.Pol, true
					}
					if u, isU := g.Cond.(*ssa.UnOp); isU && u.Op == token.NOT {
						if _, fld := fieldLoad(u.X); fld == "UseDashes" {
							useDashes, decided = !g.Pol, true
						}
					}
				}
				switch {
				case s == "-" && useDashes:
					dash = true
				case s == "/" && decided && !useDashes:
					slash = true
				default:
					other = true
				}
			}
			return dash && slash && !other
		}
		eachVInstr(df, func(in ssa.Instruction) {
			if c, ok := in.(ssa.CallInstruction); ok && staticCallee(c) != nil && staticCallee(c).String() == "fmt.Sprintf" {
				if s, isS := constString(c.Common().Args[0]); isS && s == "%04d%s%02d%s%02d" {
					okFmt = true
					if els, isL := sliceLitElems(c.Common().Args[1]); isL && len(els) == 5 {
						okSep = sepOK(els[1]) && sepOK(els[3])
					}
				}
			}
		})
		// the same layout assembled from three padded parts: strings.Join([]string{%04d, %02d, %02d}, sep)
		if !okFmt {
			eachVInstr(df, func(in ssa.Instruction) {
				c, ok := in.(ssa.CallInstruction)
				if !ok || staticCallee(c) == nil || staticCallee(c).String() != "strings.Join" {
					return
				}
				els, isL := sliceLitElems(c.Common().Args[0])
				if !isL || len(els) != 3 {
					return
				}
				good := true
				for i, e := range els {
					pc, _ := callOf(e)
					if pc == nil || staticCallee(pc) == nil || staticCallee(pc).String() != "fmt.Sprintf" {
						good = false
						continue
					}
					f0, isS := constString(pc.Common().Args[0])
					args, isA := sliceLitElems(pc.Common().Args[1])
					if !isS || f0 != []string{"%04d", "%02d", "%02d"}[i] || !isA || len(args) != 1 {
						good = false
						continue
					}
					if _, fld := fieldLoad(args[0]); fld != []string{"year", "month", "day"}[i] {
						if n, _, _, _ := methodCall(args[0]); n != []string{"Year", "Month", "Day"}[i] {
							good = false
						}
					}
				}
				if good {
					okFmt = true
					okSep = sepOK(c.Common().Args[1])
				}
			})
		}
		r.check(okFmt, rule, "date:layout", p.pos(df.Pos()), "dates print as YYYY sep MM sep DD with zero padding", "the date layout is not %04d%s%02d%s%02d")
		r.check(okSep, rule, "date:separator", p.pos(df.Pos()), "separator is - with UseDashes and / without", "the date separator does not follow the value's own format")
	}
	// open range: "?" repeated 1 + AdditionalPlaceholderChars
	of := p.method("klog", "openRange", "ToString")
	if r.anchorFn(rule, of, "openRange.ToString") {
		ok := false
		eachVInstr(of, func(in ssa.Instruction) {
			if c, isC := in.(ssa.CallInstruction); isC && staticCallee(c) != nil && staticCallee(c).String() == "strings.Repeat" {
				s, _ := constString(c.Common().Args[0])
				pl := polyOf(c.Common().Args[1])
				if s == "?" && pl.C == 1 && len(pl.Terms) == 1 {
					for k := range pl.Terms {
						if strings.HasSuffix(k, ".AdditionalPlaceholderChars") {
							ok = true
						}
					}
				}
			}
		})
		r.check(ok, rule, "open-range:placeholder", p.pos(of.Pos()), "placeholder = 1 + additional question marks", "the placeholder is not printed with 1 + AdditionalPlaceholderChars question marks")
	}
	// range / open range: start, [space] "-" [space], end ; space iff UseSpacesAroundDash
	for _, tn := range []string{"timeRange", "openRange"} {
		f := p.method("klog", tn, "ToString")
		if !r.anchorFn(rule, f, tn+".ToString") {
			continue
		}
		for _, ret := range returnsOf(f) {
			// The text is described once for each value of UseSpacesAroundDash: constants and
			// whatever selects between them (a variable, a phi, a helper) collapse to the string
			// that applies; the two value parts stay symbolic.
			describe := func(with bool) string {
				var leaves []ssa.Value
				catLeaves(retResult(ret, 0), &leaves, 0)
				var parts []string
				lit := ""
				flush := func() {
					if lit != "" {
						parts = append(parts, fmt.Sprintf("%q", lit))
						lit = ""
					}
				}
				for _, l := range leaves {
					if n, recv, _, _ := methodCall(l); n == "ToString" {
						n2, _, _, _ := methodCall(recv)
						if n2 == "" {
							if _, fld := fieldLoad(recv); fld == "start" {
								n2 = "Start"
							} else if fld == "end" {
								n2 = "End"
							}
						}
						flush()
						parts = append(parts, n2+".ToString")
						continue
					}
					if c, _ := callOf(l); c != nil && staticCallee(c) != nil && staticCallee(c).String() == "strings.Repeat" {
						flush()
						parts = append(parts, "PLACEHOLDER")
						continue
					}
					// a string that may depend on the flag: the alternatives consistent with `with`
					vals := map[string]bool{}
					for _, rw := range valueRows(l, 0, map[ssa.Value]bool{}) {
						consistent := true
						for _, g := range rw.guards {
							if _, fld := fieldLoad(g.Cond); fld == "UseSpacesAroundDash" && g.Pol != with {
								consistent = false
							}
						}
						if !consistent {
							continue
						}
						// the row may itself be a concatenation of constants
						var sub []ssa.Value
						catLeaves(rw.val, &sub, 0)
						txt, ok := "", true
						for _, sv := range sub {
							cs, isS := constString(sv)
							if !isS {
								ok = false
							}
							txt += cs
						}
						if ok {
							vals[txt] = true
						} else {
							vals["\x00?"] = true
						}
					}
					if len(vals) != 1 {
						flush()
						parts = append(parts, "?")
						continue
					}
					for v := range vals {
						if v == "\x00?" {
							flush()
							parts = append(parts, "?")
						} else {
							lit += v
						}
					}
				}
				flush()
				return strings.Join(parts, "+")
			}
			end := "End.ToString"
			if tn == "openRange" {
				end = "PLACEHOLDER"
			}
			gotWith, gotWithout := describe(true), describe(false)
			want := `Start.ToString+" - "+` + end + ` / Start.ToString+"-"+` + end
			got := gotWith + " / " + gotWithout
			r.check(got == want, rule, tn+":layout", p.instrPos(ret), tn+" prints as "+want, fmt.Sprintf("%s prints as %s, expected %s", tn, got, want))
		}
	}
}

// P17-err-abort — when a time computation fails, the command fails: the branch taken on a
// non-nil error of Time.Plus / NewRange / … ends in returns that report an error; it never
// carries on with a substitute value.
var errAbortExceptions = map[string]string{
	"(*klog/service.futureEntriesChecker).Warn":         "warning heuristics: without a representable grace time the plain clock time is compared; no value is written or totalled",
	"(*klog/service.overlappingTimeRangesChecker).Warn": "warning heuristics: an open range that cannot be closed at 23:59 is left out of the overlap comparison; nothing is written or totalled",
	"klog/service.RoundToNearest":                       "documented saturation: rounding up past 23:59> yields 23:59>, the largest representable time",
}

func ruleP17ErrAbort(p *Prog, r *Report) {
	const rule = "P17-err-abort"
	n := 0
	for _, f := range p.srcFns {
		pp := pkgPathOfFn(f)
		if !strings.HasPrefix(pp, modPath+"/klog/app/cli") && pp != modPath+"/klog/service" {
			continue
		}
		idx := map[string]int{}
		eachInstr(f, func(in ssa.Instruction) {
			c, ok := in.(ssa.CallInstruction)
			if !ok || !isTimeProducer(c) {
				return
			}
			name := calleeName(c)
			idx[name]++
			key := fmt.Sprintf("%s:%s#%d", fnName(f), name, idx[name])
			ei := errResultIndex(c.Common().Signature())
			if ei < 0 {
				return
			}
			e := resultOf(c, ei)
			if e == nil || len(*e.Referrers()) == 0 {
				return // P17-err decides discarded errors
			}
			if why, isEx := inheritedException(errAbortExceptions, outermost(f), 3); isEx {
				r.ok(rule, key, p.instrPos(c), "exception: %s", why)
				return
			}
			tests := nilTestsOf(f, e)
			if len(tests) == 0 {
				n++
				r.ok(rule, key, p.instrPos(c), "the error is passed on together with the value")
				return
			}
			n++
			for _, t := range tests {
				b := t.If.Block()
				nonNil := b.Succs[1-t.NilSucc]
				msg := rejectComplete(nonNil, func(ret *ssa.Return) string {
					for _, res := range ret.Results {
						if _, isIface := res.Type().Underlying().(*types.Interface); isIface && p.nilnessAt(ret.Block(), res, 0) == nnNonNil {
							return ""
						}
					}
					return "returns without an error at " + p.instrPos(ret)
				})
				if msg != "" {
					r.bad(rule, key, p.instrPos(c), "when %s fails the function does not fail: %s", name, msg)
					return
				}
			}
			r.ok(rule, key, p.instrPos(c), "the error branch ends in returns that report an error")
		})
	}
	if n < 4 {
		r.undecided(rule, "floor", "-", "only %d checked time computations found", n)
	}
}

// inheritedException looks a function up in an exception table; an unexported function all of
// whose static call sites lie in excepted functions of the same package inherits the entry (a
// private helper carved out of an excepted function is the same code).
func inheritedException(table map[string]string, f *ssa.Function, depth int) (string, bool) {
	if why, ok := table[fnName(f)]; ok {
		return why, true
	}
	if depth == 0 || f.Object() == nil || f.Object().Exported() {
		return "", false
	}
	sites := ht.sites[originFn(f)]
	if len(sites) == 0 {
		return "", false
	}
	why := ""
	for _, s := range sites {
		caller := outermost(s.Parent())
		if caller == f || pkgPathOfFn(caller) != pkgPathOfFn(f) {
			return "", false
		}
		w, ok := inheritedException(table, caller, depth-1)
		if !ok {
			return "", false
		}
		why = w
	}
	return why, true
}

func outermost(f *ssa.Function) *ssa.Function {
	for f.Parent() != nil {
		f = f.Parent()
	}
	return f
}

// P01-summary-validated — the entry summary the parser returns is, on every path, a value that
// klog.NewEntrySummary produced from ALL lines gathered so far (the constructor exempts only
// index 0 from the blank-line rule, so a continuation line validated on its own is never rejected).
func ruleP01SummaryValidated(p *Prog, r *Report) {
	const rule = "P01-summary-validated"
	parse := p.fn("klog/parser", "parse")
	ctor := p.fn("klog", "NewEntrySummary")
	if !r.anchorFn(rule, parse, "parser.parse") || !r.anchorFn(rule, ctor, "klog.NewEntrySummary") {
		return
	}
	// the constructor itself: index 0 is the only exemption, every other line is tested
	n := 0
	for _, f := range withAnons(parse) {
		calls := callsTo(f, ctor)
		if len(calls) == 0 {
			continue
		}
		isCtorResult := func(v ssa.Value) bool {
			c, idx := callOf(strip(v))
			return c != nil && idx == 0 && sameFn(staticCallee(c), ctor)
		}
		for i, ret := range returnsOf(f) {
			if len(ret.Results) != 2 || typeNameOf(retResult(ret, 0).Type()) != "EntrySummary" {
				continue
			}
			if isNilConst(retResult(ret, 0)) {
				continue
			}
			n++
			_, inputs := phiCycle(retResult(ret, 0))
			bad := ""
			for _, in := range inputs {
				if isNilConst(in) || isCtorResult(in) {
					continue
				}
				bad = in.String()
			}
			r.check(bad == "", rule, fmt.Sprintf("%s:return#%d", fnName(f), i), p.instrPos(ret), "the summary returned is always a value NewEntrySummary validated as a whole", "the entry summary returned is assembled outside NewEntrySummary ("+bad+"): continuation lines are not validated at their position")
			webPhis, _ := phiCycle(retResult(ret, 0))
			inWeb := func(v ssa.Value) bool {
				v = strip(v)
				if ph, ok := v.(*ssa.Phi); ok && webPhis[ph] {
					return true
				}
				return isCtorResult(v)
			}
			for j, c := range calls {
				b := c.Block()
				inLoop := false
				for _, s := range b.Succs {
					if reachableFrom(s, nil)[b] {
						inLoop = true
					}
				}
				if !inLoop {
					continue
				}
				n++
				arg := strip(c.Common().Args[0])
				ok := false
				if ac, _ := callOf(arg); ac != nil {
					if bi, isB := ac.Common().Value.(*ssa.Builtin); isB && bi.Name() == "append" && inWeb(ac.Common().Args[0]) {
						ok = true
					}
				}
				r.check(ok, rule, fmt.Sprintf("%s:loop-call#%d", fnName(f), j), p.instrPos(c), "continuation lines are validated together with the lines before them", "a continuation line is validated on its own (as if it were a first line, which may be blank)")
			}
		}
	}
	if n < 2 {
		r.undecided(rule, "floor", p.pos(parse.Pos()), "entry-summary construction not found in parse (%d sites)", n)
	}
}

// P01-delims — the delimiters at which the parser cuts its tokens. Each PeekUntil site in parse is
// reduced to the set of runes its predicate accepts; the sequence of sets is the reference table.
func ruleP01Delims(p *Prog, r *Report) {
	const rule = "P01-delims"
	parse := p.fn("klog/parser", "parse")
	peek := p.method("klog/parser/txt", "Parseable", "PeekUntil")
	isFn := p.fn("klog/parser/txt", "Is")
	if !r.anchorFn(rule, parse, "parser.parse") || !r.anchorFn(rule, peek, "txt.(*Parseable).PeekUntil") || !r.anchorFn(rule, isFn, "txt.Is") {
		return
	}
	// rune set of a predicate func(rune) bool defined in the module
	var setOfFn func(f *ssa.Function) (string, bool)
	setOfFn = func(f *ssa.Function) (string, bool) {
		if f == nil || len(f.Params) != 1 || len(f.Blocks) == 0 {
			return "", false
		}
		var runes []string
		for _, ret := range returnsOf(f) {
			alts, ok := truthAlts(retResult(ret, 0), 0)
			if !ok {
				return "", false
			}
			for _, alt := range alts {
				gs := append(guardsOf(ret.Block()), alt...)
				found := false
				for _, g := range gs {
					bo, isB := g.Cond.(*ssa.BinOp)
					if !isB || bo.Op != token.EQL || !g.Pol {
						continue
					}
					x, y := strip(bo.X), strip(bo.Y)
					if y == ssa.Value(f.Params[0]) {
						x, y = y, x
					}
					if x != ssa.Value(f.Params[0]) {
						continue
					}
					if k, isK := constInt(y); isK {
						runes = append(runes, fmt.Sprintf("%q", rune(k)))
						found = true
					}
				}
				if !found {
					return "", false
				}
			}
		}
		sort.Strings(runes)
		return "{" + strings.Join(dedup(runes), ",") + "}", true
	}
	setOf := func(v ssa.Value) (string, bool) {
		v = strip(v)
		switch x := v.(type) {
		case *ssa.Function:
			return setOfFn(x)
		case *ssa.MakeClosure:
			return setOfFn(x.Fn.(*ssa.Function))
		case *ssa.Call:
			if sameFn(staticCallee(x), isFn) {
				elems, ok := sliceLitElems(x.Call.Args[0])
				if !ok {
					return "", false
				}
				var runes []string
				for _, e := range elems {
					k, isK := constInt(e)
					if !isK {
						return "", false
					}
					runes = append(runes, fmt.Sprintf("%q", rune(k)))
				}
				sort.Strings(runes)
				return "{" + strings.Join(dedup(runes), ",") + "}", true
			}
		}
		return "", false
	}
	type site struct {
		pos  token.Pos
		in   ssa.CallInstruction
		set  string
		okay bool
	}
	// the sites in the order in which parse comes to them: source order within a function, a
	// closure or a helper taken at the place where it is created / called (a block of parse that
	// moved into a function further down in the file keeps its place in the sequence)
	var sites []site
	visited := map[*ssa.Function]bool{}
	var walk func(f *ssa.Function, depth int)
	walk = func(f *ssa.Function, depth int) {
		if f == nil || visited[f] || depth > 6 || len(f.Blocks) == 0 {
			return
		}
		visited[f] = true
		type item struct {
			pos token.Pos
			st  *site
			sub *ssa.Function
		}
		var items []item
		eachInstr(f, func(in ssa.Instruction) {
			switch x := in.(type) {
			case *ssa.MakeClosure:
				if fn, ok := x.Fn.(*ssa.Function); ok {
					items = append(items, item{pos: fn.Pos(), sub: fn}) // (the literal's own position)
				}
			case ssa.CallInstruction:
				if sameFn(staticCallee(x), peek) {
					s, ok := setOf(x.Common().Args[len(x.Common().Args)-1])
					if ok && s == "{}" {
						return // "to the end of the line" (also spelled Remainder()): P09-rest-of-line
					}
					items = append(items, item{pos: x.Pos(), st: &site{x.Pos(), x, s, ok}})
				} else if g := rawStaticCallee(x); g != nil && isHelper(g) && pkgPathOfFn(g) == pkgPathOfFn(parse) {
					items = append(items, item{pos: x.Pos(), sub: originFn(g)})
				}
			}
		})
		sort.SliceStable(items, func(i, j int) bool { return items[i].pos < items[j].pos })
		for _, it := range items {
			if it.st != nil {
				sites = append(sites, *it.st)
			} else {
				walk(it.sub, depth+1)
			}
		}
	}
	walk(parse, 0)
	want := []struct{ what, set string }{
		{"date", `{' ','\t'}`},
		{"properties", `{')'}`},
		{"should-total", `{'!'}`},
		{"duration candidate", `{' ','\t'}`},
		{"start-time candidate", `{' ','-'}`},
		{"first token (error extent)", `{' ','\t'}`},
		{"placeholder", `{' ','\t'}`},
		{"end-time candidate", `{' ','\t'}`},
	}
	if len(sites) == len(want)-1 {
		// the token that only measures the extent of an error may be the duration candidate reused
		for i := range want {
			if want[i].what == "first token (error extent)" {
				want = append(want[:i:i], want[i+1:]...)
				break
			}
		}
	}
	if len(sites) != len(want) {
		r.undecided(rule, "sites", p.pos(parse.Pos()), "parse cuts tokens at %d PeekUntil sites, the confirmed table has %d; re-confirm the table", len(sites), len(want))
		return
	}
	for i, s := range sites {
		key := "token:" + want[i].what
		if !s.okay {
			r.undecided(rule, key, p.instrPos(s.in), "the delimiter predicate of the %s token could not be reduced to a rune set", want[i].what)
			continue
		}
		r.check(s.set == want[i].set, rule, key, p.instrPos(s.in), "the "+want[i].what+" token ends at "+want[i].set, fmt.Sprintf("the %s token ends at %s, the format needs %s", want[i].what, s.set, want[i].set))
	}
	// txt.Is itself: true exactly when the rune equals one of the listed ones
	var inner *ssa.Function
	for _, a := range isFn.AnonFuncs {
		inner = a
	}
	okIs := false
	if inner != nil && len(inner.Params) == 1 {
		okIs = true
		for _, ret := range returnsOf(inner) {
			b, isB := constBool(retResult(ret, 0))
			if !isB {
				okIs = false
				continue
			}
			eq := false
			for _, g := range guardsOf(ret.Block()) {
				if bo, ok := g.Cond.(*ssa.BinOp); ok && bo.Op == token.EQL && g.Pol {
					x, y := strip(bo.X), strip(bo.Y)
					if x == ssa.Value(inner.Params[0]) || y == ssa.Value(inner.Params[0]) {
						eq = true
					}
				}
			}
			if b != eq {
				okIs = false
			}
		}
	}
	r.check(okIs, rule, "txt.Is", p.pos(isFn.Pos()), "txt.Is(c...) holds exactly for the listed runes", "txt.Is no longer returns true exactly when the rune equals a listed one")
}

func dedup(xs []string) []string {
	var out []string
	for i, x := range xs {
		if i == 0 || xs[i-1] != x {
			out = append(out, x)
		}
	}
	return out
}

// extend adds rules (usually ones owned by another property, of which they are equally a
// necessary condition) to an already registered property.
func extend(id, explain string, rules ...ruleFn) {
	s := registry[id]
	if s == nil {
		panic("extend: unknown property " + id)
	}
	have := map[string]bool{}
	for _, r := range s.rules {
		have[fmt.Sprintf("%p", r)] = true
	}
	for _, r := range rules {
		if !have[fmt.Sprintf("%p", r)] {
			s.rules = append(s.rules, r)
		}
	}
	s.explain += " " + explain
}

func init() {
	extend("C02", "Also (P12-now-applied, P12-now-all): every evaluating command closes open ranges under --now over ALL records it was given before anything is totalled; (P17-clock-fields) the date and the time of the evaluation instant are read from the same unconverted clock value.", ruleP12NowApplied, ruleP12NowAll, ruleP17ClockFields)
	extend("C02", "(P13-reduce) narrowing a record to its matching entries keeps its should-total (and date, summary), so should-total and diff under a filter are those of the records selected.", ruleP13Reduce)
	extend("C17", "Also (P12-now-applied, P12-now-all): --now is applied to all records of the evaluation, not to a subset.", ruleP12NowApplied, ruleP12NowAll)
	extend("C03", "Also (P07-renumber): the blocks the reconciler positions its edits by carry file-global line numbers on every return of the parallel engine.", ruleP07Renumber)
	extend("C04", "(P03-entry-line) stop and pause rewrite the value line of the entry they mean, stepping over all lines of all later entries; (P03-concat-position) the further lines of a multi-line stop summary go directly under the line the first one was appended to. Also (P07-renumber, P11-determine-first): blocks carry file-global line numbers (an edit lands in the record it was computed for), and the indentation of an inserted entry is that of the record's first indented line (otherwise the added line is read as a summary continuation).", ruleP07Renumber, ruleP11DetermineFirst, ruleP03ConcatPosition, ruleP03EntryLine)
	extend("C12", "Also (P17-calendar-days): the day split of `today` and every other relative day is computed with PlusDays on the date, not by shifting the clock instant by 24 hours.", ruleP17CalendarDays)
	extend("C13", "Also (P17-calendar-days): --yesterday / --tomorrow and friends are calendar days, not 24-hour offsets of the instant.", ruleP17CalendarDays)
	extend("C03", "Also (P08-io-verbatim): WriteToFile puts exactly the reconciler's text on disk.", ruleP08IoVerbatim)
	extend("C08", "Also (P08-io-verbatim): app.ReadFile hands the bytes on disk to the parser unaltered and WriteToFile writes its argument unaltered.", ruleP08IoVerbatim)
	extend("C05", "Also (P05-fresh-read, P08-io-verbatim): each reconciliation re-reads the target from disk (no remembered contents), so the validated text is the text that gets replaced.", ruleP05FreshRead, ruleP08IoVerbatim)
	extend("C08", "(P07-head, P07-chunks) the parallel engine cuts the unaltered input into contiguous chunks and carries each batch's first block to the merge step.", ruleP07Head, ruleP07Chunks)
	extend("C08", "(P07-renumber) block line numbers are file-global on every return of the parallel engine; (P03-linewrites, P03-lineending) for the clause 'a mutating operation that changes nothing writes back the identical file': existing lines are only written where a command is defined to change them, and an existing line ending is never replaced.", ruleP07Renumber, ruleP03LineWrites, ruleP03LineEnding)
	extend("C08", "(P08-blank) a line is blank iff it consists of spaces and tabs only.", ruleP08Blank)
	extend("C01", "(P08-blank) as under C08; (P16-date-strict, P16-duration-parts, P16-date-separators, P16-order: a range is rejected exactly when its end is before its start, whatever the day shifts) as under C16.", ruleP08Blank, ruleP16DateStrict, ruleP16DurationParts, ruleP16DateSeparators, ruleP16Order)
	extend("C18", "(P09-first-summary-line) the layout decision about the first summary line is taken on the raw text, never on its styled rendering.", ruleP09FirstSummaryLine)
	extend("C09", "(P09-first-summary-line) the first entry-summary line is left out only when the raw line is empty. Also (P18-nostyle-applied): print applies --no-style before it obtains the serialiser, so the unstyled output carries no escape sequences.", ruleP18NoStyleApplied, ruleP09FirstSummaryLine)
	extend("C09", "(P18-format) the text serialiser wraps the unchanged text of dates, values, summaries and tags in styling only, so the unstyled print output carries the file's own text.", ruleP18Format)
	extend("C09", "(P09-entry-local-format) the notation parse remembers for an entry (dash spacing, placeholder length) derives from that entry's own text, not from a variable that lives across entries.", ruleP09EntryLocalFormat)
	extend("C10", "(P10-span) an error whose length is a whole line's length starts at column 0, not at the line's current reading position.", ruleP10Span)
	extend("C14", "(P13-decoders) the --tag decoder hands the flag's text to NewTagFromString as typed (no case mapping), so that the query compares values the way the data side records them.", ruleP13Decoders)
	extend("C07", "(P07-tail-bytes) countBytes measures a block by the exact original byte length of each of its lines, as ParseBlock counted them.", ruleP07TailBytes)
	extend("C08", "(P07-tail-bytes) as under C07.", ruleP07TailBytes)
	extend("C15", "(P15-weeknumber) date.WeekNumber returns both results of ISOWeek of the date's own day, unmodified.", ruleP15WeekNumber)
	extend("C12", "(P15-weeknumber) as under C15: the week hash of the report is built from it.", ruleP15WeekNumber)
	extend("C17", "(P17-follow-fresh) today --follow reads the clock at every refresh: the instant given to --now inside the repeated callback is not a reading made before the loop.", ruleP17FollowFresh)
	extend("C09", "(P09-summary-text) SummaryText.ToString joins all lines of a summary with the canonical line ending.", ruleP09SummaryText)
	extend("C20", "(P09-summary-text) as under C09: the JSON summary fields are rendered through it.", ruleP09SummaryText)
	extend("C09", "(P09-rest-of-line) an entry's summary text is the whole rest of its line (Remainder / PeekUntil with a predicate that matches nothing).", ruleP09RestOfLine)
	extend("C14", "(P09-rest-of-line) as under C09: a tag behind the cut would not be found.", ruleP09RestOfLine)
	extend("C01", "(P07-head, P07-chunks, P07-tail-bytes) the parallel engine accepts what the serial one accepts: a batch's first block is carried to the merge step exactly as ParseBlock delimits it, the chunks add up to the text, and the tail is cut at the exact byte.", ruleP07Head, ruleP07Chunks, ruleP07TailBytes)
	extend("C04", "(P17-shift-table) the time that start/stop/switch write is the clock time, rounded, then shifted for the day of the target record — in that order.", ruleP17ShiftTable)
	extend("C11", "(P05-fresh-read) the text whose style is detected is the unaltered content of the target file (nothing is appended or normalised before parsing).", ruleP05FreshRead)
	extend("C07", "(P07-crlf-boundary) no chunk ends between the \\r and the \\n of a line ending.", ruleP07CrlfBoundary)
	extend("C06", "(P06-datetime-near) service.NewDateTime, which steps a day back or forth for shifted times, is applied only to the clock date or to a record date that was compared equal to the clock date or one of its two neighbours.", ruleP06DateTimeNear)
	extend("C06", "(P17-err) in app/cli and service no error of a time computation is discarded while the possibly-nil time is used (a nil dereference is a crash).", ruleP17Err)
	extend("C13", "(P15-guards) period strings that do not denote an existing period (W53 of a 52-week year) are rejected; (P14-model, P14-unquote) the tags a summary yields are the unquoted tags the --tag decoder compares with.", ruleP15Guards, ruleP14Model, ruleP14Unquote)
	extend("C15", "(P12-group) every period of the report is printed in exactly one row.", ruleP12Group)
	extend("C16", "(P09-notation) dates print as YYYY-MM-DD with zero padding, so that every printed date parses again.", ruleP09Notation)
	extend("C19", "(P05-write-result) the writer behind the bookmark database replaces the file's content (truncation).", ruleP05WriteResult)
	extend("C04", "(P17-one-instant) the target date and the time of start/stop/switch come from one reading of the clock.", ruleP17OneInstant)
	extend("C12", "(P18-cells) every row of the report, gap rows of --fill included, has the table's cell count, so that a filled gap shifts no value into another period's row.", ruleP18Cells)
	extend("C20", "(P02-diff) service.Diff(should, actual) is actual.Minus(should), which the JSON view may also spell directly.", ruleP02Diff)
	extend("C10", "(P10-char-units) no byte length of a string is used as error position or length; (P10-format) no format string of a printf-style call contains data (source line, file name, message). Also (P07-errmerge, P07-merge-order): every error list produced by a worker or by re-parsing carried text reaches the merged list, carried text first.", ruleP07ErrMerge, ruleP07MergeOrderAll, ruleP10Format, ruleP10CharUnits)
}
