package main

import (
	"go/token"
	"go/types"
	"sort"

	"golang.org/x/tools/go/ssa"
)

// A string that is accumulated piece by piece looks different in SSA depending on how it is
// spelled — `acc += x` around a loop (a phi cycle of string additions), or writes into a local
// strings.Builder whose String() is taken at the end — but the rules that care about such a
// string only ask: which pieces are appended, where, and in which order.  appendEvents answers
// that for both spellings.

// strEvent: one piece appended at the end of the accumulator by instruction at.
type strEvent struct {
	val ssa.Value
	at  ssa.Instruction
}

// appendEvents describes how string v is accumulated.  ok is false when v is not an accumulator
// of either spelling, or when it is also modified in any other way (a prepend, a reset, a builder
// that escapes).  init is the constant the accumulator starts from.  The events are returned in
// source-independent order: by dominance where one dominates the other, else by block index.
func appendEvents(v ssa.Value) (events []strEvent, init string, ok bool) {
	if evs, ok := builderEvents(v); ok {
		return sortEvents(evs), "", true
	}
	phis, ins := phiCycle(v)
	if len(phis) == 0 {
		return nil, "", false
	}
	nInit := 0
	for _, in := range ins {
		if s, isS := constString(in); isS {
			if nInit > 0 && s != init {
				return nil, "", false
			}
			init = s
			nInit++
			continue
		}
		b, isB := in.(*ssa.BinOp)
		if !isB || b.Op != token.ADD {
			return nil, "", false
		}
		base, pieces := addSpine(b)
		ph, isPhi := base.(*ssa.Phi)
		if !isPhi || !phis[ph] {
			return nil, "", false
		}
		for _, pc := range pieces {
			events = append(events, strEvent{pc.Y, pc})
		}
	}
	if nInit == 0 {
		return nil, "", false
	}
	return sortEvents(events), init, true
}

// addSpine flattens ((base + a) + b) + c into base and the additions, innermost first.
func addSpine(b *ssa.BinOp) (ssa.Value, []*ssa.BinOp) {
	x := strip(b.X)
	if bx, ok := x.(*ssa.BinOp); ok && bx.Op == token.ADD && isStringType(bx.Type()) {
		base, ps := addSpine(bx)
		return base, append(ps, b)
	}
	return x, []*ssa.BinOp{b}
}

func isStringType(t types.Type) bool {
	b, ok := t.Underlying().(*types.Basic)
	return ok && b.Info()&types.IsString != 0
}

// builderEvents: v is sb.String() of a local strings.Builder that is used for nothing but
// writing to it.
func builderEvents(v ssa.Value) ([]strEvent, bool) {
	c, idx := callOf(v)
	if c == nil || idx != 0 || c.Common().IsInvoke() {
		return nil, false
	}
	g := rawStaticCallee(c)
	if g == nil || g.String() != "(*strings.Builder).String" {
		return nil, false
	}
	sb, isA := plainDeref(c.Common().Args[0]).(*ssa.Alloc)
	if !isA || sb.Referrers() == nil {
		return nil, false
	}
	var evs []strEvent
	for _, ref := range *sb.Referrers() {
		switch x := ref.(type) {
		case *ssa.DebugRef:
			continue
		case *ssa.Store:
			// `sb := strings.Builder{}`: the zero value is stored once
			if x.Addr == ssa.Value(sb) {
				if k, isK := x.Val.(*ssa.Const); isK && k.Value == nil {
					continue
				}
			}
			return nil, false
		case ssa.CallInstruction:
			cc := x.Common()
			callee := rawStaticCallee(x)
			if cc.IsInvoke() || callee == nil || len(cc.Args) == 0 || cc.Args[0] != ssa.Value(sb) {
				return nil, false
			}
			for _, a := range cc.Args[1:] {
				if a == ssa.Value(sb) {
					return nil, false
				}
			}
			switch callee.String() {
			case "(*strings.Builder).WriteString", "(*strings.Builder).WriteByte", "(*strings.Builder).WriteRune":
				evs = append(evs, strEvent{cc.Args[1], x})
			case "(*strings.Builder).String", "(*strings.Builder).Len", "(*strings.Builder).Grow", "(*strings.Builder).Cap":
			default:
				return nil, false
			}
		default:
			return nil, false
		}
	}
	return evs, true
}

func sortEvents(evs []strEvent) []strEvent {
	sort.SliceStable(evs, func(i, j int) bool { return instrBefore(evs[i].at, evs[j].at) })
	return evs
}

// instrBefore: a comes before b in every execution of one pass over the code (same block:
// earlier instruction; else a's block dominates b's; else by block index).
func instrBefore(a, b ssa.Instruction) bool {
	if a.Block() == b.Block() {
		for _, in := range a.Block().Instrs {
			if in == a {
				return true
			}
			if in == b {
				return false
			}
		}
		return false
	}
	if a.Parent() == b.Parent() {
		if a.Block().Dominates(b.Block()) {
			return true
		}
		if b.Block().Dominates(a.Block()) {
			return false
		}
	}
	return a.Block().Index < b.Block().Index
}

// orderedEvents: the events form a chain under dominance (each one is passed before the next):
// only then is the order of the pieces the same on every path.
func orderedEvents(evs []strEvent) bool {
	for i := 0; i+1 < len(evs); i++ {
		a, b := evs[i].at, evs[i+1].at
		if a.Block() != b.Block() && !(a.Parent() == b.Parent() && a.Block().Dominates(b.Block())) {
			return false
		}
	}
	return true
}

// runningMax: the store raises the place it writes to to the maximum of its old value and a
// candidate, in either spelling —
//
//	if cand > *place { *place = cand }      (also >=, the operands swapped, a negated test)
//	*place = max(*place, cand)
//
// and returns the candidate.
func runningMax(st *ssa.Store) (cand ssa.Value, ok bool) {
	isOld := func(v ssa.Value) bool {
		u, isU := plainDeref(v).(*ssa.UnOp)
		return isU && u.Op == token.MUL && samePlace(u.X, st.Addr)
	}
	if c, isC := plainDeref(st.Val).(*ssa.Call); isC {
		if bi, isB := c.Call.Value.(*ssa.Builtin); isB && bi.Name() == "max" && len(c.Call.Args) == 2 {
			switch {
			case isOld(c.Call.Args[0]):
				return c.Call.Args[1], true
			case isOld(c.Call.Args[1]):
				return c.Call.Args[0], true
			}
			return nil, false
		}
	}
	for _, g := range guardsOf(st.Block()) {
		if isLoopGuard(g) {
			break
		}
		bo, isB := normCmp(g.Cond)
		if !isB {
			continue
		}
		op := bo.Op
		if !g.Pol {
			op = map[token.Token]token.Token{token.LSS: token.GEQ, token.GEQ: token.LSS, token.GTR: token.LEQ, token.LEQ: token.GTR}[op]
		}
		switch {
		case (op == token.GTR || op == token.GEQ) && sameRead(bo.X, st.Val) && isOld(bo.Y):
			return st.Val, true
		case (op == token.LSS || op == token.LEQ) && sameRead(bo.Y, st.Val) && isOld(bo.X):
			return st.Val, true
		}
	}
	return nil, false
}

// samePlace: two addresses denote the same variable, field or element.
func samePlace(a, b ssa.Value) bool {
	if a == b {
		return true
	}
	switch x := a.(type) {
	case *ssa.IndexAddr:
		y, ok := b.(*ssa.IndexAddr)
		return ok && sameRead(x.X, y.X) && sameRead(x.Index, y.Index)
	case *ssa.FieldAddr:
		y, ok := b.(*ssa.FieldAddr)
		return ok && x.Field == y.Field && (x.X == y.X || sameRead(x.X, y.X))
	}
	if ca, cb := cellOf(a), cellOf(b); ca != nil && ca == cb {
		return true
	}
	return false
}

// sameRead: the same value, or two reads of the same place (a variable, x.f, xs[i]) — the same
// as long as nothing writes the place in between, which holds for the adjacent test-and-update
// statements this is used on.
func sameRead(a, b ssa.Value) bool {
	if sameValue(a, b) {
		return true
	}
	ua, ok1 := plainDeref(a).(*ssa.UnOp)
	ub, ok2 := plainDeref(b).(*ssa.UnOp)
	return ok1 && ok2 && ua.Op == token.MUL && ub.Op == token.MUL && samePlace(ua.X, ub.X)
}

// sliceFill: v is a slice made with make([]T, len(src)) and filled element by element under the
// index of a range loop over src (`out[i] = f(src[i])`), the pre-sized spelling of
// `out = append(out, f(x))` in a range over src.  Returns the element stores (or, for a struct
// element that is assigned field by field, the IndexAddr instructions) and src.
func sliceFill(v ssa.Value) (puts []ssa.Instruction, src ssa.Value, ok bool) {
	mk, isM := strip(v).(*ssa.MakeSlice)
	if !isM || mk.Referrers() == nil {
		return nil, nil, false
	}
	lc, isC := plainDeref(mk.Len).(*ssa.Call)
	if !isC {
		return nil, nil, false
	}
	bi, isB := lc.Call.Value.(*ssa.Builtin)
	if !isB || bi.Name() != "len" {
		return nil, nil, false
	}
	src = lc.Call.Args[0]
	if !sameRead(mk.Cap, mk.Len) {
		return nil, nil, false
	}
	for _, ref := range *mk.Referrers() {
		ia, isIA := ref.(*ssa.IndexAddr)
		if !isIA {
			switch x := ref.(type) {
			case *ssa.DebugRef, *ssa.Return, *ssa.Phi, *ssa.Store:
				_ = x
				continue
			case *ssa.Call:
				if b2, isB2 := x.Call.Value.(*ssa.Builtin); isB2 && (b2.Name() == "len" || b2.Name() == "cap") {
					continue
				}
			}
			continue
		}
		if !isRangeIndex(ia.Index) {
			return nil, nil, false
		}
		// the loop the index belongs to ranges over src
		inLoop := false
		for _, g := range guardsOf(ia.Block()) {
			if bo, isBo := g.Cond.(*ssa.BinOp); isBo && isLoopGuard(g) && bo.X == ia.Index {
				if c2, isC2 := bo.Y.(*ssa.Call); isC2 && len(c2.Call.Args) == 1 && sameRead(c2.Call.Args[0], src) {
					inLoop = true
				}
			}
		}
		if !inLoop {
			return nil, nil, false
		}
		written := false
		if ia.Referrers() != nil {
			for _, r2 := range *ia.Referrers() {
				switch y := r2.(type) {
				case *ssa.Store:
					if y.Addr == ssa.Value(ia) {
						written = true
					}
				case *ssa.FieldAddr:
					written = true
				}
			}
		}
		if written {
			puts = append(puts, ia)
		}
	}
	return puts, src, len(puts) > 0
}
