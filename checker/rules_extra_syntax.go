package main

import "regexp/syntax"

type syntaxRegexp = syntax.Regexp

const opCapture = syntax.OpCapture

func syntaxParse(p string) (*syntax.Regexp, error) { return syntax.Parse(p, syntax.Perl) }
