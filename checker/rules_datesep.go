package main

// P16-date-separators — a date uses ONE separator. The date pattern admits four shapes
// (dddd-dd-dd, dddd/dd/dd and the two mixed ones); NewDateFromString is interpreted abstractly
// over these four classes (digits unknown, separators known): both mixed classes must be rejected
// on every path, both pure classes must have an accepting path, and the format recorded for the
// value must say "dashes" exactly for the dash class. Nothing is executed: conditions are
// evaluated over the class template, unknown conditions are explored both ways.

import (
	"fmt"
	"go/token"
	"strings"

	"golang.org/x/tools/go/ssa"
)

type aval struct {
	kind string // "int", "bool", "str" (known string), "S" (the input), "match", "group", "unknown"
	i    int64
	b    bool
	s    string
	grp  int
}

var unknownVal = aval{kind: "unknown"}

type dateSepEval struct {
	p        *Prog
	fn       *ssa.Function
	template string // e.g. "dddd-dd/dd"
	phi      map[*ssa.Phi]ssa.Value
	groups   []string // template of the capture groups
	unsup    string
}

func (e *dateSepEval) countIn(sub string) (int64, bool) {
	if len(sub) != 1 || sub == "d" {
		return 0, false
	}
	if sub[0] >= '0' && sub[0] <= '9' {
		return 0, false // digits are unknown
	}
	return int64(strings.Count(e.template, sub)), true
}

func (e *dateSepEval) eval(v ssa.Value, depth int) aval {
	if depth > 14 {
		return unknownVal
	}
	v = strip(v)
	if v == ssa.Value(e.fn.Params[0]) {
		return aval{kind: "S"}
	}
	switch x := v.(type) {
	case *ssa.Const:
		if s, ok := constString(x); ok {
			return aval{kind: "str", s: s}
		}
		if b, ok := constBool(x); ok {
			return aval{kind: "bool", b: b}
		}
		if k, ok := constInt(x); ok {
			return aval{kind: "int", i: k}
		}
		if x.Value == nil {
			return aval{kind: "nil"}
		}
	case *ssa.Phi:
		if ch, ok := e.phi[x]; ok {
			return e.eval(ch, depth+1)
		}
	case *ssa.Convert:
		return e.eval(x.X, depth+1)
	case *ssa.UnOp:
		switch x.Op {
		case token.NOT:
			a := e.eval(x.X, depth+1)
			if a.kind == "bool" {
				return aval{kind: "bool", b: !a.b}
			}
		case token.MUL:
			// match[i]
			if ia, ok := x.X.(*ssa.IndexAddr); ok {
				if m := e.eval(ia.X, depth+1); m.kind == "match" {
					if k, isK := constInt(ia.Index); isK && int(k) < len(e.groups) {
						return aval{kind: "group", grp: int(k)}
					}
				}
			}
			if d := derefFlow(x); d != ssa.Value(x) && d != nil {
				return e.eval(d, depth+1)
			}
		}
	case *ssa.Index:
		if s := e.eval(x.X, depth+1); s.kind == "S" {
			if k, ok := constInt(x.Index); ok && int(k) < len(e.template) {
				c := e.template[k]
				if c != 'd' {
					return aval{kind: "int", i: int64(c)}
				}
			}
		}
	case *ssa.BinOp:
		a, b := e.eval(x.X, depth+1), e.eval(x.Y, depth+1)
		switch {
		case a.kind == "int" && b.kind == "int":
			switch x.Op {
			case token.EQL:
				return aval{kind: "bool", b: a.i == b.i}
			case token.NEQ:
				return aval{kind: "bool", b: a.i != b.i}
			case token.LSS:
				return aval{kind: "bool", b: a.i < b.i}
			case token.LEQ:
				return aval{kind: "bool", b: a.i <= b.i}
			case token.GTR:
				return aval{kind: "bool", b: a.i > b.i}
			case token.GEQ:
				return aval{kind: "bool", b: a.i >= b.i}
			case token.ADD:
				return aval{kind: "int", i: a.i + b.i}
			case token.SUB:
				return aval{kind: "int", i: a.i - b.i}
			}
		case a.kind == "bool" && b.kind == "bool" && (x.Op == token.EQL || x.Op == token.NEQ):
			return aval{kind: "bool", b: (a.b == b.b) == (x.Op == token.EQL)}
		case (a.kind == "group" && b.kind == "str") || (a.kind == "str" && b.kind == "group"):
			g, s := a, b
			if a.kind == "str" {
				g, s = b, a
			}
			// a digit group equals a constant only if the lengths agree and the constant is digits
			possible := len(e.groups[g.grp]) == len(s.s)
			for _, c := range s.s {
				if c < '0' || c > '9' {
					possible = false
				}
			}
			if !possible && (x.Op == token.EQL || x.Op == token.NEQ) {
				return aval{kind: "bool", b: x.Op == token.NEQ}
			}
		case a.kind == "match" && b.kind == "nil" && (x.Op == token.EQL || x.Op == token.NEQ):
			return aval{kind: "bool", b: x.Op == token.NEQ}
		case a.kind == "int" && b.kind == "unknown", a.kind == "unknown" && b.kind == "int":
			// a digit compared with a separator character
			k := a
			if a.kind == "unknown" {
				k = b
			}
			if (k.i == '-' || k.i == '/') && (x.Op == token.EQL || x.Op == token.NEQ) {
				if lk, ok := strip(x.X).(*ssa.Index); ok {
					if e.eval(lk.X, depth+1).kind == "S" {
						return aval{kind: "bool", b: x.Op == token.NEQ}
					}
				}
				if lk, ok := strip(x.Y).(*ssa.Index); ok {
					if e.eval(lk.X, depth+1).kind == "S" {
						return aval{kind: "bool", b: x.Op == token.NEQ}
					}
				}
			}
		}
	case *ssa.Call:
		if b, ok := x.Call.Value.(*ssa.Builtin); ok && b.Name() == "len" {
			a := e.eval(x.Call.Args[0], depth+1)
			switch a.kind {
			case "match":
				return aval{kind: "int", i: int64(len(e.groups))}
			case "S":
				return aval{kind: "int", i: int64(len(e.template))}
			case "group":
				return aval{kind: "int", i: int64(len(e.groups[a.grp]))}
			}
			return unknownVal
		}
		if name, recv, args, _ := methodCall(x); name == "FindStringSubmatch" && len(args) == 1 {
			if e.eval(args[0], depth+1).kind == "S" {
				if pat, ok := e.p.regexOfValue(recv); ok {
					if eq, _, err := reEquivalent(pat, `^(\d{4})[-/](\d{2})[-/](\d{2})$`); err == nil && eq {
						return aval{kind: "match"}
					}
				}
				e.unsup = "the date pattern is no longer ^(\\d{4})[-/](\\d{2})[-/](\\d{2})$: the class templates must be re-confirmed"
			}
			return unknownVal
		}
		if callee := staticCallee(x); callee != nil {
			switch callee.String() {
			case "strings.Count", "strings.Contains", "strings.ContainsRune", "strings.IndexByte", "strings.Index", "strings.ContainsAny":
				s := e.eval(x.Call.Args[0], depth+1)
				if s.kind != "S" {
					return unknownVal
				}
				arg := e.eval(x.Call.Args[1], depth+1)
				sub := ""
				switch arg.kind {
				case "str":
					sub = arg.s
				case "int":
					sub = string(rune(arg.i))
				default:
					return unknownVal
				}
				if callee.Name() == "ContainsAny" {
					any, known := false, true
					for _, c := range sub {
						n, ok := e.countIn(string(c))
						if !ok {
							known = false
						} else if n > 0 {
							any = true
						}
					}
					if any {
						return aval{kind: "bool", b: true}
					}
					if known {
						return aval{kind: "bool", b: false}
					}
					return unknownVal
				}
				n, ok := e.countIn(sub)
				if !ok {
					return unknownVal
				}
				switch callee.Name() {
				case "Count":
					return aval{kind: "int", i: n}
				case "Contains", "ContainsRune":
					return aval{kind: "bool", b: n > 0}
				case "IndexByte", "Index":
					return aval{kind: "int", i: int64(strings.Index(e.template, sub))}
				}
			}
		}
	}
	return unknownVal
}

type dateSepOutcome struct {
	accepts   int
	rejects   int
	useDashes map[string]bool // "true"/"false"/"unknown" seen on accepting paths
}

func (e *dateSepEval) run() dateSepOutcome {
	out := dateSepOutcome{useDashes: map[string]bool{}}
	c2d := e.p.fn("klog", "civil2Date")
	budget := 5000
	var walk func(b, from *ssa.BasicBlock, seen map[*ssa.BasicBlock]bool)
	walk = func(b, from *ssa.BasicBlock, seen map[*ssa.BasicBlock]bool) {
		budget--
		if budget < 0 || seen[b] {
			return
		}
		seen[b] = true
		defer delete(seen, b)
		saved := map[*ssa.Phi]ssa.Value{}
		had := map[*ssa.Phi]bool{}
		for _, in := range b.Instrs {
			ph, ok := in.(*ssa.Phi)
			if !ok {
				break
			}
			for i, pb := range b.Preds {
				if pb == from {
					saved[ph], had[ph] = e.phi[ph]
					e.phi[ph] = ph.Edges[i]
				}
			}
		}
		defer func() {
			for ph, v := range saved {
				if had[ph] {
					e.phi[ph] = v
				} else {
					delete(e.phi, ph)
				}
			}
		}()
		switch t := b.Instrs[len(b.Instrs)-1].(type) {
		case *ssa.Return:
			// accepting: the value comes from civil2Date; rejecting: nil value
			if isNilConst(retResult(t, 0)) {
				out.rejects++
				return
			}
			c, _ := callOf(derefFlow(retResult(t, 0)))
			if c != nil && sameFn(staticCallee(c), c2d) {
				out.accepts++
				// the format argument
				f := strip(c.Common().Args[1])
				ud := "unknown"
				if u, ok := f.(*ssa.UnOp); ok && u.Op == token.MUL {
					if al, isA := u.X.(*ssa.Alloc); isA {
						for _, ref := range *al.Referrers() {
							if fa, isFA := ref.(*ssa.FieldAddr); isFA && fieldName(fa) == "UseDashes" {
								for _, r2 := range *fa.Referrers() {
									if st, isSt := r2.(*ssa.Store); isSt {
										if a := e.eval(st.Val, 0); a.kind == "bool" {
											ud = fmt.Sprint(a.b)
										}
									}
								}
							}
						}
					}
				}
				out.useDashes[ud] = true
				return
			}
			e.unsup = "a return whose value is neither nil nor the result of civil2Date"
		case *ssa.If:
			a := e.eval(t.Cond, 0)
			if a.kind == "bool" {
				if a.b {
					walk(b.Succs[0], b, seen)
				} else {
					walk(b.Succs[1], b, seen)
				}
				return
			}
			walk(b.Succs[0], b, seen)
			walk(b.Succs[1], b, seen)
		case *ssa.Panic:
			return
		default:
			for _, s := range b.Succs {
				walk(s, b, seen)
			}
		}
	}
	walk(e.fn.Blocks[0], nil, map[*ssa.BasicBlock]bool{})
	return out
}

func ruleP16DateSeparators(p *Prog, r *Report) {
	const rule = "P16-date-separators"
	f := p.fn("klog", "NewDateFromString")
	if !r.anchorFn(rule, f, "klog.NewDateFromString") || !r.anchorFn(rule, p.fn("klog", "civil2Date"), "klog.civil2Date") {
		return
	}
	for _, cl := range []struct {
		tmpl   string
		accept bool
		dashes string
	}{
		{"dddd-dd-dd", true, "true"},
		{"dddd/dd/dd", true, "false"},
		{"dddd-dd/dd", false, ""},
		{"dddd/dd-dd", false, ""},
	} {
		e := &dateSepEval{p: p, fn: f, template: cl.tmpl, phi: map[*ssa.Phi]ssa.Value{}, groups: []string{cl.tmpl, "dddd", "dd", "dd"}}
		out := e.run()
		key := "class:" + cl.tmpl
		if e.unsup != "" {
			r.undecided(rule, key, p.pos(f.Pos()), "%s", e.unsup)
			continue
		}
		if cl.accept {
			okk := out.accepts > 0 && len(out.useDashes) == 1 && out.useDashes[cl.dashes]
			r.check(okk, rule, key, p.pos(f.Pos()), fmt.Sprintf("accepted (given a valid day), recorded with UseDashes=%s", cl.dashes), fmt.Sprintf("dates of the shape %s: %d accepting paths, UseDashes recorded as %v (expected %s)", cl.tmpl, out.accepts, keysOfStr(out.useDashes), cl.dashes))
		} else {
			r.check(out.accepts == 0 && out.rejects > 0, rule, key, p.pos(f.Pos()), "rejected on every path", fmt.Sprintf("a date with mixed separators (%s) is accepted on %d path(s)", cl.tmpl, out.accepts))
		}
	}
}

func keysOfStr(m map[string]bool) []string {
	var out []string
	for k := range m {
		out = append(out, k)
	}
	return out
}
