package main

import (
	"go/token"
	"go/types"

	"golang.org/x/tools/go/ssa"
)

// A sort of a slice is spelled sort.Slice(x, less) / sort.SliceStable(x, less) with a literal, a
// function or a bound method as less — or sort.Sort(T(x)) / sort.Stable(...) with a type that
// implements sort.Interface, whose Less method is then the comparator and whose fields (for a
// struct type) carry what a literal would have captured.  sortSite is what the rules need of
// either spelling: the slice sorted, the comparator, and its two index parameters.
type sortSite struct {
	call   ssa.CallInstruction
	coll   ssa.Value // the slice that is sorted
	less   *ssa.Function
	i, j   *ssa.Parameter
	recv   *ssa.Parameter       // receiver of Less (sort.Interface spelling), else nil
	fields map[string]ssa.Value // sort.Interface over a struct: field -> value it was built with
}

func (p *Prog) sortSitesIn(f *ssa.Function) []sortSite {
	var out []sortSite
	eachInstr(f, func(in ssa.Instruction) {
		c, ok := in.(ssa.CallInstruction)
		if !ok {
			return
		}
		g := rawStaticCallee(c)
		if g == nil {
			return
		}
		switch g.String() {
		case "sort.Slice", "sort.SliceStable":
			less := funcLiteral(c.Common().Args[1])
			if less == nil || len(less.Params) < 2 {
				return
			}
			n := len(less.Params)
			out = append(out, sortSite{call: c, coll: c.Common().Args[0], less: less, i: less.Params[n-2], j: less.Params[n-1]})
		case "sort.Sort", "sort.Stable":
			mi, isMI := c.Common().Args[0].(*ssa.MakeInterface)
			if !isMI {
				return
			}
			t := mi.X.Type()
			sel := p.prog.MethodSets.MethodSet(t).Lookup(nil, "Less")
			if sel == nil {
				return
			}
			less := p.prog.MethodValue(sel)
			if less == nil || len(less.Blocks) == 0 || len(less.Params) != 3 {
				return
			}
			s := sortSite{call: c, less: less, recv: less.Params[0], i: less.Params[1], j: less.Params[2], fields: map[string]ssa.Value{}}
			x := mi.X
			switch t.Underlying().(type) {
			case *types.Slice:
				for {
					if ct, isCT := x.(*ssa.ChangeType); isCT {
						x = ct.X
						continue
					}
					break
				}
				s.coll = x
			case *types.Struct:
				u, isU := x.(*ssa.UnOp)
				if !isU || u.Op != token.MUL {
					return
				}
				a, isA := u.X.(*ssa.Alloc)
				if !isA {
					return
				}
				for _, st := range storesTo(a) {
					_ = st
					return // the whole struct is overwritten: not a plain literal
				}
				if a.Referrers() != nil {
					for _, ref := range *a.Referrers() {
						if fa, isFA := ref.(*ssa.FieldAddr); isFA && fa.Referrers() != nil {
							for _, r2 := range *fa.Referrers() {
								if st, isS := r2.(*ssa.Store); isS && st.Addr == ssa.Value(fa) {
									s.fields[fieldName(fa)] = st.Val
									if _, isSl := st.Val.Type().Underlying().(*types.Slice); isSl && s.coll == nil {
										s.coll = st.Val
									}
								}
							}
						}
					}
				}
			default:
				return
			}
			if s.coll != nil {
				out = append(out, s)
			}
		}
	})
	return out
}

// outer maps a value read inside the comparator to what it stands for at the sort site: a field
// of the sort.Interface receiver is the value that field was built with.
func (s sortSite) outer(v ssa.Value) ssa.Value {
	if s.recv == nil {
		return v
	}
	was := ht.enabled
	ht.enabled = false
	base, fld := fieldLoad(v)
	ht.enabled = was
	if fld == "" || base == nil {
		return v
	}
	b := base
	if a, isA := b.(*ssa.Alloc); isA {
		if sts := storesTo(a); len(sts) == 1 {
			b = sts[0].val
		}
	}
	if b != ssa.Value(s.recv) {
		return v
	}
	if w, ok := s.fields[fld]; ok {
		return w
	}
	return v
}
