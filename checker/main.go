package main

import (
	"encoding/json"
	"flag"
	"fmt"
	"os"
	"os/exec"
	"path/filepath"
	"runtime/debug"
	"sort"
	"strconv"
	"strings"
	"time"
)

type ruleFn func(p *Prog, r *Report)

type propSpec struct {
	id      string
	level   string
	explain string   // what is decided and what is not
	rules   []ruleFn // executed in order
	trusted []string
}

var registry = map[string]*propSpec{}

func register(s *propSpec) { registry[s.id] = s }

type knownFinding struct {
	Property string `json:"property"`
	Rule     string `json:"rule"`
	Key      string `json:"key"`
	Status   string `json:"status"` // known | fixed
	Commit   string `json:"commit,omitempty"`
	What     string `json:"what"`
}

func loadKnown(path string) ([]knownFinding, error) {
	var out []knownFinding
	b, err := os.ReadFile(path)
	if err != nil {
		if os.IsNotExist(err) {
			return nil, nil
		}
		return nil, err
	}
	var doc struct {
		Findings []knownFinding `json:"findings"`
	}
	if err := json.Unmarshal(b, &doc); err != nil {
		return nil, err
	}
	out = doc.Findings
	return out, nil
}

func main() {
	repo := flag.String("repo", "/repo", "repository working tree to analyse")
	prop := flag.String("prop", "", "property id (C01..C20), or 'all'")
	tier := flag.String("tier", "quick", "quick | thorough")
	outDir := flag.String("evidence", "/verif/evidence", "evidence directory")
	known := flag.String("known", "/verif/known_findings.json", "known findings file (read-only)")
	goos := flag.String("goos", "", "GOOS of the analysed configuration (default: host)")
	tags := flag.String("tags", "", "build tags of the analysed configuration")
	list := flag.Bool("list", false, "print every obligation")
	noEvidence := flag.Bool("no-evidence", false, "do not write evidence files (sub-runs of the thorough tier)")
	jsonOut := flag.String("json", "", "write the obligation list as JSON to this file (sub-runs)")
	only := flag.String("rule", "", "only report obligations of this rule (replay)")
	describe := flag.Bool("describe", false, "print the rule registry as JSON and exit")
	flag.Parse()
	if *describe {
		type d struct {
			ID, Level, Explain string
			Trusted            []string
		}
		var out []d
		for _, s := range registry {
			out = append(out, d{s.id, s.level, s.explain, s.trusted})
		}
		sort.Slice(out, func(i, j int) bool { return out[i].ID < out[j].ID })
		b, _ := json.MarshalIndent(out, "", " ")
		fmt.Println(string(b))
		return
	}

	start := time.Now()
	seed := 0
	if s := os.Getenv("VERIF_SEED"); s != "" {
		if n, err := strconv.Atoi(s); err == nil {
			seed = n
		}
	}
	var ids []string
	if *prop == "all" {
		for id := range registry {
			ids = append(ids, id)
		}
		sort.Strings(ids)
	} else if registry[*prop] != nil {
		ids = []string{*prop}
	} else {
		fmt.Fprintf(os.Stderr, "unknown property %q\n", *prop)
		os.Exit(2)
	}

	abs, _ := filepath.Abs(*repo)
	p, err := loadProg(abs, *goos, *tags)
	if err != nil {
		// a tree that does not load cannot be decided: fail every requested property
		for _, id := range ids {
			fmt.Printf("checker error: %v\n", err)
			fmt.Printf("VIOLATION property=%s replay=%s\n", id, "-")
		}
		os.Exit(1)
	}
	kf, kerr := loadKnown(*known)
	if kerr != nil {
		fmt.Printf("checker error: cannot read known findings: %v\n", kerr)
		os.Exit(1)
	}

	// warm-up: run every rule once to learn which functions rules look up by name (anchors);
	// helper transparency is off meanwhile and the results are discarded (transparent.go)
	{
		var all []string
		for id := range registry {
			all = append(all, id)
		}
		sort.Strings(all)
		for _, id := range all {
			for _, rule := range registry[id].rules {
				func() {
					defer func() { _ = recover() }()
					rule(p, &Report{Prop: id, p: p})
				}()
			}
		}
		ht.enabled = true
	}

	exit := 0
	for _, id := range ids {
		spec := registry[id]
		rep := &Report{Prop: id, p: p}
		for ri, rule := range spec.rules {
			func() {
				defer func() {
					if e := recover(); e != nil {
						rep.undecided("checker", fmt.Sprintf("panic:rule#%d", ri), "-", "checker panicked: %v\n%s", e, debug.Stack())
					}
				}()
				rule(p, rep)
			}()
		}
		if *only != "" {
			var f []Oblig
			for _, o := range rep.Obligs {
				if o.Rule == *only {
					f = append(f, o)
				}
			}
			rep.Obligs = f
		}
		// known findings: a violated obligation whose (rule,key) is listed as known is reported
		// as KNOWN-FINDING and does not fail the check. "fixed" entries suppress nothing.
		var viol []Oblig
		nDis, nAss, nKnown := 0, 0, 0
		for i := range rep.Obligs {
			o := &rep.Obligs[i]
			switch o.Verdict {
			case Discharged:
				nDis++
			case Assumed:
				nAss++
			case Violated:
				isKnown := false
				for _, k := range kf {
					if k.Status == "known" && k.Property == id && k.Rule == o.Rule && k.Key == o.Key {
						isKnown = true
						fmt.Printf("KNOWN-FINDING: property=%s %s %s %s (%s)\n", id, o.Rule, o.Key, k.What, o.Pos)
					}
				}
				if isKnown {
					o.Verdict = Known
					nKnown++
				} else {
					viol = append(viol, *o)
				}
			case Undecided:
				viol = append(viol, *o)
			}
		}
		if *list {
			for _, o := range rep.Obligs {
				fmt.Printf("%-14s %-24s %-60s %s  %s\n", o.Verdict, o.Rule, o.Key, o.Pos, o.Detail)
			}
		}
		wall := time.Since(start).Seconds()
		fmt.Printf("%s [%s goos=%s tags=%s]: %d packages, %d functions (%d module functions); %d obligations: %d discharged, %d assumed, %d known findings, %d violated/undecided\n",
			id, *tier, orDefault(*goos, "host"), orDefault(*tags, "-"), len(p.pkgs), p.nFuncs, len(p.srcFns), len(rep.Obligs), nDis, nAss, nKnown, len(viol))
		replay := filepath.Join(*outDir, id+".violations.json")
		if len(viol) > 0 {
			for _, o := range viol {
				fmt.Printf("  %s: %s %s at %s: %s\n", o.Verdict, o.Rule, o.Key, o.Pos, o.Detail)
			}
			if !*noEvidence {
				writeJSON(replay, map[string]any{
					"property": id, "violations": viol,
					"recheck": fmt.Sprintf("/verif/check %s quick   # re-derives every obligation from /repo's current tree", id),
				})
			}
			fmt.Printf("VIOLATION property=%s replay=%s\n", id, replay)
			exit = 1
		} else if !*noEvidence {
			os.Remove(replay)
		}
		if *jsonOut != "" {
			writeJSON(*jsonOut, map[string]any{"property": id, "obligations": rep.Obligs, "violations": len(viol)})
		}
		var extra map[string]any
		if *tier == "thorough" && !*noEvidence {
			var extraViol int
			extra, extraViol = thoroughExtras(abs, id, *known, seed)
			if extraViol > 0 && len(viol) == 0 {
				fmt.Printf("VIOLATION property=%s replay=%s\n", id, replay)
				exit = 1
			}
		}
		if !*noEvidence {
			wall = time.Since(start).Seconds()
			writeEvidence(filepath.Join(*outDir, id+".json"), spec, rep, p, *tier, seed, wall, len(viol), nDis, nAss, nKnown, extra)
		}
	}
	os.Exit(exit)
}

// thoroughExtras: the other build configurations (one process each) and the seeded-fault
// self-test of the property's rules on scratch copies. Returns evidence and the number of
// violations found in the other configurations.
func thoroughExtras(repo, id, known string, seed int) (map[string]any, int) {
	self, _ := os.Executable()
	out := map[string]any{}
	nViol := 0
	var cfgs []map[string]any
	for _, c := range [][2]string{{"darwin", ""}, {"windows", ""}, {"", "verif"}} {
		tmp, _ := os.CreateTemp("", "klogsa-*.json")
		tmp.Close()
		args := []string{"-repo", repo, "-prop", id, "-tier", "quick", "-no-evidence", "-known", known, "-json", tmp.Name()}
		if c[0] != "" {
			args = append(args, "-goos", c[0])
		}
		if c[1] != "" {
			args = append(args, "-tags", c[1])
		}
		cmd := exec.Command(self, args...)
		b, err := cmd.CombinedOutput()
		var doc struct {
			Obligations []Oblig `json:"obligations"`
			Violations  int     `json:"violations"`
		}
		if raw, rerr := os.ReadFile(tmp.Name()); rerr == nil {
			json.Unmarshal(raw, &doc)
		}
		os.Remove(tmp.Name())
		cfg := map[string]any{"goos": orDefault(c[0], "host"), "tags": c[1], "obligations": len(doc.Obligations), "violations": doc.Violations}
		if err != nil || doc.Violations > 0 || len(doc.Obligations) == 0 {
			nViol++
			cfg["failed"] = true
			for _, l := range strings.Split(string(b), "\n") {
				if strings.HasPrefix(l, "  violated") || strings.HasPrefix(l, "  undecided") || strings.HasPrefix(l, "checker error") {
					fmt.Printf("  [goos=%s tags=%s] %s\n", orDefault(c[0], "host"), c[1], strings.TrimSpace(l))
				}
			}
		}
		fmt.Printf("%s [thorough goos=%s tags=%s]: %d obligations, %d violated/undecided\n", id, orDefault(c[0], "host"), orDefault(c[1], "-"), len(doc.Obligations), doc.Violations)
		cfgs = append(cfgs, cfg)
	}
	out["configurations"] = cfgs
	// seeded-fault self-test (informational: never changes the verdict)
	verif := filepath.Dir(filepath.Dir(self))
	tool := filepath.Join(verif, "tools", "selftest.py")
	if _, err := os.Stat(tool); err == nil {
		tmp, _ := os.CreateTemp("", "klogsa-st-*.json")
		tmp.Close()
		cmd := exec.Command("python3", tool, "--prop", id, "-j", "8", "--json", tmp.Name())
		cmd.Env = append(os.Environ(), "VERIF_REPO="+repo, fmt.Sprintf("VERIF_SEED=%d", seed))
		b, _ := cmd.CombinedOutput()
		var res []map[string]any
		if raw, rerr := os.ReadFile(tmp.Name()); rerr == nil {
			json.Unmarshal(raw, &res)
		}
		os.Remove(tmp.Name())
		counts := map[string]int{}
		var mism []string
		for _, e := range res {
			st, _ := e["status"].(string)
			exp, _ := e["expect"].(string)
			counts[exp+"->"+st]++
			if (exp == "violation" && st == "silent") || (exp == "silent" && st == "flagged") {
				mism = append(mism, fmt.Sprint(e["id"]))
			}
		}
		lines := strings.Split(strings.TrimSpace(string(b)), "\n")
		fmt.Printf("%s [thorough self-test]: %s\n", id, lines[len(lines)-1])
		for _, m := range mism {
			fmt.Printf("SELFTEST-MISMATCH property=%s entry=%s (informational: checker sensitivity, not a verdict on /repo)\n", id, m)
		}
		out["selftest"] = map[string]any{"entries": len(res), "outcome_counts": counts, "mismatches": mism,
			"note": "seeded edits of selftest/corpus.json applied one at a time to scratch copies of the tree under test; expect=violation must be flagged, expect=silent must stay silent; informational"}
	}
	return out, nViol
}

func orDefault(s, d string) string {
	if s == "" {
		return d
	}
	return s
}

func writeJSON(path string, v any) {
	b, _ := json.MarshalIndent(v, "", " ")
	os.MkdirAll(filepath.Dir(path), 0755)
	if err := os.WriteFile(path, append(b, '\n'), 0644); err != nil {
		fmt.Fprintf(os.Stderr, "cannot write %s: %v\n", path, err)
	}
}

func writeEvidence(path string, spec *propSpec, rep *Report, p *Prog, tier string, seed int, wall float64, nViol, nDis, nAss, nKnown int, extra map[string]any) {
	distinct := map[string]bool{}
	perRule := map[string]int{}
	for _, o := range rep.Obligs {
		if o.Pos != "-" { // non-trivial: tied to a concrete construct in the source
			distinct[o.Rule+"|"+o.Key] = true
		}
		perRule[o.Rule]++
	}
	var samples []Oblig
	seenRule := map[string]int{}
	for _, o := range rep.Obligs {
		if seenRule[o.Rule] < 2 || o.Verdict != Discharged {
			samples = append(samples, o)
			seenRule[o.Rule]++
		}
	}
	var pkgs []string
	for _, pk := range p.pkgs {
		pkgs = append(pkgs, strings.TrimPrefix(pk.PkgPath, modPath))
	}
	sort.Strings(pkgs)
	assumptions := append([]string{}, spec.trusted...)
	assumptions = append(assumptions, rep.Trust...)
	for _, o := range rep.Obligs {
		if o.Verdict == Assumed {
			assumptions = append(assumptions, fmt.Sprintf("assumed %s %s: %s", o.Rule, o.Key, o.Detail))
		}
	}
	cov := map[string]any{
		"explanation":         spec.explain,
		"obligations":         len(rep.Obligs),
		"discharged":          nDis + nAss + nKnown,
		"assumed":             nAss,
		"known_findings":      nKnown,
		"evaluations":         len(rep.Obligs),
		"distinct_nontrivial": len(distinct),
		"rule":                "one obligation per (rule, construct) derived from the type-checked SSA program of /repo's working tree; distinct = distinct (rule, construct key) pairs anchored at a source position",
		"samples":             samples,
		"per_rule":            perRule,
		"checker_cmd":         "/verif/check " + spec.id + " " + tier,
		"trusted_base":        assumptions,
		"analysed": map[string]any{
			"packages": pkgs, "functions_total": p.nFuncs, "module_functions": len(p.srcFns),
			"goos": orDefault(p.goos, "host"), "tags": p.tags,
		},
		"notes":      rep.Notes,
		"exhaustive": true,
	}
	for k, v := range extra {
		cov[k] = v
	}
	ev := map[string]any{
		"property_id": spec.id,
		"tier":        tier,
		"seed":        seed,
		"level":       spec.level,
		"coverage":    cov,
		"assumptions": assumptions,
		"wall_s":      wall,
		"violations":  nViol,
	}
	writeJSON(path, ev)
}
