package main

// Rules added after the first round of independently seeded changes (DESIGN §7): each is a
// structural necessary condition of the named property that the first rule set did not cover.

import (
	"fmt"
	"go/token"
	"reflect"
	"regexp"
	"strings"

	"golang.org/x/tools/go/ssa"
)

// P01-lex:group-guards — a comparison of a capture group with a constant that the group's own
// sub-pattern matches rejects a literal of the specification's shape; for groups whose every
// match is valid (the year of a date: 0000-9999) that rejects valid input.
func ruleP01GroupGuards(p *Prog, r *Report) {
	const rule = "P01-lex"
	f := p.fn("klog", "NewDateFromString")
	if !r.anchorFn(rule, f, "klog.NewDateFromString") {
		return
	}
	n := 0
	for _, b := range f.Blocks {
		iff, ok := b.Instrs[len(b.Instrs)-1].(*ssa.If)
		if !ok {
			continue
		}
		bo, ok := iff.Cond.(*ssa.BinOp)
		if !ok || (bo.Op != token.EQL && bo.Op != token.NEQ) {
			continue
		}
		s, isS := constString(bo.Y)
		if !isS {
			continue
		}
		pat, grp, okm := p.patternOfMatch(bo.X)
		if !okm || grp != 1 {
			continue
		}
		n++
		sub := captureGroupSource(pat, grp)
		m, err := reMatchesFully(sub, s)
		if err != nil {
			r.undecided(rule, "date-year-guard", p.instrPos(iff), "cannot evaluate group pattern: %v", err)
			continue
		}
		// does the equal edge lead to rejection?
		eq := b.Succs[0]
		if bo.Op == token.NEQ {
			eq = b.Succs[1]
		}
		rejects := reachesOnlyError(eq)
		r.check(!(m && rejects), rule, fmt.Sprintf("date-year-guard:%q", s), p.instrPos(iff), fmt.Sprintf("comparing the year with %q rejects no year of the shape %s", s, sub), fmt.Sprintf("the year %q matches %s and is rejected: every year 0000-9999 is valid", s, sub))
	}
	if n == 0 {
		r.ok(rule, "date-year-guard", p.pos(f.Pos()), "no guard rejects a particular year")
	}
}

func captureGroupSource(pat string, group int) string {
	// parse and print the sub-expression of the capture group
	re, err := syntaxParse(pat)
	if err != nil {
		return pat
	}
	var found string
	var walk func(x *syntaxRegexp)
	walk = func(x *syntaxRegexp) {
		if x.Op == opCapture && x.Cap == group && len(x.Sub) == 1 {
			found = x.Sub[0].String()
		}
		for _, s := range x.Sub {
			walk(s)
		}
	}
	walk(re)
	if found == "" {
		return pat
	}
	return found
}

// P04-resume-previous — `--resume` falls back to the most recent earlier record: the spy
// walks the records in descending date order and takes the first one strictly before the
// target date.
func ruleP04ResumePrevious(p *Prog, r *Report) {
	const rule = "P04-resume-previous"
	f := p.method("klog/app/cli", "PreviousRecordSpy", "phonyCreator")
	sortFn := p.fn("klog/service", "Sort")
	if !r.anchorFn(rule, f, "cli.PreviousRecordSpy.phonyCreator") || !r.anchorFn(rule, sortFn, "service.Sort") {
		return
	}
	if len(f.AnonFuncs) != 1 {
		r.undecided(rule, "closure", p.pos(f.Pos()), "phonyCreator does not return a single function literal")
		return
	}
	cl := f.AnonFuncs[0]
	// (the search may live in a helper that returns the record found)
	vcs := virtualCallsTo(cl, sortFn)
	okSort := len(vcs) == 1
	var sorted ssa.Value
	if okSort {
		vcs[0].run(func() {
			c := vcs[0].call
			b, isB := constBool(c.Common().Args[1])
			okSort = isB && !b && strip(c.Common().Args[0]) == ssa.Value(cl.Params[0])
			sorted = c.Value()
		})
	}
	r.check(okSort, rule, "descending", p.pos(cl.Pos()), "records are visited from the latest to the oldest", "the previous record is not searched in descending date order (an older record than the most recent earlier one is taken)")
	// the store to PreviousRecord: element of that sorted slice, on the edge where !elem.Date().IsAfterOrEqual(current)
	okStore := false
	eachVInstr(cl, func(in ssa.Instruction) {
		st, ok := in.(*ssa.Store)
		if !ok {
			return
		}
		fa, ok := st.Addr.(*ssa.FieldAddr)
		if !ok || fieldName(fa) != "PreviousRecord" || sorted == nil {
			return
		}
		nFound, good := 0, true
		for _, row := range valueRows(st.Val, 0, map[ssa.Value]bool{}) {
			if isNilConst(row.val) {
				// "nothing found": must not be stored
				if !knownNonNil(st.Block(), st.Val) {
					good = false
				}
				continue
			}
			nFound++
			coll := rangeElemOf(row.val)
			if coll == nil || !sameValue(coll, sorted) {
				good = false
				continue
			}
			earlier := false
			for _, g := range append(append([]Guard{}, row.guards...), guardsOf(st.Block())...) {
				n, recv, args, _ := methodCall(g.Cond)
				if n == "IsAfterOrEqual" && !g.Pol && len(args) == 1 {
					n2, r2, _, _ := methodCall(recv)
					if n2 == "Date" && rangeElemOf(r2) != nil && isFreeVarOrParam(args[0]) {
						earlier = true
					}
				}
			}
			if !earlier {
				good = false
			}
			// and the search stops there: the value is returned from the loop, or the store is
			// not followed by another iteration
			if ret, isRet := row.at.(*ssa.Return); isRet && ret.Parent() != cl {
				continue
			}
			for _, s := range st.Block().Succs {
				if reachableFrom(s, nil)[st.Block()] {
					good = false
				}
			}
		}
		if nFound > 0 && good {
			okStore = true
		}
	})
	r.check(okStore, rule, "first-earlier", p.pos(cl.Pos()), "the first record strictly before the target date is taken and the search stops", "the previous record is not the first record (in that order) whose date is strictly before the target date")
	// and it never yields a reconciler
	for _, ret := range returnsOf(cl) {
		if !isNilConst(retResult(ret, 0)) {
			r.bad(rule, "pass-through", p.instrPos(ret), "the spy creator can yield a reconciler")
		}
	}
}

func isFreeVarOrParam(v ssa.Value) bool {
	v = strip(v)
	switch v.(type) {
	case *ssa.FreeVar, *ssa.Parameter:
		return true
	}
	if u, ok := v.(*ssa.UnOp); ok && u.Op == token.MUL {
		if _, ok := u.X.(*ssa.FreeVar); ok {
			return true
		}
	}
	return false
}

// P04-pause-token — the token ExtendPause replaces must be able to match every serialisation
// of a negative duration (writer's format vs. reader's pattern).
func ruleP04PauseToken(p *Prog, r *Report) {
	const rule = "P04-pause-token"
	f := p.method("klog/parser/reconciling", "Reconciler", "ExtendPause")
	if !r.anchorFn(rule, f, "Reconciler.ExtendPause") {
		return
	}
	var pat string
	found := false
	var at ssa.Instruction
	eachInstr(f, func(in ssa.Instruction) {
		if c, ok := in.(ssa.CallInstruction); ok {
			if n, recv, _, _ := methodCallOf(c); n == "FindString" {
				pat, found = p.regexOfValue(recv)
				at = c
			}
		}
	})
	if !found {
		r.undecided(rule, "pattern", p.pos(f.Pos()), "the pause token is not located with a constant regular expression")
		return
	}
	// every negative duration as written by duration.ToString: -(Hh)(Mm) with at least one part
	ref := `-(\d+h\d+m|\d+h|\d+m)`
	ok, w, err := reIncluded(ref, pat)
	if err != nil {
		r.undecided(rule, "pattern", p.instrPos(at), "cannot compare pattern: %v", err)
		return
	}
	r.check(ok, rule, "covers-durations", p.instrPos(at), fmt.Sprintf("%s matches every serialised negative duration", pat), fmt.Sprintf("the pause token pattern %s does not match the serialised duration %q: extending such a pause rewrites only a part of it", pat, w))
	// ExtendPause takes the last duration entry with InMinutes() <= 0 as the pause: besides the
	// negative ones these are the zero durations, which need not carry a minus sign (0m, +0m, 0h).
	// Their value token must be found as well — otherwise the first match lies in the summary
	// ("0m pre-work" became "0m pre-1m", D12)
	refZero := `\+?(0+h0+m|0+h|0+m)`
	if okZ, wz, errZ := reIncluded(refZero, pat); errZ == nil {
		r.check(okZ, rule, "covers-zero", p.instrPos(at), fmt.Sprintf("%s matches every zero-valued pause as well", pat), fmt.Sprintf("the pause token pattern %s does not match the zero duration %q, which ExtendPause also selects as the pause to extend: the first thing the pattern does match (a hyphenated word of the summary) is rewritten instead, or the new value is put in front of the line", pat, wz))
	} else {
		r.undecided(rule, "covers-zero", p.instrPos(at), "cannot compare pattern: %v", errZ)
	}
	// and a match stays inside one blank-delimited token (it can neither start in the indentation
	// nor run on into the summary)
	if okS, ws, errS := reIncluded(pat, `[^ \t]+`); errS == nil {
		r.check(okS, rule, "one-token", p.instrPos(at), "a match contains no blank", fmt.Sprintf("the pause token pattern %s can match text with a blank in it (%q): more than the value token is replaced", pat, ws))
	}
	// the longest match must take the whole token: the pattern followed by more token characters is still within the pattern
	ok2, w2, err2 := reIncluded(ref+`\w*`, `(?:`+pat+`)\w*`)
	_ = w2
	if err2 == nil {
		// a pattern that can only match a prefix (e.g. -\d+[hm] on -1h1m) leaves the rest behind:
		// require that a full serialised duration is one match, not match + rest
		inc, w3, _ := reIncluded(ref, pat)
		r.check(ok2 && inc, rule, "whole-token", p.instrPos(at), "a compound duration such as -1h1m is matched as a whole", fmt.Sprintf("a compound duration such as %q is only matched in part", w3))
	}
}

// P04-pause-selector — the entry `klog pause` keeps extending is a DURATION entry that does not
// add time (<= 0). The predicate handed to findLastEntry decides by entry kind first: a range
// never qualifies (a range of zero length has a duration of 0 too, and its line does not begin
// with a duration token), nor does the open range.
func ruleP04PauseSelector(p *Prog, r *Report) {
	const rule = "P04-pause-selector"
	f := p.method("klog/parser/reconciling", "Reconciler", "ExtendPause")
	fle := p.method("klog/parser/reconciling", "Reconciler", "findLastEntry")
	if !r.anchorFn(rule, f, "Reconciler.ExtendPause") || !r.anchorFn(rule, fle, "Reconciler.findLastEntry") {
		return
	}
	n := 0
	for _, c := range callsTo(f, fle) {
		pred := funcLiteral(c.Common().Args[len(c.Common().Args)-1])
		if pred == nil {
			if fn, isFn := strip(c.Common().Args[len(c.Common().Args)-1]).(*ssa.Function); isFn {
				pred = fn
			}
		}
		if pred == nil {
			continue
		}
		// the open-range lookup is a predicate too: tell them apart by the Duration arm
		arms, uc := p.unboxArms(pred)
		if uc != nil {
			own := false
			for g := uc.Parent(); g != nil; g = g.Parent() {
				if originFn(g) == originFn(pred) {
					own = true
				}
			}
			if !own {
				arms = nil // a dispatch somewhere below the predicate is not the predicate's own decision
			}
		}
		if arms != nil && arms["Duration"] != nil {
			allFalse := true
			for _, ret := range plainReturnsOf(arms["Duration"]) {
				if v, isB := constBool(retResult(ret, 0)); !isB || v {
					allFalse = false
				}
			}
			if allFalse {
				continue // the "is there an open range" lookup
			}
		}
		n++
		key := fmt.Sprintf("selector#%d", n)
		if arms == nil || arms["Range"] == nil || arms["OpenRange"] == nil || arms["Duration"] == nil {
			r.bad(rule, key, p.instrPos(c), "the pause to extend is not selected by entry kind (no klog.Unbox dispatch with one arm per kind): an entry that is not a duration — a range of zero length, say — can be taken for the pause, and its line is then rewritten as if it began with a duration")
			continue
		}
		okKinds := true
		for _, kind := range []string{"Range", "OpenRange"} {
			for _, ret := range plainReturnsOf(arms[kind]) {
				if v, isB := constBool(retResult(ret, 0)); !isB || v {
					okKinds = false
				}
			}
		}
		r.check(okKinds, rule, key+":kinds", p.instrPos(c), "ranges and open ranges never qualify as the pause", "a range or an open range can be selected as the pause to extend")
		okDur := false
		d := arms["Duration"]
		for _, ret := range plainReturnsOf(d) {
			if bo, isB := normCmp(retResult(ret, 0)); isB {
				nm, recv, _, _ := methodCall(bo.X)
				k, isK := constInt(bo.Y)
				if nm == "InMinutes" && recv != nil && strip(recv) == ssa.Value(d.Params[len(d.Params)-1]) && isK && ((bo.Op == token.LEQ && k == 0) || (bo.Op == token.LSS && k == 1)) {
					okDur = true
				}
			}
		}
		r.check(okDur, rule, key+":value", p.instrPos(c), "a duration qualifies iff it is <= 0", "the pause is not selected as 'a duration entry of at most zero minutes'")
	}
	if n != 1 {
		r.undecided(rule, "selector", p.pos(f.Pos()), "expected one selection of the pause entry through findLastEntry in ExtendPause, found %d", n)
	}
}

// P07-merge-order (values, blocks): inside the merge loop the results of the carried text are
// appended before the batch's own results, for every accumulator.
func ruleP07MergeOrderAll(p *Prog, r *Report) {
	const rule = "P07-merge-order"
	parse, _, ok := p.parallelFns(r, rule)
	if !ok {
		return
	}
	mapParse := p.method("klog/parser/engine", "SerialParser", "mapParse")
	var vals, blks ssa.Value
	for _, ret := range returnsOf(parse) {
		if !isNilConst(retResult(ret, 0)) {
			vals, blks = retResult(ret, 0), retResult(ret, 1)
		}
	}
	if vals == nil || mapParse == nil {
		r.undecided(rule, "results", p.pos(parse.Pos()), "the parallel parser's result accumulators were not found")
		return
	}
	for name, acc := range map[string]ssa.Value{"values": vals, "blocks": blks} {
		apps, _ := accWeb(acc)
		name := name
		okOrder := carryBeforeBatch(parse, apps, func(a *ssa.Call) (bool, bool) {
			src := strip(a.Call.Args[1])
			if _, fld := fieldLoad(src); fld == name {
				return false, true
			} else if mc, _ := callOf(src); mc != nil && sameFn(staticCallee(mc), mapParse) {
				return true, false
			}
			return false, false
		})
		r.check(okOrder, rule, name, p.pos(parse.Pos()), "the carried text's "+name+" precede the batch's own "+name, "the merge does not append the carried text's "+name+" before the batch's own: records and blocks come out in a different order than from the serial parser")
	}
}

// P11-elect-wiring — every style property is ascertained from the election that collected the
// votes of that very property, with that very property of the base style.
func ruleP11ElectWiring(p *Prog, r *Report) {
	const rule = "P11-elect-wiring"
	f := p.fn("klog/parser/reconciling", "elect")
	if !r.anchorFn(rule, f, "reconciling.elect") {
		return
	}
	// election alloc -> property whose votes it receives
	votes := map[ssa.Value]string{}
	eachInstr(f, func(in ssa.Instruction) {
		c, ok := in.(ssa.CallInstruction)
		if !ok || staticCallee(c) == nil || fnBase(staticCallee(c)) != "vote" || len(c.Common().Args) != 2 {
			return
		}
		_, fld := fieldLoad(c.Common().Args[1])
		if fld == "" {
			return
		}
		e := strip(c.Common().Args[0])
		if old, dup := votes[e]; dup && old != fld {
			r.bad(rule, "votes:"+fld, p.instrPos(c), "one election receives the votes of two different properties (%s and %s)", old, fld)
		}
		votes[e] = fld
		if only, _ := onlyLoopGuards(c.Block()); !only {
			r.bad(rule, "votes:"+fld+":all", p.instrPos(c), "not every record votes for %s", fld)
		}
	})
	n := 0
	eachInstr(f, func(in ssa.Instruction) {
		st, ok := in.(*ssa.Store)
		if !ok {
			return
		}
		fa, ok := st.Addr.(*ssa.FieldAddr)
		if !ok || typeNameOf(fa.X.Type()) != "style" {
			return
		}
		prop := fieldName(fa)
		c, _ := callOf(st.Val)
		if c == nil || staticCallee(c) == nil || fnBase(staticCallee(c)) != "ascertain" {
			r.bad(rule, prop, p.instrPos(st), "style property %s of the elected style is not the result of ascertain(election, base value)", prop)
			return
		}
		n++
		e := strip(c.Common().Args[0])
		_, baseFld := fieldLoad(c.Common().Args[1])
		r.check(votes[e] == prop && baseFld == prop, rule, prop, p.instrPos(st), prop+" <- its own election and its own base value", fmt.Sprintf("style property %s is taken from the election of %q and the base value %q", prop, votes[e], baseFld))
	})
	if n < 6 {
		r.undecided(rule, "floor", "-", "found %d elected style properties, expected 6", n)
	}
}

// P13-sortflag — the order flag is compared case-insensitively when its enum admits both cases.
func ruleP13SortFlag(p *Prog, r *Report) {
	const rule = "P13-sortflag"
	f := p.method("klog/app/cli/util", "SortArgs", "ApplySort")
	st := p.namedType("klog/app/cli/util", "SortArgs")
	if !r.anchorFn(rule, f, "util.SortArgs.ApplySort") || st == nil {
		return
	}
	enum := ""
	if s, ok := st.Underlying().(interface {
		NumFields() int
		Tag(int) string
	}); ok {
		for i := 0; i < s.NumFields(); i++ {
			if e := reflect.StructTag(s.Tag(i)).Get("enum"); e != "" {
				enum = e
			}
		}
	}
	mixed := regexp.MustCompile(`[A-Z]`).MatchString(enum) && regexp.MustCompile(`[a-z]`).MatchString(enum)
	n := 0
	eachInstr(f, func(in ssa.Instruction) {
		bo, ok := in.(*ssa.BinOp)
		if !ok || bo.Op != token.EQL {
			return
		}
		s, isS := constString(bo.Y)
		if !isS || (strings.ToLower(s) != "asc" && strings.ToLower(s) != "desc") {
			return
		}
		n++
		folded := false
		if c, _ := callOf(bo.X); c != nil && staticCallee(c) != nil {
			switch staticCallee(c).String() {
			case "strings.ToLower":
				folded = s == strings.ToLower(s)
			case "strings.ToUpper":
				folded = s == strings.ToUpper(s)
			}
		}
		r.check(folded || !mixed, rule, "compare:"+s, p.pos(bo.Pos()), "the order value is compared case-insensitively (enum: "+enum+")", fmt.Sprintf("--sort accepts %q but compares the value with %q case-sensitively: the upper-case spelling sorts the wrong way", enum, s))
	})
	eachInstr(f, func(in ssa.Instruction) {
		if c, ok := in.(ssa.CallInstruction); ok && staticCallee(c) != nil && staticCallee(c).String() == "strings.EqualFold" {
			n++
			r.ok(rule, "compare:fold", p.instrPos(c), "the order value is compared with EqualFold")
		}
	})
	if n == 0 {
		r.undecided(rule, "compare", p.pos(f.Pos()), "ApplySort does not compare the order value with asc/desc")
	}
	// the direction handed to Sort is exactly that comparison; no order -> records unchanged
	srt := p.fn("klog/service", "Sort")
	for _, c := range callsTo(f, srt) {
		r.check(strip(c.Common().Args[0]) == ssa.Value(f.Params[1]), rule, "sort:records", p.instrPos(c), "the records given are sorted", "ApplySort does not sort the records it is given")
	}
}

// P14-unquote — a quoted value loses exactly its own delimiting quotes.
func ruleP14Unquote(p *Prog, r *Report) {
	const rule = "P14-unquote"
	f := p.fn("klog", "NewTagFromString")
	if !r.anchorFn(rule, f, "klog.NewTagFromString") {
		return
	}
	n := 0
	for _, g := range withAnons(f) {
		eachInstr(g, func(in ssa.Instruction) {
			c, ok := in.(ssa.CallInstruction)
			if !ok || staticCallee(c) == nil {
				return
			}
			name := staticCallee(c).String()
			if !strings.HasPrefix(name, "strings.Trim") {
				return
			}
			_, grp, isGrp := p.patternOfMatch(deref(c.Common().Args[0]))
			if !isGrp || grp != 3 {
				return
			}
			n++
			cut, _ := constString(c.Common().Args[1])
			// guarded by HasPrefix(v, same quote)
			guarded := false
			for _, gd := range guardsOf(c.Block()) {
				if hc, ok := gd.Cond.(*ssa.Call); ok && gd.Pol && staticCallee(hc) != nil && staticCallee(hc).String() == "strings.HasPrefix" {
					if q, isQ := constString(hc.Call.Args[1]); isQ && q == cut && sameValue(hc.Call.Args[0], c.Common().Args[0]) {
						guarded = true
					}
				}
			}
			okCut := (cut == `"` || cut == `'`) && (name == "strings.Trim" || name == "strings.TrimPrefix" || name == "strings.TrimSuffix")
			r.check(okCut && guarded, rule, fmt.Sprintf("trim:%q", cut), p.instrPos(c), fmt.Sprintf("a value that starts with %s loses only %s", cut, cut), fmt.Sprintf("quote stripping removes the characters %q without checking which quote delimits the value: a value beginning or ending with the other quote character is truncated", cut))
		})
	}
	if n < 2 {
		r.bad(rule, "trims", p.pos(f.Pos()), "expected the two quote kinds to be stripped separately (found %d trim calls on the value group)", n)
	}
}

// P19-names:strip — only the leading prefix of a bookmark name is stripped.
func ruleP19NameStrip(p *Prog, r *Report) {
	const rule = "P19-names"
	f := p.fn("klog/app", "NewName")
	if !r.anchorFn(rule, f, "app.NewName") {
		return
	}
	n := 0
	eachInstr(f, func(in ssa.Instruction) {
		c, ok := in.(ssa.CallInstruction)
		if !ok || staticCallee(c) == nil || !strings.HasPrefix(staticCallee(c).String(), "strings.Trim") {
			return
		}
		n++
		name := staticCallee(c).String()
		cut, _ := constString(c.Common().Args[1])
		okFn := name == "strings.TrimLeft" || name == "strings.TrimPrefix"
		r.check(okFn && cut == "@" && strip(c.Common().Args[0]) == ssa.Value(f.Params[0]), rule, "NewName:strip", p.instrPos(c), "only leading @ characters are stripped from a name", fmt.Sprintf("NewName normalises with %s(%q): characters other than the leading prefix are removed, so distinct names collide", name, cut))
	})
	// the hand-written form: while the value starts with "@", drop that one byte
	eachInstr(f, func(in ssa.Instruction) {
		sl, ok := in.(*ssa.Slice)
		if !ok || sl.High != nil || sl.Low == nil {
			return
		}
		lo, isK := constInt(sl.Low)
		if !isK || !isStringType(sl.X.Type()) {
			return
		}
		_, inputs := phiCycle(sl.X)
		fromParam := false
		for _, iv := range inputs {
			if strip(iv) == ssa.Value(f.Params[0]) {
				fromParam = true
			}
		}
		if !fromParam {
			return
		}
		n++
		guarded := false
		for _, gd := range guardsOf(sl.Block()) {
			if hc, ok := gd.Cond.(*ssa.Call); ok && gd.Pol && staticCallee(hc) != nil && staticCallee(hc).String() == "strings.HasPrefix" {
				if q, isQ := constString(hc.Call.Args[1]); isQ && q == "@" && int64(len(q)) == lo && sameValue(hc.Call.Args[0], sl.X) {
					guarded = true
				}
			}
		}
		r.check(guarded, rule, "NewName:strip", p.instrPos(sl), "only leading @ characters are stripped from a name", "NewName cuts bytes off the name that are not known to be the @ prefix")
	})
	if n == 0 {
		r.bad(rule, "NewName:strip", p.pos(f.Pos()), "NewName does not strip the @ prefix")
	}
}

// P12-now-all — --now is applied to all records that are evaluated afterwards: its argument is
// the slice read (possibly filtered/sorted), not a part of it.
func ruleP12NowAll(p *Prog, r *Report) {
	const rule = "P12-now-applied"
	an := p.method("klog/app/cli/util", "NowArgs", "ApplyNow")
	if an == nil {
		return
	}
	chains, sites := map[string]string{}, map[string]string{}
	for _, f := range p.srcFns {
		if pkgPathOfFn(f) != modPath+"/klog/app/cli" {
			continue
		}
		for _, c := range callsTo(f, an) {
			v := c.Common().Args[len(c.Common().Args)-1]
			chain := ""
			ok := false
			for i := 0; i < 6; i++ {
				cc, idx := callOf(derefFlow(v))
				if cc == nil {
					break
				}
				if cc.Common().IsInvoke() && cc.Common().Method.Name() == "ReadInputs" && idx == 0 {
					ok = true
					break
				}
				g := staticCallee(cc)
				if g == nil || idx != 0 {
					break
				}
				switch fnBase(g) {
				case "ApplyFilter", "ApplySort", "Sort":
					chain += fnBase(g) + "<"
					v = cc.Common().Args[len(cc.Common().Args)-1]
					if fnBase(g) == "Sort" {
						v = cc.Common().Args[0]
					}
					continue
				}
				break
			}
			r.check(ok, rule, fnName(f)+":all-records", p.instrPos(c), "--now closes the open ranges of all records read ("+chain+"ReadInputs)", "--now is applied to only a part of the records that are evaluated (its argument is not the records read, filtered or sorted)")
			if ok {
				chains[fnName(outermost(f))] = chain + "ReadInputs"
				sites[fnName(outermost(f))] = p.instrPos(c)
			}
		}
	}
	// `report` and `total` evaluate the same entries: whether the filter sees the open ranges
	// still open or already closed (--entry-type range / open-range) must be the same for both,
	// otherwise the grand total of the report is not what `total` says
	tot, rep := chains["(*klog/app/cli.Total).Run"], chains["(*klog/app/cli.Report).Run"]
	if tot == "" || rep == "" {
		r.undecided(rule, "report=total:pipeline", "-", "the --now step of total or report was not found (total: %q, report: %q)", tot, rep)
		return
	}
	// … and the filter comes first (total, report, tags alike): --now turns today's open range
	// into a closed one, so a filter that runs afterwards no longer sees it as `open-range`
	// (and counts it under `range`). klog json is the exception the commands have today (§12.2).
	for _, cmd := range []string{"Total", "Report", "Tags"} {
		fn := "(*klog/app/cli." + cmd + ").Run"
		if ch, found := chains[fn]; found {
			r.check(strings.HasPrefix(ch, "ApplyFilter<"), rule, cmd+":filter-first", sites[fn], cmd+" applies --now to what the filter selected", cmd+" applies --now to "+ch+", i.e. before the filter: with --entry-type the filter then sees the open range as an ordinary range — `--entry-type open-range --now` selects nothing")
		}
	}
	r.check(tot == rep, rule, "report=total:pipeline", sites["(*klog/app/cli.Report).Run"], "report and total close open ranges at the same point of the pipeline ("+tot+")", fmt.Sprintf("report applies --now to %s, total to %s: with --now and an entry-type filter the two evaluate different entries, so the report's grand total differs from `klog total`", rep, tot))
}
