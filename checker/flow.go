package main

// B1 (guards from dominance), B2 (value provenance), B3 helpers (nil-ness of returned errors).

import (
	"go/constant"
	"go/token"
	"go/types"
	"strings"

	"golang.org/x/tools/go/ssa"
)

// ---------------------------------------------------------------------------------------------
// B2: provenance — strip value-preserving wrappers.

// strip removes conversions that preserve the value's identity.
func strip(v ssa.Value) ssa.Value { return stripV(v, nil) }

func stripV(v ssa.Value, visiting map[*ssa.Phi]bool) ssa.Value {
	for hops := 0; ; hops++ {
		if hops < 40 {
			if w, ok := throughHelper(v); ok {
				v = w
				continue
			}
		}
		switch x := v.(type) {
		case *ssa.ChangeType:
			v = x.X
		case *ssa.MakeInterface:
			v = x.X
		case *ssa.ChangeInterface:
			v = x.X
		case *ssa.Convert:
			// only strip conversions between types with identical underlying kinds (named<->unnamed)
			if types.Identical(x.X.Type().Underlying(), x.Type().Underlying()) {
				v = x.X
			} else {
				return v
			}
		case *ssa.Phi:
			// a phi whose inputs are all the same value
			if visiting[x] {
				return v
			}
			if visiting == nil {
				visiting = map[*ssa.Phi]bool{}
			}
			visiting[x] = true
			var one ssa.Value
			same := true
			for _, e := range x.Edges {
				e = stripV(e, visiting)
				if e == x {
					continue
				}
				if one == nil {
					one = e
				} else if one != e {
					same = false
				}
			}
			delete(visiting, x)
			if same && one != nil {
				if _, isPhi := one.(*ssa.Phi); isPhi {
					return v
				}
				v = one
			} else {
				return v
			}
		default:
			return v
		}
	}
}

// cellStores returns all stores into the cell (Alloc or FreeVar chain) in the function
// that owns the alloc and in all its nested closures.
type storeSite struct {
	val ssa.Value
	in  *ssa.Store
}

// cellOf resolves an address value to the Alloc it denotes, following FreeVars to the
// enclosing function's binding.
func cellOf(addr ssa.Value) *ssa.Alloc {
	for i := 0; i < 8; i++ {
		switch x := addr.(type) {
		case *ssa.Alloc:
			return x
		case *ssa.FreeVar:
			b := freeVarBinding(x)
			if b == nil {
				return nil
			}
			addr = b
		default:
			return nil
		}
	}
	return nil
}

// freeVarBinding finds the value bound to a free variable at the (unique) MakeClosure site.
func freeVarBinding(fv *ssa.FreeVar) ssa.Value {
	fn := fv.Parent()
	parent := fn.Parent()
	if parent == nil {
		return nil
	}
	idx := -1
	for i, v := range fn.FreeVars {
		if v == fv {
			idx = i
		}
	}
	if idx < 0 {
		return nil
	}
	var res ssa.Value
	n := 0
	for _, b := range parent.Blocks {
		for _, in := range b.Instrs {
			if mc, ok := in.(*ssa.MakeClosure); ok && mc.Fn == fn {
				res = mc.Bindings[idx]
				n++
			}
		}
	}
	if n != 1 {
		return nil
	}
	return res
}

// storesTo lists every store whose address resolves to the given alloc, in the owning
// function and all nested closures.
func storesTo(a *ssa.Alloc) []storeSite {
	var out []storeSite
	for _, f := range withAnons(a.Parent()) {
		eachInstr(f, func(in ssa.Instruction) {
			if st, ok := in.(*ssa.Store); ok {
				if cellOf(st.Addr) == a {
					out = append(out, storeSite{st.Val, st})
				}
			}
		})
	}
	return out
}

// deref follows a load of a local cell that has exactly one store to the stored value.
// (Cells captured by closures are heap Allocs in go/ssa.)
func deref(v ssa.Value) ssa.Value {
	for i := 0; i < 8; i++ {
		v = strip(v)
		u, ok := v.(*ssa.UnOp)
		if !ok || u.Op != token.MUL {
			return v
		}
		a := cellOf(u.X)
		if a == nil {
			return v
		}
		sts := storesTo(a)
		if len(sts) != 1 {
			return v
		}
		v = sts[0].val
	}
	return v
}

// callOf: if v is (an Extract of) a call result, return the call and the result index.
func callOf(v ssa.Value) (ssa.CallInstruction, int) {
	v = deref(v)
	switch x := v.(type) {
	case *ssa.Call:
		return x, 0
	case *ssa.Extract:
		if c, ok := x.Tuple.(*ssa.Call); ok {
			return c, x.Index
		}
	}
	return nil, -1
}

// isCallTo reports whether v is result idx of a call to target (static callee).
func isCallTo(v ssa.Value, target *ssa.Function, idx int) (ssa.CallInstruction, bool) {
	c, i := callOf(v)
	if c == nil || i != idx {
		return nil, false
	}
	if sameFn(staticCallee(c), target) {
		return c, true
	}
	return nil, false
}

// isInvokeOf reports whether v is result idx of an interface-method call named method.
func isInvokeOf(v ssa.Value, method string, idx int) (ssa.CallInstruction, bool) {
	c, i := callOf(v)
	if c == nil || i != idx {
		return nil, false
	}
	if c.Common().IsInvoke() && c.Common().Method.Name() == method {
		return c, true
	}
	// static method call on concrete receiver with that name
	if f := staticCallee(c); f != nil && fnBase(f) == method && f.Signature.Recv() != nil {
		return c, true
	}
	return nil, false
}

// resultOf returns the SSA value of result idx of the call (the call itself for single
// results, the Extract otherwise), or nil when the result is never extracted.
func resultOf(c ssa.CallInstruction, idx int) ssa.Value {
	v := c.Value()
	if v == nil {
		return nil
	}
	if c.Common().Signature().Results().Len() == 1 {
		// several values plumbed as one struct: component idx is field idx of the result
		if st, isStruct := v.Type().Underlying().(*types.Struct); isStruct && st.NumFields() > 1 && idx < st.NumFields() && gp != nil && gp.inModFn(rawStaticCallee(c)) {
			return structComponentUse(v, idx)
		}
		if idx == 0 {
			return v
		}
		return nil
	}
	for _, ref := range *v.Referrers() {
		if e, ok := ref.(*ssa.Extract); ok && e.Index == idx {
			return e
		}
	}
	return nil
}

func constInt(v ssa.Value) (int64, bool) {
	v = strip(v)
	c, ok := v.(*ssa.Const)
	if !ok || c.Value == nil || c.Value.Kind() != constant.Int {
		return 0, false
	}
	return c.Int64(), true
}

func constString(v ssa.Value) (string, bool) {
	v = strip(v)
	c, ok := v.(*ssa.Const)
	if !ok || c.Value == nil || c.Value.Kind() != constant.String {
		return "", false
	}
	return constant.StringVal(c.Value), true
}

func constBool(v ssa.Value) (bool, bool) {
	v = strip(v)
	c, ok := v.(*ssa.Const)
	if !ok || c.Value == nil || c.Value.Kind() != constant.Bool {
		return false, false
	}
	return constant.BoolVal(c.Value), true
}

func isNilConst(v ssa.Value) bool {
	v = strip(v)
	c, ok := v.(*ssa.Const)
	return ok && c.Value == nil
}

// ---------------------------------------------------------------------------------------------
// B1: guards

// Guard is a branch condition that is known to have the given outcome whenever the guarded
// block executes.
type Guard struct {
	Cond ssa.Value
	Pol  bool
	If   *ssa.If
}

// edgeDominates reports whether taking the edge d->s is implied by reaching block b:
// s dominates b and every other predecessor of s is itself dominated by s (loop back edges).
func edgeDominates(d, s, b *ssa.BasicBlock) bool {
	if !s.Dominates(b) {
		return false
	}
	for _, p := range s.Preds {
		if p == d {
			continue
		}
		if !s.Dominates(p) {
			return false
		}
	}
	// the same block may be both successors (degenerate); then the edge carries no information
	return true
}

// guardsOf lists the branch outcomes implied by reaching block b.
// guardsBusy: blocks whose guards are being computed (a loop-carried boolean such as
// `seen = seen || cond` leads back to the block it is tested in; the inner request gets the plain
// branch outcomes and no expansion).
var guardsBusy = map[*ssa.BasicBlock]bool{}

func guardsOf(b *ssa.BasicBlock) []Guard {
	out := plainGuardsOf(b)
	if guardsBusy[b] || len(guardsBusy) > 24 {
		return out
	}
	guardsBusy[b] = true
	defer delete(guardsBusy, b)
	// a condition that is itself the value of `a && b` (positive) or `a || b` (negative), e.g. the
	// case expression of a tagless switch, stands for its conjuncts
	out = expandBoolGuards(out, 0)
	// a transparent helper runs under the conditions of its call site (transparent.go)
	if fn := b.Parent(); isHelper(fn) {
		if site := helperCallSite(fn); site != nil && site.Block() != nil && site.Parent() != fn {
			out = append(out, guardsOf(site.Block())...)
		}
	} else if fn != nil && fn.Parent() != nil && ht.enabled {
		// a function literal that is called in one place and used for nothing else runs under the
		// conditions of that place
		if site := soleDirectCall(fn); site != nil && site.Block() != nil && site.Parent() != fn {
			out = append(out, guardsOf(site.Block())...)
		}
	}
	return out
}

// plainGuardsOf: the branch outcomes of b's own function that dominate b.
func plainGuardsOf(b *ssa.BasicBlock) []Guard {
	var out []Guard
	for d := b.Idom(); d != nil; d = d.Idom() {
		if len(d.Instrs) == 0 {
			continue
		}
		iff, ok := d.Instrs[len(d.Instrs)-1].(*ssa.If)
		if !ok {
			continue
		}
		s0, s1 := d.Succs[0], d.Succs[1]
		if s0 == s1 {
			continue
		}
		t := edgeDominates(d, s0, b)
		f := edgeDominates(d, s1, b)
		if t && !f {
			out = append(out, flattenCond(iff.Cond, true, iff)...)
		} else if f && !t {
			out = append(out, flattenCond(iff.Cond, false, iff)...)
		}
	}
	return out
}

func expandBoolGuards(gs []Guard, depth int) []Guard {
	if depth > 3 {
		return gs
	}
	var out []Guard
	changed := false
	for _, g := range gs {
		ph, isPhi := g.Cond.(*ssa.Phi)
		var alts [][]Guard
		var ok bool
		if !isPhi {
			// a boolean predicate helper: the answer stands for the conditions under which the
			// helper gives it (when there is exactly one way to give it)
			hc, isCall := g.Cond.(*ssa.Call)
			if !isCall || depth > 1 {
				out = append(out, g)
				continue
			}
			h := rawStaticCallee(hc)
			if h == nil || !isHelper(h) || h.Signature.Results().Len() != 1 {
				out = append(out, g)
				continue
			}
			if bt, isB := h.Signature.Results().At(0).Type().Underlying().(*types.Basic); !isB || bt.Kind() != types.Bool {
				out = append(out, g)
				continue
			}
			h = originFn(h)
			ht.ctx[h] = hc
			ok = true
			for _, ret := range plainReturnsOf(h) {
				var sub [][]Guard
				var okS bool
				if g.Pol {
					sub, okS = truthAlts(ret.Results[0], 0)
				} else {
					sub, okS = falseAlts(ret.Results[0], 0)
				}
				if !okS {
					ok = false
					break
				}
				for _, a := range sub {
					alts = append(alts, append(append([]Guard{}, plainGuardsOf(ret.Block())...), a...))
				}
			}
			if !ok || len(alts) != 1 {
				out = append(out, g)
				continue
			}
			changed = true
			out = append(out, g)
			for _, a := range alts[0] {
				out = append(out, a)
			}
			continue
		}
		if g.Pol {
			alts, ok = truthAlts(ph, 0)
		} else {
			alts, ok = falseAlts(ph, 0)
		}
		if !ok || len(alts) != 1 {
			out = append(out, g)
			continue
		}
		changed = true
		out = append(out, g) // keep the original as well
		for _, a := range alts[0] {
			dup := false
			for _, o := range out {
				if o.Cond == a.Cond && o.Pol == a.Pol {
					dup = true
				}
			}
			if !dup {
				out = append(out, a)
			}
		}
	}
	if changed {
		return expandBoolGuards(out, depth+1)
	}
	return out
}

// falseAlts: the alternatives under which boolean value v is false (dual of truthAlts).
func falseAlts(v ssa.Value, depth int) (alts [][]Guard, ok bool) {
	if depth > 6 {
		return nil, false
	}
	if c, isC := constBool(v); isC {
		if !c {
			return [][]Guard{{}}, true
		}
		return nil, true
	}
	switch x := v.(type) {
	case *ssa.UnOp:
		if x.Op == token.NOT {
			// !y is false when y is true
			if _, isPhi := x.X.(*ssa.Phi); isPhi {
				return truthAlts(x.X, depth+1)
			}
			if _, isNot := x.X.(*ssa.UnOp); isNot {
				return truthAlts(x.X, depth+1)
			}
			return [][]Guard{{Guard{Cond: x.X, Pol: true}}}, true
		}
	case *ssa.Phi:
		for i, e := range x.Edges {
			pb := x.Block().Preds[i]
			sub, ok := falseAlts(e, depth+1)
			if !ok {
				return nil, false
			}
			if len(sub) == 0 {
				continue
			}
			var edge []Guard
			edge = append(edge, guardsOf(pb)...)
			if len(pb.Instrs) > 0 {
				if iff, isIf := pb.Instrs[len(pb.Instrs)-1].(*ssa.If); isIf && pb.Succs[0] != pb.Succs[1] {
					pol := pb.Succs[0] == x.Block()
					edge = append(edge, flattenCond(iff.Cond, pol, iff)...)
				}
			}
			for _, s := range sub {
				alts = append(alts, append(append([]Guard{}, edge...), s...))
			}
		}
		return alts, true
	}
	return [][]Guard{{Guard{Cond: v, Pol: false}}}, true
}

// flattenCond unfolds negations.
func flattenCond(c ssa.Value, pol bool, iff *ssa.If) []Guard {
	for {
		u, ok := c.(*ssa.UnOp)
		if ok && u.Op == token.NOT {
			c = u.X
			pol = !pol
			continue
		}
		break
	}
	return []Guard{{c, pol, iff}}
}

// nilFact describes a guard of the form  x ==/!= nil  (or len(x) ==/!=/> 0 for slices).
// It returns the tested value and whether the guard says the value IS nil/empty.
func nilFact(g Guard) (ssa.Value, bool, bool) {
	b, ok := g.Cond.(*ssa.BinOp)
	if !ok {
		return nil, false, false
	}
	var x ssa.Value
	switch {
	case isNilConst(b.Y):
		x = b.X
	case isNilConst(b.X):
		x = b.Y
	}
	if x != nil {
		switch b.Op {
		case token.EQL:
			return x, g.Pol, true
		case token.NEQ:
			return x, !g.Pol, true
		}
		return nil, false, false
	}
	// len(x) cmp 0
	lenArg := func(v ssa.Value) ssa.Value {
		c, ok := v.(*ssa.Call)
		if !ok {
			return nil
		}
		if bi, ok := c.Call.Value.(*ssa.Builtin); ok && bi.Name() == "len" {
			return c.Call.Args[0]
		}
		return nil
	}
	if la := lenArg(b.X); la != nil {
		if k, ok := constInt(b.Y); ok {
			switch {
			case b.Op == token.EQL && k == 0:
				return la, g.Pol, true
			case b.Op == token.NEQ && k == 0:
				return la, !g.Pol, true
			case b.Op == token.GTR && k == 0:
				return la, !g.Pol, true
			case b.Op == token.GEQ && k == 1:
				return la, !g.Pol, true
			case b.Op == token.LSS && k == 1:
				return la, g.Pol, true
			case b.Op == token.LEQ && k == 0:
				return la, g.Pol, true
			}
		}
	}
	return nil, false, false
}

// sameValue compares two SSA values modulo wrappers, single-store cells and loads of the
// same cell.
func sameValue(a, b ssa.Value) bool {
	a, b = deref(a), deref(b)
	if a == b {
		return true
	}
	// the same component of the same struct-valued call result
	if ca, ia, ok1 := componentOf(a); ok1 {
		if cb, ib, ok2 := componentOf(b); ok2 && ca == cb && ia == ib {
			return true
		}
	}
	// two loads of the same cell
	ua, ok1 := a.(*ssa.UnOp)
	ub, ok2 := b.(*ssa.UnOp)
	if ok1 && ok2 && ua.Op == token.MUL && ub.Op == token.MUL {
		ca, cb := cellOf(ua.X), cellOf(ub.X)
		if ca != nil && ca == cb {
			return true
		}
		// two loads of the element under the same loop index
		if ia, isA := ua.X.(*ssa.IndexAddr); isA {
			if ib, isB := ub.X.(*ssa.IndexAddr); isB && ia.Index == ib.Index && isRangeIndex(ia.Index) && sameValue(ia.X, ib.X) {
				return true
			}
		}
	}
	return false
}

// knownNil / knownNonNil: does reaching block b imply v == nil (resp. != nil)?
func knownNil(b *ssa.BasicBlock, v ssa.Value) bool {
	for _, g := range guardsOf(b) {
		if x, isNil, ok := nilFact(g); ok && isNil && sameValue(x, v) {
			return true
		}
	}
	return false
}

func knownNonNil(b *ssa.BasicBlock, v ssa.Value) bool {
	for _, g := range guardsOf(b) {
		if x, isNil, ok := nilFact(g); ok && !isNil && sameValue(x, v) {
			return true
		}
	}
	return false
}

// nilTests lists the If instructions (in fn) that test v for nil, with the successor index
// (0/1) that is the "v is nil" edge.
type nilTest struct {
	If      *ssa.If
	NilSucc int
}

func nilTestsOf(fn *ssa.Function, v ssa.Value) []nilTest {
	var out []nilTest
	for _, b := range fn.Blocks {
		if len(b.Instrs) == 0 {
			continue
		}
		iff, ok := b.Instrs[len(b.Instrs)-1].(*ssa.If)
		if !ok {
			continue
		}
		for _, g := range flattenCond(iff.Cond, true, iff) {
			if x, isNil, ok := nilFact(g); ok && sameValue(x, v) {
				if isNil {
					out = append(out, nilTest{iff, 0})
				} else {
					out = append(out, nilTest{iff, 1})
				}
			}
		}
	}
	return out
}

// reachableFrom returns the set of blocks reachable from start (inclusive) without passing
// through any block in stop.
func reachableFrom(start *ssa.BasicBlock, stop map[*ssa.BasicBlock]bool) map[*ssa.BasicBlock]bool {
	seen := map[*ssa.BasicBlock]bool{}
	var walk func(b *ssa.BasicBlock)
	walk = func(b *ssa.BasicBlock) {
		if seen[b] || stop[b] {
			return
		}
		seen[b] = true
		for _, s := range b.Succs {
			walk(s)
		}
	}
	walk(start)
	return seen
}

// returnsOf lists the Return instructions of fn.
// returnsOf lists the return statements that decide fn's results (see expandReturns: a return that
// only forwards the results of a transparent helper stands for the helper's returns).
func returnsOf(fn *ssa.Function) []*ssa.Return {
	if fn == nil {
		return nil
	}
	return expandReturns(fn)
}

// plainReturnsOf lists the Return instructions of fn itself.
func plainReturnsOf(fn *ssa.Function) []*ssa.Return {
	var out []*ssa.Return
	for _, b := range fn.Blocks {
		if len(b.Instrs) == 0 {
			continue
		}
		if r, ok := b.Instrs[len(b.Instrs)-1].(*ssa.Return); ok {
			out = append(out, r)
		}
	}
	return out
}

// ---------------------------------------------------------------------------------------------
// nil-ness of a value at a program point

type nilness int

const (
	nnUnknown nilness = iota
	nnNil
	nnNonNil
)

// nilnessAt classifies v at block b: constant nil, provably non-nil (fresh allocation,
// composite, result of a function that never returns nil, or guarded non-nil), or unknown.
func (p *Prog) nilnessAt(b *ssa.BasicBlock, v ssa.Value, depth int) nilness {
	if isNilConst(v) {
		return nnNil
	}
	if b != nil {
		if knownNil(b, v) {
			return nnNil
		}
		if knownNonNil(b, v) {
			return nnNonNil
		}
	}
	s := strip(v)
	// typed nil inside an interface is still "non-nil interface"; klog does not rely on it,
	// we classify by the wrapped value.
	switch x := s.(type) {
	case *ssa.Alloc, *ssa.MakeClosure, *ssa.MakeMap, *ssa.MakeSlice, *ssa.MakeChan, *ssa.Function:
		return nnNonNil
	case *ssa.Const:
		if x.Value == nil {
			if _, isBasic := x.Type().Underlying().(*types.Basic); isBasic {
				return nnNonNil
			}
			if _, isStruct := x.Type().Underlying().(*types.Struct); isStruct {
				return nnNonNil // zero struct value wrapped in an interface
			}
			return nnNil
		}
		return nnNonNil
	case *ssa.UnOp:
		if x.Op == token.MUL {
			// load of a struct value (e.g. *t0 where t0 = new struct) boxed into an interface
			if _, isStruct := x.Type().Underlying().(*types.Struct); isStruct {
				return nnNonNil
			}
			d := deref(x)
			if d != x {
				return p.nilnessAt(b, d, depth)
			}
			// results spilled because of defer, variables assigned on several paths: the
			// store that reaches this load
			if st := reachingStore(x); st != nil && depth < 6 {
				return p.nilnessAt(st.Block(), st.Val, depth+1)
			}
		}
	case *ssa.Phi:
		if depth > 3 {
			return nnUnknown
		}
		res := nilness(-1)
		for i, e := range x.Edges {
			pb := x.Block().Preds[i]
			n := p.nilnessAt(pb, e, depth+1)
			// the fact established on the very edge into the join (`if v == nil { v = … }`)
			for _, g := range edgeGuard(pb, x.Block()) {
				if y, isNil, ok := nilFact(g); ok && sameValue(y, e) {
					if isNil {
						n = nnNil
					} else {
						n = nnNonNil
					}
				}
			}
			if res == -1 {
				res = n
			} else if res != n {
				return nnUnknown
			}
		}
		if res >= 0 {
			return res
		}
	case *ssa.Call, *ssa.Extract:
		c, idx := callOf(s)
		if c != nil {
			if f := staticCallee(c); f != nil && depth <= 3 {
				return p.resultNilness(f, idx, depth+1)
			}
		}
	}
	if _, isStruct := s.Type().Underlying().(*types.Struct); isStruct {
		return nnNonNil
	}
	if bt, isBasic := s.Type().Underlying().(*types.Basic); isBasic && bt.Kind() != types.UnsafePointer && bt.Kind() != types.UntypedNil {
		return nnNonNil
	}
	return nnUnknown
}

// resultNilness: does result idx of f have the same nil-ness on every return?
func (p *Prog) resultNilness(f *ssa.Function, idx int, depth int) nilness {
	if len(f.Blocks) == 0 {
		return nnUnknown
	}
	res := nilness(-1)
	for _, r := range returnsOf(f) {
		if idx >= len(r.Results) {
			return nnUnknown
		}
		n := p.nilnessAt(r.Block(), r.Results[idx], depth)
		if res == -1 {
			res = n
		} else if res != n {
			return nnUnknown
		}
	}
	if res < 0 {
		return nnUnknown
	}
	return res
}

// ---------------------------------------------------------------------------------------------
// truth conditions of a boolean value (for && / || lowered to phis)

// truthAlts returns a disjunction of conjunctions of guards under which the boolean value v,
// evaluated in block b, is true. ok=false when v's structure is not understood.
func truthAlts(v ssa.Value, depth int) (alts [][]Guard, ok bool) {
	if depth > 6 {
		return nil, false
	}
	if c, isC := constBool(v); isC {
		if c {
			return [][]Guard{{}}, true
		}
		return nil, true
	}
	switch x := v.(type) {
	case *ssa.UnOp:
		if x.Op == token.NOT {
			// !y is true when y is false (De Morgan through the && / || phis)
			if _, isPhi := x.X.(*ssa.Phi); isPhi {
				return falseAlts(x.X, depth+1)
			}
			if _, isNot := x.X.(*ssa.UnOp); isNot {
				return falseAlts(x.X, depth+1)
			}
			return [][]Guard{{Guard{Cond: x.X, Pol: false}}}, true
		}
	case *ssa.Phi:
		for i, e := range x.Edges {
			pb := x.Block().Preds[i]
			sub, ok := truthAlts(e, depth+1)
			if !ok {
				return nil, false
			}
			if len(sub) == 0 {
				continue
			}
			// facts of the edge pb -> x.Block()
			var edge []Guard
			edge = append(edge, guardsOf(pb)...)
			if len(pb.Instrs) > 0 {
				if iff, isIf := pb.Instrs[len(pb.Instrs)-1].(*ssa.If); isIf && pb.Succs[0] != pb.Succs[1] {
					pol := pb.Succs[0] == x.Block()
					edge = append(edge, flattenCond(iff.Cond, pol, iff)...)
				}
			}
			for _, s := range sub {
				alt := append(append([]Guard{}, edge...), s...)
				alts = append(alts, alt)
			}
		}
		return alts, true
	}
	return [][]Guard{{Guard{Cond: v, Pol: true}}}, true
}

// reachingStore: for a load of a multi-store variable cell, the unique store that reaches it
// (the latest store that dominates the load, provided no other store can intervene).
func reachingStore(load *ssa.UnOp) *ssa.Store {
	cell := cellOf(load.X)
	if cell == nil {
		return nil
	}
	var doms []*ssa.Store
	var all []*ssa.Store
	for _, s := range storesTo(cell) {
		if s.in.Parent() != load.Parent() {
			return nil // written from a closure: order unknown
		}
		all = append(all, s.in)
		if s.in.Block() == load.Block() {
			if instrIndex(s.in) < instrIndex(load) {
				doms = append(doms, s.in)
			}
		} else if s.in.Block().Dominates(load.Block()) {
			doms = append(doms, s.in)
		}
	}
	if len(doms) == 0 {
		return nil
	}
	best := doms[0]
	for _, s := range doms[1:] {
		if s.Block() == best.Block() {
			if instrIndex(s) > instrIndex(best) {
				best = s
			}
		} else if best.Block().Dominates(s.Block()) {
			best = s
		}
	}
	for _, s := range all {
		if s == best {
			continue
		}
		isDom := false
		for _, d := range doms {
			if d == s {
				isDom = true
			}
		}
		if isDom {
			continue // an earlier dominating store, overwritten by best
		}
		// a non-dominating store that may execute after best and before the load
		if s.Block() == load.Block() && instrIndex(s) > instrIndex(load) && !inLoopBlock(load.Block()) {
			continue // later in the same straight-line block
		}
		if load.Block().Dominates(s.Block()) && s.Block() != load.Block() && !reachableFrom(s.Block(), nil)[load.Block()] {
			continue // strictly after the load
		}
		if reachableFrom(best.Block(), nil)[s.Block()] && reachableFrom(s.Block(), nil)[load.Block()] {
			return nil
		}
	}
	return best
}

// derefFlow is deref that also resolves loads of multi-store cells flow-sensitively.
func derefFlow(v ssa.Value) ssa.Value {
	for i := 0; i < 8; i++ {
		v = deref(v)
		u, ok := v.(*ssa.UnOp)
		if !ok || u.Op != token.MUL {
			return v
		}
		st := reachingStore(u)
		if st == nil {
			return v
		}
		v = st.Val
	}
	return v
}

// componentOf: v is field idx of the struct value that call c returned (read directly, or through
// the local variable the result was assigned to).
func componentOf(v ssa.Value) (ssa.Value, int, bool) {
	v = strip(v)
	var base ssa.Value
	idx := -1
	switch x := v.(type) {
	case *ssa.Field:
		base, idx = strip(x.X), x.Field
	case *ssa.UnOp:
		if x.Op != token.MUL {
			return nil, 0, false
		}
		fa, ok := x.X.(*ssa.FieldAddr)
		if !ok {
			return nil, 0, false
		}
		idx = fa.Field
		a, isA := fa.X.(*ssa.Alloc)
		if !isA {
			return nil, 0, false
		}
		sts := storesTo(a)
		if len(sts) != 1 {
			return nil, 0, false
		}
		base = strip(sts[0].val)
	default:
		return nil, 0, false
	}
	if ld, ok := base.(*ssa.UnOp); ok && ld.Op == token.MUL {
		if a, isA := ld.X.(*ssa.Alloc); isA {
			if sts := storesTo(a); len(sts) == 1 {
				base = strip(sts[0].val)
			}
		}
	}
	if c, ok := base.(*ssa.Call); ok {
		return c, idx, true
	}
	return nil, 0, false
}

// structComponentUse: some value that reads field idx of struct value v (nil if never read).
func structComponentUse(v ssa.Value, idx int) ssa.Value {
	var found ssa.Value
	var scan func(x ssa.Value, depth int)
	scan = func(x ssa.Value, depth int) {
		if depth > 3 || found != nil || x.Referrers() == nil {
			return
		}
		for _, ref := range *x.Referrers() {
			switch y := ref.(type) {
			case *ssa.Field:
				if y.Field == idx {
					found = y
					return
				}
			case *ssa.Store:
				if y.Val != x {
					continue
				}
				if a, ok := y.Addr.(*ssa.Alloc); ok {
					for _, r2 := range *a.Referrers() {
						if fa, isFA := r2.(*ssa.FieldAddr); isFA && fa.Field == idx {
							for _, r3 := range *fa.Referrers() {
								if u, isU := r3.(*ssa.UnOp); isU && u.Op == token.MUL {
									found = u
									return
								}
							}
						}
						if ld, isLd := r2.(*ssa.UnOp); isLd && ld.Op == token.MUL {
							scan(ld, depth+1)
						}
					}
				}
			case *ssa.ChangeType:
				scan(y, depth+1)
			}
		}
	}
	scan(v, 0)
	return found
}

// retResult: result i of a return statement; when the function returns its values as one struct
// (data plumbing), the value put into field i of the returned struct literal.
func retResult(ret *ssa.Return, i int) ssa.Value {
	if i < len(ret.Results) {
		if len(ret.Results) > 1 || i > 0 {
			return ret.Results[i]
		}
		// single result: a struct literal standing for several values?
		if v := structLitField(ret.Results[0], i); v != nil && ret.Parent() != nil && ret.Parent().Signature.Results().Len() == 1 && isMultiStruct(ret.Results[0]) {
			return v
		}
		return ret.Results[i]
	}
	if len(ret.Results) == 1 {
		if v := structLitField(ret.Results[0], i); v != nil {
			return v
		}
	}
	return ssa.NewConst(nil, types.Typ[types.UntypedNil])
}

func isMultiStruct(v ssa.Value) bool {
	st, ok := v.Type().Underlying().(*types.Struct)
	if !ok || st.NumFields() < 2 {
		return false
	}
	// only structs declared in the module under analysis, and only unexported ones (plumbing)
	if n, isN := v.Type().(*types.Named); isN {
		o := n.Obj()
		if o == nil || o.Pkg() == nil || !strings.HasPrefix(o.Pkg().Path(), modPath) || o.Exported() {
			return false
		}
		return isPlumbingStruct(n)
	}
	return false
}

var plumbingMemo = map[string]bool{}

// isPlumbingStruct: an unexported struct type whose only role is to carry the results of ONE
// function: it is the result type of exactly one module function and occurs in no parameter
// list and in no field of another type.
func isPlumbingStruct(n *types.Named) bool {
	if gp == nil {
		return false
	}
	key := n.Origin().Obj().Pkg().Path() + "." + n.Origin().Obj().Name()
	if v, ok := plumbingMemo[key]; ok {
		return v
	}
	same := func(t types.Type) bool {
		for {
			if p, isP := t.(*types.Pointer); isP {
				t = p.Elem()
				continue
			}
			if sl, isS := t.(*types.Slice); isS {
				t = sl.Elem()
				continue
			}
			break
		}
		m, isN := t.(*types.Named)
		return isN && m.Origin().Obj() == n.Origin().Obj()
	}
	asResult, elsewhere := map[types.Object]bool{}, false
	sigOf := func(fn *types.Func) {
		sig, ok := fn.Type().(*types.Signature)
		if !ok {
			return
		}
		for i := 0; i < sig.Results().Len(); i++ {
			if same(sig.Results().At(i).Type()) {
				if sig.Results().Len() != 1 {
					elsewhere = true
				}
				asResult[fn.Origin()] = true
			}
		}
		for i := 0; i < sig.Params().Len(); i++ {
			if same(sig.Params().At(i).Type()) {
				elsewhere = true
			}
		}
	}
	for _, pk := range gp.pkgs {
		sc := pk.Types.Scope()
		for _, name := range sc.Names() {
			switch o := sc.Lookup(name).(type) {
			case *types.Func:
				sigOf(o)
			case *types.TypeName:
				if nt, isN := o.Type().(*types.Named); isN {
					for i := 0; i < nt.NumMethods(); i++ {
						sigOf(nt.Method(i))
					}
				}
				if st, isS := o.Type().Underlying().(*types.Struct); isS {
					for i := 0; i < st.NumFields(); i++ {
						if same(st.Field(i).Type()) {
							elsewhere = true
						}
					}
				}
			}
		}
	}
	v := len(asResult) == 1 && !elsewhere
	plumbingMemo[key] = v
	return v
}

// structLitField: v is a struct value built by a composite literal; the value stored to field i.
func structLitField(v ssa.Value, i int) ssa.Value {
	if !isMultiStruct(v) {
		return nil
	}
	v = strip(v)
	u, ok := v.(*ssa.UnOp)
	if !ok || u.Op != token.MUL {
		return nil
	}
	a, ok := u.X.(*ssa.Alloc)
	if !ok {
		return nil
	}
	var out ssa.Value
	for _, ref := range *a.Referrers() {
		fa, isFA := ref.(*ssa.FieldAddr)
		if !isFA || fa.Field != i {
			continue
		}
		for _, r2 := range *fa.Referrers() {
			if st, isSt := r2.(*ssa.Store); isSt && st.Addr == ssa.Value(fa) {
				if out != nil {
					return nil
				}
				out = st.Val
			}
		}
	}
	return out
}
