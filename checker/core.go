package main

// Core: loading /repo's current working tree, SSA construction, lookup of anchors,
// obligations and reporting. Nothing here executes klog code.

import (
	"fmt"
	"go/ast"
	"go/token"
	"go/types"
	"os"
	"path/filepath"
	"sort"
	"strings"

	"golang.org/x/tools/go/callgraph"
	"golang.org/x/tools/go/packages"
	"golang.org/x/tools/go/ssa"
	"golang.org/x/tools/go/ssa/ssautil"
)

const modPath = "github.com/jotaen/klog"

// Prog is one loaded build configuration of the repository.
type Prog struct {
	repo    string
	goos    string
	tags    string
	pkgs    []*packages.Package // root packages (./...)
	all     map[string]*packages.Package
	prog    *ssa.Program
	fset    *token.FileSet
	nFuncs  int
	cg      *callgraph.Graph // lazily built hybrid graph (callgraph.go)
	allFns  map[*ssa.Function]bool
	srcFns  []*ssa.Function // module functions incl. anonymous ones, deterministic order
	loadErr []string
}

func loadProg(repo, goos, tags string) (*Prog, error) {
	env := []string{}
	for _, e := range os.Environ() {
		if strings.HasPrefix(e, "GOWORK=") || strings.HasPrefix(e, "GOSUMDB=") || strings.HasPrefix(e, "GOFLAGS=") ||
			strings.HasPrefix(e, "GOPROXY=") || strings.HasPrefix(e, "GOOS=") || strings.HasPrefix(e, "GOTOOLCHAIN=") {
			continue
		}
		env = append(env, e)
	}
	env = append(env, "GOFLAGS=-mod=mod", "GOPROXY=off", "GOWORK=off")
	if goos != "" {
		env = append(env, "GOOS="+goos)
	}
	cfg := &packages.Config{Mode: packages.LoadAllSyntax, Dir: repo, Env: env, Tests: false}
	if tags != "" {
		cfg.BuildFlags = []string{"-tags=" + tags}
	}
	pkgs, err := packages.Load(cfg, "./...")
	if err != nil {
		return nil, err
	}
	p := &Prog{repo: repo, goos: goos, tags: tags, pkgs: pkgs, all: map[string]*packages.Package{}}
	packages.Visit(pkgs, nil, func(pk *packages.Package) {
		p.all[pk.PkgPath] = pk
		if strings.HasPrefix(pk.PkgPath, modPath) {
			for _, e := range pk.Errors {
				p.loadErr = append(p.loadErr, e.Error())
			}
		}
	})
	if len(p.loadErr) > 0 {
		return p, fmt.Errorf("type/load errors in module packages: %s", strings.Join(p.loadErr, "; "))
	}
	if len(pkgs) < 16 {
		return p, fmt.Errorf("expected at least 16 root packages, loaded %d", len(pkgs))
	}
	prog, _ := ssautil.AllPackages(pkgs, ssa.InstantiateGenerics)
	prog.Build()
	p.prog = prog
	p.fset = prog.Fset
	p.allFns = ssautil.AllFunctions(prog)
	p.nFuncs = len(p.allFns)
	for f := range p.allFns {
		if p.inMod(f) && f.Synthetic == "" && len(f.Blocks) > 0 {
			p.srcFns = append(p.srcFns, f)
		}
	}
	sort.Slice(p.srcFns, func(i, j int) bool {
		a, b := p.srcFns[i], p.srcFns[j]
		if a.Pos() != b.Pos() {
			return a.Pos() < b.Pos()
		}
		return a.String() < b.String()
	})
	p.initHelperSites()
	return p, nil
}

func (p *Prog) inModFn(f *ssa.Function) bool { return f != nil && p.inMod(f) }

// inMod reports whether f belongs to the module under analysis (closures, instances and
// wrappers included: they carry no package of their own).
func (p *Prog) inMod(f *ssa.Function) bool {
	for g := f; g != nil; g = g.Parent() {
		if g.Pkg != nil {
			return strings.HasPrefix(g.Pkg.Pkg.Path(), modPath)
		}
		if o := g.Origin(); o != nil && o.Pkg != nil {
			return strings.HasPrefix(o.Pkg.Pkg.Path(), modPath)
		}
		if g.Object() != nil && g.Object().Pkg() != nil {
			return strings.HasPrefix(g.Object().Pkg().Path(), modPath)
		}
	}
	return false
}

func (p *Prog) pkg(suffix string) *packages.Package {
	path := modPath
	if suffix != "" {
		path += "/" + suffix
	}
	return p.all[path]
}

func (p *Prog) ssaPkg(suffix string) *ssa.Package {
	pk := p.pkg(suffix)
	if pk == nil {
		return nil
	}
	return p.prog.Package(pk.Types)
}

// fn returns the package-level function pkg.name (generic origin for generic functions), or nil.
func (p *Prog) fn(pkgSuffix, name string) *ssa.Function {
	sp := p.ssaPkg(pkgSuffix)
	if sp == nil {
		return nil
	}
	f := sp.Func(name)
	if f == nil {
		// the function may have become a method (its first parameter the receiver): the
		// parameters keep their positions, so the rules apply unchanged
		if pk := p.pkg(pkgSuffix); pk != nil {
			var found *ssa.Function
			n := 0
			sc := pk.Types.Scope()
			for _, tn := range sc.Names() {
				named, ok := sc.Lookup(tn).Type().(*types.Named)
				if !ok {
					continue
				}
				if _, isTN := sc.Lookup(tn).(*types.TypeName); !isTN {
					continue
				}
				for i := 0; i < named.NumMethods(); i++ {
					if m := named.Method(i); m.Name() == name {
						if g := p.prog.FuncValue(m); g != nil {
							found = g
							n++
						}
					}
				}
			}
			if n == 1 {
				f = found
			}
		}
	}
	markAnchor(f)
	return f
}

// method returns the method typeName.name (pointer or value receiver) declared in the package.
func (p *Prog) method(pkgSuffix, typeName, name string) *ssa.Function {
	pk := p.pkg(pkgSuffix)
	if pk == nil {
		return nil
	}
	obj := pk.Types.Scope().Lookup(typeName)
	if obj == nil {
		return nil
	}
	named, ok := obj.Type().(*types.Named)
	if !ok {
		return nil
	}
	for i := 0; i < named.NumMethods(); i++ {
		m := named.Method(i)
		if m.Name() == name {
			f := p.prog.FuncValue(m)
			markAnchor(f)
			return f
		}
	}
	// the method may have become a package-level function that takes the receiver first
	if sp := p.ssaPkg(pkgSuffix); sp != nil {
		if f := sp.Func(name); f != nil && len(f.Params) > 0 && typeNameOf(f.Params[0].Type()) == typeName {
			markAnchor(f)
			return f
		}
		// … or that is handed the one field of the receiver it used (a callback) in its place
		if f := sp.Func(name); f != nil && len(f.Params) > 0 {
			if st, isStruct := named.Underlying().(*types.Struct); isStruct {
				for i := 0; i < st.NumFields(); i++ {
					if types.Identical(st.Field(i).Type(), f.Params[0].Type()) || (f.TypeParams().Len() > 0 && sameShape(st.Field(i).Type(), f.Params[0].Type())) {
						markAnchor(f)
						return f
					}
				}
			}
		}
	}
	return nil
}

func (p *Prog) namedType(pkgSuffix, typeName string) *types.Named {
	pk := p.pkg(pkgSuffix)
	if pk == nil {
		return nil
	}
	obj := pk.Types.Scope().Lookup(typeName)
	if obj == nil {
		return nil
	}
	n, _ := obj.Type().(*types.Named)
	return n
}

func (p *Prog) global(pkgSuffix, name string) *ssa.Global {
	sp := p.ssaPkg(pkgSuffix)
	if sp == nil {
		return nil
	}
	return sp.Var(name)
}

func (p *Prog) pos(pos token.Pos) string {
	if !pos.IsValid() {
		return "-"
	}
	ps := p.fset.Position(pos)
	rel, err := filepath.Rel(p.repo, ps.Filename)
	if err != nil {
		rel = ps.Filename
	}
	return fmt.Sprintf("%s:%d", rel, ps.Line)
}

func (p *Prog) instrPos(in ssa.Instruction) string {
	if in == nil {
		return "-"
	}
	if in.Pos().IsValid() {
		return p.pos(in.Pos())
	}
	// fall back to nearest positioned instruction in the block, then the function
	if b := in.Block(); b != nil {
		for _, x := range b.Instrs {
			if x.Pos().IsValid() {
				return p.pos(x.Pos())
			}
		}
	}
	if in.Parent() != nil {
		return p.pos(in.Parent().Pos())
	}
	return "-"
}

// fnName gives a stable, position-free name of a function for obligation keys.
func fnName(f *ssa.Function) string {
	if f == nil {
		return "<nil>"
	}
	s := f.String()
	s = strings.ReplaceAll(s, modPath+"/", "")
	s = strings.ReplaceAll(s, modPath, "klogroot")
	return s
}

// withAnons returns f and all functions nested in it (closures), depth first, in source order.
func withAnons(f *ssa.Function) []*ssa.Function {
	if f == nil {
		return nil
	}
	out := plainWithAnons(f)
	// and the transparent helpers they call (transparent.go)
	return append(out, helpersCalledFrom(out)...)
}

func eachInstr(f *ssa.Function, fn func(ssa.Instruction)) {
	for _, b := range f.Blocks {
		for _, in := range b.Instrs {
			fn(in)
		}
	}
}

// staticCallee resolves the callee of a call: a static function, a method on a concrete
// receiver, or a closure literal (MakeClosure). nil for dynamic calls.
func staticCallee(c ssa.CallInstruction) *ssa.Function {
	cc := c.Common()
	if cc.IsInvoke() {
		return nil
	}
	switch v := deref(cc.Value).(type) {
	case *ssa.Function:
		return boundTarget(v)
	case *ssa.MakeClosure:
		return boundTarget(v.Fn.(*ssa.Function))
	}
	return nil
}

// origin maps an instance of a generic function to its generic origin (or returns f).
func originFn(f *ssa.Function) *ssa.Function {
	if f == nil {
		return nil
	}
	if o := f.Origin(); o != nil {
		return o
	}
	return f
}

// sameFn compares functions modulo generic instantiation.
func sameFn(a, b *ssa.Function) bool {
	return a != nil && b != nil && originFn(a) == originFn(b)
}

// invokedMethod returns the interface method name and the named interface for invoke-mode calls.
func invokedMethod(c ssa.CallInstruction) (recvType types.Type, name string) {
	cc := c.Common()
	if !cc.IsInvoke() {
		return nil, ""
	}
	return cc.Value.Type(), cc.Method.Name()
}

// callsTo lists calls in f (not in nested closures) whose static callee is target.
func callsTo(f *ssa.Function, target *ssa.Function) []ssa.CallInstruction {
	var out []ssa.CallInstruction
	eachInstr(f, func(in ssa.Instruction) {
		if c, ok := in.(ssa.CallInstruction); ok {
			if sameFn(staticCallee(c), target) {
				out = append(out, c)
			}
		}
	})
	return out
}

// invokesOf lists interface-method calls in f with the given method name whose receiver's
// type is (or embeds via interface) the named interface type name.
func invokesOf(f *ssa.Function, ifaceName, method string) []ssa.CallInstruction {
	var out []ssa.CallInstruction
	eachInstr(f, func(in ssa.Instruction) {
		c, ok := in.(ssa.CallInstruction)
		if !ok || !c.Common().IsInvoke() || c.Common().Method.Name() != method {
			return
		}
		if ifaceName == "" || typeNameOf(c.Common().Value.Type()) == ifaceName {
			out = append(out, c)
		}
	})
	return out
}

func typeNameOf(t types.Type) string {
	for {
		switch x := t.(type) {
		case *types.Pointer:
			t = x.Elem()
			continue
		case *types.Named:
			return x.Obj().Name()
		case *types.Alias:
			t = types.Unalias(x)
			continue
		}
		return t.String()
	}
}

func typePkgPath(t types.Type) string {
	for {
		switch x := t.(type) {
		case *types.Pointer:
			t = x.Elem()
			continue
		case *types.Named:
			if x.Obj().Pkg() != nil {
				return x.Obj().Pkg().Path()
			}
			return ""
		case *types.Alias:
			t = types.Unalias(x)
			continue
		}
		return ""
	}
}

// ---------------------------------------------------------------------------------------------
// Obligations

type Verdict string

const (
	Discharged Verdict = "discharged"
	Violated   Verdict = "violated"
	Assumed    Verdict = "assumed"
	Undecided  Verdict = "undecided"
	Known      Verdict = "known-finding"
)

type Oblig struct {
	Rule    string  `json:"rule"`
	Key     string  `json:"key"`
	Pos     string  `json:"pos"`
	Verdict Verdict `json:"verdict"`
	Detail  string  `json:"detail"`
}

type Report struct {
	Prop   string
	Obligs []Oblig
	Notes  []string
	Trust  []string
	counts map[string]int
	p      *Prog
}

func (r *Report) add(rule, key, pos string, v Verdict, detail string, a ...any) {
	if r.counts == nil {
		r.counts = map[string]int{}
	}
	r.counts[rule]++
	r.Obligs = append(r.Obligs, Oblig{rule, key, pos, v, fmt.Sprintf(detail, a...)})
}
func (r *Report) ok(rule, key, pos, detail string, a ...any) {
	r.add(rule, key, pos, Discharged, detail, a...)
}
func (r *Report) bad(rule, key, pos, detail string, a ...any) {
	r.add(rule, key, pos, Violated, detail, a...)
}
func (r *Report) assume(rule, key, pos, detail string, a ...any) {
	r.add(rule, key, pos, Assumed, detail, a...)
}
func (r *Report) undecided(rule, key, pos, detail string, a ...any) {
	r.add(rule, key, pos, Undecided, detail, a...)
}

// check records discharged/violated depending on cond.
func (r *Report) check(cond bool, rule, key, pos, okDetail, badDetail string) bool {
	if cond {
		r.ok(rule, key, pos, "%s", okDetail)
	} else {
		r.bad(rule, key, pos, "%s", badDetail)
	}
	return cond
}

// anchor resolves a required construct; a missing anchor is an undecided obligation (fails).
func (r *Report) anchorFn(rule string, f *ssa.Function, what string) bool {
	if f == nil || len(f.Blocks) == 0 {
		r.undecided(rule, "anchor:"+what, "-", "anchor %s could not be resolved in the current tree", what)
		return false
	}
	return true
}

// floor fails a rule that matched fewer instances than confirmed by reading.
func (r *Report) floor(rule string, n int) {
	if r.counts[rule] < n {
		r.undecided(rule, "floor", "-", "rule matched %d instances, floor is %d (vacuous rule)", r.counts[rule], n)
	}
}

func (r *Report) note(f string, a ...any)  { r.Notes = append(r.Notes, fmt.Sprintf(f, a...)) }
func (r *Report) trust(f string, a ...any) { r.Trust = append(r.Trust, fmt.Sprintf(f, a...)) }

// ---------------------------------------------------------------------------------------------
// AST helpers

// funcDecl finds the AST declaration of a package-level function or method.
func (p *Prog) funcDecl(pkgSuffix, recv, name string) (*ast.FuncDecl, *packages.Package) {
	pk := p.pkg(pkgSuffix)
	if pk == nil {
		return nil, nil
	}
	for _, f := range pk.Syntax {
		for _, d := range f.Decls {
			fd, ok := d.(*ast.FuncDecl)
			if !ok || fd.Name.Name != name {
				continue
			}
			if recv == "" && fd.Recv == nil {
				return fd, pk
			}
			if recv != "" && fd.Recv != nil && len(fd.Recv.List) == 1 {
				t := fd.Recv.List[0].Type
				if s, ok := t.(*ast.StarExpr); ok {
					t = s.X
				}
				if ix, ok := t.(*ast.IndexExpr); ok {
					t = ix.X
				}
				if id, ok := t.(*ast.Ident); ok && id.Name == recv {
					return fd, pk
				}
			}
		}
	}
	return nil, pk
}

// fnBase returns the declared name of a function, without the type arguments that go/ssa
// appends to the names of instantiated generics.
func fnBase(f *ssa.Function) string {
	if f == nil {
		return ""
	}
	return originFn(f).Name()
}

// sameShape: two (possibly generic) function types with the same number of parameters and results.
func sameShape(a, b types.Type) bool {
	sa, ok1 := a.Underlying().(*types.Signature)
	sb, ok2 := b.Underlying().(*types.Signature)
	return ok1 && ok2 && sa.Params().Len() == sb.Params().Len() && sa.Results().Len() == sb.Results().Len()
}
