package main

// Rules added after the second round of independently seeded changes.

import (
	"fmt"
	"go/token"
	"go/types"
	"sort"
	"strings"

	"golang.org/x/tools/go/ssa"
)

var _ = sort.Strings
var _ = strings.TrimSpace
var _ = types.Typ
var _ = token.ADD

// P17-clock-fields — date and time of "now" are both read from one and the same Go time value,
// the one handed in: NewDateFromGo and NewTimeFromGo read the calendar/clock fields of their
// parameter directly. A zone conversion, rounding or offset applied in only one of them makes
// date and time disagree around midnight.
func ruleP17ClockFields(p *Prog, r *Report) {
	const rule = "P17-clock-fields"
	allowed := map[string]map[string]bool{
		"NewDateFromGo": {"Year": true, "Month": true, "Day": true, "Date": true},
		"NewTimeFromGo": {"Hour": true, "Minute": true, "Clock": true},
	}
	for _, name := range []string{"NewDateFromGo", "NewTimeFromGo"} {
		f := p.fn("klog", name)
		if !r.anchorFn(rule, f, "klog."+name) {
			continue
		}
		t := f.Params[0]
		nReads := 0
		bad := ""
		eachInstr(f, func(in ssa.Instruction) {
			c, ok := in.(ssa.CallInstruction)
			if !ok {
				return
			}
			callee := staticCallee(c)
			// any use of a time.Time value other than the parameter
			for i, a := range c.Common().Args {
				if typeString(a.Type()) != "time.Time" {
					continue
				}
				if strip(a) != ssa.Value(t) {
					bad = fmt.Sprintf("%s reads a time value derived from its argument, not the argument itself (%s)", calleeName(c), p.instrPos(c))
					return
				}
				if callee == nil {
					bad = "the time is handed to an unresolved call at " + p.instrPos(c)
					return
				}
				switch {
				case callee.Pkg != nil && callee.Pkg.Pkg.Path() == "time" && i == 0 && allowed[name][callee.Name()]:
					nReads++
				case callee.String() == "cloud.google.com/go/civil.DateOf" && name == "NewDateFromGo":
					nReads++
				default:
					bad = fmt.Sprintf("the time passes through %s before its fields are read (%s)", calleeName(c), p.instrPos(c))
				}
			}
		})
		if bad != "" {
			r.bad(rule, name, p.pos(f.Pos()), "%s", bad)
			continue
		}
		r.check(nReads > 0, rule, name, p.pos(f.Pos()), fmt.Sprintf("%d field read(s), all on the parameter itself", nReads), "no field of the given time is read")
	}
}

// P15-utc — calendar facts of a klog date (weekday, ISO week) are computed at a fixed location.
func ruleP15Utc(p *Prog, r *Report) {
	const rule = "P15-utc"
	n := 0
	for _, f := range p.srcFns {
		if pkgPathOfFn(f) != modPath+"/klog" {
			continue
		}
		i := 0
		eachInstr(f, func(in ssa.Instruction) {
			c, ok := in.(ssa.CallInstruction)
			if !ok {
				return
			}
			callee := staticCallee(c)
			if callee == nil || (callee.String() != "(cloud.google.com/go/civil.Date).In" && callee.String() != "time.Date") {
				return
			}
			n++
			i++
			loc := strip(c.Common().Args[len(c.Common().Args)-1])
			okUTC := false
			if u, isU := loc.(*ssa.UnOp); isU && u.Op == token.MUL {
				if g, isG := u.X.(*ssa.Global); isG && g.Pkg.Pkg.Path() == "time" && g.Name() == "UTC" {
					okUTC = true
				}
			}
			r.check(okUTC, rule, fmt.Sprintf("%s:In#%d", fnName(f), i), p.instrPos(c), "calendar arithmetic anchored at UTC", "weekday / week number are computed in a location other than UTC (depends on the host's zone and its daylight-saving rules)")
		})
	}
	if n < 1 {
		r.undecided(rule, "floor", "-", "expected the weekday and week-number computations (found %d civil.Date.In sites)", n)
	}
}

func typeString(t types.Type) string { return t.String() }

// P17-calendar-days — "yesterday", "tomorrow" and every other relative day are computed on klog
// dates (PlusDays); the clock instant handed to NewDateFromGo / NewTimeFromGo is never an instant
// that was shifted, truncated or converted with the time package first (24 hours are not a day
// when the clocks change; a converted instant disagrees with its sibling).
func ruleP17CalendarDays(p *Prog, r *Report) {
	const rule = "P17-calendar-days"
	n := 0
	for _, target := range []string{"NewDateFromGo", "NewTimeFromGo"} {
		tf := p.fn("klog", target)
		if !r.anchorFn(rule, tf, "klog."+target) {
			continue
		}
		for _, f := range p.srcFns {
			if !strings.HasPrefix(pkgPathOfFn(f), modPath+"/klog") {
				continue
			}
			for i, c := range callsTo(f, tf) {
				n++
				key := fmt.Sprintf("%s:%s#%d", fnName(f), target, i)
				a := derefFlowOrSelf(c, c.Common().Args[0])
				bad := ""
				if cc, _ := callOf(a); cc != nil {
					if callee := staticCallee(cc); callee != nil && callee.Pkg != nil && callee.Pkg.Pkg.Path() == "time" && callee.Name() != "Now" {
						bad = callee.String()
					}
				}
				r.check(bad == "", rule, key, p.instrPos(c), "the instant is the clock reading itself", "the instant handed to "+target+" was first transformed by "+bad+": relative days must be computed with Date.PlusDays on the date")
			}
		}
	}
	if n < 8 {
		r.undecided(rule, "floor", "-", "only %d conversions of clock instants found", n)
	}
}

// derefFlowOrSelf resolves v through conversions and local variable cells to the value stored.
func derefFlowOrSelf(at ssa.Instruction, v ssa.Value) ssa.Value {
	v = strip(v)
	if d := deref(v); d != nil {
		return strip(d)
	}
	return v
}

// bytesOrStringOf strips a string<->[]byte conversion.
func bytesOrStringOf(v ssa.Value) ssa.Value {
	v = strip(v)
	if c, ok := v.(*ssa.Convert); ok {
		return strip(c.X)
	}
	return v
}

// P08-io-verbatim — what is on disk is what the parser sees, and what the reconciler produced
// is what lands on disk: app.ReadFile returns the bytes of os.ReadFile converted to a string and
// nothing else; app.WriteToFile hands exactly its contents argument to the operating system.
func ruleP08IoVerbatim(p *Prog, r *Report) {
	const rule = "P08-io-verbatim"
	rf := p.fn("klog/app", "ReadFile")
	wf := p.fn("klog/app", "WriteToFile")
	if !r.anchorFn(rule, rf, "app.ReadFile") || !r.anchorFn(rule, wf, "app.WriteToFile") {
		return
	}
	// ReadFile
	nOK := 0
	for i, ret := range returnsOf(rf) {
		if len(ret.Results) != 2 || p.nilnessAt(ret.Block(), retResult(ret, 1), 0) == nnNonNil {
			continue
		}
		src := bytesOrStringOf(derefFlow(retResult(ret, 0)))
		c, idx := callOf(src)
		ok := c != nil && idx == 0 && staticCallee(c) != nil && staticCallee(c).String() == "os.ReadFile"
		if ok {
			nOK++
		}
		r.check(ok, rule, fmt.Sprintf("ReadFile:return#%d", i), p.instrPos(ret), "returns the bytes read, converted to a string, unaltered", "the text returned is not the unaltered result of os.ReadFile (bytes are filtered, replaced or re-encoded on the way in)")
	}
	if nOK == 0 {
		r.undecided(rule, "ReadFile:success", p.pos(rf.Pos()), "no successful return of os.ReadFile's bytes found")
	}
	// WriteToFile: every sink that takes data
	contents := wf.Params[1]
	nSinks := 0
	for _, f := range withAnons(wf) {
		eachInstr(f, func(in ssa.Instruction) {
			c, ok := in.(ssa.CallInstruction)
			if !ok {
				return
			}
			callee := staticCallee(c)
			if callee == nil {
				return
			}
			dataArg := -1
			switch callee.String() {
			case "os.WriteFile":
				dataArg = 1
			case "(*os.File).Write", "(*os.File).WriteString", "io.WriteString", "(*bufio.Writer).WriteString", "(*bufio.Writer).Write":
				dataArg = 1
			}
			if dataArg < 0 {
				return
			}
			nSinks++
			d := bytesOrStringOf(c.Common().Args[dataArg])
			d = bytesOrStringOf(deref(d))
			r.check(d == ssa.Value(contents), rule, fmt.Sprintf("WriteToFile:%s#%d", callee.Name(), nSinks), p.instrPos(c), "writes exactly the contents it was given", "the bytes written are not exactly the contents argument (something is added, removed or normalised on the way out)")
		})
	}
	if nSinks == 0 {
		r.undecided(rule, "WriteToFile:sink", p.pos(wf.Pos()), "no write of the contents found in WriteToFile")
	}
	// ReadStdin: likewise the unaltered bytes of io.ReadAll
	if rs := p.fn("klog/app", "ReadStdin"); r.anchorFn(rule, rs, "app.ReadStdin") {
		nIn := 0
		for i, ret := range returnsOf(rs) {
			if len(ret.Results) != 2 || p.nilnessAt(ret.Block(), retResult(ret, 1), 0) == nnNonNil {
				continue
			}
			if s, isS := constString(retResult(ret, 0)); isS && s == "" {
				continue // nothing piped in
			}
			src := bytesOrStringOf(derefFlow(retResult(ret, 0)))
			c, idx := callOf(src)
			ok := c != nil && idx == 0 && staticCallee(c) != nil && (staticCallee(c).String() == "io.ReadAll" || staticCallee(c).String() == "io/ioutil.ReadAll")
			if ok {
				nIn++
			}
			r.check(ok, rule, fmt.Sprintf("ReadStdin:return#%d", i), p.instrPos(ret), "returns the bytes read from stdin, converted to a string, unaltered", "the text returned is not the unaltered result of io.ReadAll")
		}
		if nIn == 0 {
			r.undecided(rule, "ReadStdin:success", p.pos(rs.Pos()), "no successful return of the bytes read from stdin found")
		}
	}
	// what the retrievers hand on as the contents of a file is what their reader returned: the
	// text that is parsed (and whose lines a reconciler writes back, and that error positions
	// refer to) is the text as given, not a tidied-up copy
	nStores := 0
	for _, f := range p.srcFns {
		if pkgPathOfFn(f) != modPath+"/klog/app" {
			continue
		}
		idx := 0
		eachInstr(f, func(in ssa.Instruction) {
			st, ok := in.(*ssa.Store)
			if !ok {
				return
			}
			fa, ok := st.Addr.(*ssa.FieldAddr)
			if !ok || fieldName(fa) != "contents" || typeNameOf(derefType(fa.X.Type())) != "fileWithContents" {
				return
			}
			nStores++
			idx++
			why := rawTextSource(st.Val, 0)
			r.check(why == "", rule, fmt.Sprintf("%s:contents#%d", fnName(f), idx), p.instrPos(st), "the contents kept are the reader's result as it came", "the file contents handed on to the parser are not what the reader returned ("+why+"): line numbers, error positions and the lines a mutating command writes back refer to an altered copy of the text")
		})
	}
	// "nothing was piped in" means the empty text, not a text the retriever finds uninteresting:
	// a text of blank lines is a valid file with no records (and `klog json` says so)
	if sr := p.method("klog/app", "StdinRetriever", "Retrieve"); r.anchorFn(rule, sr, "StdinRetriever.Retrieve") {
		nPass := 0
		for i, ret := range returnsOf(sr) {
			if len(ret.Results) != 2 || !isNilConst(retResult(ret, 0)) || !isNilConst(retResult(ret, 1)) {
				continue
			}
			// a "pass on to the next retriever" return that depends on the text read
			for _, g := range guardsOf(ret.Block()) {
				x, isEmpty, isG := emptyGuard(g)
				if !isG || !isStringType(x.Type()) {
					continue
				}
				nPass++
				why := rawTextSource(x, 0)
				r.check(isEmpty && why == "", rule, fmt.Sprintf("StdinRetriever:no-input#%d", i), p.instrPos(ret), "stdin counts as absent only when the text read is empty", "the stdin retriever passes on to the next source when a derived text is empty ("+why+"), not when the text read is: blank input, a valid file without records, is reported as 'no input' (or replaced by the default bookmark's file)")
			}
		}
		if nPass == 0 {
			r.undecided(rule, "StdinRetriever:no-input", p.pos(sr.Pos()), "the 'nothing piped in' case of the stdin retriever was not found")
		}
	}
	if nStores < 3 {
		r.undecided(rule, "contents:floor", "-", "expected the three constructions of fileWithContents (file retriever, stdin retriever, NewFileWithContents), found %d", nStores)
	}
	if g := p.method("klog/app", "fileWithContents", "Contents"); r.anchorFn(rule, g, "fileWithContents.Contents") {
		ok := false
		for _, ret := range plainReturnsOf(g) {
			_, fld := fieldLoad(retResult(ret, 0))
			ok = fld == "contents"
		}
		r.check(ok, rule, "Contents", p.pos(g.Pos()), "Contents() returns the text kept", "Contents() does not return the contents field as it is")
	}
}

// rawTextSource: "" when v is a parameter, or the first result of a reader (a call through a
// function-typed field, app.ReadFile, app.ReadStdin), on every path; otherwise what it is.
func rawTextSource(v ssa.Value, depth int) string {
	v = strip(v)
	if depth > 4 {
		return "too deep"
	}
	switch x := v.(type) {
	case *ssa.Parameter:
		return ""
	case *ssa.Phi:
		for _, e := range x.Edges {
			if why := rawTextSource(e, depth+1); why != "" {
				return why
			}
		}
		return ""
	}
	c, idx := callOf(v)
	if c == nil {
		return "computed by " + v.String()
	}
	if idx != 0 {
		return "not the text result of " + calleeName(c)
	}
	if g := staticCallee(c); g != nil {
		if n := g.String(); strings.HasSuffix(n, "klog/app.ReadFile") || strings.HasSuffix(n, "klog/app.ReadStdin") {
			return ""
		}
		return "it is passed through " + calleeName(c)
	}
	if !c.Common().IsInvoke() {
		if _, fld := fieldLoad(c.Common().Value); fld != "" {
			if _, isSig := c.Common().Value.Type().Underlying().(*types.Signature); isSig {
				return ""
			}
		}
	}
	return "result of an unknown call"
}

// P05-fresh-read — every reconciliation validates and edits what is on disk NOW: the target file
// that ReconcileFile parses is, on every path, an element of what the file retriever has just
// returned, and the retriever reads through app.ReadFile.
func ruleP05FreshRead(p *Prog, r *Report) {
	const rule = "P05-fresh-read"
	rt := p.method("klog/app", "context", "RetrieveTargetFile")
	rec := p.method("klog/app", "context", "ReconcileFile")
	retr := p.method("klog/app", "FileRetriever", "Retrieve")
	rf := p.fn("klog/app", "ReadFile")
	if !r.anchorFn(rule, rt, "(*context).RetrieveTargetFile") || !r.anchorFn(rule, rec, "(*context).ReconcileFile") || !r.anchorFn(rule, retr, "(*FileRetriever).Retrieve") || !r.anchorFn(rule, rf, "app.ReadFile") {
		return
	}
	calls := callsTo(rt, retr)
	if len(calls) != 1 {
		r.undecided(rule, "retrieve", p.pos(rt.Pos()), "expected one call of FileRetriever.Retrieve in RetrieveTargetFile, found %d", len(calls))
		return
	}
	rc := calls[0]
	// the retriever's reader is app.ReadFile
	okReader := false
	recv := strip(rc.Common().Args[0])
	if al, isAlloc := recv.(*ssa.Alloc); isAlloc {
		for _, ref := range *al.Referrers() {
			fa, isFA := ref.(*ssa.FieldAddr)
			if !isFA || fa.Field != 0 {
				continue
			}
			for _, st := range *fa.Referrers() {
				if s, isSt := st.(*ssa.Store); isSt {
					if fn, isFn := strip(s.Val).(*ssa.Function); isFn && sameFn(fn, rf) {
						okReader = true
					}
				}
			}
		}
	}
	r.check(okReader, rule, "reader", p.instrPos(rc), "the retriever reads through app.ReadFile", "the file retriever of RetrieveTargetFile does not read through app.ReadFile")
	for i, ret := range returnsOf(rt) {
		if len(ret.Results) != 2 || p.nilnessAt(ret.Block(), retResult(ret, 1), 0) == nnNonNil {
			continue
		}
		v := strip(retResult(ret, 0))
		ok := false
		if u, isU := v.(*ssa.UnOp); isU && u.Op == token.MUL {
			if ia, isIA := u.X.(*ssa.IndexAddr); isIA {
				if c, idx := callOf(strip(ia.X)); c != nil && idx == 0 && c == rc {
					ok = true
				}
			}
		}
		r.check(ok, rule, fmt.Sprintf("RetrieveTargetFile:return#%d", i), p.instrPos(ret), "returns a file the retriever has just read", "RetrieveTargetFile can return a file that was not read from disk in this call (remembered contents): a later reconciliation validates and edits stale text")
	}
	// ReconcileFile parses target.Contents() of that very call
	cs := callsTo(rec, rt)
	if len(cs) != 1 {
		r.undecided(rule, "ReconcileFile:retrieve", p.pos(rec.Pos()), "expected one call of RetrieveTargetFile in ReconcileFile, found %d", len(cs))
		return
	}
	target := resultOf(cs[0], 0)
	n := 0
	eachInstr(rec, func(in ssa.Instruction) {
		c, ok := in.(ssa.CallInstruction)
		if !ok {
			return
		}
		name, _, args, _ := methodCallOf(c)
		if name != "Parse" || len(args) != 1 {
			return
		}
		n++
		nm, rv, _, _ := methodCall(args[0])
		r.check(nm == "Contents" && target != nil && sameValue(rv, target), rule, "ReconcileFile:parse", p.instrPos(c), "parses the contents of the file just retrieved", "ReconcileFile does not parse the contents of the file it has just retrieved")
	})
	if n == 0 {
		r.undecided(rule, "ReconcileFile:parse", p.pos(rec.Pos()), "no Parse call in ReconcileFile")
	}
}

// cellNonNil computes, for a variable cell of function fn, the blocks at whose ENTRY the cell
// provably holds a non-nil value (forward must-analysis; stores of provably non-nil values
// generate the fact, all other stores kill it; the false edge of `cell == nil` generates it).
type cellFacts struct {
	p     *Prog
	cell  *ssa.Alloc
	entry map[*ssa.BasicBlock]bool
}

func (p *Prog) cellNonNil(cell *ssa.Alloc) *cellFacts {
	fn := cell.Parent()
	cf := &cellFacts{p: p, cell: cell, entry: map[*ssa.BasicBlock]bool{}}
	for _, b := range fn.Blocks {
		cf.entry[b] = true // optimistic start, refined downwards
	}
	if len(fn.Blocks) > 0 {
		cf.entry[fn.Blocks[0]] = false
	}
	changed := true
	for changed {
		changed = false
		for _, b := range fn.Blocks {
			if len(b.Preds) == 0 {
				if cf.entry[b] {
					cf.entry[b] = false
					changed = true
				}
				continue
			}
			v := true
			for _, pb := range b.Preds {
				if !cf.exitOnEdge(pb, b) {
					v = false
				}
			}
			if v != cf.entry[b] {
				cf.entry[b] = v
				changed = true
			}
		}
	}
	return cf
}

// at reports whether the cell is non-nil just before instruction in (which lies in the cell's function).
func (cf *cellFacts) at(in ssa.Instruction) bool {
	b := in.Block()
	st := cf.entry[b]
	for _, x := range b.Instrs {
		if x == in {
			return st
		}
		st = cf.step(st, x)
	}
	return st
}

func (cf *cellFacts) step(st bool, x ssa.Instruction) bool {
	switch y := x.(type) {
	case *ssa.Store:
		if y.Addr == ssa.Value(cf.cell) {
			return cf.p.nilnessAt(y.Block(), y.Val, 0) == nnNonNil
		}
	case ssa.CallInstruction:
		// a call of (or passing) a closure that writes the cell
		for _, op := range y.Operands(nil) {
			if op == nil || *op == nil {
				continue
			}
			if mc, ok := strip(*op).(*ssa.MakeClosure); ok && closureStores(mc, cf.cell) {
				return false
			}
		}
	}
	return st
}

func closureStores(mc *ssa.MakeClosure, cell *ssa.Alloc) bool {
	fn := mc.Fn.(*ssa.Function)
	for i, b := range mc.Bindings {
		if b != ssa.Value(cell) {
			continue
		}
		fv := fn.FreeVars[i]
		for _, ref := range *fv.Referrers() {
			switch r := ref.(type) {
			case *ssa.Store:
				if r.Addr == ssa.Value(fv) {
					return true
				}
			case *ssa.MakeClosure:
				// handed on to a nested closure
				for j, nb := range r.Bindings {
					if nb == ssa.Value(fv) {
						nfn := r.Fn.(*ssa.Function)
						if freeVarStored(nfn, nfn.FreeVars[j], 0) {
							return true
						}
					}
				}
			}
		}
	}
	return false
}

// freeVarStored: the closure (or one nested in it) assigns to the captured variable.
func freeVarStored(fn *ssa.Function, fv *ssa.FreeVar, depth int) bool {
	if depth > 5 {
		return true
	}
	for _, ref := range *fv.Referrers() {
		switch r := ref.(type) {
		case *ssa.Store:
			if r.Addr == ssa.Value(fv) {
				return true
			}
		case *ssa.MakeClosure:
			for j, nb := range r.Bindings {
				if nb == ssa.Value(fv) {
					nfn := r.Fn.(*ssa.Function)
					if freeVarStored(nfn, nfn.FreeVars[j], depth+1) {
						return true
					}
				}
			}
		}
	}
	return false
}

func (cf *cellFacts) exitOnEdge(pb, succ *ssa.BasicBlock) bool {
	st := cf.entry[pb]
	var lastLoad = map[ssa.Value]bool{}
	for _, x := range pb.Instrs {
		st = cf.step(st, x)
		if s, ok := x.(*ssa.Store); ok && s.Addr == ssa.Value(cf.cell) {
			lastLoad = map[ssa.Value]bool{}
		}
		if u, ok := x.(*ssa.UnOp); ok && u.Op == token.MUL && u.X == ssa.Value(cf.cell) {
			lastLoad[u] = true
		}
	}
	if st {
		return true
	}
	for _, g := range edgeGuard(pb, succ) {
		if x, isNil, ok := nilFact(g); ok && !isNil && lastLoad[strip(x)] {
			return true
		}
	}
	return false
}

// P06-nil-record — the parser never calls a method on a record it does not have: every use of the
// `record` variable of parse (directly or inside its closures) happens where the variable
// provably holds a record (the fallback to a dummy record after a failed headline is in place).
func ruleP06NilRecord(p *Prog, r *Report) {
	const rule = "P06-nil-record"
	parse := p.fn("klog/parser", "parse")
	if !r.anchorFn(rule, parse, "parser.parse") {
		return
	}
	var cells []*ssa.Alloc
	eachInstr(parse, func(in ssa.Instruction) {
		if a, ok := in.(*ssa.Alloc); ok && typeNameOf(derefType(a.Type())) == "Record" {
			cells = append(cells, a)
		}
	})
	if len(cells) == 0 {
		// not a captured variable: every invoke on a Record value in parse must be non-nil by value
		n := 0
		for _, f := range withAnons(parse) {
			eachInstr(f, func(in ssa.Instruction) {
				c, ok := in.(ssa.CallInstruction)
				if !ok || !c.Common().IsInvoke() || typeNameOf(c.Common().Value.Type()) != "Record" {
					return
				}
				n++
				ok = p.nilnessAt(c.Block(), c.Common().Value, 0) == nnNonNil
				// the record handed to a local function as an argument: every call of a function
				// value of that signature inside parse passes a record
				if par, isPar := strip(c.Common().Value).(*ssa.Parameter); !ok && isPar && f.Parent() != nil {
					idx := paramIndex(f, par)
					sites := 0
					good := idx >= 0
					for _, g := range withAnons(parse) {
						eachInstr(g, func(in2 ssa.Instruction) {
							c2, isCall := in2.(ssa.CallInstruction)
							if !isCall || c2.Common().IsInvoke() || staticCallee(c2) != nil {
								return
							}
							if _, isB := c2.Common().Value.(*ssa.Builtin); isB {
								return
							}
							if !types.Identical(c2.Common().Value.Type().Underlying(), f.Signature) || idx >= len(c2.Common().Args) {
								return
							}
							sites++
							if p.nilnessAt(c2.Block(), c2.Common().Args[idx], 0) != nnNonNil {
								good = false
							}
						})
					}
					ok = good && sites > 0
				}
				r.check(ok, rule, fmt.Sprintf("%s:%s#%d", fnName(f), c.Common().Method.Name(), n), p.instrPos(c), "receiver is a record", "a method is called on a record that may be nil (crash on a text whose headline is rejected)")
			})
		}
		if n == 0 {
			r.undecided(rule, "floor", p.pos(parse.Pos()), "no use of a record found in parse")
		}
		return
	}
	n := 0
	for _, cell := range cells {
		cf := p.cellNonNil(cell)
		for _, ref := range *cell.Referrers() {
			switch x := ref.(type) {
			case *ssa.UnOp:
				// loads: uses as invoke receiver
				for _, u := range *x.Referrers() {
					c, ok := u.(ssa.CallInstruction)
					if !ok || !c.Common().IsInvoke() || c.Common().Value != ssa.Value(x) {
						continue
					}
					n++
					r.check(cf.at(x), rule, fmt.Sprintf("parse:%s#%d", c.Common().Method.Name(), n), p.instrPos(c), "the record variable holds a record here", "a method is called on the record variable where it may still be nil (the headline was rejected and no dummy record was substituted): the parser crashes on such a text")
				}
			case *ssa.MakeClosure:
				fn := x.Fn.(*ssa.Function)
				uses := 0
				for _, g := range withAnons(fn) {
					eachInstr(g, func(in ssa.Instruction) {
						if c, ok := in.(ssa.CallInstruction); ok && c.Common().IsInvoke() && typeNameOf(c.Common().Value.Type()) == "Record" {
							uses++
						}
					})
				}
				if uses == 0 {
					continue
				}
				n++
				okAt := cf.at(x)
				// no later store may reset it to a possibly-nil value
				later := true
				region := reachableFrom(x.Block(), nil)
				for _, ref2 := range *cell.Referrers() {
					if st, ok := ref2.(*ssa.Store); ok && st.Addr == ssa.Value(cell) && region[st.Block()] && p.nilnessAt(st.Block(), st.Val, 0) != nnNonNil {
						if st.Block() != x.Block() || instrIndex(st) > instrIndex(x) || reachableFrom(succ0(x.Block()), nil)[x.Block()] {
							later = false
						}
					}
				}
				r.check(okAt && later, rule, fmt.Sprintf("%s:captured", fnName(fn)), p.instrPos(x), fmt.Sprintf("the record variable holds a record when this closure (%d uses) is created, and keeps one", uses), "a closure that calls methods on the record variable is created where the variable may be nil")
			}
		}
	}
	if n < 3 {
		r.undecided(rule, "floor", p.pos(parse.Pos()), "only %d uses of the record variable found", n)
	}
}

func succ0(b *ssa.BasicBlock) *ssa.BasicBlock {
	if len(b.Succs) > 0 {
		return b.Succs[0]
	}
	return b
}

// P06-print-width — print --with-totals pads every duration to the widest one with
// strings.Repeat(" ", max-len+1). The count is non-negative because the maximum is raised for
// EVERY prefix that is appended: the update is guarded by nothing but "there is a prefix" and the
// comparison with the maximum itself.
func ruleP06PrintWidth(p *Prog, r *Report) {
	const rule = "P06-print-width"
	f := p.fn("klog/app/cli", "printWithDurations")
	if !r.anchorFn(rule, f, "cli.printWithDurations") {
		return
	}
	isLen := func(v ssa.Value) bool {
		c, _ := callOf(strip(v))
		if c == nil {
			return false
		}
		b, ok := c.Common().Value.(*ssa.Builtin)
		return ok && b.Name() == "len"
	}
	var updates []*ssa.Store
	eachVInstr(f, func(in ssa.Instruction) {
		st, ok := in.(*ssa.Store)
		if !ok {
			return
		}
		if _, isAlloc := st.Addr.(*ssa.Alloc); isAlloc {
			if isLen(st.Val) {
				updates = append(updates, st)
			} else if cand, isMax := runningMax(st); isMax && isLen(cand) {
				updates = append(updates, st)
			}
		}
	})
	// the same with a plain local variable (no closure captures it): the maximum is a phi of the
	// loop; the update is the edge on which a length flows in
	var phiMax map[*ssa.Phi]bool
	var phiGuards []Guard
	var phiAt ssa.Instruction
	if len(updates) == 0 {
		n := 0
		eachVInstr(f, func(in ssa.Instruction) {
			ph, ok := in.(*ssa.Phi)
			if !ok || !isIntType(ph.Type()) {
				return
			}
			for i, e := range ph.Edges {
				if !isLen(e) {
					continue
				}
				cyc, _ := phiCycle(ph)
				if len(cyc) == 0 {
					continue
				}
				pb := ph.Block().Preds[i]
				n++
				phiMax = cyc
				phiGuards = append(append([]Guard{}, guardsOf(pb)...), edgeGuard(pb, ph.Block())...)
				phiAt = ph
			}
		})
		if n != 1 {
			phiMax = nil
		}
	}
	if len(updates) != 1 && phiMax == nil {
		r.undecided(rule, "max-update", p.pos(f.Pos()), "expected one running-maximum update (max = len(...)) in printWithDurations, found %d", len(updates))
		return
	}
	var st ssa.Instruction
	var cell *ssa.Alloc
	var updGuards []Guard
	if phiMax != nil {
		st, updGuards = phiAt, phiGuards
	} else {
		st = updates[0]
		cell = updates[0].Addr.(*ssa.Alloc)
		updGuards = guardsOf(updates[0].Block())
	}
	// the value appended to the prefix list in this loop
	var appended []ssa.Value
	eachVInstr(f, func(in ssa.Instruction) {
		// a list allocated up front and filled by position: prefixes[i] = prefix
		if st2, isSt := in.(*ssa.Store); isSt {
			if ia, isIA := st2.Addr.(*ssa.IndexAddr); isIA && isRangeIndex(ia.Index) {
				et := st2.Val.Type().Underlying()
				if pt, isPtr := et.(*types.Pointer); isPtr {
					et = pt.Elem().Underlying()
				}
				if _, isStruct := et.(*types.Struct); isStruct {
					appended = append(appended, strip(st2.Val))
				}
			}
			return
		}
		c, ok := in.(*ssa.Call)
		if !ok {
			return
		}
		if b, isB := c.Call.Value.(*ssa.Builtin); isB && b.Name() == "append" && len(c.Call.Args) == 2 {
			if elems, ok := sliceLitElems(c.Call.Args[1]); ok && len(elems) == 1 {
				if pt, isPtr := elems[0].Type().Underlying().(*types.Pointer); isPtr {
					if _, isStruct := pt.Elem().Underlying().(*types.Struct); isStruct {
						appended = append(appended, strip(elems[0]))
					}
				}
				// prefixes kept by value, a flag field saying whether there is one
				if _, isStruct := elems[0].Type().Underlying().(*types.Struct); isStruct {
					appended = append(appended, strip(elems[0]))
					// … and the local variable it is read from
					if u, isU := elems[0].(*ssa.UnOp); isU && u.Op == token.MUL {
						appended = append(appended, u.X)
					}
				}
			}
		}
	})
	bad := ""
	sawCmp := false
	for _, g := range append(updGuards, Guard{}) {
		if g.Cond == nil {
			continue
		}
		if isLoopGuard(g) {
			if phiMax != nil {
				continue
			}
			break
		}
		if x, isNil, ok := nilFact(g); ok && !isNil {
			match := false
			for _, a := range appended {
				if sameValue(x, a) {
					match = true
				}
			}
			// the slot just written, read back: prefixes[i] != nil after prefixes[i] = prefix
			if u, isU := strip(x).(*ssa.UnOp); isU && u.Op == token.MUL && !match {
				if ia, isIA := u.X.(*ssa.IndexAddr); isIA {
					eachVInstr(f, func(in2 ssa.Instruction) {
						st2, isSt := in2.(*ssa.Store)
						if !isSt {
							return
						}
						ia2, isIA2 := st2.Addr.(*ssa.IndexAddr)
						if !isIA2 || !(ia2 == ia || (sameValue(ia2.X, ia.X) && ia2.Index == ia.Index)) {
							return
						}
						for _, a := range appended {
							if strip(st2.Val) == a {
								match = true
							}
						}
					})
				}
			}
			if match {
				continue
			}
			bad = "a nil test of something other than the appended prefix"
			continue
		}
		// "there is a prefix" as a boolean field of the very value that is appended
		if base, fld := fieldLoad(g.Cond); fld != "" && base != nil && g.Pol {
			if bt, isB := g.Cond.Type().Underlying().(*types.Basic); isB && bt.Kind() == types.Bool {
				match := false
				for _, a := range appended {
					if sameValue(base, a) || strip(base) == a {
						match = true
					}
				}
				if match {
					continue
				}
			}
		}
		if bo, ok := g.Cond.(*ssa.BinOp); ok && (bo.Op == token.GTR || bo.Op == token.LSS || bo.Op == token.GEQ || bo.Op == token.LEQ) {
			l, rr := strip(bo.X), strip(bo.Y)
			isCell := func(v ssa.Value) bool {
				if phiMax != nil {
					ph, isPhi := v.(*ssa.Phi)
					return isPhi && phiMax[ph]
				}
				u, ok := v.(*ssa.UnOp)
				return ok && u.Op == token.MUL && u.X == ssa.Value(cell)
			}
			if (isLen(l) && isCell(rr) && g.Pol == (bo.Op == token.GTR || bo.Op == token.GEQ)) || (isCell(l) && isLen(rr) && g.Pol == (bo.Op == token.LSS || bo.Op == token.LEQ)) {
				sawCmp = true
				continue
			}
		}
		bad = "an additional condition (" + g.Cond.String() + ")"
	}
	if bad == "" && !sawCmp {
		// unconditional max(...) forms are fine as well
		sawCmp = true
	}
	r.check(bad == "" && sawCmp && len(appended) > 0, rule, "max-covers-all", p.instrPos(st), "the column width is raised for every prefix that is appended", "the column width is not raised for every prefix that is appended ("+bad+"): a wider duration yields a negative strings.Repeat count and print --with-totals panics")
}

// P08-blank — what separates records: a line is blank iff it consists of spaces and tabs only.
func ruleP08Blank(p *Prog, r *Report) {
	const rule = "P08-blank"
	f := p.method("klog/parser/txt", "Line", "IsBlank")
	if !r.anchorFn(rule, f, "txt.(*Line).IsBlank") {
		return
	}
	// the library spelling: strings.Trim/TrimLeft/TrimRight(text, " \t") == ""
	for _, ret := range returnsOf(f) {
		if bo, ok := strip(retResult(ret, 0)).(*ssa.BinOp); ok && bo.Op == token.EQL && len(returnsOf(f)) == 1 {
			if es, isS := constString(bo.Y); isS && es == "" {
				if tc, _ := callOf(strip(bo.X)); tc != nil && staticCallee(tc) != nil {
					switch staticCallee(tc).String() {
					case "strings.Trim", "strings.TrimLeft", "strings.TrimRight":
						cut, isC := constString(tc.Common().Args[1])
						set := map[rune]bool{}
						for _, c := range cut {
							set[c] = true
						}
						_, fld := fieldLoad(tc.Common().Args[0])
						r.check(isC && len(set) == 2 && set[' '] && set['\t'] && fld == "Text", rule, "predicate", p.pos(f.Pos()), "blank = nothing is left after cutting spaces and tabs", fmt.Sprintf("IsBlank cuts %q from the text; blank means spaces and tabs only", cut))
						r.bad(rule, "predicate:space-separators", p.pos(f.Pos()), blankSeparatorsFinding)
						return
					}
				}
			}
		}
	}
	// no helper decides: only the builtin len may be called — and unicode.Is / unicode.In with the
	// space-separator table Zs, which is how the specification defines a blank character
	calls := ""
	usesZs := false
	spaceTabPred := map[*ssa.Function]bool{}
	eachInstr(f, func(in ssa.Instruction) {
		if c, ok := in.(ssa.CallInstruction); ok {
			if b, isB := c.Common().Value.(*ssa.Builtin); isB && b.Name() == "len" {
				return
			}
			if g := staticCallee(c); g != nil && (g.String() == "unicode.Is" || g.String() == "unicode.In") {
				for _, a := range c.Common().Args {
					if u, isU := plainDeref(a).(*ssa.UnOp); isU {
						if gl, isG := u.X.(*ssa.Global); isG && gl.Pkg != nil && gl.Pkg.Pkg.Path() == "unicode" && gl.Name() == "Zs" {
							usesZs = true
							return
						}
					}
					if els, isL := sliceLitElems(a); isL {
						for _, e := range els {
							if u, isU := plainDeref(e).(*ssa.UnOp); isU {
								if gl, isG := u.X.(*ssa.Global); isG && gl.Pkg != nil && gl.Pkg.Pkg.Path() == "unicode" && gl.Name() == "Zs" {
									usesZs = true
									return
								}
							}
						}
					}
				}
			}
			// a rune predicate of the module that holds exactly for space and tab is the same test
			if g := staticCallee(c); g != nil && p.inMod(g) && len(c.Common().Args) == 1 {
				if set, okSet := runeSetOfPredicate(g); okSet && set == `{' ','\t'}` {
					spaceTabPred[originFn(g)] = true
					return
				}
			}
			calls = calleeName(c)
		}
	})
	if calls != "" {
		r.bad(rule, "predicate", p.pos(f.Pos()), "IsBlank delegates to %s; blank means spaces and tabs only (U+0020, U+0009), nothing else splits records", calls)
		return
	}
	okAll := true
	why := ""
	nFalse := 0
	spaceTabOnly := false
	for _, ret := range returnsOf(f) {
		b, isB := constBool(retResult(ret, 0))
		if !isB {
			okAll, why = false, "a return value that is not a constant"
			continue
		}
		consts := map[int64]bool{}
		for _, g := range guardsOf(ret.Block()) {
			if isLoopGuard(Guard{Cond: g.Cond, Pol: true, If: g.If}) {
				continue // loop continuation or exit
			}
			bo, ok := g.Cond.(*ssa.BinOp)
			if !ok {
				if gc, isGC := g.Cond.(*ssa.Call); isGC && usesZs && staticCallee(gc) != nil && strings.HasPrefix(staticCallee(gc).String(), "unicode.I") {
					continue // the Zs membership test
				}
				if gc, isGC := g.Cond.(*ssa.Call); isGC && staticCallee(gc) != nil && spaceTabPred[originFn(staticCallee(gc))] {
					if !g.Pol {
						consts[32], consts[9] = true, true // "is neither space nor tab"
					}
					continue
				}
				okAll, why = false, "an unrecognised condition"
				continue
			}
			if es, isS := constString(bo.Y); isS && es == "" && (bo.Op == token.EQL || bo.Op == token.NEQ) {
				if _, fld := fieldLoad(bo.X); fld == "Text" {
					continue // text == "" shortcut
				}
			}
			k, isK := constInt(bo.Y)
			if !isK {
				okAll, why = false, "a comparison with a non-constant"
				continue
			}
			if lc, _ := callOf(strip(bo.X)); lc != nil && k == 0 {
				if bi, isB := lc.Common().Value.(*ssa.Builtin); isB && bi.Name() == "len" && (bo.Op == token.EQL || bo.Op == token.NEQ) {
					continue // len(text) == 0 shortcut
				}
			}
			neq := (bo.Op == token.NEQ) == g.Pol
			if (bo.Op == token.NEQ || bo.Op == token.EQL) && neq {
				consts[k] = true
			} else if b {
				// on the way to `return true` equalities with blank characters are fine
				if (bo.Op == token.NEQ || bo.Op == token.EQL) && (k == 32 || k == 9) {
					continue
				}
				okAll, why = false, "an unexpected condition on a path that answers true"
			} else {
				okAll, why = false, "an unexpected condition on a path that answers false"
			}
		}
		if !b {
			nFalse++
			switch {
			case usesZs && consts[9] && len(consts) <= 2 && (len(consts) == 1 || consts[32]):
				// tab or a space separator: the specification's definition
			case !usesZs && len(consts) == 2 && consts[32] && consts[9]:
				spaceTabOnly = true
			default:
				okAll, why = false, fmt.Sprintf("a line is reported non-blank when a character differs from %v, expected exactly tab and the space separators (or space and tab)", keysOf(consts))
			}
		} else if len(consts) > 0 && !(len(consts) <= 2) {
			okAll, why = false, "unexpected comparisons before answering true"
		}
	}
	r.check(okAll && nFalse >= 1, rule, "predicate", p.pos(f.Pos()), "blank = every character is a blank character", "IsBlank no longer means 'blank characters only': "+why)
	// The specification (glossary) defines a blank character as a tab or any character of the
	// Unicode category Zs, and a blank line as a line of blank characters only. A predicate that
	// knows space and tab only takes a line of, say, U+00A0 for a significant line: the conforming
	// text "2020-01-01\n\u00a0\n2020-01-02\n" is rejected (D13; the existing suite pins the
	// behaviour, see DESIGN.md).
	if okAll && nFalse >= 1 {
		r.check(!spaceTabOnly, rule, "predicate:space-separators", p.pos(f.Pos()), "tab and every space separator (Zs) count as blank", blankSeparatorsFinding)
	}
}

// runeSetOfPredicate: the set of runes for which a module predicate func(rune) bool holds, as a
// sorted list "{'a','b'}", when the predicate is a disjunction of equalities with constants.
func runeSetOfPredicate(f *ssa.Function) (string, bool) {
	if f == nil || len(f.Params) != 1 || len(f.Blocks) == 0 {
		return "", false
	}
	var runes []string
	for _, ret := range returnsOf(f) {
		alts, ok := truthAlts(retResult(ret, 0), 0)
		if !ok {
			return "", false
		}
		for _, alt := range alts {
			gs := append(guardsOf(ret.Block()), alt...)
			found := false
			for _, g := range gs {
				bo, isB := g.Cond.(*ssa.BinOp)
				if !isB || bo.Op != token.EQL || !g.Pol {
					continue
				}
				x, y := strip(bo.X), strip(bo.Y)
				if y == ssa.Value(f.Params[0]) {
					x, y = y, x
				}
				if x != ssa.Value(f.Params[0]) {
					continue
				}
				if k, isK := constInt(y); isK {
					runes = append(runes, fmt.Sprintf("%q", rune(k)))
					found = true
				}
			}
			if !found {
				return "", false
			}
		}
	}
	sort.Strings(runes)
	return "{" + strings.Join(dedup(runes), ",") + "}", true
}

// elemIndexOf: v is (a field of) xs[i] -> i; nil when it is not an indexed element.
func elemIndexOf(v ssa.Value) ssa.Value {
	v = strip(v)
	for depth := 0; depth < 4; depth++ {
		u, ok := v.(*ssa.UnOp)
		if !ok || u.Op != token.MUL {
			return nil
		}
		switch a := u.X.(type) {
		case *ssa.IndexAddr:
			return a.Index
		case *ssa.FieldAddr:
			v = strip(a.X)
			if ia, isIA := v.(*ssa.IndexAddr); isIA {
				return ia.Index
			}
		default:
			return nil
		}
	}
	return nil
}

func keysOf(m map[int64]bool) []int64 {
	var out []int64
	for k := range m {
		out = append(out, k)
	}
	sort.Slice(out, func(i, j int) bool { return out[i] < out[j] })
	return out
}

// P09-first-summary-line — the serialiser leaves out the first entry-summary line only when it
// is the empty string (the parser's marker for "summary starts on the next line"); whether to
// print it is decided on the raw line, not on a trimmed or styled rendering of it.
func ruleP09FirstSummaryLine(p *Prog, r *Report) {
	const rule = "P09-first-summary-line"
	f := p.fn("klog/parser", "serialiseRecord")
	if !r.anchorFn(rule, f, "parser.serialiseRecord") {
		return
	}
	n := 0
	eachInstrIn(withAnons(f), func(in ssa.Instruction) {
		bo, ok := in.(*ssa.BinOp)
		if !ok || (bo.Op != token.NEQ && bo.Op != token.EQL) {
			return
		}
		s, isS := constString(bo.Y)
		x := bo.X
		if !isS {
			s, isS = constString(bo.X)
			x = bo.Y
		}
		if !isS || s != "" {
			return
		}
		n++
		coll := rangeElemOf(x)
		okc := false
		if coll != nil {
			if nm, recv, _, _ := methodCall(coll); nm == "Lines" {
				if nm2, _, _, _ := methodCall(recv); nm2 == "Summary" {
					okc = true
				}
			}
		}
		r.check(okc, rule, fmt.Sprintf("empty-test#%d", n), p.instrPos(bo), "the first summary line is left out only when the raw line is empty", "whether the first summary line is printed is not decided on the raw line being empty (a blank-only or styled-empty line is treated differently from what the parser stored)")
	})
	if n == 0 {
		r.undecided(rule, "empty-test", p.pos(f.Pos()), "serialiseRecord no longer tests the first summary line for emptiness")
	}
}

// P10-format — no printf-style format string is built from data: the format argument of every
// fmt.Sprintf/Printf/Fprintf/Errorf in the module is made of constants and of the styler's
// decoration of constants only. A source line, file name or message inside the FORMAT has its
// '%' read as verbs and the rendering of an error garbles (or drops) the quoted line.
func ruleP10Format(p *Prog, r *Report) {
	const rule = "P10-format"
	fmtFns := map[string]int{"fmt.Sprintf": 0, "fmt.Printf": 0, "fmt.Errorf": 0, "fmt.Fprintf": 1, "fmt.Appendf": 1}
	n, nNonConst := 0, 0
	for _, f := range p.srcFns {
		if !strings.HasPrefix(pkgPathOfFn(f), modPath+"/klog") {
			continue
		}
		idx := 0
		eachInstr(f, func(in ssa.Instruction) {
			c, ok := in.(ssa.CallInstruction)
			if !ok {
				return
			}
			callee := staticCallee(c)
			if callee == nil {
				return
			}
			ai, isFmt := fmtFns[callee.String()]
			if !isFmt {
				return
			}
			n++
			idx++
			key := fmt.Sprintf("%s:%s#%d", fnName(f), callee.Name(), idx)
			format := c.Common().Args[ai]
			if _, isConst := constString(format); isConst {
				r.ok(rule, key, p.instrPos(c), "constant format")
				return
			}
			nNonConst++
			offender := formatTaint(format, 0, map[ssa.Value]bool{})
			r.check(offender == "", rule, key, p.instrPos(c), "format is styler decoration of constants", "the format string contains data ("+offender+"): a '%' in it is interpreted as a verb")
		})
	}
	if n < 10 {
		r.undecided(rule, "floor", "-", "only %d formatting calls found", n)
	}
	r.note("P10-format: %d formatting calls, %d with a computed format", n, nNonConst)
}

// formatTaint walks the backward slice of a format value; returns a description of the first
// ingredient that is neither a constant nor styling, or "".
func formatTaint(v ssa.Value, depth int, seen map[ssa.Value]bool) string {
	if depth > 12 || seen[v] {
		return ""
	}
	seen[v] = true
	v = strip(v)
	switch x := v.(type) {
	case *ssa.Const:
		return ""
	case *ssa.BinOp:
		if x.Op == token.ADD {
			if t := formatTaint(x.X, depth+1, seen); t != "" {
				return t
			}
			return formatTaint(x.Y, depth+1, seen)
		}
	case *ssa.Phi:
		for _, e := range x.Edges {
			if t := formatTaint(e, depth+1, seen); t != "" {
				return t
			}
		}
		return ""
	case *ssa.UnOp:
		if x.Op == token.MUL {
			if d := deref(x); d != ssa.Value(x) {
				return formatTaint(d, depth+1, seen)
			}
			if g, ok := x.X.(*ssa.Global); ok {
				return "global " + g.Name()
			}
		}
	case *ssa.Call:
		name, recv, args, _ := methodCall(x)
		if recv != nil && (typeNameOf(recv.Type()) == "Styler" || typeNameOf(recv.Type()) == "StyleProps") && (name == "Format" || name == "Props" || name == "FormatAndRestore") {
			for _, a := range args {
				if typeString(a.Type()) == "string" {
					if t := formatTaint(a, depth+1, seen); t != "" {
						return t
					}
				}
			}
			return ""
		}
		return "result of " + calleeName(x)
	case *ssa.Parameter:
		return "parameter " + x.Name()
	}
	return v.String()
}

// P10-char-units — error positions and lengths count characters (that is what the caret line
// and the JSON consumers index by); no byte length of a string flows into them.
func ruleP10CharUnits(p *Prog, r *Report) {
	const rule = "P10-char-units"
	hn := p.method("klog/parser", "HumanError", "New")
	parse := p.fn("klog/parser", "parse")
	if !r.anchorFn(rule, hn, "HumanError.New") || !r.anchorFn(rule, parse, "parser.parse") {
		return
	}
	var byteLen func(v ssa.Value, depth int, seen map[ssa.Value]bool) string
	byteLen = func(v ssa.Value, depth int, seen map[ssa.Value]bool) string {
		if depth > 10 || seen[v] {
			return ""
		}
		seen[v] = true
		v = strip(v)
		switch x := v.(type) {
		case *ssa.BinOp:
			if t := byteLen(x.X, depth+1, seen); t != "" {
				return t
			}
			return byteLen(x.Y, depth+1, seen)
		case *ssa.Convert:
			return byteLen(x.X, depth+1, seen)
		case *ssa.Phi:
			for _, e := range x.Edges {
				if t := byteLen(e, depth+1, seen); t != "" {
					return t
				}
			}
		case *ssa.UnOp:
			if x.Op == token.MUL {
				if d := deref(x); d != ssa.Value(x) {
					return byteLen(d, depth+1, seen)
				}
			}
		case *ssa.Call:
			if b, ok := x.Call.Value.(*ssa.Builtin); ok && b.Name() == "len" {
				if bt, isB := x.Call.Args[0].Type().Underlying().(*types.Basic); isB && bt.Info()&types.IsString != 0 {
					return "len(string) at " + p.instrPos(x)
				}
			}
		}
		return ""
	}
	n := 0
	for _, f := range withAnons(parse) {
		for i, c := range callsTo(f, hn) {
			n++
			a := c.Common().Args
			off := ""
			for _, j := range []int{3, 4} {
				if j < len(a) {
					if t := byteLen(a[j], 0, map[ssa.Value]bool{}); t != "" {
						off = t
					}
				}
			}
			r.check(off == "", rule, fmt.Sprintf("%s:New#%d", fnName(f), i), p.instrPos(c), "position and length are counted in characters", "a byte length ("+off+") is used as position or length of an error: on a line with non-ASCII characters the marked span is too long and can run past the end of the line")
		}
	}
	if n < 15 {
		r.undecided(rule, "floor", p.pos(parse.Pos()), "only %d error constructions found in parse", n)
	}
}

// P13-reduce — narrowing a record to its matching entries changes the entry list and nothing
// else, and every entry is put to the test: (a) the record handed back is the record received
// (or a fresh one that is given the received record's date, should-total and summary);
// (b) inside the entry loop, the only condition on keeping an entry is the match test itself —
// no shortcut skips an entry before it is tested.
func ruleP13Reduce(p *Prog, r *Report) {
	const rule = "P13-reduce"
	for _, name := range []string{"reduceRecordToMatchingTags", "reduceRecordToMatchingEntryTypes"} {
		f := p.fn("klog/service", name)
		if !r.anchorFn(rule, f, "service."+name) {
			continue
		}
		rec := f.Params[1]
		// the record handed back: the one received, a faithful copy, or whatever a shared tail
		// helper hands back for it
		var recordOK func(v ssa.Value, at *ssa.Return, depth int) (bool, bool)
		recordOK = func(v ssa.Value, at *ssa.Return, depth int) (isNil bool, ok bool) {
			if isNilConst(v) {
				return true, true
			}
			if strip(v) == ssa.Value(rec) || strip(deref(v)) == ssa.Value(rec) {
				return false, true
			}
			// through a helper (one or several call sites)
			var hc *ssa.Call
			switch x := v.(type) {
			case *ssa.Extract:
				hc, _ = x.Tuple.(*ssa.Call)
			case *ssa.Call:
				hc = x
			}
			if hc != nil && depth < 3 {
				if h := rawStaticCallee(hc); h != nil && isHelper(h) {
					all := true
					vcall{call: hc, chain: []ssa.CallInstruction{hc}}.run(func() {
						for _, hr := range plainReturnsOf(originFn(h)) {
							if _, good := recordOK(hr.Results[0], hr, depth+1); !good {
								all = false
							}
						}
					})
					return false, all
				}
			}
			// a fresh record: date, should-total and summary must be carried over
			c, _ := callOf(strip(v))
			okFresh := c != nil && calleeName(c) == "klog.NewRecord"
			if okFresh {
				if n, rv, _, _ := methodCall(c.Common().Args[0]); n != "Date" || strip(rv) != ssa.Value(rec) {
					okFresh = false
				}
				need := map[string]string{"SetShouldTotal": "ShouldTotal", "SetSummary": "Summary"}
				for _, ref := range *c.Value().Referrers() {
					if ci, ok := ref.(ssa.CallInstruction); ok {
						n, _, args, _ := methodCallOf(ci)
						if getter, isNeeded := need[n]; isNeeded && len(args) == 1 && ci.Block().Dominates(at.Block()) {
							if gn, grv, _, _ := methodCall(args[0]); gn == getter && strip(grv) == ssa.Value(rec) {
								delete(need, n)
							}
						}
					}
				}
				if len(need) > 0 {
					okFresh = false
				}
			}
			return false, okFresh
		}
		for i, ret := range plainReturnsOf(f) {
			key := fmt.Sprintf("%s:return#%d", name, i)
			isNil, good := recordOK(ret.Results[0], ret, 0)
			if isNil {
				continue
			}
			r.check(good, rule, key, p.instrPos(ret), "hands back the record it received (or a copy carrying its date, should-total and summary)", "the record handed back is neither the one received nor a copy that keeps its date, should-total and summary: filtering entries alters the rest of the record")
		}
		// (b) the keep decision
		n := 0
		isMatchCall := func(v ssa.Value) bool {
			cc, _ := callOf(strip(v))
			if cc == nil {
				return false
			}
			callee := staticCallee(cc)
			return callee != nil && (sameFn(callee, p.fn("klog/service", "isSubsetOf")) || fnBase(callee) == "Unbox")
		}
		for _, vi := range virtualInstrs(f) {
			vi := vi
			vi.run(func() {
				in := vi.in
				c, ok := in.(*ssa.Call)
				if !ok {
					return
				}
				b, isB := c.Call.Value.(*ssa.Builtin)
				if !isB || b.Name() != "append" || !isSliceOf(c.Type(), "Entry") {
					return
				}
				n++
				var inLoop []Guard
				for _, g := range guardsOf(c.Block()) {
					if isLoopGuard(g) {
						break
					}
					// (what a predicate helper's answer stands for is not a second condition)
					if ci, isI := g.Cond.(ssa.Instruction); isI && len(inLoop) > 0 {
						if hc, isCall := inLoop[len(inLoop)-1].Cond.(*ssa.Call); isCall && rawStaticCallee(hc) != nil && originFn(rawStaticCallee(hc)) == originFn(outermost(ci.Parent())) && ci.Parent() != c.Parent() {
							continue
						}
					}
					inLoop = append(inLoop, g)
				}
				okg := len(inLoop) == 1 && inLoop[0].Pol
				if okg {
					cond := inLoop[0].Cond
					okg = isMatchCall(cond)
					if !okg {
						// the test is a predicate handed to a shared helper: every return of the
						// predicate literal is the match test
						if dc, isCall := cond.(*ssa.Call); isCall && rawStaticCallee(dc) != nil && isHelper(rawStaticCallee(dc)) {
							// a named predicate that hands back the match test
							okg = true
							for _, lr := range plainReturnsOf(originFn(rawStaticCallee(dc))) {
								if !isMatchCall(lr.Results[0]) {
									okg = false
								}
							}
						} else if isCall && !dc.Call.IsInvoke() && isParamValue(dc.Call.Value) {
							if lit := funcLiteral(dc.Call.Value); lit != nil {
								okg = true
								for _, lr := range plainReturnsOf(lit) {
									if !isMatchCall(lr.Results[0]) {
										okg = false
									}
								}
							}
						}
					}
				}
				detail := ""
				if !okg {
					for _, g := range inLoop {
						detail += fmt.Sprintf(" [%v %s]", g.Pol, g.Cond.String())
					}
				}
				r.check(okg, rule, name+":keep", p.instrPos(c), "an entry is kept iff the match test holds; every entry is tested", "keeping an entry depends on more than the match test (entries are skipped before they are tested):"+detail)
			})
		}
		if n != 1 {
			r.undecided(rule, name+":keep", p.pos(f.Pos()), "expected one append of a matching entry, found %d", n)
		}
	}
}

// P14-sortkey — rows of one tag name stay together (the value rows directly under the row of
// their tag): the sort key is name + "=" + value, and '=' cannot occur in a tag name, so all keys
// of one name form one contiguous interval in the order.
func ruleP14SortKey(p *Prog, r *Report) {
	const rule = "P14-sortkey"
	put := p.method("klog/service", "totalByTag", "put")
	if !r.anchorFn(rule, put, "service.totalByTag.put") {
		return
	}
	n := 0
	eachVInstr(put, func(in ssa.Instruction) {
		st, ok := in.(*ssa.Store)
		if !ok {
			return
		}
		fa, isFA := st.Addr.(*ssa.FieldAddr)
		if !isFA || fieldName(fa) != "keyForSort" {
			return
		}
		n++
		var leaves []ssa.Value
		catLeaves(st.Val, &leaves, 0)
		okk := len(leaves) == 3
		if okk {
			n0, r0, _, _ := methodCall(leaves[0])
			sep, isS := constString(leaves[1])
			n2, r2, _, _ := methodCall(leaves[2])
			okk = n0 == "Name" && n2 == "Value" && isS && sep == "=" && r0 != nil && r2 != nil && sameValue(r0, r2) && strip(r0) == ssa.Value(put.Params[1])
		}
		r.check(okk, rule, "key", p.instrPos(st), "sort key = Name() + \"=\" + Value() of the tag", "the sort key of a tag row is not name + \"=\" + value: rows of different tag names can interleave, and the values table attributes a value row to the wrong tag")
	})
	if n != 1 {
		r.undecided(rule, "key", p.pos(put.Pos()), "expected one assignment of keyForSort, found %d", n)
	}
	// and the list is sorted by that key, ascending
	sl := p.method("klog/service", "totalByTag", "toSortedList")
	if sl == nil {
		// the listing inlined into the aggregation that returns it
		if agg := p.fn("klog/service", "AggregateTotalsByTags"); agg != nil && len(p.sortSitesIn(agg)) > 0 {
			sl = agg
		}
	}
	if r.anchorFn(rule, sl, "service.totalByTag.toSortedList") {
		okc := false
		for _, site := range p.sortSitesIn(sl) {
			for _, ret := range returnsOf(site.less) {
				// (<= is as good as <: the keys are unique, one row per name/value pair of the map)
				if bo, ok := normCmp(retResult(ret, 0)); ok {
					x, y, op := bo.X, bo.Y, bo.Op
					if op == token.GTR || op == token.GEQ {
						x, y = y, x // b > a is a < b
						op = map[token.Token]token.Token{token.GTR: token.LSS, token.GEQ: token.LEQ}[op]
					}
					_, f1 := fieldLoad(x)
					_, f2 := fieldLoad(y)
					// ascending: the element at i comes first
					i1, i2 := elemIndexOf(x), elemIndexOf(y)
					asc := i1 == nil || i2 == nil || (strip(i1) == ssa.Value(site.i) && strip(i2) == ssa.Value(site.j))
					if (op == token.LSS || op == token.LEQ) && f1 == "keyForSort" && f2 == "keyForSort" && asc {
						okc = true
					}
				}
			}
		}
		r.check(okc, rule, "less", p.pos(sl.Pos()), "rows are ordered by that key", "the tag rows are not ordered by keyForSort")
	}
}

// P16-date-strict — a date text denotes an existing calendar day or is rejected: (a) package klog
// never builds dates through the NORMALISING constructors of package time (time.Date rolls
// February 30th over into March; Time.AddDate likewise), (b) civil2Date, through which every klog
// date is made, rejects a civil.Date that is not valid, (c) NewDateFromString hands civil2Date the
// civil.Date that civil.ParseDate produced (strict parsing) for the three captured groups.
func ruleP16DateStrict(p *Prog, r *Report) {
	const rule = "P16-date-strict"
	n := 0
	for _, f := range p.srcFns {
		if pkgPathOfFn(f) != modPath+"/klog" {
			continue
		}
		eachInstr(f, func(in ssa.Instruction) {
			c, ok := in.(ssa.CallInstruction)
			if !ok {
				return
			}
			callee := staticCallee(c)
			if callee == nil {
				return
			}
			switch callee.String() {
			case "time.Date", "(time.Time).AddDate":
				// midnight of an existing klog date (its own year, month and day fields) is not a
				// date that is being built: nothing can be normalised
				if callee.String() == "time.Date" && dateFieldsOfOne(c.Common().Args) {
					return
				}
				n++
				r.bad(rule, fmt.Sprintf("%s:%s", fnName(f), callee.Name()), p.instrPos(c), "package klog builds a date with the normalising %s: a day the month does not have silently becomes a day of the next month instead of being rejected", callee.String())
			}
		})
	}
	if n == 0 {
		r.ok(rule, "no-normalising-constructor", "-", "package klog calls neither time.Date nor Time.AddDate")
	}
	c2d := p.fn("klog", "civil2Date")
	if r.anchorFn(rule, c2d, "klog.civil2Date") {
		okv := false
		for _, ret := range returnsOf(c2d) {
			if !isNilConst(retResult(ret, 0)) {
				continue
			}
			for _, g := range guardsOf(ret.Block()) {
				if nm, rv, _, _ := methodCall(g.Cond); nm == "IsValid" && !g.Pol {
					if strip(rv) == ssa.Value(c2d.Params[0]) || derefIsParam(rv, c2d.Params[0]) {
						okv = true
					}
				}
			}
		}
		// the same test as one operand of an || : the edge taken when IsValid() is false rejects
		for _, b := range c2d.Blocks {
			iff, isIf := b.Instrs[len(b.Instrs)-1].(*ssa.If)
			if !isIf {
				continue
			}
			for _, g := range flattenCond(iff.Cond, true, iff) {
				nm, rv, _, _ := methodCall(g.Cond)
				if nm != "IsValid" || !(strip(rv) == ssa.Value(c2d.Params[0]) || derefIsParam(rv, c2d.Params[0])) {
					continue
				}
				// g.Pol tells which successor is taken when IsValid() is TRUE
				invalid := b.Succs[1]
				if !g.Pol {
					invalid = b.Succs[0]
				}
				if msg := rejectComplete(invalid, func(ret *ssa.Return) string {
					if !isNilConst(retResult(ret, 0)) {
						return "returns a date"
					}
					return ""
				}); msg == "" {
					okv = true
				}
			}
		}
		r.check(okv, rule, "civil2Date:valid", p.pos(c2d.Pos()), "an invalid civil date is rejected", "civil2Date does not reject a civil.Date that is not valid")
	}
	nd := p.fn("klog", "NewDateFromString")
	if r.anchorFn(rule, nd, "klog.NewDateFromString") && c2d != nil {
		cs := callsTo(nd, c2d)
		okp := len(cs) >= 1
		for _, c := range cs {
			a := derefFlow(c.Common().Args[0])
			if u, isU := strip(a).(*ssa.UnOp); isU && u.Op == token.MUL {
				if al, isA := u.X.(*ssa.Alloc); isA && len(storesTo(al)) == 0 {
					continue // a civil.Date composite literal: validated by civil2Date's IsValid test
				}
			}
			src, idx := callOf(a)
			if src == nil || idx != 0 || staticCallee(src) == nil || staticCallee(src).String() != "cloud.google.com/go/civil.ParseDate" {
				okp = false
			}
		}
		r.check(okp, rule, "NewDateFromString:strict-parse", p.pos(nd.Pos()), "the date is the result of civil.ParseDate (strict) or a literal that civil2Date validates", "NewDateFromString does not obtain its date from civil.ParseDate: days a month does not have are no longer guaranteed to be rejected")
	}
}

func derefIsParam(v ssa.Value, prm *ssa.Parameter) bool {
	v = strip(v)
	if u, ok := v.(*ssa.UnOp); ok && u.Op == token.MUL {
		if a, isA := u.X.(*ssa.Alloc); isA {
			for _, s := range storesTo(a) {
				if strip(s.val) == ssa.Value(prm) {
					return true
				}
			}
		}
	}
	if a, isA := v.(*ssa.Alloc); isA {
		for _, s := range storesTo(a) {
			if strip(s.val) == ssa.Value(prm) {
				return true
			}
		}
	}
	return false
}

// P16-duration-parts — a duration text needs an hour part or a minute part: the text is
// rejected when both digit groups are empty (the pattern alone also matches "", "-" and "+").
func ruleP16DurationParts(p *Prog, r *Report) {
	const rule = "P16-duration-parts"
	f := p.fn("klog", "NewDurationFromString")
	if !r.anchorFn(rule, f, "klog.NewDurationFromString") {
		return
	}
	// some branch edge on which both digit groups are known to be empty leads to nothing but
	// rejections (the rejecting return may be shared with other reasons, e.g. "no match at all")
	okd := false
	emptyGroups := func(gs []Guard, empty map[int]bool) {
		for _, g := range gs {
			x, isEmpty, isG := emptyGuard(g)
			if !isG || !isEmpty {
				continue
			}
			if _, grp, okm := p.patternOfMatch(x); okm {
				empty[grp] = true
			}
		}
	}
	for _, b := range f.Blocks {
		iff, isIf := b.Instrs[len(b.Instrs)-1].(*ssa.If)
		if !isIf {
			continue
		}
		for si, succ := range b.Succs {
			empty := map[int]bool{}
			emptyGroups(guardsOf(b), empty)
			emptyGroups(flattenCond(iff.Cond, si == 0, iff), empty)
			// hours are group 3 (or the enclosing 2), minutes group 5 (or 4)
			if !((empty[3] || empty[2]) && (empty[5] || empty[4])) {
				continue
			}
			if rejectComplete(succ, func(ret *ssa.Return) string {
				if !isNilConst(retResult(ret, 0)) {
					return "returns a duration"
				}
				return ""
			}) == "" {
				okd = true
			}
		}
	}
	r.check(okd, rule, "both-empty-rejected", p.pos(f.Pos()), "a text without hour and minute part is rejected", "no rejection is guarded by 'hour group empty and minute group empty': a bare sign (\"-\", \"+\") or the empty text is accepted as a zero duration")
	// beside an hour part the minute part runs from 0 to 59 — exactly what ToString writes
	// (minutes % 60): the reader refuses 60 and more, and nothing less
	bound := ""
	nBound := 0
	for _, b := range f.Blocks {
		iff, isIf := b.Instrs[len(b.Instrs)-1].(*ssa.If)
		if !isIf {
			continue
		}
		for si, succ := range b.Succs {
			for _, g := range flattenCond(iff.Cond, si == 0, iff) {
				bo, isCmp := normCmp(g.Cond)
				if !isCmp {
					continue
				}
				op := bo.Op
				if !g.Pol {
					inv := map[token.Token]token.Token{token.LSS: token.GEQ, token.GEQ: token.LSS, token.GTR: token.LEQ, token.LEQ: token.GTR}
					o2, known := inv[op]
					if !known {
						continue
					}
					op = o2
				}
				k, isK := constInt(bo.Y)
				if !isK || !isAtoiOrZero(strip(bo.X)) {
					continue
				}
				// only tests that refuse the text on this edge
				if rejectComplete(succ, func(ret *ssa.Return) string {
					if !isNilConst(retResult(ret, 0)) {
						return "returns a duration"
					}
					return ""
				}) != "" {
					continue
				}
				nBound++
				if !((op == token.GEQ && k == 60) || (op == token.GTR && k == 59)) {
					bound = fmt.Sprintf("minutes %s %d", op, k)
				}
			}
		}
	}
	r.check(nBound > 0 && bound == "", rule, "minute-bound", p.pos(f.Pos()), "beside an hour part, minutes of 60 and more are refused — and only those", "the minute part beside an hour part is not refused exactly from 60 on ("+bound+"): either the reader refuses durations that ToString writes (1h59m), or it accepts 1h60m")
}

// P19-persist — every successful manipulation of the bookmarks is written: in
// ManipulateBookmarks each return is either a failure that was just detected or the very result
// of writing the collection's JSON to the database path. (An "empty, nothing to do" shortcut
// leaves the old database in place.)
func ruleP19Persist(p *Prog, r *Report) {
	const rule = "P19-persist"
	f := p.method("klog/app", "context", "ManipulateBookmarks")
	wf := p.fn("klog/app", "WriteToFile")
	if !r.anchorFn(rule, f, "(*context).ManipulateBookmarks") || !r.anchorFn(rule, wf, "app.WriteToFile") {
		return
	}
	vws := virtualCallsTo(f, wf)
	if len(vws) != 1 {
		r.undecided(rule, "write", p.pos(f.Pos()), "expected one WriteToFile in ManipulateBookmarks, found %d", len(vws))
		return
	}
	w := vws[0].call
	// what is written: ToJson of the collection that was read and manipulated
	vws[0].run(func() {
		nm, rv, _, _ := methodCall(w.Common().Args[1])
		okData := nm == "ToJson"
		if okData {
			c, idx := callOf(strip(rv))
			okData = c != nil && idx == 0 && p.isBookmarkRead(c)
		}
		r.check(okData, rule, "data", p.instrPos(w), "writes ToJson() of the collection that was read and manipulated", "what is written is not ToJson() of the collection read by ReadBookmarks")
	})
	// every return reports a failure or IS the result of the write (possibly through a helper
	// whose returns are again of these two kinds)
	var okReturn func(g *ssa.Function, ret *ssa.Return, depth int) bool
	okReturn = func(g *ssa.Function, ret *ssa.Return, depth int) bool {
		v := retResult(ret, 0)
		if p.nilnessAt(ret.Block(), v, 0) == nnNonNil {
			return true
		}
		c, _ := callOf(derefFlow(v))
		if c == nil {
			// strip may already have looked through a single-return helper
			c, _ = callOf(v)
		}
		if c != nil && c == w {
			return true
		}
		if cc, isCall := v.(*ssa.Call); isCall && depth < 3 {
			if h := rawStaticCallee(cc); h != nil && isHelper(h) {
				all := true
				for _, hr := range returnsOf(originFn(h)) {
					if !okReturn(originFn(h), hr, depth+1) {
						all = false
					}
				}
				return all
			}
		}
		return false
	}
	for i, ret := range returnsOf(f) {
		key := fmt.Sprintf("return#%d", i)
		r.check(okReturn(f, ret, 0), rule, key, p.instrPos(ret), "reports a failure, or success is the result of the write", "ManipulateBookmarks can report success without having written the database")
	}
	// the folder the database lives in is created together with its parents: on a fresh system
	// (no ~/.config yet) the very first `bookmarks set` must persist
	nDir := 0
	for _, g := range p.srcFns {
		if pkgPathOfFn(g) != modPath+"/klog/app" {
			continue
		}
		eachInstr(g, func(in ssa.Instruction) {
			c, ok := in.(ssa.CallInstruction)
			if !ok || rawStaticCallee(c) == nil {
				return
			}
			switch rawStaticCallee(c).String() {
			case "os.MkdirAll":
				nDir++
			case "os.Mkdir":
				nDir++
				r.bad(rule, "folder:"+fnName(outermost(g)), p.instrPos(c), "the configuration folder is created with os.Mkdir, which fails when its parent does not exist yet: on a fresh system the first `bookmarks set` reports an error and nothing is persisted")
			}
		})
	}
	if nDir == 0 {
		r.undecided(rule, "folder", "-", "no place found where package app creates the configuration folder")
	} else {
		r.ok(rule, "folder", "-", "the configuration folder is created with its parents (os.MkdirAll, %d site(s))", nDir)
	}
}

func staticCalleeOrNil(c ssa.CallInstruction) *ssa.Function {
	if c == nil {
		return nil
	}
	return staticCallee(c)
}

// P19-valid-name — an argument is a bookmark reference exactly when it starts with '@'; the same
// test for every command (there is no second opinion that sends '@a/b' to the file system).
func ruleP19ValidName(p *Prog, r *Report) {
	const rule = "P19-valid-name"
	f := p.fn("klog/app", "IsValidBookmarkName")
	if !r.anchorFn(rule, f, "app.IsValidBookmarkName") {
		return
	}
	var dnf []string
	okAll := true
	for _, ret := range returnsOf(f) {
		alts, ok := truthAlts(retResult(ret, 0), 0)
		if !ok {
			okAll = false
			continue
		}
		for _, alt := range alts {
			var atoms []string
			nonEmpty := false
			for _, g := range append(guardsOf(ret.Block()), alt...) {
				c, _ := callOf(strip(g.Cond))
				if c != nil && staticCallee(c) != nil && staticCallee(c).String() == "strings.HasPrefix" && strip(c.Common().Args[0]) == ssa.Value(f.Params[0]) {
					if s, isS := constString(c.Common().Args[1]); isS {
						atoms = append(atoms, fmt.Sprintf("%vprefix(%q)", map[bool]string{true: "", false: "!"}[g.Pol], s))
						continue
					}
				}
				// strings.Index(arg, lit) == 0 and arg[0] == 'c' (the latter under a non-emptiness test)
				if bo, isB := strip(g.Cond).(*ssa.BinOp); isB && (bo.Op == token.EQL || bo.Op == token.NEQ) {
					x, y := strip(bo.X), strip(bo.Y)
					if _, isK := constInt(x); isK {
						x, y = y, x
					}
					k, isK := constInt(y)
					pol := g.Pol == (bo.Op == token.EQL)
					if ic, _ := callOf(x); isK && k == 0 && ic != nil && staticCallee(ic) != nil && staticCallee(ic).String() == "strings.Index" && strip(ic.Common().Args[0]) == ssa.Value(f.Params[0]) {
						if s, isS := constString(ic.Common().Args[1]); isS && s != "" {
							atoms = append(atoms, fmt.Sprintf("%vprefix(%q)", map[bool]string{true: "", false: "!"}[pol], s))
							continue
						}
					}
					if ix, isIx := x.(*ssa.Lookup); isK && isIx && strip(ix.X) == ssa.Value(f.Params[0]) && k > 0 && k < 128 && pol {
						if i0, isI := constInt(ix.Index); isI && i0 == 0 {
							atoms = append(atoms, fmt.Sprintf("prefix(%q)", string(rune(k))))
							continue
						}
					}
				}
				if x, isEmpty, isG := emptyGuard(g); isG && !isEmpty && strip(x) == ssa.Value(f.Params[0]) {
					nonEmpty = true
					continue
				}
				atoms = append(atoms, "?"+g.Cond.String())
			}
			if nonEmpty {
				// implied by any positive prefix atom
				pos := false
				for _, a := range atoms {
					if strings.HasPrefix(a, "prefix(") {
						pos = true
					}
				}
				if !pos {
					atoms = append(atoms, "nonempty")
				}
			}
			sort.Strings(atoms)
			dnf = append(dnf, strings.Join(atoms, "&&"))
		}
	}
	sort.Strings(dnf)
	got := strings.Join(dnf, " || ")
	r.check(okAll && got == `prefix("@")`, rule, "predicate", p.pos(f.Pos()), "bookmark reference iff the argument starts with @", "IsValidBookmarkName is true iff "+got+`; expected: iff the argument starts with "@"`)
}

// P20-tags — the JSON view lists every tag of the summary: toTagViews hands back the very list
// that TagSet.ToStrings produced (sorted in place), or an empty list when there is none; it is
// not passed through anything that could drop or merge elements.
func ruleP20Tags(p *Prog, r *Report) {
	const rule = "P20-tags"
	f := p.fn("klog/parser/json", "toTagViews")
	if !r.anchorFn(rule, f, "json.toTagViews") {
		return
	}
	n := 0
	for i, ret := range returnsOf(f) {
		key := fmt.Sprintf("return#%d", i)
		v := derefFlow(retResult(ret, 0))
		if elems, ok := sliceLitElems(v); ok && len(elems) == 0 {
			// the empty list: only when ToStrings gave nil
			r.ok(rule, key, p.instrPos(ret), "empty list")
			continue
		}
		if sl, ok := strip(v).(*ssa.Slice); ok {
			if _, isAlloc := strip(sl.X).(*ssa.Alloc); isAlloc {
				r.ok(rule, key, p.instrPos(ret), "empty list")
				continue
			}
		}
		n++
		nm, rv, _, _ := methodCall(v)
		// (when toTagViews is handed the list itself, every call site passes <tags>.ToStrings())
		if prm, isP := strip(v).(*ssa.Parameter); isP && prm == f.Params[0] && isSliceOf(prm.Type(), "string") {
			okSites, nSites := true, 0
			for _, g := range p.srcFns {
				for _, c := range callsTo(g, f) {
					nSites++
					if n2, _, _, mc := methodCall(c.Common().Args[0]); mc == nil || n2 != "ToStrings" {
						okSites = false
					}
				}
			}
			r.check(okSites && nSites > 0, rule, key, p.instrPos(ret), "returns the list it is given, which is TagSet.ToStrings() at every call site", "toTagViews is given a list that is not TagSet.ToStrings() of the summary's tags")
			continue
		}
		r.check(nm == "ToStrings" && strip(rv) == ssa.Value(f.Params[0]), rule, key, p.instrPos(ret), "returns the list TagSet.ToStrings produced", "the tag list returned is not the list TagSet.ToStrings produced (it passed through "+calleeNameOf(v)+"): tags can be dropped or merged in the JSON output")
	}
	if n == 0 {
		r.undecided(rule, "floor", p.pos(f.Pos()), "no return of the tag list found")
	}
}

func calleeNameOf(v ssa.Value) string {
	if c, _ := callOf(strip(v)); c != nil {
		return calleeName(c)
	}
	return v.String()
}

// P11-args-pure — asking an argument group for the date, the time or the format it denotes does
// not change the group: AtDate / AtTime / DateFormat / TimeFormat / WasAutomatic never assign to
// a field of their receiver. (DateFormat and TimeFormat read `Date != nil` / `Time != nil` as
// "the user passed an explicit value"; a resolved date remembered in the field turns a generated
// date into an explicit one and the file's own style is no longer followed.)
func ruleP11ArgsPure(p *Prog, r *Report) {
	const rule = "P11-args-pure"
	type m struct{ typ, name string }
	n := 0
	for _, x := range []m{{"AtDateArgs", "AtDate"}, {"AtDateArgs", "DateFormat"}, {"AtDateAndTimeArgs", "AtTime"}, {"AtDateAndTimeArgs", "TimeFormat"}, {"AtDateAndTimeArgs", "WasAutomatic"}} {
		f := p.method("klog/app/cli/util", x.typ, x.name)
		if f == nil && x.name == "WasAutomatic" {
			// the one-line test inlined into its only caller: nothing left that could assign
			if stop, _, _ := p.mutatingCommands(); stop["Stop"] != nil && p.automaticInline(stop["Stop"]) {
				n++
				continue
			}
		}
		if !r.anchorFn(rule, f, x.typ+"."+x.name) {
			continue
		}
		n++
		recv := f.Params[0]
		bad := ""
		for _, g := range withAnons(f) {
			eachInstr(g, func(in ssa.Instruction) {
				st, ok := in.(*ssa.Store)
				if !ok {
					return
				}
				a := st.Addr
				for {
					if fa, isFA := a.(*ssa.FieldAddr); isFA {
						a = fa.X
						continue
					}
					break
				}
				base := strip(a)
				if fv, isFV := base.(*ssa.FreeVar); isFV {
					if b := freeVarBinding(fv); b != nil {
						base = strip(b)
					}
				}
				if base == ssa.Value(recv) && a != st.Addr {
					bad = p.instrPos(st)
				}
			})
		}
		r.check(bad == "", rule, x.typ+"."+x.name, p.pos(f.Pos()), "reads its receiver only", "assigns to a field of its receiver at "+bad+": a later DateFormat()/TimeFormat() mistakes the remembered value for one the user passed explicitly")
	}
	if n < 5 {
		r.undecided(rule, "floor", "-", "argument accessors missing")
	}
}

// P07-head — every batch hands its FIRST block over to the merge step (it may be the
// continuation of the previous batch's last block, even when the batch begins with a line
// ending: the boundary can fall between a line's text and its line ending): headText is
// batchText[:n] with n the byte count txt.ParseBlock reports for the batch text, on every path.
// P07-input — and the text that is cut into batches is the text that was passed in.
func ruleP07Head(p *Prog, r *Report) {
	const rule = "P07-head"
	parse, async, ok := p.parallelFns(r, rule)
	if !ok {
		return
	}
	var work *ssa.Function
	work = p.workerLiteral(parse, async)
	split := p.fn("klog/parser/engine", "splitIntoChunks")
	pb := p.fn("klog/parser/txt", "ParseBlock")
	if work == nil || !r.anchorFn(rule, split, "engine.splitIntoChunks") || !r.anchorFn(rule, pb, "txt.ParseBlock") {
		if work == nil {
			r.undecided(rule, "work", p.pos(parse.Pos()), "work function literal not found")
		}
		return
	}
	text := work.Params[len(work.Params)-1]
	n := 0
	eachInstr(work, func(in ssa.Instruction) {
		st, ok := in.(*ssa.Store)
		if !ok {
			return
		}
		fa, ok := st.Addr.(*ssa.FieldAddr)
		if !ok || typeNameOf(fa.X.Type()) != "batchResult" || fieldName(fa) != "headText" {
			return
		}
		if s, isS := constString(st.Val); isS && s == "" && len(guardsOf(st.Block())) == 0 {
			return
		}
		n++
		good := false
		if sl, isSl := strip(st.Val).(*ssa.Slice); isSl && strip(sl.X) == ssa.Value(text) && sl.Low == nil && sl.High != nil {
			if c, idx := callOf(strip(sl.High)); c != nil && idx == 1 && sameFn(staticCallee(c), pb) && strip(c.Common().Args[0]) == ssa.Value(text) {
				good = true
			}
		}
		r.check(good, rule, "head-boundary", p.instrPos(st), "the head is the first block of the batch text as txt.ParseBlock delimits it, unconditionally", "the head carried to the merge step is not (always) the first block of the batch as txt.ParseBlock delimits it: a block cut by a batch boundary is parsed in two pieces")
	})
	if n != 1 {
		r.undecided(rule, "head-boundary", p.pos(work.Pos()), "expected one assignment of headText, found %d", n)
	}
	// input
	cs := callsTo(parse, split)
	if len(cs) != 1 {
		r.undecided(rule, "input", p.pos(parse.Pos()), "expected one splitIntoChunks call, found %d", len(cs))
		return
	}
	r.check(strip(cs[0].Common().Args[0]) == ssa.Value(parse.Params[1]), rule, "input", p.instrPos(cs[0]), "the text cut into batches is the text passed in", "the parallel engine alters the text before cutting it into batches: the blocks no longer reproduce the file byte for byte")
}

// P10-one-error — within one pass of a loop of parse (one summary line, one entry) at most one
// error is appended: the errors of a pass refer to different lines (the entry's own line, a later
// continuation line), and only "append, then go on with the next pass" keeps the list in ascending
// line order. (Confirmed idiom of parse: every append of an error inside a loop is followed by
// continue/break or ends the pass.)
func ruleP10OneError(p *Prog, r *Report) {
	const rule = "P10-one-error"
	parse := p.fn("klog/parser", "parse")
	if !r.anchorFn(rule, parse, "parser.parse") {
		return
	}
	// the error list: a captured variable, or (when no closure captures it) the web of appends
	// that ends in the value parse returns
	acc := errsAccOf(parse)
	if acc == nil {
		r.undecided(rule, "errs", p.pos(parse.Pos()), "the error list of parse was not found; re-confirm the rule")
		return
	}
	// the lines still to be read: a cell of type []txt.Line
	var linesCell *ssa.Alloc
	eachInstr(parse, func(in ssa.Instruction) {
		if a, ok := in.(*ssa.Alloc); ok && isSliceOf(derefType(a.Type()), "Line") && linesCell == nil {
			linesCell = a
		}
	})
	var sites []ssa.Instruction
	eachInstr(parse, func(in ssa.Instruction) {
		c, ok := in.(*ssa.Call)
		if !ok || !acc.appendsTo(c) {
			return
		}
		// (for a captured variable the append takes effect at the store)
		var at ssa.Instruction = c
		if acc.cell != nil {
			for _, ref := range *c.Referrers() {
				if st, isSt := ref.(*ssa.Store); isSt && st.Addr == ssa.Value(acc.cell) {
					at = st
				}
			}
		}
		if inLoopBlock(at.Block()) {
			sites = append(sites, at)
		}
	})
	// the append wrapped in a local function (`report(err)`): its calls are the sites
	nDirect := len(sites)
	for g, calls := range newSuperGraph(parse).sites {
		wraps := false
		eachInstr(g, func(in ssa.Instruction) {
			if c, ok := in.(*ssa.Call); ok && acc.appendsTo(c) {
				wraps = true
			}
		})
		if !wraps || len(g.Params) != 1 {
			continue
		}
		for _, c := range calls {
			if c.Parent() == parse && inLoopBlock(c.Block()) {
				sites = append(sites, c)
			}
		}
	}
	if nDirect < len(sites) {
		sort.Slice(sites, func(i, j int) bool { return sites[i].Pos() < sites[j].Pos() })
	}
	if len(sites) < 3 {
		r.undecided(rule, "sites", p.pos(parse.Pos()), "expected at least three error appends inside the loops of parse, found %d", len(sites))
		return
	}
	// innermost loop header of a block: the nearest dominator that is the target of a back edge
	// from a block it dominates and that the block can reach again
	header := func(b *ssa.BasicBlock) *ssa.BasicBlock {
		for d := b; d != nil; d = d.Idom() {
			for _, pb := range d.Preds {
				if d.Dominates(pb) && (pb == b || reachableFrom(b, nil)[pb]) {
					return d
				}
			}
		}
		return nil
	}
	for i, a := range sites {
		h := header(a.Block())
		key := fmt.Sprintf("append#%d", i)
		if h == nil {
			r.undecided(rule, key, p.instrPos(a), "loop header not found")
			continue
		}
		after := map[*ssa.BasicBlock]bool{}
		for _, s := range a.Block().Succs {
			for b := range reachableFrom(s, map[*ssa.BasicBlock]bool{h: true}) {
				after[b] = true
			}
		}
		second := ""
		for _, b := range sites {
			if b == a {
				continue
			}
			if after[b.Block()] || (b.Block() == a.Block() && instrIndex(b) > instrIndex(a)) {
				second = p.instrPos(b)
			}
		}
		r.check(second == "", rule, key, p.instrPos(a), "after this error the pass ends (next line / next entry)", "after the error appended here the same pass can append another one at "+second+": an error for an earlier line can follow an error for a later line")
		// the loop is one that walks the lines: an error noted in some later loop (over things
		// put aside while the lines were read) comes after the errors of all later lines
		if linesCell != nil {
			walks := false
			for _, b := range parse.Blocks {
				if !h.Dominates(b) || !(b == h || reachableFrom(b, nil)[h]) {
					continue
				}
				for _, in := range b.Instrs {
					switch x := in.(type) {
					case *ssa.Store:
						if x.Addr == ssa.Value(linesCell) {
							walks = true
						}
					case *ssa.UnOp:
						if b == h && x.Op == token.MUL && x.X == ssa.Value(linesCell) {
							walks = true
						}
					}
				}
			}
			r.check(walks, rule, key+":line-loop", p.instrPos(a), "the error is noted in the loop that walks the record's lines", "this error is appended in a loop that does not walk the lines of the record (it runs after they have been read): it lands behind the errors of all later lines, so the list is not in ascending line order and the first error is not on the first faulty line")
		}
	}
}

// P03-concat-position — `stop --summary` with several lines: the first line is appended to the
// LAST line of the entry (its last summary line), and the remaining lines are inserted directly
// underneath that very line; the two positions differ by exactly one.
func ruleP03ConcatPosition(p *Prog, r *Report) {
	const rule = "P03-concat-position"
	f := p.method("klog/parser/reconciling", "Reconciler", "concatenateSummary")
	ins := p.method("klog/parser/reconciling", "Reconciler", "insert")
	if !r.anchorFn(rule, f, "(*Reconciler).concatenateSummary") || !r.anchorFn(rule, ins, "(*Reconciler).insert") {
		return
	}
	// index of the line whose Text is extended
	var idx []ssa.Value
	eachInstr(f, func(in ssa.Instruction) {
		st, ok := in.(*ssa.Store)
		if !ok {
			return
		}
		fa, ok := st.Addr.(*ssa.FieldAddr)
		if !ok || fieldName(fa) != "Text" {
			return
		}
		if ia, ok := fa.X.(*ssa.IndexAddr); ok {
			idx = append(idx, ia.Index)
		}
	})
	calls := callsTo(f, ins)
	if len(idx) == 0 || len(calls) != 1 {
		r.undecided(rule, "shape", p.pos(f.Pos()), "expected writes to lines[i].Text and one insert call (found %d, %d)", len(idx), len(calls))
		return
	}
	pos := polyOf(calls[0].Common().Args[1])
	okAll := true
	for _, i := range idx {
		d := polySub(pos, polyOf(i))
		if !(d.isConst() && d.C == 1) {
			okAll = false
		}
	}
	r.check(okAll, rule, "position", p.instrPos(calls[0]), "the further lines are inserted directly after the line that was extended", "the further summary lines are not inserted directly after the line the first one was appended to: the summary lines end up in a different order")
	// and the extended line is the entry's last line: entry line + number of lines of the entry - 1
	pl := polyOf(idx[0])
	hasEntry, hasCount := false, false
	for k, c := range pl.Terms {
		if c == 1 && strings.Contains(k, "entryLineIndex") {
			hasEntry = true
		}
		if c == 1 && strings.Contains(k, "countLines") {
			hasCount = true
		}
		// the same number spelled directly: len(entry.Summary())
		if lc, _ := callOf(strip(pl.leafV[k])); c == 1 && lc != nil {
			if bi, isB := lc.Common().Value.(*ssa.Builtin); isB && bi.Name() == "len" {
				if isSummaryValue(lc.Common().Args[0]) {
					hasCount = true
				}
			}
		}
	}
	r.check(hasEntry && hasCount && pl.C == -1 && len(pl.Terms) == 2, rule, "last-line", p.pos(f.Pos()), "the extended line is entry line + countLines(entry) - 1", "the line that is extended is not the last line of the entry (entryLineIndex + countLines(entry) - 1): "+pl.String())
}

func polySub(a, b *Poly) *Poly {
	d := newPoly()
	d.addScaled(a, 1)
	d.addScaled(b, -1)
	return d
}

// P03-entry-line — the one existing line that stop / pause rewrite is the line that carries the
// entry's value: lastLinePointer - countLines(entries[i:]), where the slice runs from the entry
// itself to the END of the record (every later entry is stepped over with all its summary lines).
func ruleP03EntryLine(p *Prog, r *Report) {
	const rule = "P03-entry-line"
	cl := p.fn("klog/parser/reconciling", "countLines")
	if !r.anchorFn(rule, cl, "reconciling.countLines") {
		return
	}
	// countLines itself: the sum of len(e.Summary()) over every element
	okSum := false
	eachInstr(cl, func(in ssa.Instruction) {
		if bo, ok := in.(*ssa.BinOp); ok && bo.Op == token.ADD {
			for _, side := range []ssa.Value{bo.X, bo.Y} {
				if c, _ := callOf(strip(side)); c != nil {
					if b, isB := c.Common().Value.(*ssa.Builtin); isB && b.Name() == "len" {
						if isSummaryValue(c.Common().Args[0]) {
							if good, _ := onlyLoopGuards(bo.Block()); good {
								okSum = true
							}
						}
					}
				}
			}
		}
	})
	r.check(okSum, rule, "countLines", p.pos(cl.Pos()), "countLines adds len(e.Summary()) for every entry", "countLines is no longer the unconditional sum of len(e.Summary())")
	for _, name := range []string{"CloseOpenRange", "ExtendPause"} {
		f := p.method("klog/parser/reconciling", "Reconciler", name)
		if !r.anchorFn(rule, f, "(*Reconciler)."+name) {
			continue
		}
		n := 0
		bad := ""
		for _, g := range withAnons(f) {
			eachInstr(g, func(in ssa.Instruction) {
				ia, ok := in.(*ssa.IndexAddr)
				if !ok {
					return
				}
				if _, fld := fieldLoad(ia.X); fld != "lines" {
					return
				}
				n++
				pl := polyOf(ia.Index)
				var llp, cnt int64
				var cntCall ssa.Value
				other := false
				for k, c := range pl.Terms {
					switch {
					case strings.HasSuffix(k, ".lastLinePointer"):
						llp = c
					case strings.HasPrefix(k, "call:countLines("):
						cnt = c
						cntCall = pl.leafV[k]
					default:
						other = true
					}
				}
				if other || llp != 1 || cnt != -1 || pl.C != 0 {
					bad = "the line index is " + pl.String() + " at " + p.instrPos(ia)
					return
				}
				c, _ := callOf(strip(cntCall))
				if c == nil {
					bad = "countLines call not found"
					return
				}
				sl, isSl := strip(c.Common().Args[0]).(*ssa.Slice)
				if !isSl || sl.High != nil || sl.Low == nil {
					bad = "countLines is not given entries[i:] (from the entry to the end of the record) at " + p.instrPos(c)
					return
				}
				if nm, _, _, _ := methodCall(sl.X); nm != "Entries" {
					bad = "countLines is not given a slice of Record.Entries()"
				}
			})
		}
		r.check(bad == "" && n > 0, rule, name, p.pos(f.Pos()), fmt.Sprintf("%d line accesses, all at lastLinePointer - countLines(entries[i:])", n), name+" does not address the entry's value line as lastLinePointer - countLines(entries[i:]): "+bad)
	}
}

// P05-toint — the exit status of a failure is never 0: Code.ToInt is the numeric value of the
// code (all code constants are >= 1, P05-exit), or a table that has a non-zero entry for EVERY
// code constant.
func ruleP05ToInt(p *Prog, r *Report) {
	const rule = "P05-toint"
	f := p.method("klog/app", "Code", "ToInt")
	if !r.anchorFn(rule, f, "app.Code.ToInt") {
		return
	}
	codeT := p.namedType("klog/app", "Code")
	pk := p.pkg("klog/app")
	if codeT == nil || pk == nil {
		r.undecided(rule, "codes", "-", "type app.Code not found")
		return
	}
	var consts []int64
	names := map[int64]string{}
	sc := pk.Types.Scope()
	for _, name := range sc.Names() {
		if c, ok := sc.Lookup(name).(*types.Const); ok && types.Identical(c.Type(), codeT) {
			v, _ := constInt64(c)
			consts = append(consts, v)
			names[v] = name
		}
	}
	recv := f.Params[0]
	for i, ret := range returnsOf(f) {
		key := fmt.Sprintf("return#%d", i)
		v := retResult(ret, 0)
		// int(c)
		x := v
		for {
			if cv, ok := x.(*ssa.Convert); ok {
				x = cv.X
				continue
			}
			if ct, ok := x.(*ssa.ChangeType); ok {
				x = ct.X
				continue
			}
			break
		}
		if x == ssa.Value(recv) {
			r.ok(rule, key, p.instrPos(ret), "the numeric value of the code")
			continue
		}
		// table[c] with a package-level map literal
		if lk, ok := strip(v).(*ssa.Lookup); ok && strip(lk.Index) == ssa.Value(recv) {
			if u, isU := strip(lk.X).(*ssa.UnOp); isU && u.Op == token.MUL {
				if g, isG := u.X.(*ssa.Global); isG {
					entries := map[int64]int64{}
					if init := g.Pkg.Func("init"); init != nil {
						eachInstr(init, func(in ssa.Instruction) {
							if mu, isMU := in.(*ssa.MapUpdate); isMU {
								k, ok1 := constInt(mu.Key)
								val, ok2 := constInt(mu.Value)
								if ok1 && ok2 && mapOfGlobal(mu.Map, g) {
									entries[k] = val
								}
							}
						})
					}
					missing := ""
					for _, c := range consts {
						if val, has := entries[c]; !has || val == 0 {
							missing += " " + names[c]
						}
					}
					r.check(missing == "", rule, key, p.instrPos(ret), "a table with a non-zero status for every code", "the exit-status table has no non-zero entry for:"+missing+" — a failure with that code exits with status 0")
					continue
				}
			}
		}
		r.undecided(rule, key, p.instrPos(ret), "ToInt is neither the numeric value of the code nor a lookup in a package-level table")
	}
}

func constInt64(c *types.Const) (int64, bool) {
	s := c.Val().ExactString()
	var v int64
	_, err := fmt.Sscan(s, &v)
	return v, err == nil
}

// mapOfGlobal: m is the map stored into global g in the package initialiser.
func mapOfGlobal(m ssa.Value, g *ssa.Global) bool {
	mk, ok := strip(m).(*ssa.MakeMap)
	if !ok {
		return false
	}
	for _, ref := range *mk.Referrers() {
		if st, isSt := ref.(*ssa.Store); isSt && st.Addr == ssa.Value(g) {
			return true
		}
	}
	return false
}

// P07-tail — a worker never regards the last block of its batch as finished (the next batch may
// continue it): whatever it keeps of the values, blocks and errors of mapParse is x[:len(x)-1].
// P07-input:serial — the serial engine parses exactly the text it is given (so both engines see
// the same text).
func ruleP07Tail(p *Prog, r *Report) {
	const rule = "P07-tail"
	parse, async, ok := p.parallelFns(r, rule)
	if !ok {
		return
	}
	var work *ssa.Function
	work = p.workerLiteral(parse, async)
	if work == nil {
		r.undecided(rule, "work", p.pos(parse.Pos()), "work function literal not found")
		return
	}
	n := 0
	eachInstr(work, func(in ssa.Instruction) {
		st, ok := in.(*ssa.Store)
		if !ok {
			return
		}
		fa, ok := st.Addr.(*ssa.FieldAddr)
		if !ok || typeNameOf(fa.X.Type()) != "batchResult" {
			return
		}
		fld := fieldName(fa)
		if fld != "values" && fld != "blocks" && fld != "errs" {
			return
		}
		if isNilConst(st.Val) {
			return
		}
		n++
		good := false
		kept := strip(st.Val)
		// (the per-block error lists may be flattened in the worker already)
		if fc, _ := callOf(kept); fc != nil && fld == "errs" && fnBase(staticCalleeOrNil(fc)) == "flatten" && len(fc.Common().Args) == 1 {
			kept = strip(fc.Common().Args[0])
		}
		if sl, isSl := kept.(*ssa.Slice); isSl && sl.Low == nil && sl.High != nil {
			if bo, isBo := strip(sl.High).(*ssa.BinOp); isBo && bo.Op == token.SUB {
				if k, isK := constInt(bo.Y); isK && k == 1 {
					if lc, _ := callOf(strip(bo.X)); lc != nil {
						if bi, isB := lc.Common().Value.(*ssa.Builtin); isB && bi.Name() == "len" && sameValue(lc.Common().Args[0], sl.X) {
							good = true
						}
					}
				}
			}
			if mc, _ := callOf(strip(sl.X)); mc == nil || fnBase(staticCalleeOrNil(mc)) != "mapParse" {
				good = false
			}
		}
		r.check(good, rule, fmt.Sprintf("%s#%d", fld, n), p.instrPos(st), "keeps all but the last element of what mapParse returned", "a worker keeps the last "+fld+" element of its batch as if the block were finished: a record cut by the batch boundary is parsed in two pieces (or its trailing blank lines go to the wrong block)")
	})
	if n < 3 {
		r.undecided(rule, "floor", p.pos(work.Pos()), "expected assignments of values, blocks and errs in the worker, found %d", n)
	}
	// serial entry point
	sp := p.method("klog/parser/engine", "SerialParser", "Parse")
	mp := p.method("klog/parser/engine", "SerialParser", "mapParse")
	if r.anchorFn(rule, sp, "SerialParser.Parse") && r.anchorFn(rule, mp, "SerialParser.mapParse") {
		cs := callsTo(sp, mp)
		okIn := len(cs) == 1
		if okIn {
			a := cs[0].Common().Args
			okIn = strip(a[len(a)-1]) == ssa.Value(sp.Params[len(sp.Params)-1])
		}
		r.check(okIn, rule, "input:serial", p.pos(sp.Pos()), "the serial engine parses the text it is given", "the serial engine alters the text before parsing it (the parallel engine does not: the engines disagree on such input)")
	}
}

// P14-agg-key — the tag statistics are keyed by name AND value without collisions: either two
// levels (name, then value) or one key with the "=" separator in between.
func ruleP14AggKey(p *Prog, r *Report) {
	const rule = "P14-agg-key"
	put := p.method("klog/service", "totalByTag", "put")
	if !r.anchorFn(rule, put, "service.totalByTag.put") {
		return
	}
	tag := put.Params[1]
	n := 0
	bad := ""
	descr := func(k ssa.Value) string {
		var leaves []ssa.Value
		catLeaves(k, &leaves, 0)
		var parts []string
		for _, l := range leaves {
			if s, isS := constString(l); isS {
				parts = append(parts, fmt.Sprintf("%q", s))
				continue
			}
			if nm, rv, _, _ := methodCall(l); rv != nil && strip(rv) == ssa.Value(tag) {
				parts = append(parts, nm)
				continue
			}
			parts = append(parts, "?")
		}
		return strings.Join(parts, "+")
	}
	eachInstr(put, func(in ssa.Instruction) {
		var key ssa.Value
		switch x := in.(type) {
		case *ssa.Lookup:
			if _, isMap := x.X.Type().Underlying().(*types.Map); isMap {
				key = x.Index
			}
		case *ssa.MapUpdate:
			key = x.Key
		}
		if key == nil {
			return
		}
		n++
		d := descr(derefFlow(key))
		switch d {
		case "Name", "Value", `Name+"="+Value`:
		default:
			bad = d + " at " + p.instrPos(in)
		}
	})
	r.check(bad == "" && n > 0, rule, "key", p.pos(put.Pos()), "statistics are keyed by name, then value (or name=value)", "the tag statistics are keyed by "+bad+": different tags can share a key (#ab and #a=b), their totals merge")
}

// P12-populate — each component of a period hash is written at the bit offset that was current
// BEFORE its own width is added: the shift amount is a load of bitsConsumed that no store to
// bitsConsumed precedes.
func ruleP12Populate(p *Prog, r *Report) {
	const rule = "P12-populate"
	pop := p.method("klog/service/period", "bitMask", "populate")
	if !r.anchorFn(rule, pop, "period.bitMask.populate") {
		return
	}
	var stores []*ssa.Store
	eachInstr(pop, func(in ssa.Instruction) {
		if st, ok := in.(*ssa.Store); ok {
			if fa, isFA := st.Addr.(*ssa.FieldAddr); isFA && fieldName(fa) == "bitsConsumed" {
				stores = append(stores, st)
			}
		}
	})
	n := 0
	eachInstr(pop, func(in ssa.Instruction) {
		bo, ok := in.(*ssa.BinOp)
		if !ok || bo.Op != token.SHL {
			return
		}
		if strip(bo.X) != ssa.Value(pop.Params[1]) {
			if cv, isCv := strip(bo.X).(*ssa.Convert); !isCv || strip(cv.X) != ssa.Value(pop.Params[1]) {
				return
			}
		}
		n++
		ld, isLd := strip(bo.Y).(*ssa.UnOp)
		if cv, isCv := strip(bo.Y).(*ssa.Convert); isCv {
			ld, isLd = strip(cv.X).(*ssa.UnOp)
		}
		good := false
		if isLd && ld.Op == token.MUL {
			if fa, isFA := ld.X.(*ssa.FieldAddr); isFA && fieldName(fa) == "bitsConsumed" {
				good = true
				for _, st := range stores {
					if (st.Block() == ld.Block() && instrIndex(st) < instrIndex(ld)) || (st.Block() != ld.Block() && st.Block().Dominates(ld.Block())) {
						good = false
					}
				}
			}
		}
		r.check(good, rule, "shift", p.instrPos(bo), "the value is shifted by the offset before its own width is added", "the value is shifted by an offset that already includes its own width: components land one slot too high and the leading component (the year) is truncated, so different periods share a hash")
	})
	if n != 1 {
		r.undecided(rule, "shift", p.pos(pop.Pos()), "expected one shift of the value in populate, found %d", n)
	}
}

// P17-one-instant — date and time of one command come from ONE reading of the clock: wherever a
// command asks its argument group for both the date (AtDate) and the time (AtTime), both calls are
// given the same `now` value. Two readings can straddle midnight: today's date with a time that
// belongs to tomorrow (or the reverse), i.e. an entry almost 24 hours off.
func ruleP17OneInstant(p *Prog, r *Report) {
	const rule = "P17-one-instant"
	n := 0
	for _, f := range p.srcFns {
		if !strings.HasPrefix(pkgPathOfFn(f), modPath+"/klog/app/cli") || f.Parent() != nil {
			continue
		}
		var dates, times []ssa.CallInstruction
		for _, g := range withAnons(f) {
			eachInstr(g, func(in ssa.Instruction) {
				c, ok := in.(ssa.CallInstruction)
				if !ok {
					return
				}
				callee := staticCallee(c)
				if callee == nil || callee.Signature.Recv() == nil || pkgPathOfFn(callee) != modPath+"/klog/app/cli/util" {
					return
				}
				switch callee.Name() {
				case "AtDate":
					dates = append(dates, c)
				case "AtTime":
					times = append(times, c)
				}
			})
		}
		if len(dates) == 0 || len(times) == 0 {
			continue
		}
		n++
		nowOf := func(c ssa.CallInstruction) ssa.Value { return strip(deref(c.Common().Args[1])) }
		base := nowOf(dates[0])
		same := true
		for _, c := range append(dates, times...) {
			if nowOf(c) != base {
				same = false
			}
		}
		_, isCall := base.(*ssa.Call)
		r.check(same && isCall, rule, fnName(f), p.pos(f.Pos()), fmt.Sprintf("AtDate (%d) and AtTime (%d) are given one and the same clock reading", len(dates), len(times)), "AtDate and AtTime are given different readings of the clock: a command run across midnight combines one day's date with the other day's time")
	}
	if n < 3 {
		r.undecided(rule, "floor", "-", "expected start, stop and switch to ask for date and time (found %d such commands)", n)
	}
}

// P20-only-json — `klog json` writes ONE document to its output and nothing else: besides the
// direct ctx.Print of ToJson(...), Json.Run calls no function of the module through which
// Context.Print can be reached (warnings, hints, totals … would follow or precede the document).
func ruleP20OnlyJson(p *Prog, r *Report) {
	const rule = "P20-only-json"
	run := p.method("klog/app/cli", "Json", "Run")
	if !r.anchorFn(rule, run, "cli.Json.Run") {
		return
	}
	printsIn := func(g *ssa.Function) string {
		at := ""
		eachInstr(g, func(in ssa.Instruction) {
			if c, ok := in.(ssa.CallInstruction); ok && c.Common().IsInvoke() && c.Common().Method.Name() == "Print" && typeNameOf(c.Common().Value.Type()) == "Context" {
				at = p.instrPos(c)
			}
		})
		return at
	}
	n := 0
	for _, g := range plainWithAnons(run) {
		// (a transparent helper of Json.Run is looked into instead: what it prints is a print
		// site of Json.Run, which P20-run classifies)
		eachVInstr(g, func(in ssa.Instruction) {
			c, ok := in.(ssa.CallInstruction)
			if !ok {
				return
			}
			callee := staticCallee(c)
			if callee == nil || !p.inMod(callee) || len(callee.Blocks) == 0 || isHelper(rawStaticCallee(c)) {
				return
			}
			n++
			rc := p.reach([]*ssa.Function{callee}, nil, nil)
			for _, h := range rc.moduleFuncs() {
				if at := printsIn(h); at != "" {
					r.bad(rule, "call:"+fnName(callee), p.instrPos(c), "Json.Run calls %s, through which text is printed (%s, via %s): the output is no longer one JSON document", fnName(callee), at, strings.Join(rc.path(h), " -> "))
					return
				}
			}
		})
	}
	r.check(n > 0, rule, "calls", p.pos(run.Pos()), fmt.Sprintf("none of the %d module functions called by Json.Run can print", n), "no calls found in Json.Run")
}

// P20-no-edit — the JSON text is what the encoder produced: package parser/json never edits
// encoded text as a string (no Replace/ReplaceAll/Replacer/regexp substitution); only the
// trailing newline of the encoder may be cut off.
func ruleP20NoEdit(p *Prog, r *Report) {
	const rule = "P20-no-edit"
	forbidden := map[string]bool{
		"strings.Replace": true, "strings.ReplaceAll": true, "(*strings.Replacer).Replace": true, "strings.NewReplacer": true,
		"(*regexp.Regexp).ReplaceAllString": true, "(*regexp.Regexp).ReplaceAllStringFunc": true, "(*regexp.Regexp).ReplaceAllLiteralString": true,
		"bytes.Replace": true, "bytes.ReplaceAll": true, "strings.Map": true, "html.UnescapeString": true, "strconv.Unquote": true,
	}
	n, nf := 0, 0
	for _, f := range p.srcFns {
		if pkgPathOfFn(f) != modPath+"/klog/parser/json" {
			continue
		}
		nf++
		eachInstr(f, func(in ssa.Instruction) {
			c, ok := in.(ssa.CallInstruction)
			if !ok {
				return
			}
			if callee := staticCallee(c); callee != nil && forbidden[callee.String()] {
				n++
				r.bad(rule, fnName(f)+":"+callee.Name(), p.instrPos(c), "%s edits text in the JSON serialiser with %s: an edit of encoded JSON can produce an invalid escape or change a value", fnName(f), callee.String())
			}
		})
	}
	if nf == 0 {
		r.undecided(rule, "package", "-", "package klog/parser/json not found")
		return
	}
	if n == 0 {
		r.ok(rule, "no-string-surgery", "-", "%d functions of parser/json, none edits encoded text", nf)
	}
}

// P18-print-verbatim — print --with-totals puts the serialised line (which already carries its
// styling) into the output by concatenation only; the assembled text is not passed through any
// function (trimming, replacing, padding by content …), whose effect would depend on whether the
// line ends in an escape sequence or in the text itself.
func ruleP18PrintVerbatim(p *Prog, r *Report) {
	const rule = "P18-print-verbatim"
	f := p.fn("klog/app/cli", "printWithDurations")
	if !r.anchorFn(rule, f, "cli.printWithDurations") {
		return
	}
	var seeds []ssa.Value
	for _, g := range withAnons(f) {
		eachInstr(g, func(in ssa.Instruction) {
			if u, ok := in.(*ssa.UnOp); ok && u.Op == token.MUL {
				if fa, isFA := u.X.(*ssa.FieldAddr); isFA && fieldName(fa) == "Text" && typeNameOf(derefType(fa.X.Type())) == "Line" {
					seeds = append(seeds, u)
				}
			}
			if fl, ok := in.(*ssa.Field); ok {
				if st, isSt := fl.X.Type().Underlying().(*types.Struct); isSt && st.Field(fl.Field).Name() == "Text" && typeNameOf(fl.X.Type()) == "Line" {
					seeds = append(seeds, fl)
				}
			}
		})
	}
	if len(seeds) == 0 {
		r.undecided(rule, "text", p.pos(f.Pos()), "the line text is not read in printWithDurations")
		return
	}
	seen := map[ssa.Value]bool{}
	work := append([]ssa.Value{}, seeds...)
	bad := ""
	for len(work) > 0 && bad == "" {
		v := work[0]
		work = work[1:]
		if seen[v] {
			continue
		}
		seen[v] = true
		refs := v.Referrers()
		if refs == nil {
			continue
		}
		for _, ref := range *refs {
			switch x := ref.(type) {
			case *ssa.BinOp:
				if x.Op == token.ADD {
					work = append(work, x)
				}
			case *ssa.Phi:
				work = append(work, x)
			case *ssa.Store:
				if x.Val != v {
					continue
				}
				cell := cellOf(x.Addr)
				if cell == nil {
					continue
				}
				// every load of that variable, here and in the closures
				for _, g := range withAnons(f) {
					eachInstr(g, func(in ssa.Instruction) {
						if u, ok := in.(*ssa.UnOp); ok && u.Op == token.MUL && cellOf(u.X) == cell {
							work = append(work, u)
						}
					})
				}
			case ssa.CallInstruction:
				// strings.Builder is concatenation by another name
				if callee := staticCallee(x); callee != nil && (callee.String() == "(*strings.Builder).WriteString" || callee.String() == "(*strings.Builder).Write") {
					recv := x.Common().Args[0]
					for _, g := range withAnons(f) {
						eachInstr(g, func(in ssa.Instruction) {
							if sc, ok := in.(*ssa.Call); ok && staticCallee(sc) != nil && staticCallee(sc).String() == "(*strings.Builder).String" && sameValue(sc.Call.Args[0], recv) {
								work = append(work, sc)
							}
						})
					}
					continue
				}
				bad = calleeName(x) + " at " + p.instrPos(x)
			}
		}
	}
	r.check(bad == "", rule, "line-text", p.pos(f.Pos()), "the serialised lines reach the output by concatenation only", "the assembled output line is passed through "+bad+": styled and unstyled output differ by more than escape sequences (the reset sequence shields trailing blanks)")
}

func eachInstrIn(fs []*ssa.Function, fn func(ssa.Instruction)) {
	for _, f := range fs {
		eachInstr(f, fn)
	}
}

func isParamValue(v ssa.Value) bool {
	_, ok := v.(*ssa.Parameter)
	return ok
}

// P06-datetime-near — service.NewDateTime(d, t) computes d.PlusDays(-1|0|+1), which panics at the
// ends of the representable range. It is total only because it is applied to the clock date or
// to a record date that has been compared EQUAL to a date within one day of the clock date (the
// future-entries warning looks at yesterday's, today's and tomorrow's record only): a record
// dated 0000-01-01 with an entry `<23:00 - 1:00` never reaches it. Checked per call site: the
// date argument is clock-derived, or every way into the code around the call establishes
// <clock date>[.PlusDays(k)].IsEqualTo(<that record date>) with |k| <= 1.
func ruleP06DateTimeNear(p *Prog, r *Report) {
	const rule = "P06-datetime-near"
	ndt := p.fn("klog/service", "NewDateTime")
	if !r.anchorFn(rule, ndt, "service.NewDateTime") {
		return
	}
	isClockDate := func(v ssa.Value) (bool, int64) {
		k := int64(0)
		for i := 0; i < 3; i++ {
			if n, recv, args, c := methodCall(v); c != nil && n == "PlusDays" && len(args) == 1 {
				kk, isK := constInt(args[0])
				if !isK {
					return false, 0
				}
				k += kk
				v = recv
				continue
			}
			break
		}
		if c, _ := callOf(v); c != nil && staticCallee(c) != nil && fnBase(staticCallee(c)) == "NewDateFromGo" {
			return true, k
		}
		if base, fld := fieldLoad(v); fld == "Date" && base != nil {
			// the Date of a DateTime field named now / of the clock's DateTime
			if _, f2 := fieldLoad(base); f2 == "now" {
				return true, k
			}
			if fa, isFA := base.(*ssa.FieldAddr); isFA && fieldName(fa) == "now" {
				return true, k
			}
			if c, _ := callOf(base); c != nil && staticCallee(c) != nil && fnBase(staticCallee(c)) == "NewDateTimeFromGo" {
				return true, k
			}
		}
		if _, fld := fieldLoad(v); fld == "today" {
			return true, k
		}
		return false, 0
	}
	near := func(g Guard, d ssa.Value) bool {
		if !g.Pol {
			return false
		}
		n, recv, args, c := methodCall(g.Cond)
		if c == nil || n != "IsEqualTo" || len(args) != 1 {
			return false
		}
		for _, pr := range [][2]ssa.Value{{recv, args[0]}, {args[0], recv}} {
			if leafKey(pr[0]) != leafKey(d) && !sameValue(pr[0], d) {
				continue
			}
			if ok, k := isClockDate(pr[1]); ok && k >= -1 && k <= 1 {
				return true
			}
		}
		return false
	}
	n := 0
	for _, f := range p.srcFns {
		if !p.inMod(f) {
			continue
		}
		for _, c := range callsTo(f, ndt) {
			n++
			key := fmt.Sprintf("%s#%d", fnName(f), n)
			d := c.Common().Args[0]
			if ok, _ := isClockDate(d); ok {
				r.ok(rule, key, p.instrPos(c), "the date is the clock's date")
				continue
			}
			if prm, isP := strip(d).(*ssa.Parameter); isP && f == p.fn("klog/service", "NewDateTimeFromGo") {
				_ = prm
			}
			// the position of the call in its outermost enclosing function
			at := c.Block()
			g := f
			for g.Parent() != nil {
				uses := closureUses(g.Parent(), g)
				if len(uses) != 1 {
					at = nil
					break
				}
				at = uses[0].Block()
				g = g.Parent()
			}
			okNear := false
			for b := at; b != nil && !okNear; b = b.Idom() {
				// every way into b establishes the nearness
				nWays, all := 0, true
				for _, pb := range b.Preds {
					if b.Dominates(pb) {
						continue // back edge
					}
					nWays++
					found := false
					for _, gd := range append(append([]Guard{}, guardsOf(pb)...), edgeGuard(pb, b)...) {
						if near(gd, d) {
							found = true
						}
					}
					if !found {
						all = false
					}
				}
				if nWays > 0 && all {
					okNear = true
				}
			}
			r.check(okNear, rule, key, p.instrPos(c), "reached only for a record dated within one day of the clock date", "NewDateTime is applied to a date taken from the file that has not been compared equal to yesterday, today or tomorrow: it steps a day back or forth for shifted times and panics for a record dated 0000-01-01 or 9999-12-31")
		}
	}
	if n < 3 {
		r.undecided(rule, "floor", "-", "found %d NewDateTime call sites, expected at least 3", n)
	}
}

// P09-entry-local-format — the notation remembered for an entry (spaces around the dash, number of
// placeholder characters) is derived from that entry's own text: the values stored into the
// range formats inside the entry loop of parse are constants, comparisons or locals of the code
// that parses this one entry — never a variable that lives across entries (a flag that, once
// raised by `8:00 - 9:00`, would also print the following `10:00-11:00` with spaces).
func ruleP09EntryLocalFormat(p *Prog, r *Report) {
	const rule = "P09-entry-local-format"
	parse, fam := parseFamily(p)
	if !r.anchorFn(rule, parse, "parser.parse") {
		return
	}
	var local func(v ssa.Value, fn *ssa.Function, depth int) (bool, string)
	local = func(v ssa.Value, fn *ssa.Function, depth int) (bool, string) {
		if depth > 8 {
			return false, "too deep"
		}
		v = plainDeref(v)
		switch x := v.(type) {
		case *ssa.Const, *ssa.BinOp, *ssa.Call, *ssa.Extract:
			return true, ""
		case *ssa.Phi:
			for _, e := range x.Edges {
				if ok, why := local(e, fn, depth+1); !ok {
					return false, why
				}
			}
			return true, ""
		case *ssa.UnOp:
			if x.Op == token.NOT {
				return local(x.X, fn, depth+1)
			}
			if x.Op != token.MUL {
				return true, ""
			}
			cell := cellOf(x.X)
			if cell == nil {
				return true, "" // a field of the entry's own parsing state
			}
			for _, st := range storesTo(cell) {
				// the variable must be (re)assigned by the code of this entry only
				inside := false
				for g := st.in.Parent(); g != nil; g = g.Parent() {
					if g == fn {
						inside = true
					}
				}
				if !inside {
					return false, "the variable " + cell.Comment + " is also assigned at " + p.instrPos(st.in) + ", outside the code that parses one entry"
				}
				if ok, why := local(st.val, fn, depth+1); !ok {
					return false, why
				}
			}
			return true, ""
		}
		return true, ""
	}
	n := 0
	for _, f := range fam {
		eachInstr(f, func(in ssa.Instruction) {
			st, ok := in.(*ssa.Store)
			if !ok {
				return
			}
			fa, ok := st.Addr.(*ssa.FieldAddr)
			if !ok {
				return
			}
			tn := typeNameOf(fa.X.Type())
			if tn != "RangeFormat" && tn != "OpenRangeFormat" {
				return
			}
			n++
			// the code of one entry: the closure directly below parse that contains the store
			scope := f
			for scope.Parent() != nil && scope.Parent() != parse {
				scope = scope.Parent()
			}
			okL, why := local(st.Val, scope, 0)
			r.check(okL, rule, fnName(f)+":"+tn+"."+fieldName(fa), p.instrPos(st), "the notation stored for the entry derives from this entry's text", "the notation stored for an entry depends on state that outlives the entry: "+why)
		})
	}
	if n < 3 {
		r.undecided(rule, "floor", "-", "found %d notation fields stored by parse, expected at least 3", n)
	}
}

// P10-span — an error span lies inside its line: when the LENGTH of an error is the whole length
// of a line (x.Length()), its START is column 0; a start at the current reading position goes
// with the remaining length or with the length of a token cut from there.  (Start and length are
// compared as polynomials over the Parseable's character count and reading position, whichever
// accessors spell them.)
func ruleP10Span(p *Prog, r *Report) {
	const rule = "P10-span"
	parse, fam := parseFamily(p)
	newM := p.method("klog/parser", "HumanError", "New")
	if !r.anchorFn(rule, parse, "parser.parse") || !r.anchorFn(rule, newM, "HumanError.New") {
		return
	}
	n := 0
	ord := map[string]int{}
	sgSpan := newSuperGraph(parse)
	for _, f := range fam {
		eachInstr(f, func(in ssa.Instruction) {
			c, ok := in.(*ssa.Call)
			if !ok || !sameFn(staticCallee(c), newM) || len(c.Call.Args) < 5 {
				return
			}
			n++
			if k := len(sgSpan.sites[f]); k > 1 {
				n += k - 1 // one creation site in a local function that serves k places
			}
			code := "?"
			if rc, _ := callOf(c.Call.Args[0]); rc != nil && staticCallee(rc) != nil {
				code = fnBase(staticCallee(rc))
			}
			ord[fnName(f)+code]++
			key := fmt.Sprintf("%s:%s#%d", fnName(f), code, ord[fnName(f)+code])
			pos, length := polyX(c.Call.Args[3]), polyX(c.Call.Args[4])
			// reading positions of different moments are only ever subtracted later − earlier (what
			// was consumed in between); "earlier − later" is a negative distance
			if early, late := cursorOrderViolation(c.Call.Args[4]); early != nil {
				r.bad(rule, key+":cursor-order", p.instrPos(c), "the length of the error contains the reading position of an earlier moment (%s) minus that of a later one (%s) — the cursor moved in between: the length comes out too short by what was skipped, down to negative values, which no renderer can display", p.instrPos(early), p.instrPos(late))
			}
			// a length is measured — one token's or line's own length, or the distance between two
			// reading positions — not added up from the lengths of several tokens: the sum assumes
			// how the tokens are separated (`15:00-14:00` against `15:00 - 14:00`)
			nTok := 0
			for k, coef := range length.Terms {
				if coef > 0 && strings.HasPrefix(k, "len(field:") && strings.HasSuffix(k, ".Chars)") {
					nTok += int(coef)
				}
			}
			if nTok > 1 {
				r.bad(rule, key+":measured", p.instrPos(c), "the length of the error is added up from the lengths of %d tokens (%s): it is right only for one way of separating them, and otherwise the marked span ends before or beyond the text meant — possibly beyond the end of the line", nTok, length.String())
			}
			whole := ""
			for k, coef := range length.Terms {
				if coef == 1 && strings.HasPrefix(k, "len(field:") && strings.HasSuffix(k, ".Chars)") {
					x := strings.TrimSuffix(strings.TrimPrefix(k, "len(field:"), ".Chars)")
					if length.Terms["field:"+x+".PointerPosition"] != -1 {
						whole = x
					}
				}
			}
			if whole == "" {
				r.ok(rule, key, p.instrPos(c), "the length is not a whole line's length")
				return
			}
			// the whole line: the start must not be that line's reading position
			bad := pos.Terms["field:"+whole+".PointerPosition"] > 0
			r.check(!bad, rule, key, p.instrPos(c), "a whole-line length starts at a position that does not depend on how far the line was read", "the error is as long as the whole line but starts at the current reading position of that line: the span reaches beyond the end of the line (start "+pos.String()+", length "+length.String()+")")
		})
	}
	if n < 18 {
		r.undecided(rule, "floor", "-", "found %d error creation sites, expected at least 18", n)
	}
}

// P07-tail-bytes — the tail of a batch is cut off at "bytes consumed minus the bytes of the last
// block"; countBytes must therefore measure a block exactly as ParseBlock counted it: the sum,
// over all its lines, of the length of the line as it stood in the text — len(l.Original()), or
// len(l.Text)+len(l.LineEnding) — with nothing estimated (a line ending is one OR two bytes).
func ruleP07TailBytes(p *Prog, r *Report) {
	const rule = "P07-tail-bytes"
	// the amount: whatever is subtracted from the bytes consumed where the tail text is cut off —
	// a helper's result or a sum computed on the spot
	parse, async, okFns := p.parallelFns(r, rule)
	if !okFns {
		return
	}
	var work *ssa.Function
	work = p.workerLiteral(parse, async)
	if work == nil {
		r.undecided(rule, "worker", p.pos(parse.Pos()), "the per-batch worker of the parallel engine was not found")
		return
	}
	var amounts []ssa.Value
	var ats []ssa.Instruction
	for _, g := range withAnons(work) {
		eachInstr(g, func(in ssa.Instruction) {
			st, ok := in.(*ssa.Store)
			if !ok {
				return
			}
			fa, ok := st.Addr.(*ssa.FieldAddr)
			if !ok || fieldName(fa) != "tailText" {
				return
			}
			sl, ok := strip(st.Val).(*ssa.Slice)
			if !ok || sl.Low == nil {
				return
			}
			if bo, isB := strip(sl.Low).(*ssa.BinOp); isB && bo.Op == token.SUB {
				amounts = append(amounts, bo.Y)
				ats = append(ats, st)
			}
		})
	}
	if len(amounts) == 0 {
		r.undecided(rule, "amount", p.pos(work.Pos()), "the tail text is not cut at (bytes consumed - size of the last block)")
		return
	}
	for i, amt := range amounts {
		key := fmt.Sprintf("return#%d", i)
		v := strip(amt)
		retPos := ats[i]
		// a call of a module function that sums: look at what it returns
		if hc, isCall := v.(*ssa.Call); isCall {
			if g := rawStaticCallee(hc); g != nil && p.inMod(g) && len(g.Blocks) > 0 {
				if rets := plainReturnsOf(g); len(rets) == 1 && len(rets[0].Results) == 1 {
					v = rets[0].Results[0]
					retPos = rets[0]
				}
			}
		}
		ret := retPos
		phis, ins := phiCycle(v)
		ok := len(phis) > 0
		why := ""
		for _, in := range ins {
			if k, isK := constInt(in); isK {
				if k != 0 {
					ok, why = false, "the count does not start at 0"
				}
				continue
			}
			pl := polyOf(in)
			kinds := map[string]int64{}
			if pl.C != 0 {
				ok, why = false, fmt.Sprintf("a constant (%+d) is added per line", pl.C)
			}
			for k, c := range pl.Terms {
				v := pl.leafV[k]
				if q, isQ := strip(v).(*ssa.Phi); isQ && phis[q] && c == 1 {
					continue
				}
				lc, isC := strip(v).(*ssa.Call)
				if !isC {
					ok, why = false, "something that is not a length is added"
					continue
				}
				bi, isB := lc.Call.Value.(*ssa.Builtin)
				if !isB || bi.Name() != "len" {
					ok, why = false, "something that is not a length is added"
					continue
				}
				arg := lc.Call.Args[0]
				if n, recv, _, mc := methodCall(arg); mc != nil && n == "Original" && rangeElemOf(recv) != nil {
					kinds["Original"] += c
					continue
				}
				if base, fld := fieldLoad(arg); (fld == "Text" || fld == "LineEnding") && base != nil && rangeElemOf(base) != nil {
					kinds[fld] += c
					continue
				}
				ok, why = false, "a length of something other than the line is added"
			}
			full := (kinds["Original"] == 1 && len(kinds) == 1) || (kinds["Text"] == 1 && kinds["LineEnding"] == 1 && len(kinds) == 2)
			if !full && ok {
				ok, why = false, fmt.Sprintf("per line it adds %v", kinds)
			}
			if b, isB := in.(*ssa.BinOp); isB {
				if only, _ := onlyLoopGuards(b.Block()); !only {
					ok, why = false, "a line is counted conditionally"
				}
			}
		}
		r.check(ok, rule, key, p.instrPos(ret), "countBytes = sum of the original byte lengths of the block's lines", "countBytes does not add up the exact original length of every line ("+why+"): the tail text handed to the next batch starts at the wrong byte")
	}
}

// P15-weeknumber — the ISO week a date belongs to is what package time computes for that very
// day: date.WeekNumber returns both results of (time.Time).ISOWeek of the date's own civil date,
// unmodified. (A "corrected" week-year — clamped, or replaced by the calendar year — puts the first
// days of January or the last days of December into the same (year, week) pair as the other end of
// the year: two different weeks then share a bucket and a hash.)
func ruleP15WeekNumber(p *Prog, r *Report) {
	const rule = "P15-weeknumber"
	f := p.method("klog", "date", "WeekNumber")
	if !r.anchorFn(rule, f, "klog.(*date).WeekNumber") {
		return
	}
	for i, ret := range returnsOf(f) {
		key := fmt.Sprintf("return#%d", i)
		ok := len(ret.Results) == 2
		var iso ssa.CallInstruction
		for idx := 0; ok && idx < 2; idx++ {
			c, j := callOf(retResult(ret, idx))
			if c == nil || j != idx || staticCallee(c) == nil || staticCallee(c).String() != "(time.Time).ISOWeek" {
				ok = false
				break
			}
			if iso != nil && iso != c {
				ok = false
			}
			iso = c
		}
		if ok {
			// the receiver derives from the date itself
			okRecv := false
			v := iso.Common().Args[0]
			was := ht.enabled
			ht.enabled = false // follow the calls themselves, not what a conversion helper builds
			defer func() { ht.enabled = was }()
			for hops := 0; hops < 6 && v != nil; hops++ {
				c, _ := callOf(v)
				if c == nil || len(c.Common().Args) == 0 {
					break
				}
				if g := staticCallee(c); g != nil && g.String() == "time.Date" {
					// midnight (UTC is P15-utc's business) of the date's own year, month and day
					okRecv = dateFieldsOfOne(c.Common().Args) && dateFieldBase(c.Common().Args[0]) == ssa.Value(f.Params[0])
					break
				}
				v = c.Common().Args[0]
				if sameValue(v, f.Params[0]) || strip(v) == ssa.Value(f.Params[0]) {
					okRecv = true
					break
				}
			}
			ok = okRecv
		}
		r.check(ok, rule, key, p.instrPos(ret), "WeekNumber = ISOWeek() of the date's own day, both results unmodified", "WeekNumber does not return the two results of ISOWeek() of the date unmodified: days at the turn of the year get the (year, week) pair of another week")
	}
}

// P17-follow-fresh — `today --follow` redraws every second; each redraw is an evaluation "at the
// moment of the invocation" of that redraw: the instant handed to --now and to the today/yesterday
// split is read from the clock inside the repeated callback (or the code it calls), never taken
// from a reading made before the loop started.
func ruleP17FollowFresh(p *Prog, r *Report) {
	const rule = "P17-follow-fresh"
	run := p.method("klog/app/cli", "Today", "Run")
	wr := p.fn("klog/app/cli/util", "WithRepeat")
	an := p.method("klog/app/cli/util", "NowArgs", "ApplyNow")
	if !r.anchorFn(rule, run, "cli.(*Today).Run") || !r.anchorFn(rule, wr, "util.WithRepeat") || !r.anchorFn(rule, an, "NowArgs.ApplyNow") {
		return
	}
	cs := callsTo(run, wr)
	if len(cs) != 1 {
		r.undecided(rule, "loop", p.pos(run.Pos()), "expected one WithRepeat call in Today.Run, found %d", len(cs))
		return
	}
	cb := funcLiteral(cs[0].Common().Args[len(cs[0].Common().Args)-1])
	if cb == nil {
		r.undecided(rule, "callback", p.instrPos(cs[0]), "the repeated callback of today --follow is not a function literal")
		return
	}
	rc := p.reach([]*ssa.Function{cb}, nil, nil)
	extent := map[*ssa.Function]bool{cb: true}
	for _, g := range rc.moduleFuncs() {
		extent[g] = true
		for _, a := range plainWithAnons(g) {
			extent[a] = true
		}
	}
	// where a clock value comes from: the ctx.Now() calls behind it
	var origins func(v ssa.Value, depth int, seen map[ssa.Value]bool) ([]ssa.CallInstruction, bool)
	origins = func(v ssa.Value, depth int, seen map[ssa.Value]bool) ([]ssa.CallInstruction, bool) {
		if depth > 10 || seen[v] {
			return nil, true
		}
		seen[v] = true
		v = plainDeref(v)
		switch x := v.(type) {
		case *ssa.Call:
			if x.Call.IsInvoke() && x.Call.Method.Name() == "Now" {
				return []ssa.CallInstruction{x}, true
			}
			return nil, false
		case *ssa.Parameter:
			g := x.Parent()
			idx := -1
			for i, prm := range g.Params {
				if prm == x {
					idx = i
				}
			}
			var out []ssa.CallInstruction
			sites := ht.sites[originFn(g)]
			if len(sites) == 0 || idx < 0 {
				return nil, false
			}
			for _, s := range sites {
				if !extent[s.Parent()] && s.Parent() != run {
					continue
				}
				if idx >= len(s.Common().Args) {
					return nil, false
				}
				o, ok := origins(s.Common().Args[idx], depth+1, seen)
				if !ok {
					return nil, false
				}
				out = append(out, o...)
			}
			return out, true
		case *ssa.UnOp:
			if x.Op == token.MUL {
				if cell := cellOf(x.X); cell != nil {
					var out []ssa.CallInstruction
					for _, st := range storesTo(cell) {
						o, ok := origins(st.val, depth+1, seen)
						if !ok {
							return nil, false
						}
						out = append(out, o...)
					}
					return out, true
				}
			}
		case *ssa.Phi:
			var out []ssa.CallInstruction
			for _, e := range x.Edges {
				o, ok := origins(e, depth+1, seen)
				if !ok {
					return nil, false
				}
				out = append(out, o...)
			}
			return out, true
		}
		return nil, false
	}
	n := 0
	for g := range extent {
		for _, c := range callsTo(g, an) {
			n++
			key := fmt.Sprintf("%s:ApplyNow", fnName(g))
			os, ok := origins(c.Common().Args[1], 0, map[ssa.Value]bool{})
			if !ok || len(os) == 0 {
				r.undecided(rule, key, p.instrPos(c), "the instant given to --now inside the follow loop could not be traced to a clock reading")
				continue
			}
			stale := ""
			for _, o := range os {
				if !extent[o.Parent()] {
					stale = p.instrPos(o)
				}
			}
			r.check(stale == "", rule, key, p.instrPos(c), "the instant is read from the clock at every refresh", "today --follow evaluates --now at an instant read once before the loop ("+stale+"): the running entry stops growing and the day split keeps the old date after midnight")
		}
	}
	if n == 0 {
		r.undecided(rule, "floor", p.pos(run.Pos()), "no ApplyNow call reachable from the follow callback of today")
	}
}

// P09-summary-text — SummaryText.ToString, through which print, the JSON `summary` fields and the
// record serialiser render summaries, joins ALL lines of the summary with the canonical line
// ending: strings.Join(the receiver itself, canonicalLineEnding). An empty first line of an entry
// summary (the text starts on the following line) is a line like any other.
func ruleP09SummaryText(p *Prog, r *Report) {
	const rule = "P09-summary-text"
	f := p.method("klog/parser", "SummaryText", "ToString")
	ge := p.global("klog/parser", "canonicalLineEnding")
	if !r.anchorFn(rule, f, "parser.SummaryText.ToString") || ge == nil {
		return
	}
	for i, ret := range returnsOf(f) {
		ok := false
		if c, idx := callOf(retResult(ret, 0)); c != nil && idx == 0 && staticCallee(c) != nil && staticCallee(c).String() == "strings.Join" {
			a0 := plainDeref(c.Common().Args[0])
			for hops := 0; hops < 3; hops++ {
				if ct, isCT := a0.(*ssa.ChangeType); isCT {
					a0 = plainDeref(ct.X)
					continue
				}
				break
			}
			sep, isU := strip(c.Common().Args[1]).(*ssa.UnOp)
			ok = a0 == ssa.Value(f.Params[0]) && isU && sep.X == ssa.Value(ge)
		}
		r.check(ok, rule, fmt.Sprintf("return#%d", i), p.instrPos(ret), "all lines joined with the canonical line ending", "SummaryText.ToString is not strings.Join(all lines of the summary, canonical line ending): a line of the summary is dropped or altered in print and JSON output")
	}
}

// P09-rest-of-line — the summary text behind an entry's value is the WHOLE rest of its line:
// Parseable.Remainder() is PeekUntil with a predicate that matches no character (every return of
// the predicate is the constant false), and the continuation lines of the summary are cut the same
// way. A predicate that stops at some character — the defect repaired as D10 stopped at U+FFFD,
// which is what every byte that is not valid UTF-8 (a Latin-1 "é") decodes to — silently drops
// the rest of the summary, tags included, from the record, from `print` and from the JSON output.
func ruleP09RestOfLine(p *Prog, r *Report) {
	const rule = "P09-rest-of-line"
	rem := p.method("klog/parser/txt", "Parseable", "Remainder")
	pu := p.method("klog/parser/txt", "Parseable", "PeekUntil")
	parse, fam := parseFamily(p)
	nes := p.fn("klog", "NewEntrySummary")
	if !r.anchorFn(rule, rem, "txt.(*Parseable).Remainder") || !r.anchorFn(rule, pu, "txt.(*Parseable).PeekUntil") || !r.anchorFn(rule, parse, "parser.parse") || !r.anchorFn(rule, nes, "klog.NewEntrySummary") {
		return
	}
	never := func(v ssa.Value) bool {
		g := funcLiteral(v)
		if g == nil || len(g.Blocks) == 0 {
			return false
		}
		rets := plainReturnsOf(g)
		if len(rets) == 0 {
			return false
		}
		for _, ret := range rets {
			if b, isB := constBool(ret.Results[0]); !isB || b {
				return false
			}
		}
		return true
	}
	// whole rest: v is result 0 of Remainder(), or of PeekUntil(never)
	wholeRest := func(v ssa.Value) bool {
		c, idx := callOf(v)
		if c == nil || idx != 0 {
			return false
		}
		switch {
		case sameFn(staticCallee(c), rem):
			return true
		case sameFn(staticCallee(c), pu):
			return never(c.Common().Args[1])
		}
		return false
	}
	for i, ret := range plainReturnsOf(rem) {
		was := ht.enabled
		ht.enabled = false
		c, idx := callOf(ret.Results[0])
		ok := c != nil && idx == 0 && sameFn(staticCallee(c), pu) && plainDeref(c.Common().Args[0]) == ssa.Value(rem.Params[0]) && never(c.Common().Args[1])
		ht.enabled = was
		if !ok {
			// the closed form: the characters from the cursor to the end of the line, cut directly
			if st, isSt := ret.Results[0].Type().Underlying().(*types.Struct); isSt {
				for fi := 0; fi < st.NumFields(); fi++ {
					if st.Field(fi).Name() != "Chars" {
						continue
					}
					cv, isLit := compositeLitField(ret.Results[0], fi)
					if !isLit || cv == nil {
						continue
					}
					ofRecv := func(v ssa.Value, field string) bool {
						base, fld := fieldLoad(v)
						return fld == field && base != nil && strip(base) == ssa.Value(rem.Params[0])
					}
					switch x := strip(cv).(type) {
					case *ssa.Slice:
						ok = ofRecv(x.X, "Chars") && x.Low != nil && ofRecv(x.Low, "PointerPosition") && x.High == nil
					case *ssa.Call:
						if g := staticCallee(x); g != nil && fnBase(g) == "SubRune" && len(x.Call.Args) == 3 {
							nm, recv, _, _ := methodCall(x.Call.Args[2])
							okLen := nm == "RemainingLength" && recv != nil && strip(recv) == ssa.Value(rem.Params[0])
							if !okLen {
								_, okLen = remainingShape(polyX(x.Call.Args[2]))
							}
							ok = ofRecv(x.Call.Args[0], "Chars") && ofRecv(x.Call.Args[1], "PointerPosition") && okLen
						}
					}
				}
			}
		}
		r.check(ok, rule, fmt.Sprintf("Remainder:return#%d", i), p.instrPos(ret), "Remainder() = everything up to the end of the line", "Parseable.Remainder stops at a character instead of running to the end of the line: an entry summary that contains it (U+FFFD, i.e. any byte that is not valid UTF-8) is cut off there")
	}
	// every text handed to NewEntrySummary in parse is the whole rest of a line
	n := 0
	for _, f := range fam {
		for _, c := range callsTo(f, nes) {
			els, ok := sliceLitElems(c.Common().Args[0])
			if !ok {
				// append(previous lines, text): look at the appended element
				if ac, _ := callOf(c.Common().Args[0]); ac != nil {
					if bi, isB := ac.Common().Value.(*ssa.Builtin); isB && bi.Name() == "append" && len(ac.Common().Args) == 2 {
						els, ok = sliceLitElems(ac.Common().Args[1])
					}
				}
			}
			if !ok {
				continue
			}
			for _, e := range els {
				if s, isS := constString(e); isS && s == "" {
					continue
				}
				n++
				nm, recv, _, mc := methodCall(e)
				good := mc != nil && nm == "ToString" && recv != nil
				if good {
					rv := recv
					if a, isA := plainDeref(rv).(*ssa.Alloc); isA {
						if sts := storesTo(a); len(sts) == 1 {
							rv = sts[0].val
						}
					}
					good = wholeRest(rv)
				}
				r.check(good, rule, fmt.Sprintf("%s:summary-text#%d", fnName(f), n), p.instrPos(c), "the summary line is the whole rest of its line", "a line of an entry summary is not taken as the whole rest of its line")
			}
		}
	}
	if n < 2 {
		r.undecided(rule, "floor", p.pos(parse.Pos()), "found %d entry-summary texts in parse, expected the first line and the continuation lines", n)
	}
}

// P07-crlf-boundary — a chunk never ends between the `\r` and the `\n` of a line ending: the loop
// that moves a chunk's end forward (to a rune boundary) also moves it forward while the byte
// before it is `\r` and the byte at it is `\n`. A chunk that ends in a lone `\r` takes it for text —
// a significant line — and a run of blank lines around the boundary is then attributed to the
// following block instead of the preceding one: the parallel parser returns other blocks than the
// serial one (D11, found with a differential scratch program: 2 workers,
// "2020-01-01\r\n \r\n2020-01-01\r\n \r\n\r\n2020-01-01\r\n…").
func ruleP07CrlfBoundary(p *Prog, r *Report) {
	const rule = "P07-crlf-boundary"
	f := p.fn("klog/parser/engine", "splitIntoChunks")
	if !r.anchorFn(rule, f, "engine.splitIntoChunks") {
		return
	}
	txt := f.Params[0]
	byteAt := func(g Guard, want int64) (ssa.Value, bool) {
		bo, ok := normCmp(g.Cond)
		if !ok || !g.Pol || bo.Op != token.EQL {
			return nil, false
		}
		x, y := bo.X, bo.Y
		if _, isK := constInt(x); isK {
			x, y = y, x
		}
		k, isK := constInt(y)
		if !isK || k != want {
			return nil, false
		}
		switch ix := plainDeref(x).(type) {
		case *ssa.Index:
			if strip(ix.X) == ssa.Value(txt) {
				return ix.Index, true
			}
		case *ssa.Lookup:
			if strip(ix.X) == ssa.Value(txt) {
				return ix.Index, true
			}
		}
		return nil, false
	}
	found := false
	n := 0
	for _, g := range withAnons(f) {
		eachInstr(g, func(in ssa.Instruction) {
			inc, ok := in.(*ssa.BinOp)
			if !ok || inc.Op != token.ADD || !isIntType(inc.Type()) {
				return
			}
			if k, isK := constInt(inc.Y); !isK || k != 1 {
				return
			}
			q, isQ := strip(inc.X).(*ssa.Phi)
			if !isQ {
				return
			}
			// q = phi(…, inc): a forward-moving cursor
			self := false
			for _, e := range q.Edges {
				if strip(e) == ssa.Value(inc) {
					self = true
				}
			}
			if !self {
				return
			}
			n++
			b := inc.Block()
			for _, pb := range b.Preds {
				// the ways this edge can be taken (a boolean helper in the condition contributes
				// one way per way it can answer)
				for _, alt := range guardAlternatives(append(append([]Guard{}, guardsOf(pb)...), edgeGuard(pb, b)...)) {
					var lf, cr bool
					for _, gd := range alt {
						if idx, isB := byteAt(gd, '\n'); isB && polySub(polyOf(idx), polyOf(q)).isConst() && polySub(polyOf(idx), polyOf(q)).C == 0 {
							lf = true
						}
						if idx, isB := byteAt(gd, '\r'); isB && polySub(polyOf(idx), polyOf(q)).isConst() && polySub(polyOf(idx), polyOf(q)).C == -1 {
							cr = true
						}
					}
					if lf && cr {
						found = true
					}
				}
			}
		})
	}
	if n == 0 {
		r.undecided(rule, "cursor", p.pos(f.Pos()), "no forward-moving cursor (x++ in a loop) found in splitIntoChunks")
		return
	}
	r.check(found, rule, "advance", p.pos(f.Pos()), "a chunk end between \\r and \\n is moved forward", "splitIntoChunks can end a chunk between the \\r and the \\n of a line ending: the lone \\r counts as text in that chunk and blank lines around the boundary end up in a different block than with the serial parser")
}

// guardAlternatives: a conjunction of guards as a disjunction of conjunctions, in which every
// guard that is the answer of a boolean predicate helper is replaced by the ways the helper can
// give that answer.
func guardAlternatives(gs []Guard) [][]Guard {
	alts := [][]Guard{{}}
	for _, g := range gs {
		var options [][]Guard
		for {
			u, isU := g.Cond.(*ssa.UnOp)
			if !isU || u.Op != token.NOT {
				break
			}
			g = Guard{Cond: u.X, Pol: !g.Pol, If: g.If}
		}
		if hc, isCall := g.Cond.(*ssa.Call); isCall {
			if h := rawStaticCallee(hc); h != nil && isHelper(h) && h.Signature.Results().Len() == 1 {
				if bt, isB := h.Signature.Results().At(0).Type().Underlying().(*types.Basic); isB && bt.Kind() == types.Bool {
					h = originFn(h)
					ht.ctx[h] = hc
					okAll := true
					for _, ret := range plainReturnsOf(h) {
						var sub [][]Guard
						var okS bool
						if g.Pol {
							sub, okS = truthAlts(ret.Results[0], 0)
						} else {
							sub, okS = falseAlts(ret.Results[0], 0)
						}
						if !okS {
							okAll = false
							break
						}
						for _, a := range sub {
							options = append(options, expandBoolGuards(append(append([]Guard{g}, plainGuardsOf(ret.Block())...), a...), 0))
						}
					}
					if !okAll {
						options = nil
					}
				}
			}
		}
		if options == nil {
			options = [][]Guard{{g}}
		}
		var next [][]Guard
		for _, a := range alts {
			for _, o := range options {
				if len(next) > 64 {
					break
				}
				next = append(next, append(append([]Guard{}, a...), o...))
			}
		}
		alts = next
	}
	return alts
}

// dateFieldsOfOne: the first three arguments of a time.Date call are the year, month and day
// fields of one and the same klog date value (month possibly converted to time.Month).
func dateFieldsOfOne(args []ssa.Value) bool {
	if len(args) < 3 {
		return false
	}
	var base ssa.Value
	for i, want := range []string{"year", "month", "day"} {
		v := plainDeref(args[i])
		for {
			if cv, isC := v.(*ssa.Convert); isC {
				v = plainDeref(cv.X)
				continue
			}
			if ct, isT := v.(*ssa.ChangeType); isT {
				v = plainDeref(ct.X)
				continue
			}
			break
		}
		b, fld := fieldLoad(v)
		if fld != want || b == nil || typeNameOf(b.Type()) != "date" {
			return false
		}
		if base != nil && b != base {
			return false
		}
		base = b
	}
	return true
}

func dateFieldBase(v ssa.Value) ssa.Value {
	b, _ := fieldLoad(v)
	return b
}

const blankSeparatorsFinding = "IsBlank knows space and tab only: a line consisting of other space separators (U+00A0, U+2003, U+3000 …) is a blank line by the specification but a significant line for the parser, so a conforming text such as \"2020-01-01\\n\\u00a0\\n2020-01-02\\n\" is rejected"

// cursorOrderViolation: expression v (sums and differences) contains, for one Parseable, the
// PointerPosition read at an earlier moment with a positive sign and the one read at a later
// moment with a negative sign, a cursor move (Advance, SkipWhile) lying between the two reads.
func cursorOrderViolation(v ssa.Value) (early, late ssa.Instruction) {
	type ppLoad struct {
		in   *ssa.UnOp
		base ssa.Value
		sign int
	}
	var loads []ppLoad
	seen := map[ssa.Value]bool{}
	var walk func(x ssa.Value, sign int, depth int)
	walk = func(x ssa.Value, sign int, depth int) {
		if x == nil || depth > 10 || seen[x] {
			return
		}
		seen[x] = true
		switch y := x.(type) {
		case *ssa.BinOp:
			switch y.Op {
			case token.ADD:
				walk(y.X, sign, depth+1)
				walk(y.Y, sign, depth+1)
			case token.SUB:
				walk(y.X, sign, depth+1)
				walk(y.Y, -sign, depth+1)
			}
		case *ssa.UnOp:
			if y.Op == token.MUL {
				if fa, ok := y.X.(*ssa.FieldAddr); ok && fieldName(fa) == "PointerPosition" {
					loads = append(loads, ppLoad{y, strip(fa.X), sign})
					return
				}
				// a local variable: the value stored (single assignment)
				if cell := cellOf(y.X); cell != nil {
					if sts := storesTo(cell); len(sts) == 1 {
						walk(sts[0].val, sign, depth+1)
					}
				}
			} else if y.Op == token.SUB {
				walk(y.X, -sign, depth+1)
			}
		case *ssa.Phi:
			for _, e := range y.Edges {
				walk(e, sign, depth+1)
			}
		case *ssa.Convert:
			walk(y.X, sign, depth+1)
		}
	}
	walk(v, 1, 0)
	before := func(a, b ssa.Instruction) bool {
		if a.Block() == b.Block() {
			return instrIndex(a) < instrIndex(b)
		}
		return a.Block().Dominates(b.Block())
	}
	for _, a := range loads {
		for _, b := range loads {
			if a.in == b.in || a.base != b.base || !(a.sign > 0 && b.sign < 0) || !before(a.in, b.in) || a.in.Parent() != b.in.Parent() {
				continue
			}
			// a cursor move on the same Parseable between the two reads
			moved := false
			for _, blk := range a.in.Parent().Blocks {
				for _, in := range blk.Instrs {
					c, ok := in.(ssa.CallInstruction)
					if !ok {
						continue
					}
					nm, recv, _, _ := methodCallOf(c)
					if (nm != "Advance" && nm != "SkipWhile") || recv == nil || strip(recv) != a.base {
						continue
					}
					if before(a.in, c) && before(c, b.in) {
						moved = true
					}
				}
			}
			if moved {
				return a.in, b.in
			}
		}
	}
	return nil, nil
}

// paramIndex is the position of par among f's parameters (-1 if it is not one of them).
func paramIndex(f *ssa.Function, par *ssa.Parameter) int {
	for i, q := range f.Params {
		if q == par {
			return i
		}
	}
	return -1
}

// isSummaryValue: v is x.Summary(), or the same lines through the summary's Lines() accessor or a
// conversion.
func isSummaryValue(v ssa.Value) bool {
	v = strip(v)
	for i := 0; i < 3; i++ {
		n, recv, _, _ := methodCall(v)
		if n == "Summary" {
			return true
		}
		if n == "Lines" && recv != nil && strings.HasSuffix(typeNameOf(recv.Type()), "Summary") {
			v = strip(recv)
			continue
		}
		if cv, ok := v.(*ssa.ChangeType); ok {
			v = strip(cv.X)
			continue
		}
		return false
	}
	return false
}

// isAtoiOrZero: v is the number strconv.Atoi read, or that number with a default of zero for an
// absent part (a phi of the constant 0 and the number).
func isAtoiOrZero(v ssa.Value) bool {
	if ph, ok := v.(*ssa.Phi); ok {
		n := 0
		for _, e := range ph.Edges {
			if k, isK := constInt(e); isK && k == 0 {
				continue
			}
			ac, ai := callOf(strip(e))
			if ac == nil || ai != 0 || staticCallee(ac) == nil || staticCallee(ac).String() != "strconv.Atoi" {
				return false
			}
			n++
		}
		return n > 0
	}
	ac, ai := callOf(v)
	return ac != nil && ai == 0 && staticCallee(ac) != nil && staticCallee(ac).String() == "strconv.Atoi"
}
