package main

// P17-rounding (rounding to the nearest multiple, ties up, clamp) and P04-resume
// (--resume / --resume-nth selection).

import (
	"fmt"
	"go/token"

	"golang.org/x/tools/go/ssa"
)

func ruleP17Rounding(p *Prog, r *Report) {
	const rule = "P17-rounding"
	f := p.fn("klog/service", "RoundToNearest")
	if !r.anchorFn(rule, f, "service.RoundToNearest") {
		return
	}
	t, rd := f.Params[0], f.Params[1]
	isOffset := func(v ssa.Value) bool {
		n, recv, _, _ := methodCall(v)
		if n != "InMinutes" {
			return false
		}
		n, recv, _, _ = methodCall(recv)
		return n == "MidnightOffset" && strip(recv) == ssa.Value(t)
	}
	isV := func(v ssa.Value) bool {
		n, recv, _, _ := methodCall(v)
		return n == "ToInt" && strip(recv) == ssa.Value(rd)
	}
	isRemainder := func(v ssa.Value) bool {
		b, ok := deref(v).(*ssa.BinOp)
		return ok && b.Op == token.REM && isOffset(b.X) && isV(b.Y)
	}
	// the rounded offset: the minutes of the duration added to midnight
	var plus ssa.CallInstruction
	eachVInstr(f, func(in ssa.Instruction) {
		if c, ok := in.(ssa.CallInstruction); ok {
			if n, _, _, _ := methodCallOf(c); n == "Plus" {
				plus = c
			}
		}
	})
	if plus == nil {
		r.bad(rule, "result", p.pos(f.Pos()), "RoundToNearest does not build its result by adding minutes to midnight")
		return
	}
	_, recv, args, _ := methodCallOf(plus)
	okMid := false
	if c, idx := callOf(recv); c != nil && idx == 0 && staticCallee(c) != nil && fnBase(staticCallee(c)) == "NewTime" {
		h, _ := constInt(c.Common().Args[0])
		m, _ := constInt(c.Common().Args[1])
		okMid = h == 0 && m == 0
	}
	r.check(okMid, rule, "from-midnight", p.instrPos(plus), "the rounded offset is added to 0:00", "the rounded offset is not added to midnight")
	mins, ok := p.durationMinutes(args[0])
	if !ok {
		r.bad(rule, "rounded", p.instrPos(plus), "the rounded offset is not passed as a duration of minutes")
		return
	}
	// mins = offset - remainder + up, where up is v or 0 depending on the remainder; either with a
	// separate `up` value, or with the whole sum selected by the condition
	type uprow struct {
		guards      []Guard
		isV, isZero bool
		at          ssa.Instruction
	}
	classify := func(pl *Poly, needBase bool) (upV, upZero, ok bool) {
		var nOff, nRem, nV, nOther int64
		for k, c := range pl.Terms {
			v := pl.leafV[k]
			switch {
			case isOffset(v):
				nOff += c
			case isRemainder(v):
				nRem += c
			case isV(v):
				nV += c
			default:
				nOther++
			}
		}
		if nOther != 0 || pl.C != 0 {
			return false, false, false
		}
		if needBase {
			if nOff != 1 || nRem != -1 {
				return false, false, false
			}
		} else if nOff != 0 || nRem != 0 {
			return false, false, false
		}
		return nV == 1, nV == 0, nV == 0 || nV == 1
	}
	var rowsU []uprow
	okShape := false
	if len(mins.Terms) == 3 && mins.C == 0 {
		var up ssa.Value
		okShape = true
		for k, c := range mins.Terms {
			v := mins.leafV[k]
			switch {
			case c == 1 && isOffset(v):
			case c == -1 && isRemainder(v):
			case c == 1:
				up = v
			default:
				okShape = false
			}
		}
		if okShape && up != nil {
			for _, rw := range valueRows(up, 0, map[ssa.Value]bool{}) {
				iv, iz, _ := classify(polyOf(rw.val), false)
				rowsU = append(rowsU, uprow{rw.guards, iv, iz, rw.at})
			}
		} else {
			okShape = false
		}
	} else if len(mins.Terms) == 1 && mins.C == 0 {
		for k, c := range mins.Terms {
			if c != 1 {
				continue
			}
			okShape = true
			for _, rw := range valueRows(mins.leafV[k], 0, map[ssa.Value]bool{}) {
				iv, iz, ok := classify(polyOf(rw.val), true)
				if !ok {
					okShape = false
				}
				rowsU = append(rowsU, uprow{rw.guards, iv, iz, rw.at})
			}
		}
	}
	r.check(okShape && len(rowsU) > 0, rule, "rounded", p.instrPos(plus), "rounded = offset - (offset % v) + up", "the rounded offset is not offset - offset%v + up: "+mins.String())
	if !okShape {
		return
	}
	// up: v when remainder >= v/2 + v%2 (ties up), else 0
	var sawUp, sawDown bool
	for i, rw := range rowsU {
		key := fmt.Sprintf("up:row#%d", i)
		var cond *Guard
		for j := range rw.guards {
			if bo, ok := rw.guards[j].Cond.(*ssa.BinOp); ok && (isRemainder(bo.X) || isRemainder(bo.Y)) {
				cond = &rw.guards[j]
			}
		}
		pos := p.pos(f.Pos())
		if rw.at != nil {
			pos = p.instrPos(rw.at)
		}
		if cond == nil {
			r.bad(rule, key, pos, "the amount rounded up does not depend on the remainder")
			continue
		}
		bo := cond.Cond.(*ssa.BinOp)
		// normalise to remainder >= T (on edge pol): T <= remainder, remainder < T on the other edge
		op, x, y, pol := bo.Op, bo.X, bo.Y, cond.Pol
		if !isRemainder(x) {
			x, y = y, x
			op = map[token.Token]token.Token{token.LSS: token.GTR, token.GTR: token.LSS, token.LEQ: token.GEQ, token.GEQ: token.LEQ}[op]
		}
		if op == token.LSS {
			op, pol = token.GEQ, !pol
		}
		_ = x
		// threshold: v/2 + v%2 with >=   (i.e. ceil(v/2): remainders of exactly half round up)
		okThr := false
		if op == token.GEQ {
			if th, ok := deref(y).(*ssa.BinOp); ok && th.Op == token.ADD {
				q, ok1 := deref(th.X).(*ssa.BinOp)
				m, ok2 := deref(th.Y).(*ssa.BinOp)
				if ok1 && ok2 && q.Op == token.REM {
					q, m = m, q
				}
				if ok1 && ok2 && q.Op == token.QUO && m.Op == token.REM && isV(q.X) && isV(m.X) {
					k1, _ := constInt(q.Y)
					k2, _ := constInt(m.Y)
					okThr = k1 == 2 && k2 == 2
				}
			}
		}
		if !okThr {
			r.bad(rule, key+":threshold", pos, "the rounding threshold is not remainder >= v/2 + v%%2 (nearest multiple, ties up)")
			continue
		}
		if pol {
			sawUp = true
			r.check(rw.isV, rule, key+":up", pos, "remainder >= ceil(v/2) -> round up by v", "at or above half the step the time is not rounded up by exactly v")
		} else {
			sawDown = true
			r.check(rw.isZero, rule, key+":down", pos, "remainder < ceil(v/2) -> round down", "below half the step the time is not rounded down")
		}
	}
	r.check(sawUp && sawDown, rule, "up:cases", p.pos(f.Pos()), "both rounding directions present", "a rounding direction is missing")
	// clamp: when the rounded time is unrepresentable, 23:59> ; otherwise the rounded time
	e := resultOf(plus, 1)
	if e == nil {
		r.bad(rule, "clamp", p.instrPos(plus), "the error of Plus is discarded in RoundToNearest")
		return
	}
	for i, ret := range returnsOf(f) {
		key := fmt.Sprintf("return#%d", i)
		switch {
		case knownNil(ret.Block(), e):
			r.check(sameValue(retResult(ret, 0), resultOf(plus, 0)), rule, key+":rounded", p.instrPos(ret), "returns the rounded time", "does not return the rounded time")
		case knownNonNil(ret.Block(), e):
			c, _ := callOf(retResult(ret, 0))
			ok := c != nil && staticCallee(c) != nil && fnBase(staticCallee(c)) == "NewTimeTomorrow"
			if ok {
				h, _ := constInt(c.Common().Args[0])
				m, _ := constInt(c.Common().Args[1])
				ok = h == 23 && m == 59
			}
			r.check(ok, rule, key+":clamp", p.instrPos(ret), "beyond the end of tomorrow -> 23:59>", "an unrepresentable rounded time is not clamped to 23:59>")
		default:
			r.bad(rule, key, p.instrPos(ret), "a return that does not depend on whether the rounded time is representable")
		}
	}
}

func ruleP04Resume(p *Prog, r *Report) {
	const rule = "P04-resume"
	f := p.fn("klog/app/cli/util", "findNthEntry")
	sum := p.method("klog/app/cli/util", "SummaryArgs", "Summary")
	if !r.anchorFn(rule, f, "util.findNthEntry") || !r.anchorFn(rule, sum, "util.SummaryArgs.Summary") {
		return
	}
	rec, nr := f.Params[0], f.Params[1]
	isCount := func(v ssa.Value) bool {
		c, ok := deref(v).(*ssa.Call)
		if !ok {
			return false
		}
		bi, ok := c.Call.Value.(*ssa.Builtin)
		if !ok || bi.Name() != "len" {
			return false
		}
		n, recv, _, _ := methodCall(c.Call.Args[0])
		return n == "Entries" && strip(recv) == ssa.Value(rec)
	}
	// the index: nr > 0 -> nr-1 ; otherwise count + nr
	var idxVal ssa.Value
	eachInstr(f, func(in ssa.Instruction) {
		if ia, ok := in.(*ssa.IndexAddr); ok {
			if n, recv, _, _ := methodCall(ia.X); n == "Entries" && strip(recv) == ssa.Value(rec) {
				idxVal = ia.Index
			}
		}
	})
	if idxVal == nil {
		r.bad(rule, "index", p.pos(f.Pos()), "findNthEntry does not index the record's entries")
		return
	}
	rows := valueRows(idxVal, 0, map[ssa.Value]bool{})
	var sawPos, sawNeg bool
	for i, rw := range rows {
		key := fmt.Sprintf("index:row#%d", i)
		var pol *bool
		for _, g := range rw.guards {
			if bo, ok := g.Cond.(*ssa.BinOp); ok && deref(bo.X) == ssa.Value(nr) {
				k, isK := constInt(bo.Y)
				if isK && k == 0 && bo.Op == token.GTR {
					b := g.Pol
					pol = &b
				}
				if isK && k == 1 && bo.Op == token.GEQ {
					b := g.Pol
					pol = &b
				}
			}
		}
		pos := p.pos(f.Pos())
		if rw.at != nil {
			pos = p.instrPos(rw.at)
		}
		if pol == nil {
			r.bad(rule, key, pos, "the index does not depend on the sign of the requested position")
			continue
		}
		pl := polyOf(rw.val)
		if *pol {
			sawPos = true
			ok := pl.C == -1 && len(pl.Terms) == 1 && pl.Terms["param:"+nr.Name()] == 1
			r.check(ok, rule, key+":from-start", pos, "positive n counts from the start: index n-1", "a positive --resume-nth does not select entry n-1: "+pl.String())
		} else {
			sawNeg = true
			ok := pl.C == 0 && len(pl.Terms) == 2 && pl.Terms["param:"+nr.Name()] == 1
			for k, c := range pl.Terms {
				if k != "param:"+nr.Name() && !(c == 1 && isCount(pl.leafV[k])) {
					ok = false
				}
			}
			r.check(ok, rule, key+":from-end", pos, "negative n counts from the end: index count+n", "a negative position does not select entry count+n: "+pl.String())
		}
	}
	r.check(sawPos && sawNeg, rule, "index:cases", p.pos(f.Pos()), "both counting directions present", "findNthEntry lacks a counting direction")
	// bounds: i < 0 || i > count-1 -> not found
	lo, hi := false, false
	eachInstr(f, func(in ssa.Instruction) {
		bo, ok := in.(*ssa.BinOp)
		if !ok || !sameValue(bo.X, idxVal) {
			return
		}
		if k, isK := constInt(bo.Y); isK && ((bo.Op == token.LSS && k == 0) || (bo.Op == token.LEQ && k == -1)) {
			lo = true
		}
		pl := polyOf(bo.Y)
		if len(pl.Terms) == 1 {
			for k2, c := range pl.Terms {
				if c == 1 && isCount(pl.leafV[k2]) && ((bo.Op == token.GTR && pl.C == -1) || (bo.Op == token.GEQ && pl.C == 0)) {
					hi = true
				}
			}
		}
	})
	r.check(lo && hi, rule, "bounds", p.pos(f.Pos()), "positions outside 0..count-1 are 'not found'", "findNthEntry does not reject exactly the positions outside 0..count-1")
	for i, ret := range returnsOf(f) {
		okFlag, isB := constBool(retResult(ret, 1))
		if !isB {
			continue
		}
		if okFlag {
			good := false
			if u, ok := strip(retResult(ret, 0)).(*ssa.UnOp); ok {
				if ia, ok := u.X.(*ssa.IndexAddr); ok && sameValue(ia.Index, idxVal) {
					good = true
				}
			}
			r.check(good, rule, fmt.Sprintf("return#%d:found", i), p.instrPos(ret), "found -> the entry at that index", "the entry returned is not the one at the computed index")
		}
	}
	// Summary(): which entry of which record
	cur, prev := sum.Params[1], sum.Params[2]
	n := 0
	for _, c := range callsTo(sum, f) {
		n++
		a := c.Common().Args
		key := fmt.Sprintf("Summary:lookup#%d", n)
		k, isK := constInt(a[1])
		tag, _ := fieldTagOfLoad(a[1])
		var flags []string
		prevNonNil := false
		for _, g := range guardsOf(c.Block()) {
			if t2, _ := fieldTagOfLoad(g.Cond); t2 != "" && g.Pol {
				flags = append(flags, t2)
			}
			if bo, ok := g.Cond.(*ssa.BinOp); ok {
				if t2, _ := fieldTagOfLoad(bo.X); t2 != "" {
					if kk, isKK := constInt(bo.Y); isKK && kk == 0 && (bo.Op == token.NEQ) == g.Pol {
						flags = append(flags, t2)
					}
				}
			}
			if x, isNil, ok := nilFact(g); ok && !isNil && strip(x) == ssa.Value(prev) {
				prevNonNil = true
			}
		}
		has := func(s string) bool {
			for _, x := range flags {
				if x == s {
					return true
				}
			}
			return false
		}
		switch {
		case strip(a[0]) == ssa.Value(cur) && isK && k == -1:
			r.check(has("resume"), rule, key+":resume-current", p.instrPos(c), "--resume -> last entry of the current record", "the last entry of the current record is looked up without --resume")
		case strip(a[0]) == ssa.Value(prev) && isK && k == -1:
			r.check(has("resume") && prevNonNil, rule, key+":resume-previous", p.instrPos(c), "--resume falls back to the last entry of the previous record (when there is one)", "the previous record's last entry is looked up without --resume or without checking that there is a previous record")
		case strip(a[0]) == ssa.Value(cur) && tag == "resume-nth":
			r.check(has("resume-nth"), rule, key+":resume-nth", p.instrPos(c), "--resume-nth n -> entry n of the current record", "the nth entry is looked up without --resume-nth")
		default:
			r.bad(rule, key, p.instrPos(c), "an entry lookup that is none of {last of current, last of previous, nth of current}")
		}
		// its summary is what is returned on the ok edge
		okRet := false
		extra := ""
		okFlag := resultOf(c, 1)
		atLookup := map[string]bool{}
		for _, g := range guardsOf(c.Block()) {
			atLookup[fmt.Sprintf("%p/%v", g.Cond, g.Pol)] = true
		}
		for _, ret := range returnsOf(sum) {
			if nm, recv, _, _ := methodCall(retResult(ret, 0)); nm == "Summary" {
				if a2, isA := strip(recv).(*ssa.Alloc); isA {
					for _, s := range storesTo(a2) {
						if sameValue(s.val, resultOf(c, 0)) {
							for _, g := range guardsOf(ret.Block()) {
								if okFlag != nil && strip(g.Cond) == okFlag && g.Pol {
									okRet = true
								} else if !atLookup[fmt.Sprintf("%p/%v", g.Cond, g.Pol)] {
									extra = g.Cond.String()
								}
							}
						}
					}
				}
			}
		}
		r.check(okRet, rule, key+":summary", p.instrPos(c), "when found, that entry's summary is returned", "the summary of the entry found is not what is returned")
		if okRet {
			r.check(extra == "", rule, key+":summary-whenever-found", p.instrPos(c), "found is the only condition for taking over the entry's summary", "the entry found is used only under a further condition ("+extra+"): when it does not hold the command goes on to the next source (an older record) or fails, although the entry asked for exists")
		}
	}
	r.check(n == 3, rule, "Summary:lookups", p.pos(sum.Pos()), "three lookups: last of current, last of previous, nth of current", fmt.Sprintf("%d entry lookups, expected 3", n))
	// --summary given -> returned as is; conflicting flags -> error; nth not found -> error
	sawText := false
	for _, ret := range returnsOf(sum) {
		if tag, _ := fieldTagOfLoad(retResult(ret, 0)); tag == "summary" {
			sawText = isNilConst(retResult(ret, 1))
		}
	}
	r.check(sawText, rule, "Summary:explicit", p.pos(sum.Pos()), "an explicit --summary is returned as is", "an explicit --summary is not returned as is")
}
