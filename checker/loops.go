package main

// B8: loop shapes on go/ssa's range/for lowering.

import (
	"go/token"
	"go/types"

	"golang.org/x/tools/go/ssa"
)

// isLoopGuard: the guard is the continuation test of a range loop over a slice/array/string
// (index < len), a map/string iterator's ok flag (extract #0 of Next), or `for len(x) > 0`-style
// is NOT included.
func isLoopGuard(g Guard) bool {
	if !g.Pol {
		return false
	}
	switch c := g.Cond.(type) {
	case *ssa.BinOp:
		if c.Op != token.LSS {
			return false
		}
		// the counted form `for i := 0; i < len(x); i++`
		if countedIndexOver(c.X) != nil {
			return true
		}
		// X = phi + 1, Y = len(...)
		if call, ok := c.Y.(*ssa.Call); ok {
			if b, ok := call.Call.Value.(*ssa.Builtin); ok && b.Name() == "len" {
				return isRangeIndex(c.X)
			}
		}
		// range over array constant length / integer
		if _, ok := c.Y.(*ssa.Const); ok {
			return isRangeIndex(c.X)
		}
	case *ssa.Extract:
		if _, ok := c.Tuple.(*ssa.Next); ok && c.Index == 0 {
			return true
		}
	}
	return false
}

func isRangeIndex(v ssa.Value) bool {
	if countedIndexOver(v) != nil {
		return true
	}
	b, ok := v.(*ssa.BinOp)
	if !ok || b.Op != token.ADD {
		return false
	}
	if k, ok := constInt(b.Y); !ok || k != 1 {
		return false
	}
	ph, ok := b.X.(*ssa.Phi)
	if !ok {
		return false
	}
	// phi [-1, b]
	for _, e := range ph.Edges {
		if e == ssa.Value(b) {
			continue
		}
		if k, ok := constInt(e); !ok || k != -1 {
			return false
		}
	}
	return true
}

// onlyLoopGuards: reaching block b implies nothing but loop continuation tests
// (the block executes on every iteration of its enclosing loops).
func onlyLoopGuards(b *ssa.BasicBlock) (bool, *Guard) {
	gs := guardsOf(b) // innermost first
	last := -1
	for i, g := range gs {
		if isLoopGuard(g) {
			last = i
		}
	}
	// guards beyond the outermost loop test were decided before the loop was entered: they
	// do not select elements
	for i, g := range gs {
		if i >= last {
			break
		}
		if !isLoopGuard(g) {
			if nonEmptyOfInnerLoop(g, gs[:i]) {
				continue // `if len(xs) == 0 { continue }` before `for … range xs`: skips no element of xs
			}
			gg := g
			return false, &gg
		}
	}
	if last < 0 {
		// not inside a loop at all
		if len(gs) == 0 {
			if g := skippableAt(b, nil); g != nil {
				return false, g
			}
		}
		return len(gs) == 0, nil
	}
	if g := skippableAt(b, gs[last].If); g != nil {
		return false, g
	}
	return true, nil
}

// skippableAt: a branch that dominates b from one side of which b is certain to run and from the
// other side of which it can be passed by (a return, or the next iteration, is reached without
// it) although neither outcome alone is implied by reaching b — the shape of
// `if p && q { return/continue }` before b. Branches at or before the loop test `outer` were
// decided before the loop was entered; loop tests themselves do not count.
func skippableAt(b *ssa.BasicBlock, outer *ssa.If) *Guard {
	doms := map[*ssa.BasicBlock]bool{}
	for d := b.Idom(); d != nil; d = d.Idom() {
		doms[d] = true
	}
	avoid := func(s *ssa.BasicBlock) bool {
		if s == b {
			return false
		}
		seen := map[*ssa.BasicBlock]bool{}
		var walk func(x *ssa.BasicBlock) bool
		walk = func(x *ssa.BasicBlock) bool {
			if x == b || seen[x] {
				return false
			}
			seen[x] = true
			if doms[x] {
				return true // round the loop without b
			}
			if len(x.Instrs) > 0 {
				if _, isRet := x.Instrs[len(x.Instrs)-1].(*ssa.Return); isRet {
					return true
				}
			}
			for _, n := range x.Succs {
				if walk(n) {
					return true
				}
			}
			return false
		}
		return walk(s)
	}
	for d := b.Idom(); d != nil; d = d.Idom() {
		if len(d.Instrs) == 0 {
			continue
		}
		iff, ok := d.Instrs[len(d.Instrs)-1].(*ssa.If)
		if !ok || d.Succs[0] == d.Succs[1] {
			continue
		}
		if outer != nil && iff == outer {
			break
		}
		if isLoopGuard(Guard{Cond: iff.Cond, Pol: true, If: iff}) {
			continue
		}
		a0, a1 := avoid(d.Succs[0]), avoid(d.Succs[1])
		if a0 != a1 {
			return &Guard{Cond: iff.Cond, Pol: a1, If: iff}
		}
	}
	return nil
}

// rangeElemOf: v is the element of a range/index over collection coll (returns coll), through
// the copy into the iteration variable.  Handles slices (IndexAddr/Index + load) and strips the
// per-iteration alloc copy.
func rangeElemOf(v ssa.Value) ssa.Value {
	v = strip(v)
	// pointer to the iteration variable copy: t = new T; *t = coll[i]
	if a, ok := v.(*ssa.Alloc); ok {
		sts := storesTo(a)
		if len(sts) == 1 {
			v = strip(sts[0].val)
		} else {
			return nil
		}
	}
	if u, ok := v.(*ssa.UnOp); ok && u.Op == token.MUL {
		if a := cellOf(u.X); a != nil {
			sts := storesTo(a)
			if len(sts) == 1 {
				return rangeElemOf(sts[0].val)
			}
			return nil
		}
		if ia, ok := u.X.(*ssa.IndexAddr); ok && indexesOwn(ia.X, ia.Index) {
			return ia.X
		}
		return nil
	}
	if ia, ok := v.(*ssa.IndexAddr); ok && indexesOwn(ia.X, ia.Index) {
		return ia.X
	}
	if ix, ok := v.(*ssa.Index); ok && indexesOwn(ix.X, ix.Index) {
		return ix.X
	}
	return nil
}

// phiCycle collects the phis reachable from v through phi edges and the non-phi inputs.
func phiCycle(v ssa.Value) (phis map[*ssa.Phi]bool, inputs []ssa.Value) {
	phis = map[*ssa.Phi]bool{}
	var walk func(x ssa.Value)
	walk = func(x ssa.Value) {
		x = strip(x)
		ph, ok := x.(*ssa.Phi)
		if !ok {
			inputs = append(inputs, x)
			return
		}
		if phis[ph] {
			return
		}
		phis[ph] = true
		for _, e := range ph.Edges {
			walk(e)
		}
	}
	walk(v)
	return
}

func isSliceOf(t types.Type, elem string) bool {
	s, ok := t.Underlying().(*types.Slice)
	return ok && typeNameOf(s.Elem()) == elem
}

// countedIndexOver: v is the index variable of `for i := 0; i < len(x); i++` — a phi of 0 and
// itself plus one, tested against len(x) in the block it lives in and written nowhere else;
// returns x (the loop visits every element of x in order, like a range loop).
func countedIndexOver(v ssa.Value) ssa.Value {
	ph, ok := v.(*ssa.Phi)
	if !ok || len(ph.Edges) != 2 {
		return nil
	}
	zero, step := false, false
	for _, e := range ph.Edges {
		if k, isK := constInt(e); isK && k == 0 {
			zero = true
			continue
		}
		if b, isB := e.(*ssa.BinOp); isB && b.Op == token.ADD && b.X == ssa.Value(ph) {
			if k, isK := constInt(b.Y); isK && k == 1 {
				step = true
			}
		}
	}
	if !zero || !step {
		return nil
	}
	blk := ph.Block()
	iff, isIf := blk.Instrs[len(blk.Instrs)-1].(*ssa.If)
	if !isIf {
		return nil
	}
	c, isB := iff.Cond.(*ssa.BinOp)
	if !isB || c.Op != token.LSS || c.X != ssa.Value(ph) {
		return nil
	}
	if call, isCall := c.Y.(*ssa.Call); isCall {
		if bi, isBi := call.Call.Value.(*ssa.Builtin); isBi && bi.Name() == "len" {
			return call.Call.Args[0]
		}
	}
	return nil
}

// indexesOwn: index idx visits the elements of coll itself (a range index, or a counted index
// whose bound is len(coll)).
func indexesOwn(coll, idx ssa.Value) bool {
	if c := countedIndexOver(idx); c != nil {
		return sameValue(c, coll)
	}
	return isRangeIndex(idx)
}

// nonEmptyOfInnerLoop: g says that len(X) is not zero, and one of the inner loop tests walks X.
func nonEmptyOfInnerLoop(g Guard, inner []Guard) bool {
	bo, ok := g.Cond.(*ssa.BinOp)
	if !ok {
		return false
	}
	k, isK := constInt(bo.Y)
	lc, isCall := bo.X.(*ssa.Call)
	if !isK || !isCall || len(lc.Call.Args) != 1 {
		return false
	}
	if bi, isB := lc.Call.Value.(*ssa.Builtin); !isB || bi.Name() != "len" {
		return false
	}
	nonEmpty := false
	switch {
	case g.Pol && ((bo.Op == token.GTR && k == 0) || (bo.Op == token.NEQ && k == 0) || (bo.Op == token.GEQ && k == 1)):
		nonEmpty = true
	case !g.Pol && ((bo.Op == token.EQL && k == 0) || (bo.Op == token.LSS && k == 1) || (bo.Op == token.LEQ && k == 0)):
		nonEmpty = true
	}
	if !nonEmpty {
		return false
	}
	for _, ig := range inner {
		if !isLoopGuard(ig) {
			continue
		}
		if ib, isB := ig.Cond.(*ssa.BinOp); isB {
			if ic, isC := ib.Y.(*ssa.Call); isC && len(ic.Call.Args) == 1 {
				if ic.Call.Args[0] == lc.Call.Args[0] || sameValue(ic.Call.Args[0], lc.Call.Args[0]) {
					return true
				}
			}
		}
	}
	return false
}
