package main

// C17 — clock-relative behaviour.

import (
	"fmt"
	"go/token"
	"go/types"
	"reflect"
	"regexp"
	"sort"
	"strings"

	"golang.org/x/tools/go/ssa"
)

func init() {
	register(&propSpec{
		id:    "C17",
		level: "other",
		explain: "Structural necessary conditions decided on the SSA program: (P17-err) in app/cli and service no error of Time.Plus / EndOpenRange / CloseOpenRanges / NewRange* / NewTime* is discarded while the value is used (a command must fail with an error when a time is unrepresentable, never continue with a nil time); " +
			"(P17-shift-table) AtTime returns, per guard today+k == date, the rounded clock time shifted by exactly -1440*k minutes for k in {-1,0,1}, rounding happens before the shift, any other date yields an error; " +
			"(P17-atdate-table) AtDate maps --date / --yesterday / --tomorrow / default to the given date / today-1 / today+1 / today; " +
			"(P17-stop-fallback) stop falls back to yesterday's record only without explicit date/time, second in the creator chain, and adds 24h only when the chosen record is yesterday's; " +
			"(P17-close-table) CloseOpenRanges closes at the clock time for today's records, +1440 minutes for the day before, and fails otherwise or when EndOpenRange fails. " +
			"Not covered: the rounding arithmetic of RoundToNearest, Time.Plus itself, the minute-by-minute outcome.",
		rules: []ruleFn{ruleP17Err, ruleP17ErrAbort, ruleP17ClockFields, ruleP17CalendarDays, ruleP17OneInstant, ruleP17ShiftTable, ruleP17AtDateTable, ruleP17StopFallback, ruleP02Close, ruleP17Rounding},
		trusted: []string{
			"klog.Time.Plus(d) shifts by d minutes or returns an error (C16)",
			"kong fills flag fields according to their `name` struct tags",
		},
	})
}

// fieldTag returns the kong `name` tag (or the Go name) of the struct field loaded by v.
func fieldTagOfLoad(v ssa.Value) (tag string, base ssa.Value) {
	v = strip(v)
	u, ok := v.(*ssa.UnOp)
	if !ok || u.Op != token.MUL {
		return "", nil
	}
	fa, ok := u.X.(*ssa.FieldAddr)
	if !ok {
		return "", nil
	}
	st := fa.X.Type().Underlying().(*types.Pointer).Elem().Underlying().(*types.Struct)
	name := reflect.StructTag(st.Tag(fa.Field)).Get("name")
	if name == "" {
		name = st.Field(fa.Field).Name()
	}
	return name, fa.X
}

// isTimeProducer: fallible constructors/operations on klog times and ranges.
func isTimeProducer(c ssa.CallInstruction) bool {
	if errResultIndex(c.Common().Signature()) < 0 {
		return false
	}
	n := calleeName(c)
	pp := calleePkgPath(c)
	if !strings.HasPrefix(pp, modPath) {
		return false
	}
	switch n {
	case "Time.Plus", "time.Plus", "Record.EndOpenRange", "record.EndOpenRange", "service.CloseOpenRanges",
		"klog.NewRange", "klog.NewRangeWithFormat", "klog.NewTime", "klog.NewTimeYesterday", "klog.NewTimeTomorrow",
		"klog.NewTimeFromString", "klog.newTime":
		return true
	}
	return false
}

// inDomainTimeArgs: NewTime(x.Hour(), x.Minute()) for one and the same valid time x cannot fail.
func inDomainTimeArgs(c ssa.CallInstruction) bool {
	if calleeName(c) != "klog.NewTime" || len(c.Common().Args) != 2 {
		return false
	}
	n1, r1, _, _ := methodCall(c.Common().Args[0])
	n2, r2, _, _ := methodCall(c.Common().Args[1])
	return n1 == "Hour" && n2 == "Minute" && r1 != nil && sameValue(r1, r2) && typeNameOf(r1.Type()) == "Time"
}

func ruleP17Err(p *Prog, r *Report) {
	const rule = "P17-err"
	n := 0
	for _, f := range p.srcFns {
		pp := pkgPathOfFn(f)
		if !strings.HasPrefix(pp, modPath+"/klog/app/cli") && pp != modPath+"/klog/service" {
			continue
		}
		idx := map[string]int{}
		eachInstr(f, func(in ssa.Instruction) {
			c, ok := in.(ssa.CallInstruction)
			if !ok || !isTimeProducer(c) {
				return
			}
			n++
			name := calleeName(c)
			idx[name]++
			key := fmt.Sprintf("%s:%s#%d", fnName(f), name, idx[name])
			cl, why := p.classifyErr(c)
			switch cl {
			case errDropped:
				if inDomainTimeArgs(c) {
					r.ok(rule, key, p.instrPos(c), "domain-total: NewTime(x.Hour(), x.Minute()) of a valid time cannot fail")
				} else {
					r.bad(rule, key, p.instrPos(c), "error of %s discarded: %s", name, why)
				}
			default:
				r.ok(rule, key, p.instrPos(c), "%s: %s", cl, why)
			}
		})
	}
	r.floor(rule, 8)
}

// dateEqGuard: the guard is a.IsEqualTo(b) between dates (positive or negative).
func dateEqGuard(g Guard) (a, b ssa.Value, ok bool) {
	c, isCall := g.Cond.(*ssa.Call)
	if !isCall {
		return nil, nil, false
	}
	name, recv, args, _ := methodCallOf(c)
	if name != "IsEqualTo" || len(args) != 1 || typeNameOf(recv.Type()) != "Date" {
		return nil, nil, false
	}
	return recv, args[0], true
}

func ruleP17ShiftTable(p *Prog, r *Report) {
	const rule = "P17-shift-table"
	f := p.method("klog/app/cli/util", "AtDateAndTimeArgs", "AtTime")
	fromGoD := p.fn("klog", "NewDateFromGo")
	fromGoT := p.fn("klog", "NewTimeFromGo")
	round := p.fn("klog/service", "RoundToNearest")
	atDate := p.method("klog/app/cli/util", "AtDateArgs", "AtDate")
	if !r.anchorFn(rule, f, "util.(*AtDateAndTimeArgs).AtTime") || !r.anchorFn(rule, fromGoD, "klog.NewDateFromGo") ||
		!r.anchorFn(rule, fromGoT, "klog.NewTimeFromGo") || !r.anchorFn(rule, round, "service.RoundToNearest") || !r.anchorFn(rule, atDate, "AtDate") {
		return
	}
	now := f.Params[1]
	isToday := func(v ssa.Value) bool {
		c, ok := isCallTo(v, fromGoD, 0)
		return ok && strip(c.Common().Args[0]) == ssa.Value(now)
	}
	isDate := func(v ssa.Value) bool {
		c, ok := isCallTo(v, atDate, 0)
		return ok && len(c.Common().Args) == 2 && strip(c.Common().Args[1]) == ssa.Value(now)
	}
	// The time returned is described as the sequence of operations applied to the clock
	// reading: clock [>round]* [>plus(minutes)] — through variables, helpers and closures.
	ts := &timeSeq{p: p, now: now, fromGoT: fromGoT, round: round, visiting: map[*ssa.Alloc]bool{}}
	nRoundSites := 0
	for _, g := range withAnons(f) {
		nRoundSites += len(callsTo(g, round))
	}
	r.check(nRoundSites >= 1, rule, "rounding-present", p.pos(f.Pos()), fmt.Sprintf("rounding is applied (%d RoundToNearest site(s))", nRoundSites), "rounding is never applied to the clock time")
	seen := map[int64]bool{}
	sawFallthrough := false
	for i, ret := range returnsOf(f) {
		key := fmt.Sprintf("return#%d", i)
		val, e := retResult(ret, 0), retResult(ret, 1)
		gs := guardsOf(ret.Block())
		// classify guards
		var posK []int64
		nNeg := 0
		explicit := false
		for _, g := range gs {
			if a, b, ok := dateEqGuard(g); ok {
				ba, ka := dateShift(a)
				bb, kb := dateShift(b)
				var k int64
				switch {
				case isToday(ba) && isDate(bb):
					k = ka - kb
				case isToday(bb) && isDate(ba):
					k = kb - ka
				default:
					r.undecided(rule, key+":guard", p.instrPos(g.If), "date comparison whose operands are not today(+k) and the target date")
					continue
				}
				if g.Pol {
					posK = append(posK, k)
				} else {
					nNeg++
				}
				continue
			}
			if x, isNil, ok := nilFact(g); ok && !isNil {
				if tag, _ := fieldTagOfLoad(x); tag == "time" {
					explicit = true
				}
			}
		}
		if isNilConst(val) {
			r.check(p.nilnessAt(ret.Block(), e, 0) == nnNonNil, rule, key+":error", p.instrPos(ret), "no time -> non-nil error", "returns neither a time nor an error")
			if len(posK) == 0 && nNeg >= 3 {
				sawFallthrough = true
			}
			continue
		}
		if explicit {
			tag, _ := fieldTagOfLoad(val)
			r.check(tag == "time" && isNilConst(e), rule, key+":explicit", p.instrPos(ret), "explicit --time is returned as is", "with an explicit --time something else is returned")
			continue
		}
		if len(posK) != 1 {
			r.bad(rule, key+":guard", p.instrPos(ret), "a time is returned under %d date-equality guards (expected exactly one)", len(posK))
			continue
		}
		k := posK[0]
		seen[k] = true
		seqs := ts.seqs(val, nil, 0)
		bad := ""
		for _, sq := range seqs {
			m := timeSeqRe.FindStringSubmatch(sq)
			switch {
			case m == nil:
				bad = "the time returned is " + sq + " (not the clock time, rounded, then shifted)"
			case k == 0 && m[2] != "":
				bad = "for today's date the clock time is shifted: " + sq
			case k != 0 && m[2] == "":
				bad = fmt.Sprintf("for today%+d the clock time is not shifted: %s", k, sq)
			case k != 0 && m[2] != fmt.Sprint(-1440*k):
				bad = fmt.Sprintf("for today%+d the clock time is shifted by %s minutes (expected %d): %s", k, m[2], -1440*k, sq)
			}
		}
		if len(seqs) == 0 {
			bad = "the time returned could not be described"
		}
		if k != 1 && k != -1 && k != 0 {
			r.bad(rule, key+fmt.Sprintf(":k=%d", k), p.instrPos(ret), "a time is returned for a target date %d days from today", k)
			continue
		}
		r.check(bad == "", rule, key+fmt.Sprintf(":k=%d", k), p.instrPos(ret), fmt.Sprintf("target date today%+d -> %s", k, strings.Join(seqs, " | ")), bad)
	}
	for _, k := range []int64{0, -1, 1} {
		r.check(seen[k], rule, fmt.Sprintf("row:k=%d", k), p.pos(f.Pos()), "row present", fmt.Sprintf("no branch returns a time for target date today%+d", k))
	}
	r.check(sawFallthrough, rule, "row:otherwise-error", p.pos(f.Pos()), "any other date -> error", "no error return for dates other than today/yesterday/tomorrow")
}

// closureUses: instructions in f that create the closure g (its call/pass site).
func closureUses(f *ssa.Function, g *ssa.Function) []ssa.Instruction {
	var out []ssa.Instruction
	eachInstr(f, func(in ssa.Instruction) {
		if mc, ok := in.(*ssa.MakeClosure); ok && mc.Fn == g {
			out = append(out, mc)
		}
	})
	return out
}

func ruleP17AtDateTable(p *Prog, r *Report) {
	const rule = "P17-atdate-table"
	f := p.method("klog/app/cli/util", "AtDateArgs", "AtDate")
	fromGoD := p.fn("klog", "NewDateFromGo")
	if !r.anchorFn(rule, f, "util.(*AtDateArgs).AtDate") || !r.anchorFn(rule, fromGoD, "klog.NewDateFromGo") {
		return
	}
	now := f.Params[1]
	seen := map[string]bool{}
	for i, ret := range returnsOf(f) {
		key := fmt.Sprintf("return#%d", i)
		val := retResult(ret, 0)
		var pos []string
		for _, g := range guardsOf(ret.Block()) {
			if x, isNil, ok := nilFact(g); ok {
				if tag, _ := fieldTagOfLoad(x); tag == "date" && !isNil {
					pos = append(pos, "date")
				}
				continue
			}
			if tag, _ := fieldTagOfLoad(g.Cond); tag != "" && g.Pol {
				pos = append(pos, tag)
			}
		}
		want := "default"
		if len(pos) > 0 {
			want = pos[len(pos)-1] // innermost-first order: guardsOf walks up the dominator tree
			want = pos[0]
		}
		base, k := dateShift(val)
		isToday := false
		if c, ok := isCallTo(base, fromGoD, 0); ok && strip(c.Common().Args[0]) == ssa.Value(now) {
			isToday = true
		}
		var ok bool
		var exp string
		switch want {
		case "date":
			tag, _ := fieldTagOfLoad(val)
			ok, exp = tag == "date", "the explicit date"
		case "yesterday":
			ok, exp = isToday && k == -1, "today-1"
		case "tomorrow":
			ok, exp = isToday && k == 1, "today+1"
		case "today", "default":
			ok, exp = isToday && k == 0, "today"
		default:
			r.undecided(rule, key, p.instrPos(ret), "return guarded by unknown flag %q", want)
			continue
		}
		seen[want] = true
		r.check(ok, rule, key+":"+want, p.instrPos(ret), "--"+want+" -> "+exp, fmt.Sprintf("under --%s the date returned is not %s (base is today: %v, shift %+d)", want, exp, isToday, k))
	}
	for _, w := range []string{"date", "yesterday", "tomorrow", "default"} {
		r.check(seen[w], rule, "row:"+w, p.pos(f.Pos()), "row present", "no return for "+w)
	}
}

var timeSeqRe = regexp.MustCompile(`^clock(>round)*(?:>plus\((-?\d+)\))?$`)

// timeSeq describes klog.Time values inside AtTime as operation sequences on the clock reading.
type timeSeq struct {
	p        *Prog
	now      *ssa.Parameter
	fromGoT  *ssa.Function
	round    *ssa.Function
	visiting map[*ssa.Alloc]bool
}

func (t *timeSeq) seqs(v ssa.Value, env map[*ssa.Parameter]ssa.Value, depth int) []string {
	if depth > 12 {
		return []string{"?"}
	}
	v = strip(v)
	uniq := func(xs []string) []string {
		seen := map[string]bool{}
		var out []string
		for _, x := range xs {
			if !seen[x] {
				seen[x] = true
				out = append(out, x)
			}
		}
		sort.Strings(out)
		return out
	}
	app := func(xs []string, op string) []string {
		var out []string
		for _, x := range xs {
			out = append(out, x+">"+op)
		}
		return out
	}
	switch x := v.(type) {
	case *ssa.Parameter:
		if b, ok := env[x]; ok {
			return t.seqs(b, nil, depth+1)
		}
		return []string{"?"}
	case *ssa.Phi:
		var out []string
		for _, e := range x.Edges {
			out = append(out, t.seqs(e, env, depth+1)...)
		}
		return uniq(out)
	case *ssa.UnOp:
		if x.Op != token.MUL {
			return []string{"?"}
		}
		cell := cellOf(x.X)
		if cell == nil {
			return []string{"?"}
		}
		if t.visiting[cell] {
			return []string{"@"}
		}
		t.visiting[cell] = true
		var base, self []string
		for _, s := range storesTo(cell) {
			for _, sq := range t.seqs(s.val, env, depth+1) {
				if strings.HasPrefix(sq, "@") {
					self = append(self, sq)
				} else {
					base = append(base, sq)
				}
			}
		}
		delete(t.visiting, cell)
		out := append([]string{}, base...)
		for _, sf := range self {
			for _, b := range base {
				out = append(out, b+strings.TrimPrefix(sf, "@"))
			}
		}
		return uniq(out)
	case *ssa.Extract:
		if c, ok := x.Tuple.(*ssa.Call); ok && x.Index == 0 {
			if n, recv, args, _ := methodCallOf(c); n == "Plus" && len(args) == 1 {
				m := "?"
				if pl, ok := t.p.durationMinutes(args[0]); ok {
					// parameters of a helper that are bound to constants at its call site
					total, allConst := pl.C, true
					for k, coef := range pl.Terms {
						prm, isP := pl.leafV[k].(*ssa.Parameter)
						if !isP {
							allConst = false
							continue
						}
						b, bound := env[prm]
						kk, isK := constInt(b)
						if !bound || !isK {
							allConst = false
							continue
						}
						total += coef * kk
					}
					if allConst {
						m = fmt.Sprint(total)
					}
				}
				return app(t.seqs(recv, env, depth+1), "plus("+m+")")
			}
			// (value, error) of a local helper: what it returns in position 0
			if callee := staticCallee(c); callee != nil && (callee.Parent() != nil || isHelper(callee)) && len(callee.Params) == len(c.Call.Args) {
				e2 := map[*ssa.Parameter]ssa.Value{}
				for i, prm := range callee.Params {
					e2[prm] = c.Call.Args[i]
				}
				var out []string
				for _, ret := range returnsOf(callee) {
					if len(ret.Results) >= 1 && !isNilConst(ret.Results[0]) {
						out = append(out, t.seqsWithEnv(ret.Results[0], e2, env, depth+1)...)
					}
				}
				return uniq(out)
			}
		}
	case *ssa.Call:
		callee := staticCallee(x)
		switch {
		case sameFn(callee, t.fromGoT):
			if strip(x.Call.Args[0]) == ssa.Value(t.now) {
				return []string{"clock"}
			}
		case sameFn(callee, t.round):
			return app(t.seqs(x.Call.Args[0], env, depth+1), "round")
		case callee != nil && (callee.Parent() != nil || isHelper(callee)) && len(callee.Params) == len(x.Call.Args):
			// local helper: describe what it returns with its parameters bound
			e2 := map[*ssa.Parameter]ssa.Value{}
			for i, prm := range callee.Params {
				e2[prm] = x.Call.Args[i]
			}
			// parameters that are spilled into cells: the initial store of the parameter
			var out []string
			for _, ret := range returnsOf(callee) {
				if len(ret.Results) >= 1 {
					out = append(out, t.seqsWithEnv(retResult(ret, 0), e2, env, depth+1)...)
				}
			}
			return uniq(out)
		}
	}
	return []string{"?"}
}

// seqsWithEnv evaluates inside a helper: parameters resolve through inner first, then outer.
func (t *timeSeq) seqsWithEnv(v ssa.Value, inner, outer map[*ssa.Parameter]ssa.Value, depth int) []string {
	merged := map[*ssa.Parameter]ssa.Value{}
	for k, v2 := range outer {
		merged[k] = v2
	}
	for k, v2 := range inner {
		merged[k] = v2
	}
	return t.seqs(v, merged, depth)
}
