package main

// C17 — clock-relative behaviour.

import (
	"fmt"
	"go/token"
	"go/types"
	"reflect"
	"strings"

	"golang.org/x/tools/go/ssa"
)

func init() {
	register(&propSpec{
		id:    "C17",
		level: "other",
		explain: "Structural necessary conditions decided on the SSA program: (P17-err) in app/cli and service no error of Time.Plus / EndOpenRange / CloseOpenRanges / NewRange* / NewTime* is discarded while the value is used (a command must fail with an error when a time is unrepresentable, never continue with a nil time); " +
			"(P17-shift-table) AtTime returns, per guard today+k == date, the rounded clock time shifted by exactly -1440*k minutes for k in {-1,0,1}, rounding happens before the shift, any other date yields an error; " +
			"(P17-atdate-table) AtDate maps --date / --yesterday / --tomorrow / default to the given date / today-1 / today+1 / today; " +
			"(P17-stop-fallback) stop falls back to yesterday's record only without explicit date/time, second in the creator chain, and adds 24h only when the chosen record is yesterday's; " +
			"(P17-close-table) CloseOpenRanges closes at the clock time for today's records, +1440 minutes for the day before, and fails otherwise or when EndOpenRange fails. " +
			"Not covered: the rounding arithmetic of RoundToNearest, Time.Plus itself, the minute-by-minute outcome.",
		rules: []ruleFn{ruleP17Err, ruleP17ShiftTable, ruleP17AtDateTable, ruleP17StopFallback, ruleP02Close},
		trusted: []string{
			"klog.Time.Plus(d) shifts by d minutes or returns an error (C16)",
			"kong fills flag fields according to their `name` struct tags",
		},
	})
}

// fieldTag returns the kong `name` tag (or the Go name) of the struct field loaded by v.
func fieldTagOfLoad(v ssa.Value) (tag string, base ssa.Value) {
	v = strip(v)
	u, ok := v.(*ssa.UnOp)
	if !ok || u.Op != token.MUL {
		return "", nil
	}
	fa, ok := u.X.(*ssa.FieldAddr)
	if !ok {
		return "", nil
	}
	st := fa.X.Type().Underlying().(*types.Pointer).Elem().Underlying().(*types.Struct)
	name := reflect.StructTag(st.Tag(fa.Field)).Get("name")
	if name == "" {
		name = st.Field(fa.Field).Name()
	}
	return name, fa.X
}

// isTimeProducer: fallible constructors/operations on klog times and ranges.
func isTimeProducer(c ssa.CallInstruction) bool {
	if errResultIndex(c.Common().Signature()) < 0 {
		return false
	}
	n := calleeName(c)
	pp := calleePkgPath(c)
	if !strings.HasPrefix(pp, modPath) {
		return false
	}
	switch n {
	case "Time.Plus", "time.Plus", "Record.EndOpenRange", "record.EndOpenRange", "service.CloseOpenRanges",
		"klog.NewRange", "klog.NewRangeWithFormat", "klog.NewTime", "klog.NewTimeYesterday", "klog.NewTimeTomorrow",
		"klog.NewTimeFromString", "klog.newTime":
		return true
	}
	return false
}

// inDomainTimeArgs: NewTime(x.Hour(), x.Minute()) for one and the same valid time x cannot fail.
func inDomainTimeArgs(c ssa.CallInstruction) bool {
	if calleeName(c) != "klog.NewTime" || len(c.Common().Args) != 2 {
		return false
	}
	n1, r1, _, _ := methodCall(c.Common().Args[0])
	n2, r2, _, _ := methodCall(c.Common().Args[1])
	return n1 == "Hour" && n2 == "Minute" && r1 != nil && sameValue(r1, r2) && typeNameOf(r1.Type()) == "Time"
}

func ruleP17Err(p *Prog, r *Report) {
	const rule = "P17-err"
	n := 0
	for _, f := range p.srcFns {
		pp := pkgPathOfFn(f)
		if !strings.HasPrefix(pp, modPath+"/klog/app/cli") && pp != modPath+"/klog/service" {
			continue
		}
		idx := map[string]int{}
		eachInstr(f, func(in ssa.Instruction) {
			c, ok := in.(ssa.CallInstruction)
			if !ok || !isTimeProducer(c) {
				return
			}
			n++
			name := calleeName(c)
			idx[name]++
			key := fmt.Sprintf("%s:%s#%d", fnName(f), name, idx[name])
			cl, why := p.classifyErr(c)
			switch cl {
			case errDropped:
				if inDomainTimeArgs(c) {
					r.ok(rule, key, p.instrPos(c), "domain-total: NewTime(x.Hour(), x.Minute()) of a valid time cannot fail")
				} else {
					r.bad(rule, key, p.instrPos(c), "error of %s discarded: %s", name, why)
				}
			default:
				r.ok(rule, key, p.instrPos(c), "%s: %s", cl, why)
			}
		})
	}
	r.floor(rule, 8)
}

// dateEqGuard: the guard is a.IsEqualTo(b) between dates (positive or negative).
func dateEqGuard(g Guard) (a, b ssa.Value, ok bool) {
	c, isCall := g.Cond.(*ssa.Call)
	if !isCall {
		return nil, nil, false
	}
	name, recv, args, _ := methodCallOf(c)
	if name != "IsEqualTo" || len(args) != 1 || typeNameOf(recv.Type()) != "Date" {
		return nil, nil, false
	}
	return recv, args[0], true
}

func ruleP17ShiftTable(p *Prog, r *Report) {
	const rule = "P17-shift-table"
	f := p.method("klog/app/cli/util", "AtDateAndTimeArgs", "AtTime")
	fromGoD := p.fn("klog", "NewDateFromGo")
	fromGoT := p.fn("klog", "NewTimeFromGo")
	round := p.fn("klog/service", "RoundToNearest")
	atDate := p.method("klog/app/cli/util", "AtDateArgs", "AtDate")
	if !r.anchorFn(rule, f, "util.(*AtDateAndTimeArgs).AtTime") || !r.anchorFn(rule, fromGoD, "klog.NewDateFromGo") ||
		!r.anchorFn(rule, fromGoT, "klog.NewTimeFromGo") || !r.anchorFn(rule, round, "service.RoundToNearest") || !r.anchorFn(rule, atDate, "AtDate") {
		return
	}
	now := f.Params[1]
	isToday := func(v ssa.Value) bool {
		c, ok := isCallTo(v, fromGoD, 0)
		return ok && strip(c.Common().Args[0]) == ssa.Value(now)
	}
	isDate := func(v ssa.Value) bool {
		c, ok := isCallTo(v, atDate, 0)
		return ok && len(c.Common().Args) == 2 && strip(c.Common().Args[1]) == ssa.Value(now)
	}
	// The clock-time cell: initial store NewTimeFromGo(now), all other stores RoundToNearest(load cell, _).
	var cell *ssa.Alloc
	eachInstr(f, func(in ssa.Instruction) {
		if st, ok := in.(*ssa.Store); ok {
			if c, ok := isCallTo(st.Val, fromGoT, 0); ok && strip(c.Common().Args[0]) == ssa.Value(now) {
				cell = cellOf(st.Addr)
			}
		}
	})
	if cell == nil {
		r.undecided(rule, "clock-cell", p.pos(f.Pos()), "no variable initialised with NewTimeFromGo(now) found in AtTime")
		return
	}
	isClock := func(v ssa.Value) bool {
		u, ok := strip(v).(*ssa.UnOp)
		return ok && u.Op == token.MUL && cellOf(u.X) == cell
	}
	sts := storesTo(cell)
	nRound := 0
	for _, s := range sts {
		if _, ok := isCallTo(s.val, fromGoT, 0); ok {
			continue
		}
		c, ok := isCallTo(s.val, round, 0)
		if ok && isClock(c.Common().Args[0]) {
			nRound++
			continue
		}
		r.bad(rule, "clock-cell:store", p.instrPos(s.in), "the clock time is overwritten by something other than RoundToNearest(time, rounding)")
	}
	r.check(nRound >= 1, rule, "clock-cell:rounded", p.pos(cell.Pos()), fmt.Sprintf("clock time = NewTimeFromGo(now), re-assigned only by RoundToNearest (%d sites)", nRound), "rounding is never applied to the clock time")
	noStoreAfter := func(b *ssa.BasicBlock) bool {
		reach := reachableFrom(b, nil)
		for _, s := range sts {
			if s.in.Parent() == f && reach[s.in.Block()] && s.in.Block() != b {
				return false
			}
			if s.in.Parent() != f {
				// store inside a closure: the closure's call site must not be reachable from b
				for _, mc := range closureUses(f, s.in.Parent()) {
					if reach[mc.Block()] && mc.Block() != b {
						return false
					}
				}
			}
		}
		return true
	}
	seen := map[int64]bool{}
	sawFallthrough := false
	for i, ret := range returnsOf(f) {
		key := fmt.Sprintf("return#%d", i)
		val, e := ret.Results[0], ret.Results[1]
		gs := guardsOf(ret.Block())
		// classify guards
		var posK []int64
		nNeg := 0
		explicit := false
		for _, g := range gs {
			if a, b, ok := dateEqGuard(g); ok {
				ba, ka := dateShift(a)
				bb, kb := dateShift(b)
				var k int64
				switch {
				case isToday(ba) && isDate(bb):
					k = ka - kb
				case isToday(bb) && isDate(ba):
					k = kb - ka
				default:
					r.undecided(rule, key+":guard", p.instrPos(g.If), "date comparison whose operands are not today(+k) and the target date")
					continue
				}
				if g.Pol {
					posK = append(posK, k)
				} else {
					nNeg++
				}
				continue
			}
			if x, isNil, ok := nilFact(g); ok && !isNil {
				if tag, _ := fieldTagOfLoad(x); tag == "time" {
					explicit = true
				}
			}
		}
		if isNilConst(val) {
			r.check(p.nilnessAt(ret.Block(), e, 0) == nnNonNil, rule, key+":error", p.instrPos(ret), "no time -> non-nil error", "returns neither a time nor an error")
			if len(posK) == 0 && nNeg >= 3 {
				sawFallthrough = true
			}
			continue
		}
		if explicit {
			tag, _ := fieldTagOfLoad(val)
			r.check(tag == "time" && isNilConst(e), rule, key+":explicit", p.instrPos(ret), "explicit --time is returned as is", "with an explicit --time something else is returned")
			continue
		}
		if len(posK) != 1 {
			r.bad(rule, key+":guard", p.instrPos(ret), "a time is returned under %d date-equality guards (expected exactly one)", len(posK))
			continue
		}
		k := posK[0]
		seen[k] = true
		if k == 0 {
			ok := isClock(val) && noStoreAfter(ret.Block())
			r.check(ok, rule, key+":k=0", p.instrPos(ret), "target date is today -> the rounded clock time as is", "for today's date the time returned is not the rounded clock time")
			continue
		}
		if k != 1 && k != -1 {
			r.bad(rule, key+fmt.Sprintf(":k=%d", k), p.instrPos(ret), "a time is returned for a target date %d days from today", k)
			continue
		}
		name, recv, args, call := methodCall(val)
		okShape := name == "Plus" && len(args) == 1 && isClock(recv)
		if !okShape {
			r.bad(rule, key+fmt.Sprintf(":k=%d", k), p.instrPos(ret), "for today%+d the time returned is not clock.Plus(duration)", k)
			continue
		}
		mins, okd := p.durationMinutes(args[0])
		okVal := okd && mins.isConst() && mins.C == -1440*k
		detail := "?"
		if okd {
			detail = mins.String()
		}
		r.check(okVal, rule, key+fmt.Sprintf(":k=%d", k), p.instrPos(ret), fmt.Sprintf("target date is today%+d -> clock time shifted by %s minutes", k, detail), fmt.Sprintf("target date is today%+d but the clock time is shifted by %s minutes (expected %d)", k, detail, -1440*k))
		r.check(noStoreAfter(call.Block()), rule, key+fmt.Sprintf(":k=%d:round-first", k), p.instrPos(call), "rounding is applied before the shift", "the clock time can be re-assigned after the shift was computed")
	}
	for _, k := range []int64{0, -1, 1} {
		r.check(seen[k], rule, fmt.Sprintf("row:k=%d", k), p.pos(f.Pos()), "row present", fmt.Sprintf("no branch returns a time for target date today%+d", k))
	}
	r.check(sawFallthrough, rule, "row:otherwise-error", p.pos(f.Pos()), "any other date -> error", "no error return for dates other than today/yesterday/tomorrow")
}

// closureUses: instructions in f that create the closure g (its call/pass site).
func closureUses(f *ssa.Function, g *ssa.Function) []ssa.Instruction {
	var out []ssa.Instruction
	eachInstr(f, func(in ssa.Instruction) {
		if mc, ok := in.(*ssa.MakeClosure); ok && mc.Fn == g {
			out = append(out, mc)
		}
	})
	return out
}

func ruleP17AtDateTable(p *Prog, r *Report) {
	const rule = "P17-atdate-table"
	f := p.method("klog/app/cli/util", "AtDateArgs", "AtDate")
	fromGoD := p.fn("klog", "NewDateFromGo")
	if !r.anchorFn(rule, f, "util.(*AtDateArgs).AtDate") || !r.anchorFn(rule, fromGoD, "klog.NewDateFromGo") {
		return
	}
	now := f.Params[1]
	seen := map[string]bool{}
	for i, ret := range returnsOf(f) {
		key := fmt.Sprintf("return#%d", i)
		val := ret.Results[0]
		var pos []string
		for _, g := range guardsOf(ret.Block()) {
			if x, isNil, ok := nilFact(g); ok {
				if tag, _ := fieldTagOfLoad(x); tag == "date" && !isNil {
					pos = append(pos, "date")
				}
				continue
			}
			if tag, _ := fieldTagOfLoad(g.Cond); tag != "" && g.Pol {
				pos = append(pos, tag)
			}
		}
		want := "default"
		if len(pos) > 0 {
			want = pos[len(pos)-1] // innermost-first order: guardsOf walks up the dominator tree
			want = pos[0]
		}
		base, k := dateShift(val)
		isToday := false
		if c, ok := isCallTo(base, fromGoD, 0); ok && strip(c.Common().Args[0]) == ssa.Value(now) {
			isToday = true
		}
		var ok bool
		var exp string
		switch want {
		case "date":
			tag, _ := fieldTagOfLoad(val)
			ok, exp = tag == "date", "the explicit date"
		case "yesterday":
			ok, exp = isToday && k == -1, "today-1"
		case "tomorrow":
			ok, exp = isToday && k == 1, "today+1"
		case "today", "default":
			ok, exp = isToday && k == 0, "today"
		default:
			r.undecided(rule, key, p.instrPos(ret), "return guarded by unknown flag %q", want)
			continue
		}
		seen[want] = true
		r.check(ok, rule, key+":"+want, p.instrPos(ret), "--"+want+" -> "+exp, fmt.Sprintf("under --%s the date returned is not %s (base is today: %v, shift %+d)", want, exp, isToday, k))
	}
	for _, w := range []string{"date", "yesterday", "tomorrow", "default"} {
		r.check(seen[w], rule, "row:"+w, p.pos(f.Pos()), "row present", "no return for "+w)
	}
}
