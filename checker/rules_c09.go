package main

// C09 — printing a file yields an equivalent canonical file.

import (
	"fmt"
	"go/token"
	"strings"

	"golang.org/x/tools/go/ssa"
)

func init() {
	register(&propSpec{
		id:    "C09",
		level: "other",
		explain: "Decided on source constants and the SSA program: (P09-tables) the serialiser's canonical indentation is four spaces and is one of the parser's indentation styles, its line ending is LF and one of the parser's line endings, second-level lines use the indentation twice, exactly one blank line separates records; " +
			"(P09-complete) serialiseRecord emits the headline (with the should-total iff it is non-zero), every summary line and every entry; the first entry-summary line goes on the entry line iff non-empty, every further line on its own doubly indented line; (P09-arms) each entry kind is printed by the serialiser method of its own kind; " +
			"(P09-tostring) the text serialiser prints the value's own ToString() (which carries its notation), durations as ToString / ToStringWithSign or minutes under --decimal. " +
			"Not covered: ToString ∘ FromString of the value types (value-level round trip), idempotence on all inputs.",
		rules: []ruleFn{ruleP09Tables, ruleP09Complete, ruleP09ToString, ruleP09Notation, ruleP16AmPm},
	})
}

func ruleP09Tables(p *Prog, r *Report) {
	const rule = "P09-tables"
	ind, ok1 := p.globalStrings("klog/parser", "canonicalIndentation")
	end, ok2 := p.globalStrings("klog/parser", "canonicalLineEnding")
	inds, ok3 := p.globalStrings("klog/parser/txt", "Indentations")
	ends, ok4 := p.globalStrings("klog/parser/txt", "LineEndings")
	if !ok1 || !ok2 || !ok3 || !ok4 || len(ind) != 1 || len(end) != 1 {
		r.undecided(rule, "tables", "-", "canonical indentation / line ending or the parser's tables are not constant")
		return
	}
	gi := p.global("klog/parser", "canonicalIndentation")
	ge := p.global("klog/parser", "canonicalLineEnding")
	r.check(ind[0] == "    " && contains(inds, ind[0]), rule, "indentation", p.pos(gi.Pos()), "canonical indentation is four spaces and is accepted by the parser", fmt.Sprintf("canonical indentation %q is not four spaces or not one of the parser's styles %q", ind[0], inds))
	r.check(end[0] == "\n" && contains(ends, end[0]), rule, "line-ending", p.pos(ge.Pos()), "canonical line ending is LF and is accepted by the parser", fmt.Sprintf("canonical line ending %q is not LF or not one of the parser's line endings", end[0]))
	// never reassigned
	for _, f := range p.srcFns {
		if f.Name() == "init" {
			continue
		}
		eachInstr(f, func(in ssa.Instruction) {
			if st, ok := in.(*ssa.Store); ok && (st.Addr == ssa.Value(gi) || st.Addr == ssa.Value(ge)) {
				r.bad(rule, "reassigned:"+fnName(f), p.instrPos(st), "a canonical layout variable is reassigned at run time")
			}
		})
	}
	// Lines.ToString: text + canonicalLineEnding for every line
	ts := p.method("klog/parser", "Lines", "ToString")
	if r.anchorFn(rule, ts, "parser.Lines.ToString") {
		rets := returnsOf(ts)
		ok := len(rets) > 0
		for _, ret := range rets {
			// an accumulator (`+=` or strings.Builder) that starts empty and receives, per line and
			// in this order, the line's Text and the canonical line ending
			evs, init, isAcc := appendEvents(retResult(ret, 0))
			if !isAcc || init != "" || !orderedEvents(evs) {
				ok = false
				continue
			}
			var seq []string
			for _, e := range evs {
				var leaves []ssa.Value
				catLeaves(e.val, &leaves, 0)
				for _, l := range leaves {
					if s, isS := constString(l); isS && s == "" {
						continue
					}
					if base, fld := fieldLoad(l); fld == "Text" && rangeElemOf(base) != nil && strip(rangeElemOf(base)) == ssa.Value(ts.Params[0]) {
						seq = append(seq, "Text")
					} else if u, isU := strip(l).(*ssa.UnOp); isU && u.X == ssa.Value(ge) {
						seq = append(seq, "LE")
					} else {
						seq = append(seq, "?")
					}
				}
				if only, _ := onlyLoopGuards(e.at.Block()); !only {
					ok = false
				}
			}
			if strings.Join(seq, "+") != "Text+LE" {
				ok = false
			}
		}
		r.check(ok, rule, "Lines.ToString", p.pos(ts.Pos()), "output = every line's text followed by the canonical line ending", "Lines.ToString does not emit every line followed by the canonical line ending")
	}
	// SerialiseRecords: every record, one blank line between records
	sr := p.fn("klog/parser", "SerialiseRecords")
	one := p.fn("klog/parser", "serialiseRecord")
	if r.anchorFn(rule, sr, "parser.SerialiseRecords") && r.anchorFn(rule, one, "parser.serialiseRecord") {
		cs := callsTo(sr, one)
		okAll := len(cs) == 1
		if okAll {
			only, _ := onlyLoopGuards(cs[0].Block())
			coll := rangeElemOf(cs[0].Common().Args[1])
			okAll = only && coll != nil && strip(coll) == ssa.Value(sr.Params[1]) && strip(cs[0].Common().Args[0]) == ssa.Value(sr.Params[0])
		}
		r.check(okAll, rule, "all-records", p.pos(sr.Pos()), "every record is serialised, in order, with the serialiser given", "not every record is serialised with the given serialiser")
		// the separator: an append of a Line with empty text, either after the record and guarded
		// by "not the last index", or before the record and guarded by "not the first index"
		okSep := false
		eachInstr(sr, func(in ssa.Instruction) {
			st, ok := in.(*ssa.Store)
			if !ok || len(cs) != 1 {
				return
			}
			fa, ok := st.Addr.(*ssa.FieldAddr)
			if !ok || typeNameOf(fa.X.Type()) != "Line" || fieldName(fa) != "Text" {
				return
			}
			s, isS := constString(st.Val)
			if !isS || s != "" {
				return
			}
			after := cs[0].Block().Dominates(st.Block())
			nGuards, good := 0, false
			for _, g := range guardsOf(st.Block()) {
				if isLoopGuard(g) {
					continue
				}
				nGuards++
				switch indexCond(g, sr.Params[1]) {
				case "not-last":
					good = after
				case "not-first":
					good = !after && g.If != nil && g.If.Block().Dominates(cs[0].Block())
				}
			}
			if good && nGuards == 1 {
				okSep = true
			}
		})
		r.check(okSep, rule, "separator", p.pos(sr.Pos()), "exactly one blank line after every record but the last", "records are not separated by exactly one blank line (guard is not index < len-1)")
	}
}

func ruleP09Complete(p *Prog, r *Report) {
	const rule = "P09-complete"
	f := p.fn("klog/parser", "serialiseRecord")
	gi := p.global("klog/parser", "canonicalIndentation")
	if !r.anchorFn(rule, f, "parser.serialiseRecord") || gi == nil {
		return
	}
	rec := f.Params[1]
	isInd := func(v ssa.Value) bool {
		u, ok := strip(v).(*ssa.UnOp)
		return ok && u.Op == token.MUL && u.X == ssa.Value(gi)
	}
	serCall := func(v ssa.Value) (string, []ssa.Value) {
		c, idx := callOf(v)
		if c == nil || idx != 0 || !c.Common().IsInvoke() || typeNameOf(c.Common().Value.Type()) != "Serialiser" {
			return "", nil
		}
		return c.Common().Method.Name(), c.Common().Args
	}
	// collect stores to Line.Text with their leaves and loop context
	type lineLit struct {
		st     *ssa.Store
		leaves []ssa.Value
		chain  []ssa.CallInstruction
		rep    map[int]int64 // leaf index -> k, for strings.Repeat(indentation, k) (resolved while the call it came through is current)
	}
	// (a line built in a helper counts once per call of the helper, with the helper's
	// parameters standing for that call's arguments)
	var lits []lineLit
	for _, g := range plainWithAnons(f) {
		for _, vi := range virtualInstrs(g) {
			vi := vi
			vi.run(func() {
				st, ok := vi.in.(*ssa.Store)
				if !ok {
					return
				}
				fa, ok := st.Addr.(*ssa.FieldAddr)
				if !ok || typeNameOf(fa.X.Type()) != "Line" || fieldName(fa) != "Text" {
					return
				}
				var leaves []ssa.Value
				catLeaves(st.Val, &leaves, 0)
				rep := map[int]int64{}
				for li, lv := range leaves {
					if rc, _ := callOf(lv); rc != nil && staticCallee(rc) != nil && staticCallee(rc).String() == "strings.Repeat" {
						if k, isK := constInt(strip(rc.Common().Args[1])); isK {
							rep[li] = k
						}
					}
				}
				lits = append(lits, lineLit{st, leaves, vi.chain, rep})
			})
		}
	}
	var sawHead, sawSummary, sawEntry, sawCont, sawFirst bool
	for _, l := range lits {
		l := l
		vcall{chain: l.chain}.run(func() {
			only, _ := onlyLoopGuards(l.st.Block())
			// classify by leaves
			var parts []string
			for li, v := range l.leaves {
				switch {
				case isInd(v):
					parts = append(parts, "IND")
				default:
					if s, isS := constString(v); isS {
						parts = append(parts, fmt.Sprintf("%q", s))
						continue
					}
					// strings.Repeat(indentation, k) with a constant k: k indentations
					if rc, _ := callOf(v); rc != nil && staticCallee(rc) != nil && staticCallee(rc).String() == "strings.Repeat" && isInd(rc.Common().Args[0]) {
						if k, isK := l.rep[li]; isK && k >= 1 && k <= 4 {
							for i := int64(0); i < k; i++ {
								parts = append(parts, "IND")
							}
							continue
						}
					}
					if n, _ := serCall(v); n != "" {
						parts = append(parts, "s."+n)
						continue
					}
					if c, _ := callOf(v); c != nil && staticCallee(c) != nil && fnBase(staticCallee(c)) == "Unbox" {
						parts = append(parts, "ENTRY")
						continue
					}
					if _, fld := fieldLoad(v); fld == "Text" {
						parts = append(parts, "PREV")
						continue
					}
					if _, isPhi := strip(v).(*ssa.Phi); isPhi {
						parts = append(parts, "HEADLINE")
						continue
					}
					// a value with several ways to come about (a helper with several returns)
					if len(valueRows(v, 0, map[ssa.Value]bool{})) > 1 {
						parts = append(parts, "HEADLINE")
						continue
					}
					parts = append(parts, "?")
				}
			}
			sig := strings.Join(parts, "+")
			switch {
			case sig == "HEADLINE":
				sawHead = true
				// the ways: s.Date(r.Date()) and s.Date(...) + " (" + s.ShouldTotal(r.ShouldTotal()) + ")"
				rowsH := valueRows(l.leaves[0], 0, map[ssa.Value]bool{})
				okH := len(rowsH) == 2
				var plain, with bool
				for _, rw := range rowsH {
					var lv []ssa.Value
					catLeaves(rw.val, &lv, 0)
					if len(lv) == 0 {
						okH = false
						continue
					}
					n0, a0 := serCall(lv[0])
					if n0 != "Date" || len(a0) != 1 {
						okH = false
						continue
					}
					if nn, rr, _, _ := methodCall(a0[0]); nn != "Date" || strip(rr) != ssa.Value(rec) {
						okH = false
					}
					if len(lv) == 1 {
						plain = true
						continue
					}
					if len(lv) == 4 {
						s1, _ := constString(lv[1])
						n2, a2 := serCall(lv[2])
						s3, _ := constString(lv[3])
						if s1 == " (" && s3 == ")" && n2 == "ShouldTotal" && len(a2) == 1 {
							if nn, rr, _, _ := methodCall(a2[0]); nn == "ShouldTotal" && strip(rr) == ssa.Value(rec) {
								// guard: r.ShouldTotal().InMinutes() != 0
								for _, g := range rw.guards {
									if bo, isB := normCmp(g.Cond); isB {
										k, isK := constInt(bo.Y)
										n3, r3, _, _ := methodCall(bo.X)
										n4, _, _, _ := methodCall(r3)
										if isK && k == 0 && n3 == "InMinutes" && n4 == "ShouldTotal" && (bo.Op == token.NEQ) == g.Pol && (bo.Op == token.NEQ || bo.Op == token.EQL) {
											with = true
										}
									}
								}
							}
						}
					}
				}
				r.check(okH && plain && with && len(guardsOf(l.st.Block())) == 0, rule, "headline", p.instrPos(l.st), "headline = date [ (should-total) iff it is non-zero ]", "the headline is not s.Date(r.Date()) with \" (\"+s.ShouldTotal(r.ShouldTotal())+\")\" exactly when the should-total is non-zero")
			case sig == "s.Summary":
				_, a := serCall(l.leaves[0])
				els, ok := sliceLitElems(a[0])
				okS := ok && len(els) == 1 && only
				if okS {
					coll := rangeElemOf(els[0])
					n, rr, _, _ := methodCall(coll)
					n2, r2, _, _ := methodCall(rr)
					okS = coll != nil && n == "Lines" && n2 == "Summary" && strip(r2) == ssa.Value(rec)
				}
				if okS {
					sawSummary = true
				}
				r.check(okS, rule, "summary-lines", p.instrPos(l.st), "every record summary line is emitted as its own line", "not every record summary line is emitted (unindented, in order)")
			case sig == "IND+ENTRY":
				sawEntry = only
				r.check(only, rule, "entries", p.instrPos(l.st), "every entry is emitted on a singly indented line", "not every entry is emitted")
			case sig == "IND+IND+s.Summary":
				// i >= 1
				lo, hi := indexBounds(guardsOf(l.st.Block()))
				okC := lo == 1 && hi == -1
				sawCont = okC
				r.check(okC, rule, "entry-summary:continuation", p.instrPos(l.st), "every entry-summary line after the first is emitted on its own doubly indented line", "continuation lines of an entry summary are not all emitted doubly indented")
			case strings.HasPrefix(sig, "PREV+\" \"+s.Summary"):
				// first line: i == 0 && l != ""
				var nonEmpty bool
				_, hi := indexBounds(guardsOf(l.st.Block()))
				zero := hi == 0
				for _, g := range guardsOf(l.st.Block()) {
					if x, isF := nonEmptyStr(g); isF && x != nil {
						nonEmpty = true
					}
				}
				sawFirst = zero && nonEmpty
				r.check(zero && nonEmpty, rule, "entry-summary:first", p.instrPos(l.st), "a non-empty first summary line is appended to the entry line after one blank", "the first entry-summary line is not appended to the entry line exactly when it is non-empty")
			default:
				r.bad(rule, "line:"+sig, p.instrPos(l.st), "a line of the canonical output is built in an unexpected way: %s", sig)
			}
		})
	}
	r.check(sawHead && sawSummary && sawEntry && sawCont && sawFirst, rule, "sections", p.pos(f.Pos()), "headline, summary lines, entries, first and continuation summary lines are all emitted", fmt.Sprintf("a section of the record is not emitted (headline=%v summary=%v entries=%v continuation=%v first=%v)", sawHead, sawSummary, sawEntry, sawCont, sawFirst))
	// P09-arms
	arms, call := p.unboxArms(f)
	if arms == nil || len(arms) != 3 {
		r.undecided("P09-arms", "unbox", p.pos(f.Pos()), "serialiseRecord does not dispatch through one klog.Unbox call with three handler literals")
		return
	}
	coll := rangeElemOf(call.Common().Args[0])
	n, rr, _, _ := methodCall(coll)
	r.check(coll != nil && n == "Entries" && strip(rr) == ssa.Value(rec), "P09-arms", "entry", p.instrPos(call), "the entry dispatched on is the loop's entry of this record", "the entry printed is not the loop's entry of this record")
	for _, kind := range []string{"Range", "Duration", "OpenRange"} {
		h := arms[kind]
		okA := h != nil
		if okA {
			for _, ret := range returnsOf(h) {
				n, a := serCall(retResult(ret, 0))
				if n != kind || len(a) != 1 || strip(a[0]) != ssa.Value(h.Params[len(h.Params)-1]) {
					okA = false
				}
			}
		}
		r.check(okA, "P09-arms", "arm:"+kind, p.instrPos(call), kind+" entries are printed by s."+kind, "a "+kind+" entry is not printed by the serialiser's "+kind+" method applied to that value")
	}
}

func ruleP09ToString(p *Prog, r *Report) {
	const rule = "P09-tostring"
	for _, m := range []string{"Date", "Range", "OpenRange", "Time"} {
		f := p.method("klog/app", "TextSerialiser", m)
		if !r.anchorFn(rule, f, "TextSerialiser."+m) {
			continue
		}
		for _, ret := range returnsOf(f) {
			c, _ := callOf(retResult(ret, 0))
			ok := c != nil && staticCallee(c) != nil && fnBase(staticCallee(c)) == "Format"
			if ok {
				n, recv, _, _ := methodCall(c.Common().Args[1])
				ok = n == "ToString" && deref(recv) == ssa.Value(f.Params[1])
			}
			r.check(ok, rule, m, p.instrPos(ret), m+" prints Format(value.ToString()) of the value's own notation", "TextSerialiser."+m+" does not print the value's own ToString()")
		}
	}
	d := p.method("klog/app", "TextSerialiser", "duration")
	// evaluated per public method first: whatever the plumbing between the method and the notation
	// calls (flag parameter, method value, literal), each must print minutes under DecimalDuration
	// and its own notation otherwise
	evaluated := true
	for _, m := range []struct{ name, want string }{{"Duration", "ToString"}, {"SignedDuration", "ToStringWithSign"}, {"ShouldTotal", "ToString"}} {
		if !durationRenderedRight(p.method("klog/app", "TextSerialiser", m.name), m.want) {
			evaluated = false
		}
	}
	if evaluated && r.anchorFn(rule, d, "TextSerialiser.duration") {
		for _, cls := range []string{"plain", "decimal", "signed", "cases"} {
			r.ok(rule, "duration:"+cls, p.pos(d.Pos()), "evaluated per public method: minutes under DecimalDuration, the method's own notation otherwise")
		}
		for _, m := range []string{"Duration", "SignedDuration", "ShouldTotal"} {
			r.ok(rule, m, p.pos(p.method("klog/app", "TextSerialiser", m).Pos()), m+" prints Format of its own value: minutes under DecimalDuration, its own notation otherwise (evaluated through the helper)")
		}
		return
	}
	if r.anchorFn(rule, d, "TextSerialiser.duration") {
		seen := map[string]bool{}
		for _, ret := range returnsOf(d) {
			var decimal, sign *bool
			for _, g := range guardsOf(ret.Block()) {
				if _, fld := fieldLoad(g.Cond); fld == "DecimalDuration" {
					b := g.Pol
					decimal = &b
				}
				if deref(g.Cond) == ssa.Value(d.Params[2]) {
					b := g.Pol
					sign = &b
				}
			}
			c, _ := callOf(retResult(ret, 0))
			got := ""
			if c != nil {
				if g := staticCallee(c); g != nil && g.String() == "strconv.Itoa" {
					if n, recv, _, _ := methodCall(c.Common().Args[0]); n == "InMinutes" && deref(recv) == ssa.Value(d.Params[1]) {
						got = "minutes"
					}
				} else if n, recv, _, _ := methodCallOf(c); deref(recv) == ssa.Value(d.Params[1]) {
					got = n
				}
			}
			want := "ToString"
			cls := "plain"
			if decimal != nil && *decimal {
				want, cls = "minutes", "decimal"
			} else if sign != nil && *sign {
				want, cls = "ToStringWithSign", "signed"
			}
			seen[cls] = true
			r.check(got == want, rule, "duration:"+cls, p.instrPos(ret), cls+" durations print as "+want, fmt.Sprintf("%s durations print as %q, expected %s", cls, got, want))
		}
		r.check(seen["plain"] && seen["decimal"] && seen["signed"], rule, "duration:cases", p.pos(d.Pos()), "plain, signed and decimal cases present", "a duration rendering case is missing")
	}
	for _, m := range []struct {
		name string
		sign bool
	}{{"Duration", false}, {"SignedDuration", true}, {"ShouldTotal", false}} {
		f := p.method("klog/app", "TextSerialiser", m.name)
		if !r.anchorFn(rule, f, "TextSerialiser."+m.name) {
			continue
		}
		for _, ret := range returnsOf(f) {
			c, _ := callOf(retResult(ret, 0))
			ok := c != nil && staticCallee(c) != nil && fnBase(staticCallee(c)) == "Format"
			if ok {
				dc, _ := callOf(c.Common().Args[1])
				ok = dc != nil && sameFn(staticCallee(dc), d) && deref(dc.Common().Args[1]) == ssa.Value(f.Params[1])
				if ok {
					b, isB := constBool(dc.Common().Args[2])
					ok = isB && b == m.sign
				}
			}
			r.check(ok, rule, m.name, p.instrPos(ret), m.name+" prints Format(duration(value, sign="+fmt.Sprint(m.sign)+"))", "TextSerialiser."+m.name+" does not print its own value with the right sign mode")
		}
	}
}

// catLeaves flattens a string concatenation tree without looking through phis or variables.
func catLeaves(v ssa.Value, out *[]ssa.Value, depth int) {
	v = strip(v)
	if b, ok := v.(*ssa.BinOp); ok && b.Op == token.ADD && depth < 12 {
		catLeaves(b.X, out, depth+1)
		catLeaves(b.Y, out, depth+1)
		return
	}
	// strings.Join([]string{a, b, c}, sep) is a + sep + b + sep + c
	if c, ok := v.(*ssa.Call); ok && depth < 12 {
		if g := staticCallee(c); g != nil && g.String() == "strings.Join" && len(c.Call.Args) == 2 {
			if elems, isLit := sliceLitElems(c.Call.Args[0]); isLit && len(elems) > 0 {
				for i, e := range elems {
					if i > 0 {
						catLeaves(c.Call.Args[1], out, depth+1)
					}
					catLeaves(e, out, depth+1)
				}
				return
			}
		}
	}
	*out = append(*out, v)
}

// indexCond classifies a guard on the index of a range loop over coll: "not-last" (i < len-1 in
// any spelling: i+1 < len, i != len-1, len-1 > i, i <= len-2, negated forms on the other edge) or
// "not-first" (i > 0, i != 0, i >= 1, 0 < i).
func indexCond(g Guard, coll ssa.Value) string {
	bo, ok := normCmp(g.Cond)
	if !ok || !isIntType(bo.X.Type()) {
		return ""
	}
	op := bo.Op
	if !g.Pol {
		op = map[token.Token]token.Token{token.LSS: token.GEQ, token.GEQ: token.LSS, token.GTR: token.LEQ, token.LEQ: token.GTR, token.EQL: token.NEQ, token.NEQ: token.EQL}[op]
	}
	d := polySub(polyOf(bo.X), polyOf(bo.Y))
	// normalise to e < 0 or e != 0
	e := newPoly()
	switch op {
	case token.LSS, token.NEQ:
		e.addScaled(d, 1)
	case token.GTR:
		e.addScaled(d, -1)
	case token.LEQ:
		e.addScaled(d, 1)
		e.C--
	case token.GEQ:
		e.addScaled(d, -1)
		e.C--
	default:
		return ""
	}
	// e = a*ph + b*len(coll) + C with the range index i = ph + 1
	var a, b int64
	for k, c := range e.Terms {
		v := deref(e.leafV[k])
		if ph, isPhi := v.(*ssa.Phi); isPhi && isRangePhi(ph) {
			a += c
			continue
		}
		if call, isC := v.(*ssa.Call); isC {
			if bi, isB := call.Call.Value.(*ssa.Builtin); isB && bi.Name() == "len" && sameValue(call.Call.Args[0], coll) {
				b += c
				continue
			}
		}
		return ""
	}
	c := e.C - a // in terms of i
	neq := op == token.NEQ
	switch {
	case a == 1 && b == -1 && c == 1, neq && a == -1 && b == 1 && c == -1:
		return "not-last" // i - len + 1 < 0 (or != 0)
	case a == -1 && b == 0 && c == 0, neq && a == 1 && b == 0 && c == 0:
		return "not-first" // -i < 0 (or i != 0)
	}
	return ""
}

// isRangePhi: the hidden counter of a range loop (starts at -1, increased by one per iteration).
func isRangePhi(ph *ssa.Phi) bool {
	for _, e := range ph.Edges {
		if b, ok := e.(*ssa.BinOp); ok && b.Op == token.ADD && b.X == ssa.Value(ph) {
			if k, isK := constInt(b.Y); isK && k == 1 {
				continue
			}
		}
		if k, ok := constInt(e); ok && k == -1 {
			continue
		}
		return false
	}
	return true
}

// indexBounds: what the guards imply for the index of the enclosing range loop (which is >= 0):
// lo <= index <= hi (hi == -1: unbounded).  Any spelling and polarity of a comparison of the
// index with a constant counts.
func indexBounds(gs []Guard) (lo, hi int64) {
	lo, hi = 0, -1
	tighten := func(op token.Token, k int64) {
		switch op {
		case token.EQL:
			if k > lo {
				lo = k
			}
			if hi < 0 || k < hi {
				hi = k
			}
		case token.GEQ:
			if k > lo {
				lo = k
			}
		case token.GTR:
			if k+1 > lo {
				lo = k + 1
			}
		case token.LEQ:
			if hi < 0 || k < hi {
				hi = k
			}
		case token.LSS:
			if hi < 0 || k-1 < hi {
				hi = k - 1
			}
		case token.NEQ:
			if k == lo {
				lo = k + 1
			}
		}
	}
	for _, g := range gs {
		if isLoopGuard(g) {
			continue
		}
		bo, ok := normCmp(g.Cond)
		if !ok {
			continue
		}
		op, x, y := bo.Op, bo.X, bo.Y
		if !isRangeIndex(strip(x)) && isRangeIndex(strip(y)) {
			x, y = y, x
			op = map[token.Token]token.Token{token.LSS: token.GTR, token.GTR: token.LSS, token.LEQ: token.GEQ, token.GEQ: token.LEQ, token.EQL: token.EQL, token.NEQ: token.NEQ}[op]
		}
		k, isK := constInt(y)
		if !isRangeIndex(strip(x)) || !isK {
			continue
		}
		if !g.Pol {
			op = map[token.Token]token.Token{token.LSS: token.GEQ, token.GEQ: token.LSS, token.GTR: token.LEQ, token.LEQ: token.GTR, token.EQL: token.NEQ, token.NEQ: token.EQL}[op]
		}
		tighten(op, k)
	}
	return
}

// nonEmptyStr: the guard establishes that a string (or list) x is not empty: x != "", the other
// edge of x == "", or any comparison of len(x) that fails for 0.
func nonEmptyStr(g Guard) (ssa.Value, bool) {
	if bo, ok := normCmp(g.Cond); ok && (bo.Op == token.EQL || bo.Op == token.NEQ) {
		x, y := bo.X, bo.Y
		if s, isS := constString(x); isS && s == "" {
			x, y = y, x
		}
		if s, isS := constString(y); isS && s == "" && (bo.Op == token.NEQ) == g.Pol {
			return x, true
		}
	}
	return nonEmptyFact(g)
}
