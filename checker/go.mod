module klogsa

go 1.24

require golang.org/x/tools v0.29.0

require (
	golang.org/x/mod v0.22.0 // indirect
	golang.org/x/sync v0.10.0 // indirect
)
