package main

// Rules added after the fifth seeding round.

import (
	"fmt"
	"go/token"
	"go/types"
	"regexp"
	"sort"
	"strings"

	"golang.org/x/tools/go/ssa"
)

// P16-zerosign — the sign written in front of a zero duration (`-0m`, `+0h`) is part of its
// notation and has no other home than DurationFormat.ZeroSign: the parser records it exactly
// when the value is zero (hours AND minutes) and a sign was written, whatever parts the zero is
// spelled with; ToString writes it back exactly for a zero value.
func ruleP16ZeroSign(p *Prog, r *Report) {
	const rule = "P16-zerosign"
	f := p.fn("klog", "NewDurationFromString")
	ts := p.method("klog", "duration", "ToString")
	if !r.anchorFn(rule, f, "klog.NewDurationFromString") || !r.anchorFn(rule, ts, "klog.duration.ToString") {
		return
	}
	// the constructor call: sign*hours, sign*minutes
	var ctor ssa.CallInstruction
	var ctors []ssa.CallInstruction
	eachInstr(f, func(in ssa.Instruction) {
		if c, ok := in.(ssa.CallInstruction); ok {
			if g := staticCallee(c); g != nil && fnBase(g) == "NewDurationWithFormat" {
				ctor = c
				ctors = append(ctors, c)
			}
		}
	})
	var stores []*ssa.Store
	eachInstr(f, func(in ssa.Instruction) {
		if st, ok := in.(*ssa.Store); ok {
			if fa, ok := st.Addr.(*ssa.FieldAddr); ok && fieldName(fa) == "ZeroSign" {
				stores = append(stores, st)
			}
		}
	})
	if ctor == nil || len(ctor.Common().Args) < 2 {
		r.undecided(rule, "parse:ctor", p.pos(f.Pos()), "NewDurationFromString does not end in NewDurationWithFormat(sign*h, sign*m, format)")
		return
	}
	if len(stores) != 1 {
		r.bad(rule, "parse:recorded", p.pos(f.Pos()), "expected one place where NewDurationFromString records the sign of a zero (found %d): a signed zero would be printed without (or with another) sign", len(stores))
		return
	}
	st := stores[0]
	factors := func(v ssa.Value) (a, b ssa.Value) {
		if bo, ok := strip(v).(*ssa.BinOp); ok && bo.Op == token.MUL {
			return bo.X, bo.Y
		}
		return nil, nil
	}
	pick := func(v ssa.Value) (sign, amount ssa.Value) {
		a, b := factors(v)
		if a == nil {
			return nil, nil
		}
		if sameValue(a, st.Val) {
			return a, b
		}
		if sameValue(b, st.Val) {
			return b, a
		}
		return nil, nil
	}
	_, hours := pick(ctor.Common().Args[0])
	_, mins := pick(ctor.Common().Args[1])
	if hours == nil || mins == nil {
		r.bad(rule, "parse:value", p.instrPos(st), "the zero sign recorded is not the sign the hours and minutes are multiplied with")
		return
	}
	r.ok(rule, "parse:value", p.instrPos(st), "the sign recorded is the sign applied to hours and minutes")
	// every value handed out has been through that decision: no constructor call on a path that
	// goes round it (an early return for one of the spellings)
	for i, c2 := range ctors {
		if c2 == ctor {
			continue
		}
		r.bad(rule, fmt.Sprintf("parse:every-path#%d", i), p.instrPos(c2), "a duration is also constructed here, on a path that does not pass the place where the sign of a zero is recorded (%s): a signed zero in that spelling loses its sign", p.instrPos(st))
	}
	// the conditions of the store, beyond those of the constructor call
	common := map[string]bool{}
	for _, g := range guardsOf(ctor.Block()) {
		common[fmt.Sprintf("%p/%v", g.Cond, g.Pol)] = true
	}
	same := func(x, target ssa.Value) bool {
		return x == target || plainSame(x, target)
	}
	atomSet := map[string]bool{}
	for _, g := range guardsOf(st.Block()) {
		if common[fmt.Sprintf("%p/%v", g.Cond, g.Pol)] {
			continue
		}
		if ph, isPhi := g.Cond.(*ssa.Phi); isPhi {
			// the value of `a && b`: its conjuncts are in the list as well
			var alts [][]Guard
			var okA bool
			if g.Pol {
				alts, okA = truthAlts(ph, 0)
			} else {
				alts, okA = falseAlts(ph, 0)
			}
			if okA && len(alts) == 1 {
				continue
			}
		}
		atom := "?" + g.Cond.String()
		if bo, ok := g.Cond.(*ssa.BinOp); ok && (bo.Op == token.EQL || bo.Op == token.NEQ) {
			x, y := bo.X, bo.Y
			if _, isK := constInt(x); isK {
				x, y = y, x
			}
			if k, isK := constInt(y); isK && k == 0 && (bo.Op == token.EQL) == g.Pol {
				switch {
				case same(x, hours):
					atom = "hours==0"
				case same(x, mins):
					atom = "minutes==0"
				case !same(hours, mins) && sameValue(x, hours) && !sameValue(x, mins):
					atom = "hours==0"
				case !same(hours, mins) && sameValue(x, mins) && !sameValue(x, hours):
					atom = "minutes==0"
				}
			}
		}
		if x, isEmpty, isG := emptyGuard(g); isG && !isEmpty {
			if _, grp, ok := p.patternOfMatch(x); ok && grp == 1 {
				atom = "sign-written"
			}
		}
		atomSet[atom] = true
	}
	atoms := sortedKeys(atomSet)
	sort.Strings(atoms)
	got := strings.Join(atoms, " && ")
	r.check(got == "hours==0 && minutes==0 && sign-written", rule, "parse:when", p.instrPos(st), "recorded iff hours == 0, minutes == 0 and a sign was written", "the sign of a zero duration is recorded when ["+got+"], expected [hours==0 && minutes==0 && sign-written]: some spelling of a signed zero (-0h, +0h0m, -0m) loses its sign when printed, or a non-zero value is marked")

	// ToString: for a zero value the sign comes from ZeroSign (< 0 -> "-", > 0 -> "+")
	type strRow struct {
		s      string
		ok     bool
		guards []Guard
	}
	var texts func(v ssa.Value, depth int) []strRow
	texts = func(v ssa.Value, depth int) []strRow {
		if s, isS := constString(v); isS {
			return []strRow{{s: s, ok: true}}
		}
		if depth > 5 {
			return []strRow{{}}
		}
		if b, ok := strip(v).(*ssa.BinOp); ok && b.Op == token.ADD {
			var out []strRow
			for _, l := range texts(b.X, depth+1) {
				for _, r2 := range texts(b.Y, depth+1) {
					out = append(out, strRow{l.s + r2.s, l.ok && r2.ok, append(append([]Guard{}, l.guards...), r2.guards...)})
				}
			}
			return out
		}
		rows := valueRows(v, 0, map[ssa.Value]bool{})
		if len(rows) == 1 && strip(rows[0].val) == strip(v) {
			return []strRow{{}}
		}
		var out []strRow
		for _, rw := range rows {
			for _, t := range texts(rw.val, depth+1) {
				out = append(out, strRow{t.s, t.ok, append(append([]Guard{}, rw.guards...), t.guards...)})
			}
		}
		return out
	}
	nZero := 0
	var zeroAt *ssa.Return
	seen := map[string]string{}
	okPrint := true
	for _, ret := range returnsOf(ts) {
		isZero := false
		for _, g := range guardsOf(ret.Block()) {
			if bo, ok := g.Cond.(*ssa.BinOp); ok && bo.Op == token.EQL && g.Pol {
				if _, fld := fieldLoad(bo.X); fld == "minutes" {
					if k, isK := constInt(bo.Y); isK && k == 0 {
						isZero = true
					}
				}
			}
		}
		if !isZero {
			continue
		}
		nZero++
		zeroAt = ret
		for _, t := range texts(retResult(ret, 0), 0) {
			ops := ""
			// rows of a shared sign helper that belong to non-zero values cannot occur here
			signs := map[string]bool{"neg": true, "zero": true, "pos": true}
			for _, g := range append(append([]Guard{}, t.guards...), guardsOf(ret.Block())...) {
				bo, ok := g.Cond.(*ssa.BinOp)
				if !ok {
					continue
				}
				if _, fld := fieldLoad(bo.X); fld != "minutes" {
					continue
				}
				if k, isK := constInt(bo.Y); !isK || k != 0 {
					continue
				}
				op := bo.Op
				if !g.Pol {
					op = map[token.Token]token.Token{token.LSS: token.GEQ, token.GTR: token.LEQ, token.GEQ: token.LSS, token.LEQ: token.GTR, token.EQL: token.NEQ, token.NEQ: token.EQL}[op]
				}
				allowed := map[token.Token][]string{token.LSS: {"neg"}, token.GTR: {"pos"}, token.EQL: {"zero"}, token.NEQ: {"neg", "pos"}, token.LEQ: {"neg", "zero"}, token.GEQ: {"zero", "pos"}}[op]
				keep := map[string]bool{}
				for _, a := range allowed {
					if signs[a] {
						keep[a] = true
					}
				}
				signs = keep
			}
			if !signs["zero"] {
				continue
			}
			for _, g := range append(append([]Guard{}, t.guards...), guardsOf(ret.Block())...) {
				bo, ok := g.Cond.(*ssa.BinOp)
				if !ok {
					continue
				}
				if _, fld := fieldLoad(bo.X); fld != "ZeroSign" {
					continue
				}
				if k, isK := constInt(bo.Y); !isK || k != 0 {
					continue
				}
				op := bo.Op
				if !g.Pol {
					op = map[token.Token]token.Token{token.LSS: token.GEQ, token.GTR: token.LEQ, token.GEQ: token.LSS, token.LEQ: token.GTR, token.EQL: token.NEQ, token.NEQ: token.EQL}[op]
				}
				ops += " " + op.String() + " "
			}
			if !t.ok {
				okPrint = false
				seen["?"] = "not a constant text"
				continue
			}
			seen[t.s] = ops
			neg, pos := strings.Contains(ops, " < "), strings.Contains(ops, " > ")
			switch t.s {
			case "-0m":
				okPrint = okPrint && neg
			case "+0m":
				okPrint = okPrint && pos
			case "0m":
				okPrint = okPrint && !neg && !pos && !strings.Contains(ops, " != ")
			default:
				okPrint = false
			}
		}
	}
	if nZero == 0 {
		r.undecided(rule, "print:zero", p.pos(ts.Pos()), "ToString has no return for the zero value")
		return
	}
	_, hasNeg := seen["-0m"]
	_, hasPos := seen["+0m"]
	_, hasNone := seen["0m"]
	r.check(okPrint && hasNeg && hasPos && hasNone, rule, "print:zero", p.instrPos(zeroAt), "a zero is printed as 0m with '-' for ZeroSign < 0 and '+' for ZeroSign > 0", fmt.Sprintf("the zero value is not printed with the recorded sign (texts by condition on ZeroSign: %v)", seen))
}

// dateAsGoTime: v is a time.Time built from the klog date `self` and nothing else — through
// date2Civil(self).In(loc) or time.Date(self.Year(), self.Month(), self.Day(), 0, …).
func dateAsGoTime(v ssa.Value, self ssa.Value) bool {
	was := ht.enabled
	ht.enabled = false // follow the calls themselves, not what a conversion helper builds
	defer func() { ht.enabled = was }()
	for hops := 0; hops < 6 && v != nil; hops++ {
		c, _ := callOf(v)
		if c == nil || len(c.Common().Args) == 0 {
			return false
		}
		if g := staticCallee(c); g != nil && g.String() == "time.Date" {
			return dateFieldsOfOne(c.Common().Args) && dateFieldBase(c.Common().Args[0]) == self
		}
		v = c.Common().Args[0]
		if sameValue(v, self) || strip(v) == self {
			return true
		}
	}
	return false
}

// P15-weekday — the weekday of a date is the one Go's calendar gives for that very day, with
// Sunday counted as 7 (Monday = 1 … Sunday = 7): the only arithmetic on time.Weekday() is that
// renumbering, which is written either as "0 becomes 7" or as (w+6)%7+1.
func ruleP15Weekday(p *Prog, r *Report) {
	const rule = "P15-weekday"
	f := p.method("klog", "date", "Weekday")
	if !r.anchorFn(rule, f, "klog.(*date).Weekday") {
		return
	}
	self := ssa.Value(f.Params[0])
	isGoWeekday := func(v ssa.Value) bool {
		v = strip(v)
		if cv, ok := v.(*ssa.Convert); ok {
			v = strip(cv.X)
		}
		c, idx := callOf(v)
		if c == nil || idx != 0 || staticCallee(c) == nil || staticCallee(c).String() != "(time.Time).Weekday" {
			return false
		}
		return dateAsGoTime(c.Common().Args[0], self)
	}
	n := 0
	for i, ret := range returnsOf(f) {
		key := fmt.Sprintf("return#%d", i)
		for j, rw := range valueRows(retResult(ret, 0), 0, map[ssa.Value]bool{}) {
			n++
			k2 := fmt.Sprintf("%s:row#%d", key, j)
			pos := p.instrPos(ret)
			guards := append(append([]Guard{}, rw.guards...), guardsOf(ret.Block())...)
			// what is known about the Go weekday on this row: == 0 or != 0
			isZero, known := false, false
			for _, g := range guards {
				bo, ok := g.Cond.(*ssa.BinOp)
				if !ok || (bo.Op != token.EQL && bo.Op != token.NEQ) || !isGoWeekday(bo.X) {
					continue
				}
				if k, isK := constInt(bo.Y); isK && k == 0 {
					isZero, known = (bo.Op == token.EQL) == g.Pol, true
				}
			}
			val := strip(rw.val)
			switch {
			case known && isZero:
				k, isK := constInt(val)
				r.check(isK && k == 7, rule, k2, pos, "Sunday (Go: 0) is day 7", "Sunday is not numbered 7")
			case known && !isZero:
				r.check(isGoWeekday(val), rule, k2, pos, "Monday..Saturday keep Go's number 1..6", "the weekday of a day other than Sunday is not Go's weekday number of that date")
			default:
				// (w+6)%7+1
				ok := false
				if a1, isB := val.(*ssa.BinOp); isB && a1.Op == token.ADD {
					if c1, isK := constInt(a1.Y); isK && c1 == 1 {
						if rem, isR := strip(a1.X).(*ssa.BinOp); isR && rem.Op == token.REM {
							if c7, isK := constInt(rem.Y); isK && c7 == 7 {
								if a2, isA := strip(rem.X).(*ssa.BinOp); isA && a2.Op == token.ADD {
									if c6, isK := constInt(a2.Y); isK && c6 == 6 && isGoWeekday(a2.X) {
										ok = true
									}
								}
							}
						}
					}
				}
				r.check(ok, rule, k2, pos, "weekday = (Go weekday + 6) % 7 + 1", "Weekday() is not Go's weekday of that date renumbered Monday=1…Sunday=7 (it is computed as "+val.String()+"): weeks, week periods and day names are off for some dates")
			}
		}
	}
	if n < 1 {
		r.undecided(rule, "floor", p.pos(f.Pos()), "no return value of Weekday() found")
	}
}

// P07-lazy-linenumbers — while a block is being parsed its place in the file is not known yet:
// the parallel engine parses blocks with a numbering relative to their batch and renumbers them
// after the merge (P07-renumber). Errors therefore keep the block and a line index and compute
// the file-global number on demand (txt.err.LineNumber). Nothing reachable from the block parser
// (parser.parse, the ParseOne of both engines) reads the block's global position — a number
// baked into a message at parse time differs between the engines.
func ruleP07LazyLineNumbers(p *Prog, r *Report) {
	const rule = "P07-lazy-linenumbers"
	parse := p.fn("klog/parser", "parse")
	if !r.anchorFn(rule, parse, "parser.parse") {
		return
	}
	seen := map[*ssa.Function]bool{}
	var order []*ssa.Function
	var visit func(f *ssa.Function, depth int)
	visit = func(f *ssa.Function, depth int) {
		if f == nil || seen[f] || len(f.Blocks) == 0 || !p.inMod(f) || depth > 8 {
			return
		}
		seen[f] = true
		order = append(order, f)
		for _, a := range f.AnonFuncs {
			visit(a, depth+1)
		}
		eachInstr(f, func(in ssa.Instruction) {
			if c, ok := in.(ssa.CallInstruction); ok {
				if g := rawStaticCallee(c); g != nil {
					visit(g, depth+1)
				}
			}
		})
	}
	visit(parse, 0)
	bad := ""
	for _, f := range order {
		eachInstr(f, func(in ssa.Instruction) {
			switch x := in.(type) {
			case ssa.CallInstruction:
				name := ""
				if x.Common().IsInvoke() {
					name = x.Common().Method.Name()
				} else if g := rawStaticCallee(x); g != nil {
					name = fnBase(g)
				}
				if name == "OverallLineIndex" {
					bad = fnName(f) + " calls OverallLineIndex at " + p.instrPos(x)
				}
				// LineNumber() of an error that was just made is the same read
				if name == "LineNumber" && x.Common().IsInvoke() && typeNameOf(x.Common().Value.Type()) == "Error" {
					bad = fnName(f) + " calls Error.LineNumber at " + p.instrPos(x)
				}
			case *ssa.FieldAddr:
				if fieldName(x) == "precedingLineCount" && fnBase(f) != "ParseBlock" {
					for _, ref := range *x.Referrers() {
						if u, isU := ref.(*ssa.UnOp); isU && u.Op == token.MUL {
							bad = fnName(f) + " reads precedingLineCount at " + p.instrPos(u)
						}
					}
				}
			}
		})
	}
	r.check(bad == "", rule, "parse-time", p.pos(parse.Pos()), fmt.Sprintf("none of the %d functions reachable from the block parser reads a block's global line position", len(order)), "the block parser reads a file-global line position while parsing ("+bad+"): under the parallel engine blocks are renumbered only after the merge, so the number differs from the serial parser's")
	if len(order) < 10 {
		r.undecided(rule, "floor", p.pos(parse.Pos()), "only %d functions reachable from parser.parse", len(order))
	}
}

// P11-directive-arg — how a command's date or time is to be written (as given, in the configured
// notation, or in the file's own style) is decided in one place, the DateFormat / TimeFormat
// methods of the argument structs (P11-reformat checks them). Every reformat directive a command
// hands to a reconciler is, on every path, the answer of those methods — a command never makes
// up a directive of its own for some special case.
func ruleP11DirectiveArg(p *Prog, r *Report) {
	const rule = "P11-directive-arg"
	n := 0
	for _, f := range p.srcFns {
		if pkgPathOfFn(f) != modPath+"/klog/app/cli" {
			continue
		}
		idx := 0
		eachInstr(f, func(in ssa.Instruction) {
			c, ok := in.(ssa.CallInstruction)
			if !ok {
				return
			}
			for _, a := range c.Common().Args {
				if !strings.HasPrefix(typeNameOf(a.Type()), "ReformatDirective") {
					continue
				}
				n++
				idx++
				key := fmt.Sprintf("%s:%s#%d", fnName(outermost(f)), calleeName(c), idx)
				bad := ""
				for _, rw := range valueRows(a, 0, map[ssa.Value]bool{}) {
					dc, di := callOf(strip(rw.val))
					g := staticCalleeOrNil(dc)
					if dc == nil || di != 0 || g == nil || pkgPathOfFn(g) != modPath+"/klog/app/cli/util" || (fnBase(g) != "TimeFormat" && fnBase(g) != "DateFormat") {
						bad = "a directive that is " + describeValue(rw.val)
						if rw.at != nil {
							bad += " (" + p.instrPos(rw.at) + ")"
						}
					}
				}
				r.check(bad == "", rule, key, p.instrPos(c), "the directive is the argument struct's DateFormat/TimeFormat answer on every path", "the value is written with "+bad+" instead of the DateFormat/TimeFormat answer of the command's arguments: on that path the inserted date/time ignores the configured notation and the style of the file")
			}
		})
	}
	if n < 6 {
		r.undecided(rule, "floor", "-", "found %d reformat directives passed by commands, expected at least 6", n)
	}
}

func describeValue(v ssa.Value) string {
	if c, _ := callOf(strip(v)); c != nil {
		return "the result of " + calleeName(c)
	}
	return v.String()
}

func init() {
	extend("C16", "(P16-zerosign) the sign written in front of a zero duration is recorded exactly for zero values with a written sign, and printed back from that record.", ruleP16ZeroSign)
	extend("C09", "(P16-zerosign) as under C16: a signed zero keeps its sign through print.", ruleP16ZeroSign)
	extend("C15", "(P15-weekday) Weekday() is Go's weekday of that very date, renumbered Monday=1…Sunday=7 and nothing else.", ruleP15Weekday)
	extend("C07", "(P07-lazy-linenumbers) nothing reachable from the block parser reads a block's file-global line position (it is final only after the parallel merge); errors compute their line number on demand.", ruleP07LazyLineNumbers)
	extend("C03", "(P05-write-result) as under C05: the file is replaced by exactly the reconciled text (opened with truncation, every write failure reported) — leftover bytes of the old contents would be lines the command never meant to touch.", ruleP05WriteResult)
	extend("C04", "(P05-write-result) as under C05: what the next command of a history reads is exactly what this one computed.", ruleP05WriteResult)
	extend("C05", "(P06-shape / P01-norecord) the parse result the two C05 guards test is trustworthy: the error flag of the serial engine is a latch raised by ANY block with errors, and errors are returned without records.", ruleP06Shape)
	extend("C06", "(P10-accessors) an error's accessors read the line list the parser's index refers to (block.Lines()), so rendering an error cannot index out of range.", ruleP10Accessors)
	extend("C08", "(P07-tail) a worker never treats the last block of its batch as finished, so trailing blank lines are not attributed to another block or dropped.", ruleP07Tail)
	extend("C10", "(P08-io-verbatim) the text that is parsed is the text as given (file or stdin): line numbers and columns refer to the user's text, not to a trimmed or normalised copy.", ruleP08IoVerbatim)
	extend("C20", "(P14-lang) the tag notation in the JSON output (Tag.ToString) quotes a value exactly when the tag pattern could not read it back unquoted.", ruleP14Lang)
	extend("C09", "(P07-head, P07-tail) what print prints is what the engine in use (parallel whenever more than one CPU is reported) read: the block at a batch boundary is carried whole to the merge step.", ruleP07Head, ruleP07Tail)
	extend("C03", "(P04-pause-selector) the line ExtendPause rewrites belongs to a duration entry: ranges (of zero length) and the open range never qualify as the pause.", ruleP04PauseSelector)
	extend("C04", "(P04-pause-selector) as under C03.", ruleP04PauseSelector)
	extend("C01", "(P01-shouldtotal-set) the should-total a record keeps has exactly the minutes of the one the parser read.", ruleP01ShouldTotalSet)
	extend("C02", "(P01-shouldtotal-set) as under C01: should-total and diff are computed from the value that was written.", ruleP01ShouldTotalSet)
	extend("C19", "(P19-resolve retriever:bookmarks) the collection a FileRetriever resolves against is what ReadBookmarks returned, on every path.", ruleP19RetrieverBookmarks)
	extend("C09", "(P01-delims) print reads the file with the parser's token delimiters: a valid headline or entry cut at another character is rejected or read differently.", ruleP01Delims)
	extend("C18", "(P18-no-measure-styled) a text that already carries escape sequences never reaches len(), a rune count, a fmt verb with a width or the line wrapper.", ruleP18NoMeasureStyled)
	extend("C15", "(P15-week-reference) the reference day from which a week pattern is resolved lies in the ISO week-year of its calendar year in every year (Jan 4th .. Dec 28th).", ruleP15WeekReference)
	extend("C07", "(P07-mapparse-complete) the block loop shared by both engines ends only when no further block is found.", ruleP07MapParseComplete)
	extend("C01", "(P08-split) a line ending is exactly one \\n or \\r\\n: stray carriage returns stay part of the text (and make it invalid where the format says so).", ruleP08Split)
	extend("C02", "(P12-today) `today` accounts for every record of the file in exactly one of its two groups, so its total, should-total and diff are those of the file.", ruleP12Today)
	extend("C09", "(P08-io-verbatim) print parses the text as given (file or stdin), not a trimmed copy.", ruleP08IoVerbatim)
	extend("C10", "(P06-runewidth) the block cutter advances by the bytes actually consumed, so a faulty last line that ends in an invalid byte is not dropped (and its error not lost).", ruleP06RuneWidth)
	extend("C11", "(P16-ampm) a time generated in the 12-hour notation is written as the am/pm literal that reads back to the same time (otherwise the re-parse safeguard refuses the edit).", ruleP16AmPm)
	extend("C20", "(P16-ampm, P13-reduce) the start/end notation in the JSON output is Time.ToString; under a tag or entry-type filter a record keeps its should-total.", ruleP16AmPm, ruleP13Reduce)
	extend("C14", "(P13-translate) every --tag argument reaches the query, as given (same name with different values are different filters).", ruleP13Translate)
	extend("C11", "(P11-directive-arg) every reformat directive a command passes to a reconciler is, on every path, the DateFormat/TimeFormat answer of its argument struct.", ruleP11DirectiveArg)
}

// P01-shouldtotal-set — the should-total a record keeps is the one it was given: SetShouldTotal
// stores a should-total of exactly t.InMinutes() minutes (however it splits them into the two
// arguments of the constructor, 60*h + m must be that number).
func ruleP01ShouldTotalSet(p *Prog, r *Report) {
	const rule = "P01-shouldtotal-set"
	f := p.method("klog", "record", "SetShouldTotal")
	if !r.anchorFn(rule, f, "klog.(*record).SetShouldTotal") {
		return
	}
	n := 0
	eachInstr(f, func(in ssa.Instruction) {
		st, ok := in.(*ssa.Store)
		if !ok {
			return
		}
		fa, ok := st.Addr.(*ssa.FieldAddr)
		if !ok || fieldName(fa) != "shouldTotal" {
			return
		}
		n++
		key := fmt.Sprintf("stored#%d", n)
		v := strip(st.Val)
		if mi, isMI := v.(*ssa.MakeInterface); isMI {
			v = strip(mi.X)
		}
		// the duration itself (ShouldTotal is a Duration)
		if v == ssa.Value(f.Params[1]) {
			r.ok(rule, key, p.instrPos(st), "keeps the duration it was given")
			return
		}
		pl, isCtor := p.durationMinutes(v)
		if !isCtor {
			r.bad(rule, key, p.instrPos(st), "the should-total stored is neither the duration given nor built from it with a duration constructor")
			return
		}
		okVal := pl.C == 0 && len(pl.Terms) == 1
		for k, coef := range pl.Terms {
			nm, recv, _, _ := methodCall(pl.leafV[k])
			if coef != 1 || nm != "InMinutes" || recv == nil || strip(recv) != ssa.Value(f.Params[1]) {
				okVal = false
			}
		}
		r.check(okVal, rule, key, p.instrPos(st), "stores a should-total of exactly t.InMinutes() minutes", "the should-total stored has 60*h+m = "+pl.String()+" minutes, not t.InMinutes(): some should-totals (negative ones with a minute part, say) are kept with another value")
	})
	if n == 0 {
		r.undecided(rule, "stored", p.pos(f.Pos()), "SetShouldTotal does not store a should-total")
	}
}

// P19-resolve (retriever:bookmarks) — `@name` arguments and the no-argument default are resolved
// against the bookmark database as it is on disk: the collection a FileRetriever is built with
// is, on every path, what ReadBookmarks returned — never an empty stand-in chosen by a guess
// about which arguments will need it (the retriever has its own idea of a blank argument).
func ruleP19RetrieverBookmarks(p *Prog, r *Report) {
	const rule = "P19-resolve"
	n := 0
	for _, f := range p.srcFns {
		if pkgPathOfFn(f) != modPath+"/klog/app" {
			continue
		}
		idx := 0
		eachInstr(f, func(in ssa.Instruction) {
			st, ok := in.(*ssa.Store)
			if !ok {
				return
			}
			fa, ok := st.Addr.(*ssa.FieldAddr)
			if !ok || fieldName(fa) != "bookmarks" || typeNameOf(derefType(fa.X.Type())) != "FileRetriever" {
				return
			}
			n++
			idx++
			key := fmt.Sprintf("retriever:bookmarks:%s#%d", fnName(outermost(f)), idx)
			bad := ""
			for _, rw := range valueRows(st.Val, 0, map[ssa.Value]bool{}) {
				c, ci := callOf(strip(rw.val))
				if c == nil || ci != 0 || !p.isBookmarkRead(c) {
					bad = describeValue(rw.val)
					if rw.at != nil {
						bad += " (" + p.instrPos(rw.at) + ")"
					}
				}
			}
			r.check(bad == "", rule, key, p.instrPos(st), "the retriever resolves against the collection read from the database", "the file retriever is given "+bad+" instead of the collection read from the bookmark database: on that path `@name` and the default bookmark do not resolve although they are set")
		})
	}
	if n < 2 {
		r.undecided(rule, "retriever:bookmarks:floor", "-", "expected FileRetriever constructions in ReadInputs and RetrieveTargetFile, found %d", n)
	}
}

// P18-no-measure-styled — a text that already carries escape sequences is never measured, padded
// to a width or wrapped: its length in bytes or runes is not the number of visible characters.
// Taint: the results of Styler.Format / FormatAndRestore and of every module function that
// returns such a text, through concatenation, phis and local variables. Sinks: len(),
// utf8.RuneCount*, a fmt verb with a width (`%*s`, `%-12s`), and the line wrapper
// (Reflower.Reflow). StripAllAnsiSequences removes the taint.
func ruleP18NoMeasureStyled(p *Prog, r *Report) {
	const rule = "P18-no-measure-styled"
	isStringish := func(t types.Type) bool {
		bt, ok := t.Underlying().(*types.Basic)
		return ok && bt.Info()&types.IsString != 0
	}
	styledFn := map[*ssa.Function]bool{}
	for _, n := range []string{"Format", "FormatAndRestore"} {
		if m := p.method("klog/app/cli/terminalformat", "Styler", n); m != nil {
			styledFn[originFn(m)] = true
		}
	}
	if len(styledFn) < 2 {
		r.undecided(rule, "sources", "-", "Styler.Format / FormatAndRestore not found")
		return
	}
	var inScope []*ssa.Function
	for _, f := range p.srcFns {
		if strings.HasPrefix(pkgPathOfFn(f), modPath+"/klog/app") {
			inScope = append(inScope, f)
		}
	}
	var tainted func(v ssa.Value, depth int, seen map[ssa.Value]bool) bool
	tainted = func(v ssa.Value, depth int, seen map[ssa.Value]bool) bool {
		if v == nil || depth > 12 || seen[v] {
			return false
		}
		seen[v] = true
		switch x := v.(type) {
		case *ssa.Call:
			g := rawStaticCallee(x)
			if g != nil && fnBase(g) == "StripAllAnsiSequences" {
				return false
			}
			if g != nil && styledFn[originFn(g)] {
				return true
			}
			if x.Call.IsInvoke() && (x.Call.Method.Name() == "Format" || x.Call.Method.Name() == "FormatAndRestore") && typeNameOf(x.Call.Value.Type()) == "Styler" {
				return true
			}
			if g != nil && g.Pkg != nil && g.Pkg.Pkg.Path() == "strings" {
				switch g.Name() {
				case "Repeat", "TrimSpace", "TrimRight", "TrimLeft", "ToUpper", "ToLower", "Join", "Replace", "ReplaceAll":
					for _, a := range x.Call.Args {
						if tainted(a, depth+1, seen) {
							return true
						}
					}
				}
			}
			if g != nil && g.String() == "fmt.Sprintf" {
				for _, a := range x.Call.Args[1:] {
					if tainted(a, depth+1, seen) {
						return true
					}
				}
			}
			return false
		case *ssa.BinOp:
			if x.Op == token.ADD && isStringish(x.Type()) {
				return tainted(x.X, depth+1, seen) || tainted(x.Y, depth+1, seen)
			}
		case *ssa.Phi:
			for _, e := range x.Edges {
				if tainted(e, depth+1, seen) {
					return true
				}
			}
		case *ssa.UnOp:
			if x.Op == token.MUL {
				if cell := cellOf(x.X); cell != nil {
					for _, s := range storesTo(cell) {
						if tainted(s.val, depth+1, seen) {
							return true
						}
					}
				}
			}
		case *ssa.MakeInterface:
			return tainted(x.X, depth+1, seen)
		case *ssa.Slice:
			// the variadic argument list of fmt functions
			if al, ok := x.X.(*ssa.Alloc); ok {
				for _, ref := range *al.Referrers() {
					if ia, ok := ref.(*ssa.IndexAddr); ok {
						for _, r2 := range *ia.Referrers() {
							if st, ok := r2.(*ssa.Store); ok && tainted(st.Val, depth+1, seen) {
								return true
							}
						}
					}
				}
			}
		case *ssa.Extract:
			return false
		}
		return false
	}
	// functions that return a styled text (fixpoint)
	for changed, round := true, 0; changed && round < 8; round++ {
		changed = false
		for _, f := range inScope {
			if styledFn[originFn(f)] || f.Signature.Results().Len() != 1 || !isStringish(f.Signature.Results().At(0).Type()) {
				continue
			}
			for _, ret := range plainReturnsOf(f) {
				if tainted(ret.Results[0], 0, map[ssa.Value]bool{}) {
					styledFn[originFn(f)] = true
					changed = true
					break
				}
			}
		}
	}
	widthVerb := regexp.MustCompile(`%[-+# 0]*(\*|[1-9][0-9]*)(\.[0-9]+)?[sqvx]`)
	n := 0
	for _, f := range inScope {
		idx := 0
		eachInstr(f, func(in ssa.Instruction) {
			c, ok := in.(ssa.CallInstruction)
			if !ok {
				return
			}
			what := ""
			var args []ssa.Value
			if b, isB := c.Common().Value.(*ssa.Builtin); isB && b.Name() == "len" && isStringish(c.Common().Args[0].Type()) {
				what, args = "len()", c.Common().Args
			} else if g := rawStaticCallee(c); g != nil {
				switch {
				case g.String() == "unicode/utf8.RuneCountInString":
					what, args = "utf8.RuneCountInString", c.Common().Args
				case g.String() == "fmt.Sprintf" || g.String() == "fmt.Fprintf" || g.String() == "fmt.Printf":
					fi := 0
					if g.Name() == "Fprintf" {
						fi = 1
					}
					if fs, isS := constString(c.Common().Args[fi]); isS && widthVerb.MatchString(fs) {
						what, args = "a fmt verb with a width ("+fs+")", c.Common().Args[fi+1:]
					}
				case fnBase(g) == "Reflow" && p.inMod(g):
					what, args = "the line wrapper "+calleeName(c), c.Common().Args[1:]
				}
			}
			if what == "" {
				return
			}
			n++
			idx++
			for _, a := range args {
				if tainted(a, 0, map[ssa.Value]bool{}) {
					r.bad(rule, fmt.Sprintf("%s:sink#%d", fnName(f), idx), p.instrPos(c), "a text that already carries escape sequences is handed to %s: its length counts the invisible bytes, so the layout (padding, wrapping) differs between the colour schemes and the unstyled output", what)
					return
				}
			}
		})
	}
	r.ok(rule, "sinks", "-", "%d measuring sites examined, none receives a styled text (%d functions return styled text)", n, len(styledFn))
	if n < 5 {
		r.undecided(rule, "floor", "-", "only %d measuring sites found in klog/app", n)
	}
}

// P15-week-reference — `YYYY-Www` is resolved by walking whole weeks from a reference day of
// the year YYYY and comparing week NUMBERS only. That denotes week ww of the ISO year YYYY only
// if the reference day itself lies in ISO year YYYY in every calendar year, i.e. between
// January 4th and December 28th (January 1st-3rd may belong to the last week of the previous
// ISO year, December 29th-31st to week 1 of the next).
func ruleP15WeekReference(p *Prog, r *Report) {
	const rule = "P15-week-reference"
	f := p.fn("klog/service/period", "NewWeekFromString")
	nd := p.fn("klog", "NewDate")
	if !r.anchorFn(rule, f, "period.NewWeekFromString") || !r.anchorFn(rule, nd, "klog.NewDate") {
		return
	}
	n := 0
	for _, g := range withAnons(f) {
		for _, c := range callsTo(g, nd) {
			n++
			a := c.Common().Args
			m, mK := constInt(a[1])
			d, dK := constInt(a[2])
			ok := mK && dK && m >= 1 && m <= 12 && d >= 1 && d <= daysInMonthMin[m] && !(m == 1 && d < 4) && !(m == 12 && d > 28)
			r.check(ok, rule, fmt.Sprintf("reference#%d", n), p.instrPos(c), fmt.Sprintf("the reference day (month %d, day %d) lies in the ISO year of its calendar year in every year", m, d), fmt.Sprintf("the reference day of a week pattern (month %s, day %s) does not lie in the ISO week-year YYYY in every year (it must be between January 4th and December 28th): in years in which it belongs to a week of the neighbouring ISO year, YYYY-Www denotes a week of that other year", describeConst(a[1]), describeConst(a[2])))
		}
	}
	if n != 1 {
		r.undecided(rule, "reference", p.pos(f.Pos()), "expected one reference date in NewWeekFromString, found %d", n)
	}
}

// P07-mapparse-complete — mapParse (the block loop both engines are built on) goes through the
// whole text it is given: the only way out of its loop is that ParseBlock found no further block.
// Any other way out (a limit on errors, on blocks, on time) makes the result depend on how the
// text was divided among calls — the parallel engine calls mapParse once per batch and once per
// carried piece, the serial engine once.
func ruleP07MapParseComplete(p *Prog, r *Report) {
	const rule = "P07-mapparse-complete"
	mp := p.method("klog/parser/engine", "SerialParser", "mapParse")
	if !r.anchorFn(rule, mp, "engine.SerialParser.mapParse") {
		return
	}
	checked := 0
	for _, f := range []*ssa.Function{mp, originFn(mp)} {
		if f == nil || len(f.Blocks) == 0 {
			continue
		}
		var pb ssa.CallInstruction
		eachInstr(f, func(in ssa.Instruction) {
			if c, ok := in.(ssa.CallInstruction); ok {
				if g := staticCallee(c); g != nil && fnBase(g) == "ParseBlock" {
					pb = c
				}
			}
		})
		if pb == nil || !inLoopBlock(pb.Block()) {
			continue
		}
		checked++
		// the loop: blocks that can reach the ParseBlock call again
		inLoop := map[*ssa.BasicBlock]bool{}
		for _, b := range f.Blocks {
			if (b == pb.Block() || reachableFrom(pb.Block(), nil)[b]) && reachableFrom(b, nil)[pb.Block()] {
				inLoop[b] = true
			}
		}
		blockV, bytesV := resultOf(pb, 0), resultOf(pb, 1)
		bad := ""
		for b := range inLoop {
			for si, s := range b.Succs {
				if inLoop[s] {
					continue
				}
				// an exit edge: must be the outcome of a test of ParseBlock's results only
				iff, isIf := b.Instrs[len(b.Instrs)-1].(*ssa.If)
				okExit := false
				if isIf {
					okExit = true
					for _, g := range flattenCond(iff.Cond, si == 0, iff) {
						about := false
						if x, isNil, isG := nilFact(g); isG && isNil && blockV != nil && sameValue(x, blockV) {
							about = true
						}
						if bo, isB := g.Cond.(*ssa.BinOp); isB && bytesV != nil && (sameValue(bo.X, bytesV) || sameValue(bo.Y, bytesV)) {
							about = true
						}
						if !about {
							okExit = false
						}
					}
				}
				if !okExit {
					bad = p.instrPos(b.Instrs[len(b.Instrs)-1])
				}
			}
		}
		r.check(bad == "", rule, "exits:"+fnName(originFn(f)), p.instrPos(pb), "the block loop ends only when ParseBlock finds no further block", "the block loop of mapParse can also be left at "+bad+" for a reason other than 'no further block': text after that point is neither parsed nor returned, and where that point lies depends on how the parallel engine divided the text")
		break
	}
	if checked == 0 {
		r.undecided(rule, "loop", p.pos(mp.Pos()), "the block loop of mapParse (a loop around txt.ParseBlock) was not found")
	}
}
