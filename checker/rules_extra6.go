package main

// Rules added after the fifth seeding round.

import (
	"fmt"
	"go/token"
	"go/types"
	"regexp"
	"sort"
	"strings"

	"golang.org/x/tools/go/ssa"
)

// P16-zerosign — the sign written in front of a zero duration (`-0m`, `+0h`) is part of its
// notation and has no other home than DurationFormat.ZeroSign: the parser records it exactly
// when the value is zero (hours AND minutes) and a sign was written, whatever parts the zero is
// spelled with; ToString writes it back exactly for a zero value.
func ruleP16ZeroSign(p *Prog, r *Report) {
	const rule = "P16-zerosign"
	f := p.fn("klog", "NewDurationFromString")
	ts := p.method("klog", "duration", "ToString")
	if !r.anchorFn(rule, f, "klog.NewDurationFromString") || !r.anchorFn(rule, ts, "klog.duration.ToString") {
		return
	}
	// ToStringWithSign prints the duration's OWN text (its notation included: the recorded sign
	// of a zero, `-0m`), with at most a "+" in front
	if tws := p.method("klog", "duration", "ToStringWithSign"); tws != nil {
		for i, ret := range returnsOf(tws) {
			var leaves []ssa.Value
			concatLeaves(retResult(ret, 0), &leaves, 0)
			okOwn := len(leaves) >= 1 && len(leaves) <= 4
			if okOwn {
				last := leaves[len(leaves)-1]
				c, _ := callOf(strip(last))
				okOwn = c != nil && sameFn(staticCallee(c), ts) && len(c.Common().Args) == 1 && plainDeref(c.Common().Args[0]) == ssa.Value(tws.Params[0])
				if !okOwn && c != nil && sameFn(staticCallee(c), ts) && len(c.Common().Args) == 1 {
					// the receiver is a value: a plain copy of it is the same duration
					if u, isU := c.Common().Args[0].(*ssa.UnOp); isU && u.Op == token.MUL {
						if al, isAl := u.X.(*ssa.Alloc); isAl {
							if sts := storesTo(al); len(sts) == 1 && sts[0].val == ssa.Value(tws.Params[0]) {
								okOwn = true
							}
						}
					}
					if strip(c.Common().Args[0]) == ssa.Value(tws.Params[0]) {
						okOwn = true
					}
				}
				// in front of it: "+", or a prefix variable that is "" or "+"
				for _, l := range leaves[:len(leaves)-1] {
					if sgn, isS := constString(l); !isS || (sgn != "+" && sgn != "") {
						okOwn = false
					}
				}
			}
			r.check(okOwn, rule, fmt.Sprintf("with-sign:own-text#%d", i), p.instrPos(ret), "ToStringWithSign is the duration's own ToString(), at most with a + in front", "ToStringWithSign does not print the duration's own text (ToString of the receiver itself): the notation recorded with the value — the sign of a zero — is lost or replaced")
		}
	}
	// the constructor call: sign*hours, sign*minutes
	var ctor ssa.CallInstruction
	var ctors []ssa.CallInstruction
	eachInstr(f, func(in ssa.Instruction) {
		if c, ok := in.(ssa.CallInstruction); ok {
			if g := staticCallee(c); g != nil && fnBase(g) == "NewDurationWithFormat" {
				ctor = c
				ctors = append(ctors, c)
			}
		}
	})
	var stores []*ssa.Store
	eachInstr(f, func(in ssa.Instruction) {
		if st, ok := in.(*ssa.Store); ok {
			if fa, ok := st.Addr.(*ssa.FieldAddr); ok && fieldName(fa) == "ZeroSign" {
				stores = append(stores, st)
			}
		}
	})
	if ctor == nil || len(ctor.Common().Args) < 2 {
		r.undecided(rule, "parse:ctor", p.pos(f.Pos()), "NewDurationFromString does not end in NewDurationWithFormat(sign*h, sign*m, format)")
		return
	}
	if len(stores) != 1 {
		r.bad(rule, "parse:recorded", p.pos(f.Pos()), "expected one place where NewDurationFromString records the sign of a zero (found %d): a signed zero would be printed without (or with another) sign", len(stores))
		return
	}
	st := stores[0]
	factors := func(v ssa.Value) (a, b ssa.Value) {
		if bo, ok := strip(v).(*ssa.BinOp); ok && bo.Op == token.MUL {
			return bo.X, bo.Y
		}
		return nil, nil
	}
	pick := func(v ssa.Value) (sign, amount ssa.Value) {
		a, b := factors(v)
		if a == nil {
			return nil, nil
		}
		if sameValue(a, st.Val) {
			return a, b
		}
		if sameValue(b, st.Val) {
			return b, a
		}
		return nil, nil
	}
	_, hours := pick(ctor.Common().Args[0])
	_, mins := pick(ctor.Common().Args[1])
	if hours == nil || mins == nil {
		r.bad(rule, "parse:value", p.instrPos(st), "the zero sign recorded is not the sign the hours and minutes are multiplied with")
		return
	}
	r.ok(rule, "parse:value", p.instrPos(st), "the sign recorded is the sign applied to hours and minutes")
	// every value handed out has been through that decision: no constructor call on a path that
	// goes round it (an early return for one of the spellings)
	for i, c2 := range ctors {
		if c2 == ctor {
			continue
		}
		r.bad(rule, fmt.Sprintf("parse:every-path#%d", i), p.instrPos(c2), "a duration is also constructed here, on a path that does not pass the place where the sign of a zero is recorded (%s): a signed zero in that spelling loses its sign", p.instrPos(st))
	}
	// the conditions of the store, beyond those of the constructor call
	common := map[string]bool{}
	for _, g := range guardsOf(ctor.Block()) {
		common[fmt.Sprintf("%p/%v", g.Cond, g.Pol)] = true
	}
	same := func(x, target ssa.Value) bool {
		return x == target || plainSame(x, target)
	}
	atomSet := map[string]bool{}
	for _, g := range guardsOf(st.Block()) {
		if common[fmt.Sprintf("%p/%v", g.Cond, g.Pol)] {
			continue
		}
		if ph, isPhi := g.Cond.(*ssa.Phi); isPhi {
			// the value of `a && b`: its conjuncts are in the list as well
			var alts [][]Guard
			var okA bool
			if g.Pol {
				alts, okA = truthAlts(ph, 0)
			} else {
				alts, okA = falseAlts(ph, 0)
			}
			if okA && len(alts) == 1 {
				continue
			}
		}
		atom := "?" + g.Cond.String()
		if bo, ok := g.Cond.(*ssa.BinOp); ok && (bo.Op == token.EQL || bo.Op == token.NEQ) {
			x, y := bo.X, bo.Y
			if _, isK := constInt(x); isK {
				x, y = y, x
			}
			if k, isK := constInt(y); isK && k == 0 && (bo.Op == token.EQL) == g.Pol {
				switch {
				case same(x, hours):
					atom = "hours==0"
				case same(x, mins):
					atom = "minutes==0"
				case !same(hours, mins) && sameValue(x, hours) && !sameValue(x, mins):
					atom = "hours==0"
				case !same(hours, mins) && sameValue(x, mins) && !sameValue(x, hours):
					atom = "minutes==0"
				}
			}
		}
		if x, isEmpty, isG := emptyGuard(g); isG && !isEmpty {
			if _, grp, ok := p.patternOfMatch(x); ok && grp == 1 {
				atom = "sign-written"
			}
		}
		atomSet[atom] = true
	}
	atoms := sortedKeys(atomSet)
	sort.Strings(atoms)
	got := strings.Join(atoms, " && ")
	r.check(got == "hours==0 && minutes==0 && sign-written", rule, "parse:when", p.instrPos(st), "recorded iff hours == 0, minutes == 0 and a sign was written", "the sign of a zero duration is recorded when ["+got+"], expected [hours==0 && minutes==0 && sign-written]: some spelling of a signed zero (-0h, +0h0m, -0m) loses its sign when printed, or a non-zero value is marked")

	// ToString: for a zero value the sign comes from ZeroSign (< 0 -> "-", > 0 -> "+")
	type strRow struct {
		s      string
		ok     bool
		guards []Guard
	}
	var texts func(v ssa.Value, depth int) []strRow
	texts = func(v ssa.Value, depth int) []strRow {
		if s, isS := constString(v); isS {
			return []strRow{{s: s, ok: true}}
		}
		if depth > 5 {
			return []strRow{{}}
		}
		if b, ok := strip(v).(*ssa.BinOp); ok && b.Op == token.ADD {
			var out []strRow
			for _, l := range texts(b.X, depth+1) {
				for _, r2 := range texts(b.Y, depth+1) {
					out = append(out, strRow{l.s + r2.s, l.ok && r2.ok, append(append([]Guard{}, l.guards...), r2.guards...)})
				}
			}
			return out
		}
		rows := valueRows(v, 0, map[ssa.Value]bool{})
		if len(rows) == 1 && strip(rows[0].val) == strip(v) {
			return []strRow{{}}
		}
		var out []strRow
		for _, rw := range rows {
			for _, t := range texts(rw.val, depth+1) {
				out = append(out, strRow{t.s, t.ok, append(append([]Guard{}, rw.guards...), t.guards...)})
			}
		}
		return out
	}
	nZero := 0
	var zeroAt *ssa.Return
	seen := map[string]string{}
	okPrint := true
	for _, ret := range returnsOf(ts) {
		isZero := false
		for _, g := range guardsOf(ret.Block()) {
			if bo, ok := g.Cond.(*ssa.BinOp); ok && bo.Op == token.EQL && g.Pol {
				if _, fld := fieldLoad(bo.X); fld == "minutes" {
					if k, isK := constInt(bo.Y); isK && k == 0 {
						isZero = true
					}
				}
			}
		}
		if !isZero {
			continue
		}
		nZero++
		zeroAt = ret
		for _, t := range texts(retResult(ret, 0), 0) {
			ops := ""
			// rows of a shared sign helper that belong to non-zero values cannot occur here
			signs := map[string]bool{"neg": true, "zero": true, "pos": true}
			for _, g := range append(append([]Guard{}, t.guards...), guardsOf(ret.Block())...) {
				bo, ok := g.Cond.(*ssa.BinOp)
				if !ok {
					continue
				}
				if _, fld := fieldLoad(bo.X); fld != "minutes" {
					continue
				}
				if k, isK := constInt(bo.Y); !isK || k != 0 {
					continue
				}
				op := bo.Op
				if !g.Pol {
					op = map[token.Token]token.Token{token.LSS: token.GEQ, token.GTR: token.LEQ, token.GEQ: token.LSS, token.LEQ: token.GTR, token.EQL: token.NEQ, token.NEQ: token.EQL}[op]
				}
				allowed := map[token.Token][]string{token.LSS: {"neg"}, token.GTR: {"pos"}, token.EQL: {"zero"}, token.NEQ: {"neg", "pos"}, token.LEQ: {"neg", "zero"}, token.GEQ: {"zero", "pos"}}[op]
				keep := map[string]bool{}
				for _, a := range allowed {
					if signs[a] {
						keep[a] = true
					}
				}
				signs = keep
			}
			if !signs["zero"] {
				continue
			}
			for _, g := range append(append([]Guard{}, t.guards...), guardsOf(ret.Block())...) {
				bo, ok := g.Cond.(*ssa.BinOp)
				if !ok {
					continue
				}
				if _, fld := fieldLoad(bo.X); fld != "ZeroSign" {
					continue
				}
				if k, isK := constInt(bo.Y); !isK || k != 0 {
					continue
				}
				op := bo.Op
				if !g.Pol {
					op = map[token.Token]token.Token{token.LSS: token.GEQ, token.GTR: token.LEQ, token.GEQ: token.LSS, token.LEQ: token.GTR, token.EQL: token.NEQ, token.NEQ: token.EQL}[op]
				}
				ops += " " + op.String() + " "
			}
			if !t.ok {
				okPrint = false
				seen["?"] = "not a constant text"
				continue
			}
			seen[t.s] = ops
			neg, pos := strings.Contains(ops, " < "), strings.Contains(ops, " > ")
			switch t.s {
			case "-0m":
				okPrint = okPrint && neg
			case "+0m":
				okPrint = okPrint && pos
			case "0m":
				okPrint = okPrint && !neg && !pos && !strings.Contains(ops, " != ")
			default:
				okPrint = false
			}
		}
	}
	if nZero == 0 {
		r.undecided(rule, "print:zero", p.pos(ts.Pos()), "ToString has no return for the zero value")
		return
	}
	_, hasNeg := seen["-0m"]
	_, hasPos := seen["+0m"]
	_, hasNone := seen["0m"]
	r.check(okPrint && hasNeg && hasPos && hasNone, rule, "print:zero", p.instrPos(zeroAt), "a zero is printed as 0m with '-' for ZeroSign < 0 and '+' for ZeroSign > 0", fmt.Sprintf("the zero value is not printed with the recorded sign (texts by condition on ZeroSign: %v)", seen))
}

// dateAsGoTime: v is a time.Time built from the klog date `self` and nothing else — through
// date2Civil(self).In(loc) or time.Date(self.Year(), self.Month(), self.Day(), 0, …).
func dateAsGoTime(v ssa.Value, self ssa.Value) bool {
	was := ht.enabled
	ht.enabled = false // follow the calls themselves, not what a conversion helper builds
	defer func() { ht.enabled = was }()
	for hops := 0; hops < 6 && v != nil; hops++ {
		c, _ := callOf(v)
		if c == nil || len(c.Common().Args) == 0 {
			return false
		}
		if g := staticCallee(c); g != nil && g.String() == "time.Date" {
			return dateFieldsOfOne(c.Common().Args) && dateFieldBase(c.Common().Args[0]) == self
		}
		v = c.Common().Args[0]
		if sameValue(v, self) || strip(v) == self {
			return true
		}
	}
	return false
}

// P15-weekday — the weekday of a date is the one Go's calendar gives for that very day, with
// Sunday counted as 7 (Monday = 1 … Sunday = 7): the only arithmetic on time.Weekday() is that
// renumbering, which is written either as "0 becomes 7" or as (w+6)%7+1.
func ruleP15Weekday(p *Prog, r *Report) {
	const rule = "P15-weekday"
	f := p.method("klog", "date", "Weekday")
	if !r.anchorFn(rule, f, "klog.(*date).Weekday") {
		return
	}
	self := ssa.Value(f.Params[0])
	isGoWeekday := func(v ssa.Value) bool {
		v = strip(v)
		if cv, ok := v.(*ssa.Convert); ok {
			v = strip(cv.X)
		}
		c, idx := callOf(v)
		if c == nil || idx != 0 || staticCallee(c) == nil || staticCallee(c).String() != "(time.Time).Weekday" {
			return false
		}
		return dateAsGoTime(c.Common().Args[0], self)
	}
	n := 0
	for i, ret := range returnsOf(f) {
		key := fmt.Sprintf("return#%d", i)
		for j, rw := range valueRows(retResult(ret, 0), 0, map[ssa.Value]bool{}) {
			n++
			k2 := fmt.Sprintf("%s:row#%d", key, j)
			pos := p.instrPos(ret)
			guards := append(append([]Guard{}, rw.guards...), guardsOf(ret.Block())...)
			// what is known about the Go weekday on this row: == 0 or != 0
			isZero, known := false, false
			for _, g := range guards {
				bo, ok := g.Cond.(*ssa.BinOp)
				if !ok || (bo.Op != token.EQL && bo.Op != token.NEQ) || !isGoWeekday(bo.X) {
					continue
				}
				if k, isK := constInt(bo.Y); isK && k == 0 {
					isZero, known = (bo.Op == token.EQL) == g.Pol, true
				}
			}
			val := strip(rw.val)
			switch {
			case known && isZero:
				k, isK := constInt(val)
				r.check(isK && k == 7, rule, k2, pos, "Sunday (Go: 0) is day 7", "Sunday is not numbered 7")
			case known && !isZero:
				r.check(isGoWeekday(val), rule, k2, pos, "Monday..Saturday keep Go's number 1..6", "the weekday of a day other than Sunday is not Go's weekday number of that date")
			default:
				// (w+6)%7+1
				ok := false
				if a1, isB := val.(*ssa.BinOp); isB && a1.Op == token.ADD {
					if c1, isK := constInt(a1.Y); isK && c1 == 1 {
						if rem, isR := strip(a1.X).(*ssa.BinOp); isR && rem.Op == token.REM {
							if c7, isK := constInt(rem.Y); isK && c7 == 7 {
								if a2, isA := strip(rem.X).(*ssa.BinOp); isA && a2.Op == token.ADD {
									if c6, isK := constInt(a2.Y); isK && c6 == 6 && isGoWeekday(a2.X) {
										ok = true
									}
								}
							}
						}
					}
				}
				r.check(ok, rule, k2, pos, "weekday = (Go weekday + 6) % 7 + 1", "Weekday() is not Go's weekday of that date renumbered Monday=1…Sunday=7 (it is computed as "+val.String()+"): weeks, week periods and day names are off for some dates")
			}
		}
	}
	if n < 1 {
		r.undecided(rule, "floor", p.pos(f.Pos()), "no return value of Weekday() found")
	}
}

// P07-lazy-linenumbers — while a block is being parsed its place in the file is not known yet:
// the parallel engine parses blocks with a numbering relative to their batch and renumbers them
// after the merge (P07-renumber). Errors therefore keep the block and a line index and compute
// the file-global number on demand (txt.err.LineNumber). Nothing reachable from the block parser
// (parser.parse, the ParseOne of both engines) reads the block's global position — a number
// baked into a message at parse time differs between the engines.
func ruleP07LazyLineNumbers(p *Prog, r *Report) {
	const rule = "P07-lazy-linenumbers"
	parse := p.fn("klog/parser", "parse")
	if !r.anchorFn(rule, parse, "parser.parse") {
		return
	}
	seen := map[*ssa.Function]bool{}
	var order []*ssa.Function
	var visit func(f *ssa.Function, depth int)
	visit = func(f *ssa.Function, depth int) {
		if f == nil || seen[f] || len(f.Blocks) == 0 || !p.inMod(f) || depth > 8 {
			return
		}
		seen[f] = true
		order = append(order, f)
		for _, a := range f.AnonFuncs {
			visit(a, depth+1)
		}
		eachInstr(f, func(in ssa.Instruction) {
			if c, ok := in.(ssa.CallInstruction); ok {
				if g := rawStaticCallee(c); g != nil {
					visit(g, depth+1)
				}
			}
		})
	}
	visit(parse, 0)
	bad := ""
	for _, f := range order {
		eachInstr(f, func(in ssa.Instruction) {
			switch x := in.(type) {
			case ssa.CallInstruction:
				name := ""
				if x.Common().IsInvoke() {
					name = x.Common().Method.Name()
				} else if g := rawStaticCallee(x); g != nil {
					name = fnBase(g)
				}
				if name == "OverallLineIndex" {
					bad = fnName(f) + " calls OverallLineIndex at " + p.instrPos(x)
				}
				// LineNumber() of an error that was just made is the same read
				if name == "LineNumber" && x.Common().IsInvoke() && typeNameOf(x.Common().Value.Type()) == "Error" {
					bad = fnName(f) + " calls Error.LineNumber at " + p.instrPos(x)
				}
			case *ssa.FieldAddr:
				if fieldName(x) == "precedingLineCount" && fnBase(f) != "ParseBlock" {
					for _, ref := range *x.Referrers() {
						if u, isU := ref.(*ssa.UnOp); isU && u.Op == token.MUL {
							bad = fnName(f) + " reads precedingLineCount at " + p.instrPos(u)
						}
					}
				}
			}
		})
	}
	r.check(bad == "", rule, "parse-time", p.pos(parse.Pos()), fmt.Sprintf("none of the %d functions reachable from the block parser reads a block's global line position", len(order)), "the block parser reads a file-global line position while parsing ("+bad+"): under the parallel engine blocks are renumbered only after the merge, so the number differs from the serial parser's")
	if len(order) < 10 {
		r.undecided(rule, "floor", p.pos(parse.Pos()), "only %d functions reachable from parser.parse", len(order))
	}
}

// P11-directive-arg — how a command's date or time is to be written (as given, in the configured
// notation, or in the file's own style) is decided in one place, the DateFormat / TimeFormat
// methods of the argument structs (P11-reformat checks them). Every reformat directive a command
// hands to a reconciler is, on every path, the answer of those methods — a command never makes
// up a directive of its own for some special case.
func ruleP11DirectiveArg(p *Prog, r *Report) {
	const rule = "P11-directive-arg"
	n := 0
	for _, f := range p.srcFns {
		if pkgPathOfFn(f) != modPath+"/klog/app/cli" {
			continue
		}
		idx := 0
		eachInstr(f, func(in ssa.Instruction) {
			c, ok := in.(ssa.CallInstruction)
			if !ok {
				return
			}
			for _, a := range c.Common().Args {
				if !strings.HasPrefix(typeNameOf(a.Type()), "ReformatDirective") {
					continue
				}
				n++
				idx++
				key := fmt.Sprintf("%s:%s#%d", fnName(outermost(f)), calleeName(c), idx)
				bad := ""
				for _, rw := range valueRows(a, 0, map[ssa.Value]bool{}) {
					dc, di := callOf(strip(rw.val))
					g := staticCalleeOrNil(dc)
					if dc == nil || di != 0 || g == nil || pkgPathOfFn(g) != modPath+"/klog/app/cli/util" || (fnBase(g) != "TimeFormat" && fnBase(g) != "DateFormat") {
						bad = "a directive that is " + describeValue(rw.val)
						if rw.at != nil {
							bad += " (" + p.instrPos(rw.at) + ")"
						}
					}
				}
				r.check(bad == "", rule, key, p.instrPos(c), "the directive is the argument struct's DateFormat/TimeFormat answer on every path", "the value is written with "+bad+" instead of the DateFormat/TimeFormat answer of the command's arguments: on that path the inserted date/time ignores the configured notation and the style of the file")
			}
		})
	}
	if n < 6 {
		r.undecided(rule, "floor", "-", "found %d reformat directives passed by commands, expected at least 6", n)
	}
}

func describeValue(v ssa.Value) string {
	if c, _ := callOf(strip(v)); c != nil {
		return "the result of " + calleeName(c)
	}
	return v.String()
}

func init() {
	extend("C10", "(P10-errors-kept) NewParserErrors keeps the list of errors it is given, and All() hands it back.", ruleP10ErrorsKept)
	extend("C20", "Also (P10-errors-kept): the errors array of the JSON document holds every error the parser found.", ruleP10ErrorsKept)
	extend("C06", "Also (P18-width): a table cell is padded by column width minus its measured width, both measured the same way (a cell wider than its column makes the padding negative, and strings.Repeat panics).", ruleP18Width)
	extend("C17", "Also (P16-closed): a date is only ever built by the validating constructor, so `yesterday` is a real calendar day on the first of a month too.", ruleP16Closed)
	extend("C20", "Also (P14-unquote, P13-translate): the tags listed in the JSON are the values as written (quotes of the other kind kept); the records listed are those every date flag given selects together.", ruleP14Unquote, ruleP13Translate)
	extend("C06", "Also (P07-noshare): nothing the parser workers run writes package-level state (an unsynchronised memo map aborts the process with `concurrent map writes`).", ruleP07NoShare)
	extend("C03", "(P03-insert-nonempty) Reconciler.insert is only ever asked to insert something (called with nothing it would still terminate the line before the insertion point).", ruleP03InsertNonEmpty)
	extend("C01", "(P01-one-open-range) record.Start refuses a further open range on a search over all entries of the record.", ruleP01OneOpenRange)
	extend("C13", "(P13-date-order) IsEqualTo and IsAfterOrEqual of dates are the lexicographic comparison of (year, month, day), evaluated in all 27 component orderings.", ruleP13DateOrder)
	extend("C12", "Also (P13-date-order): sorting, --fill and the day split rest on the order of dates.", ruleP13DateOrder)
	extend("C15", "Also (P13-date-order): a period contains a date when it is not before its first and not after its last day.", ruleP13DateOrder)
	extend("C17", "Also (P13-date-order): `is this record today's or yesterday's` is a date comparison.", ruleP13DateOrder)
	extend("C06", "(P06-lower-index) an element is addressed as x[v - c] only where v is known to be at least c (a test on the way, a non-empty slice, a counter that starts high enough).", ruleP06LowerIndex)
	extend("C09", "Also (P01-skips): nothing but the one separator is skipped in front of an entry summary — a further SkipWhile there eats blanks that belong to the summary, and print no longer reproduces it.", ruleP01Skips)
	extend("C01", "(P01-skips) every SkipWhile of the parser skips the set of its place: spaces and tabs in the headline, spaces only around the dash of a range.", ruleP01Skips)
	extend("C06", "Also (P15-weekday): Weekday() is Go's weekday renumbered — a value outside 1…7 makes the day name lookup of `klog report` panic.", ruleP15Weekday)
	extend("C02", "(P02-open-range-derived) a record's open range is found by searching its entry list each time, so that it is still found after a filter replaced the list.", ruleP02OpenRangeDerived)
	extend("C11", "(P11-apply-always) a reconciler consults the reformat directive on every path that goes on to write the generated value.", ruleP11ApplyAlways)
	extend("C02", "Also (P17-follow-fresh): every redraw of today --follow closes the open range at the then-current time.", ruleP17FollowFresh)
	extend("C04", "(P04-pause-position) the pause AppendPause adds goes to the end of the record, where ExtendPause's selector (the last non-positive duration entry) finds it.", ruleP04PausePosition)
	extend("C03", "Also (P04-pause-position): otherwise the periodic step of `klog pause` rewrites an older pause line that the command was not started for.", ruleP04PausePosition)
	extend("C10", "(P10-origin) the origin of an error is the path of the very file whose contents the parse call that produced it was given.", ruleP10Origin)
	extend("C15", "(P15-pattern-dispatch) each of the four pattern parsers is asked for every text the ones before it refused; none is reached only under a condition on the text itself.", ruleP15PatternDispatch)
	extend("C13", "Also (P12-now-applied, P15-pattern-dispatch): every evaluating command filters first and applies --now to what the filter selected — a range closed beforehand is no longer an open range for --entry-type; --period reaches the pattern parsers unconditionally.", ruleP12NowApplied, ruleP12NowAll, ruleP15PatternDispatch)
	extend("C14", "Also (P12-now-applied): the per-tag totals are computed after --now was applied.", ruleP12NowApplied)
	extend("C20", "Also (P02-close): under --now every open range of today's and yesterday's records is closed at the current time, each with the shift of its own record.", ruleP02Close)
	extend("C04", "Also (P17-atdate-table): --yesterday / --tomorrow are calendar days relative to today, not 24-hour offsets of the instant.", ruleP17AtDateTable)
	extend("C07", "Also (P08-split): a line keeps the bytes it was cut from — the parallel engine measures a block by them.", ruleP08Split)
	extend("C08", "Also (P05-write-result): the target is replaced by the new text as a whole (truncating open), so no tail of the old contents survives a shorter write.", ruleP05WriteResult)
	extend("C01", "(P01-headline-blanks) every look at the headline is taken after the blanks in front of the cursor were skipped, so that additional blanks between date, should-total and end of line are accepted as the specification allows. Also (P16-ampm): every hour of the 12-hour clock is read as the time it denotes.", ruleP01HeadlineBlanks, ruleP16AmPm)
	extend("C04", "Also (P16-ampm): the time a command writes in the 12-hour notation is the literal that reads back to that time — a start written as `12:30am` for half past noon is an entry twelve hours off.", ruleP16AmPm)
	extend("C06", "(P06-comma-ok) the value of a (value, found) function that hands back nil when nothing was found is used only where `found` holds.", ruleP06CommaOk)
	extend("C16", "(P16-range-validity) whether two times form a range is decided by the range constructor alone; no other function of the value package refuses a pair of times on a comparison of its own.", ruleP16RangeValidity)
	extend("C15", "(P15-week-bound) NewWeekFromString steps towards the week asked for only when that week exists in the year (1 … the week of December 28th), so that no pattern makes the step leave the calendar.", ruleP15WeekBound)
	extend("C02", "Also (P20-fields): in the JSON output a record's total, should-total and diff are computed from the very record whose entries are listed under it, each entry view built afresh from that record's entries.", ruleP20Fields)
	extend("C11", "Also (P13-decoders): the --date / --time / duration decoders hand on the very value the parser returned — with the notation the user typed, which the written value keeps.", ruleP13Decoders)
	extend("C12", "Also (P17-clock-fields): the calendar day `today` splits by is read from the unconverted clock value, like the time of day.", ruleP17ClockFields)
	extend("C17", "Also (P16-plus): Time.Plus builds its result through the one range-checked constructor, so a shift beyond `>` is refused rather than written.", ruleP16Plus)
	extend("C14", "Also (P20-tags): the tag list of the JSON output is exactly what TagSet.ToStrings produced — nothing merged or dropped by a further, differently-cased comparison.", ruleP20Tags)
	extend("C20", "Also (P13-sortflag): every accepted spelling of --sort is compared in the case the enum admits.", ruleP13SortFlag)
	extend("C20", "(P20-input-order) the record list of several input files is built in ReadInputs' own control flow, file by file — not in goroutines or from a channel, which would order it by completion.", ruleP20InputOrder)
	extend("C07", "Also (P20-input-order): with several CPUs the inputs are still put together in the order given. (P06-runewidth) the block parser advances by the bytes actually consumed, not by the re-encoded width of the decoded rune: a worker whose chunk ends in an invalid byte would otherwise fail where the serial parser does not.", ruleP20InputOrder, ruleP06RuneWidth)
	extend("C06", "Also (P01-norecord): on every return of parse and of the parallel merge, records are handed back only when the error list is empty and errors never together with records — the statement's `either records and no errors, or no records and at least one error`.", ruleP01NoRecord)
	extend("C16", "(P16-zerosign) the sign written in front of a zero duration is recorded exactly for zero values with a written sign, and printed back from that record.", ruleP16ZeroSign)
	extend("C09", "(P01-lex, P01-headline-blanks) print starts by reading the file: the lexical patterns accept what the specification accepts (a one-character continuation line of an entry summary, say), and additional blanks between the parts of a headline are skipped — a valid file the parser refuses has no printed form at all.", ruleP01Lex, ruleP01HeadlineBlanks)
	extend("C09", "(P16-zerosign) as under C16: a signed zero keeps its sign through print.", ruleP16ZeroSign)
	extend("C15", "(P15-weekday) Weekday() is Go's weekday of that very date, renumbered Monday=1…Sunday=7 and nothing else.", ruleP15Weekday)
	extend("C07", "(P07-lazy-linenumbers) nothing reachable from the block parser reads a block's file-global line position (it is final only after the parallel merge); errors compute their line number on demand.", ruleP07LazyLineNumbers)
	extend("C03", "(P05-write-result) as under C05: the file is replaced by exactly the reconciled text (opened with truncation, every write failure reported) — leftover bytes of the old contents would be lines the command never meant to touch.", ruleP05WriteResult)
	extend("C04", "(P05-write-result) as under C05: what the next command of a history reads is exactly what this one computed.", ruleP05WriteResult)
	extend("C05", "(P06-shape / P01-norecord) the parse result the two C05 guards test is trustworthy: the error flag of the serial engine is a latch raised by ANY block with errors, and errors are returned without records.", ruleP06Shape)
	extend("C06", "(P10-accessors) an error's accessors read the line list the parser's index refers to (block.Lines()), so rendering an error cannot index out of range.", ruleP10Accessors)
	extend("C08", "(P07-tail) a worker never treats the last block of its batch as finished, so trailing blank lines are not attributed to another block or dropped.", ruleP07Tail)
	extend("C10", "(P08-io-verbatim) the text that is parsed is the text as given (file or stdin): line numbers and columns refer to the user's text, not to a trimmed or normalised copy.", ruleP08IoVerbatim)
	extend("C20", "(P14-lang) the tag notation in the JSON output (Tag.ToString) quotes a value exactly when the tag pattern could not read it back unquoted.", ruleP14Lang)
	extend("C09", "(P07-head, P07-tail) what print prints is what the engine in use (parallel whenever more than one CPU is reported) read: the block at a batch boundary is carried whole to the merge step.", ruleP07Head, ruleP07Tail)
	extend("C03", "(P04-pause-selector) the line ExtendPause rewrites belongs to a duration entry: ranges (of zero length) and the open range never qualify as the pause.", ruleP04PauseSelector)
	extend("C04", "(P04-pause-selector) as under C03.", ruleP04PauseSelector)
	extend("C01", "(P01-shouldtotal-set) the should-total a record keeps has exactly the minutes of the one the parser read.", ruleP01ShouldTotalSet)
	extend("C02", "(P01-shouldtotal-set) as under C01: should-total and diff are computed from the value that was written.", ruleP01ShouldTotalSet)
	extend("C19", "(P19-resolve retriever:bookmarks) the collection a FileRetriever resolves against is what ReadBookmarks returned, on every path.", ruleP19RetrieverBookmarks)
	extend("C09", "(P01-delims) print reads the file with the parser's token delimiters: a valid headline or entry cut at another character is rejected or read differently.", ruleP01Delims)
	extend("C18", "(P18-no-measure-styled) a text that already carries escape sequences never reaches len(), a rune count, a fmt verb with a width or the line wrapper.", ruleP18NoMeasureStyled)
	extend("C15", "(P15-week-reference) the reference day from which a week pattern is resolved lies in the ISO week-year of its calendar year in every year (Jan 4th .. Dec 28th).", ruleP15WeekReference)
	extend("C07", "(P07-mapparse-complete) the block loop shared by both engines ends only when no further block is found.", ruleP07MapParseComplete)
	extend("C01", "(P08-split) a line ending is exactly one \\n or \\r\\n: stray carriage returns stay part of the text (and make it invalid where the format says so).", ruleP08Split)
	extend("C02", "(P12-today) `today` accounts for every record of the file in exactly one of its two groups, so its total, should-total and diff are those of the file.", ruleP12Today)
	extend("C09", "(P08-io-verbatim) print parses the text as given (file or stdin), not a trimmed copy.", ruleP08IoVerbatim)
	extend("C10", "(P06-runewidth) the block cutter advances by the bytes actually consumed, so a faulty last line that ends in an invalid byte is not dropped (and its error not lost).", ruleP06RuneWidth)
	extend("C11", "(P16-ampm) a time generated in the 12-hour notation is written as the am/pm literal that reads back to the same time (otherwise the re-parse safeguard refuses the edit).", ruleP16AmPm)
	extend("C20", "(P16-ampm, P13-reduce) the start/end notation in the JSON output is Time.ToString; under a tag or entry-type filter a record keeps its should-total.", ruleP16AmPm, ruleP13Reduce)
	extend("C14", "(P13-translate) every --tag argument reaches the query, as given (same name with different values are different filters).", ruleP13Translate)
	extend("C06", "(P06-units) a []rune(string) is never cut or indexed under a test of the string's byte length.", ruleP06Units)
	extend("C02", "(P02-fresh-parse) the records an evaluation works on were parsed in that invocation of ReadInputs.", ruleP02FreshParse)
	extend("C17", "(P02-fresh-parse, P16-ampm) every redraw of today --follow evaluates freshly parsed records; a generated time in the 12-hour notation is the literal that reads back to it.", ruleP02FreshParse, ruleP16AmPm)
	extend("C03", "(P03-last-line) the end of the record is where the block's own SignificantLines() end.", ruleP03LastLine)
	extend("C04", "(P04-first-record, P03-last-line) a date names the first record of that date; the end of a record is the block parser's.", ruleP04FirstRecord, ruleP03LastLine)
	extend("C12", "(P12-row-labels) the year label of a report row is printed exactly when it differs from the row above.", ruleP12RowLabels)
	extend("C20", "(P13-sortcopy) --sort orders by the dates themselves, not by their notation.", ruleP13SortCopy)
	extend("C07", "(P07-renumber-complete) every field of a block that depends on the preceding line count is rewritten when the parallel engine renumbers.", ruleP07RenumberComplete)
	extend("C03", "(P03-creators-readonly, P07-renumber-complete) creators never reorder or overwrite the shared record/block lists; blocks keep no stale absolute positions.", ruleP03CreatorsReadonly, ruleP07RenumberComplete)
	extend("C04", "(P03-creators-readonly) as under C03.", ruleP03CreatorsReadonly)
	extend("C05", "(P05-after-write) util.Reconcile reports a failure only on the failing edge of ReconcileFile: nothing can refuse once the file is written.", ruleP05AfterWrite)
	extend("C18", "(P18-strip-measure-only) the stripped text is only ever measured, never printed.", ruleP18StripMeasureOnly)
	extend("C09", "(P18-strip-measure-only) print does not filter the user's text through the escape-sequence remover.", ruleP18StripMeasureOnly)
	extend("C20", "(P08-io-verbatim) `klog json` renders the text as given: piped input counts as absent only when it is empty.", ruleP08IoVerbatim)
	extend("C11", "(P11-directive-arg) every reformat directive a command passes to a reconciler is, on every path, the DateFormat/TimeFormat answer of its argument struct.", ruleP11DirectiveArg)
}

// P01-shouldtotal-set — the should-total a record keeps is the one it was given: SetShouldTotal
// stores a should-total of exactly t.InMinutes() minutes (however it splits them into the two
// arguments of the constructor, 60*h + m must be that number).
func ruleP01ShouldTotalSet(p *Prog, r *Report) {
	const rule = "P01-shouldtotal-set"
	f := p.method("klog", "record", "SetShouldTotal")
	if !r.anchorFn(rule, f, "klog.(*record).SetShouldTotal") {
		return
	}
	n := 0
	eachInstr(f, func(in ssa.Instruction) {
		st, ok := in.(*ssa.Store)
		if !ok {
			return
		}
		fa, ok := st.Addr.(*ssa.FieldAddr)
		if !ok || fieldName(fa) != "shouldTotal" {
			return
		}
		n++
		key := fmt.Sprintf("stored#%d", n)
		v := strip(st.Val)
		if mi, isMI := v.(*ssa.MakeInterface); isMI {
			v = strip(mi.X)
		}
		// the duration itself (ShouldTotal is a Duration)
		if v == ssa.Value(f.Params[1]) {
			r.ok(rule, key, p.instrPos(st), "keeps the duration it was given")
			return
		}
		pl, isCtor := p.durationMinutes(v)
		if !isCtor {
			r.bad(rule, key, p.instrPos(st), "the should-total stored is neither the duration given nor built from it with a duration constructor")
			return
		}
		okVal := pl.C == 0 && len(pl.Terms) == 1
		for k, coef := range pl.Terms {
			nm, recv, _, _ := methodCall(pl.leafV[k])
			if coef != 1 || nm != "InMinutes" || recv == nil || strip(recv) != ssa.Value(f.Params[1]) {
				okVal = false
			}
		}
		r.check(okVal, rule, key, p.instrPos(st), "stores a should-total of exactly t.InMinutes() minutes", "the should-total stored has 60*h+m = "+pl.String()+" minutes, not t.InMinutes(): some should-totals (negative ones with a minute part, say) are kept with another value")
	})
	if n == 0 {
		r.undecided(rule, "stored", p.pos(f.Pos()), "SetShouldTotal does not store a should-total")
	}
}

// P19-resolve (retriever:bookmarks) — `@name` arguments and the no-argument default are resolved
// against the bookmark database as it is on disk: the collection a FileRetriever is built with
// is, on every path, what ReadBookmarks returned — never an empty stand-in chosen by a guess
// about which arguments will need it (the retriever has its own idea of a blank argument).
func ruleP19RetrieverBookmarks(p *Prog, r *Report) {
	const rule = "P19-resolve"
	n := 0
	for _, f := range p.srcFns {
		if pkgPathOfFn(f) != modPath+"/klog/app" {
			continue
		}
		idx := 0
		eachInstr(f, func(in ssa.Instruction) {
			st, ok := in.(*ssa.Store)
			if !ok {
				return
			}
			fa, ok := st.Addr.(*ssa.FieldAddr)
			if !ok || fieldName(fa) != "bookmarks" || typeNameOf(derefType(fa.X.Type())) != "FileRetriever" {
				return
			}
			n++
			idx++
			key := fmt.Sprintf("retriever:bookmarks:%s#%d", fnName(outermost(f)), idx)
			bad := ""
			for _, rw := range valueRows(st.Val, 0, map[ssa.Value]bool{}) {
				c, ci := callOf(strip(rw.val))
				if c == nil || ci != 0 || !p.isBookmarkRead(c) {
					bad = describeValue(rw.val)
					if rw.at != nil {
						bad += " (" + p.instrPos(rw.at) + ")"
					}
				}
			}
			r.check(bad == "", rule, key, p.instrPos(st), "the retriever resolves against the collection read from the database", "the file retriever is given "+bad+" instead of the collection read from the bookmark database: on that path `@name` and the default bookmark do not resolve although they are set")
		})
	}
	if n < 2 {
		r.undecided(rule, "retriever:bookmarks:floor", "-", "expected FileRetriever constructions in ReadInputs and RetrieveTargetFile, found %d", n)
	}
}

// P18-no-measure-styled — a text that already carries escape sequences is never measured, padded
// to a width or wrapped: its length in bytes or runes is not the number of visible characters.
// Taint: the results of Styler.Format / FormatAndRestore and of every module function that
// returns such a text, through concatenation, phis and local variables. Sinks: len(),
// utf8.RuneCount*, a fmt verb with a width (`%*s`, `%-12s`), and the line wrapper
// (Reflower.Reflow). StripAllAnsiSequences removes the taint.
func ruleP18NoMeasureStyled(p *Prog, r *Report) {
	const rule = "P18-no-measure-styled"
	isStringish := func(t types.Type) bool {
		bt, ok := t.Underlying().(*types.Basic)
		return ok && bt.Info()&types.IsString != 0
	}
	styledFn := map[*ssa.Function]bool{}
	for _, n := range []string{"Format", "FormatAndRestore"} {
		if m := p.method("klog/app/cli/terminalformat", "Styler", n); m != nil {
			styledFn[originFn(m)] = true
		}
	}
	if len(styledFn) < 2 {
		r.undecided(rule, "sources", "-", "Styler.Format / FormatAndRestore not found")
		return
	}
	var inScope []*ssa.Function
	for _, f := range p.srcFns {
		if strings.HasPrefix(pkgPathOfFn(f), modPath+"/klog/app") {
			inScope = append(inScope, f)
		}
	}
	var tainted func(v ssa.Value, depth int, seen map[ssa.Value]bool) bool
	tainted = func(v ssa.Value, depth int, seen map[ssa.Value]bool) bool {
		if v == nil || depth > 12 || seen[v] {
			return false
		}
		seen[v] = true
		switch x := v.(type) {
		case *ssa.Call:
			g := rawStaticCallee(x)
			if g != nil && fnBase(g) == "StripAllAnsiSequences" {
				return false
			}
			if g != nil && styledFn[originFn(g)] {
				return true
			}
			if x.Call.IsInvoke() && (x.Call.Method.Name() == "Format" || x.Call.Method.Name() == "FormatAndRestore") && typeNameOf(x.Call.Value.Type()) == "Styler" {
				return true
			}
			if g != nil && g.Pkg != nil && g.Pkg.Pkg.Path() == "strings" {
				switch g.Name() {
				case "Repeat", "TrimSpace", "TrimRight", "TrimLeft", "ToUpper", "ToLower", "Join", "Replace", "ReplaceAll":
					for _, a := range x.Call.Args {
						if tainted(a, depth+1, seen) {
							return true
						}
					}
				}
			}
			if g != nil && g.String() == "fmt.Sprintf" {
				for _, a := range x.Call.Args[1:] {
					if tainted(a, depth+1, seen) {
						return true
					}
				}
			}
			return false
		case *ssa.BinOp:
			if x.Op == token.ADD && isStringish(x.Type()) {
				return tainted(x.X, depth+1, seen) || tainted(x.Y, depth+1, seen)
			}
		case *ssa.Phi:
			for _, e := range x.Edges {
				if tainted(e, depth+1, seen) {
					return true
				}
			}
		case *ssa.UnOp:
			if x.Op == token.MUL {
				if cell := cellOf(x.X); cell != nil {
					for _, s := range storesTo(cell) {
						if tainted(s.val, depth+1, seen) {
							return true
						}
					}
				}
			}
		case *ssa.MakeInterface:
			return tainted(x.X, depth+1, seen)
		case *ssa.Slice:
			// the variadic argument list of fmt functions
			if al, ok := x.X.(*ssa.Alloc); ok {
				for _, ref := range *al.Referrers() {
					if ia, ok := ref.(*ssa.IndexAddr); ok {
						for _, r2 := range *ia.Referrers() {
							if st, ok := r2.(*ssa.Store); ok && tainted(st.Val, depth+1, seen) {
								return true
							}
						}
					}
				}
			}
		case *ssa.Extract:
			return false
		}
		return false
	}
	// functions that return a styled text (fixpoint)
	for changed, round := true, 0; changed && round < 8; round++ {
		changed = false
		for _, f := range inScope {
			if styledFn[originFn(f)] || f.Signature.Results().Len() != 1 || !isStringish(f.Signature.Results().At(0).Type()) {
				continue
			}
			for _, ret := range plainReturnsOf(f) {
				if tainted(ret.Results[0], 0, map[ssa.Value]bool{}) {
					styledFn[originFn(f)] = true
					changed = true
					break
				}
			}
		}
	}
	widthVerb := regexp.MustCompile(`%[-+# 0]*(\*|[1-9][0-9]*)(\.[0-9]+)?[sqvx]`)
	n := 0
	for _, f := range inScope {
		idx := 0
		eachInstr(f, func(in ssa.Instruction) {
			c, ok := in.(ssa.CallInstruction)
			if !ok {
				return
			}
			what := ""
			var args []ssa.Value
			if b, isB := c.Common().Value.(*ssa.Builtin); isB && b.Name() == "len" && isStringish(c.Common().Args[0].Type()) {
				what, args = "len()", c.Common().Args
			} else if g := rawStaticCallee(c); g != nil {
				switch {
				case g.String() == "unicode/utf8.RuneCountInString":
					what, args = "utf8.RuneCountInString", c.Common().Args
				case g.String() == "fmt.Sprintf" || g.String() == "fmt.Fprintf" || g.String() == "fmt.Printf":
					fi := 0
					if g.Name() == "Fprintf" {
						fi = 1
					}
					if fs, isS := constString(c.Common().Args[fi]); isS && widthVerb.MatchString(fs) {
						what, args = "a fmt verb with a width ("+fs+")", c.Common().Args[fi+1:]
					}
				case fnBase(g) == "Reflow" && p.inMod(g):
					what, args = "the line wrapper "+calleeName(c), c.Common().Args[1:]
				case g.Pkg != nil && g.Pkg.Pkg.Path() == "strings" && len(c.Common().Args) >= 1:
					// looking INTO the text: what it starts with, contains or splits into depends
					// on whether (and how) it was coloured
					switch g.Name() {
					case "HasPrefix", "HasSuffix", "Contains", "ContainsAny", "ContainsRune", "Index", "IndexByte", "IndexRune", "IndexAny", "LastIndex", "Split", "SplitN", "Fields", "EqualFold", "Count", "Cut", "TrimPrefix", "TrimSuffix":
						what, args = "strings."+g.Name(), c.Common().Args[:1]
					}
				}
			}
			if what == "" {
				return
			}
			n++
			idx++
			for _, a := range args {
				if tainted(a, 0, map[ssa.Value]bool{}) {
					r.bad(rule, fmt.Sprintf("%s:sink#%d", fnName(f), idx), p.instrPos(c), "a text that already carries escape sequences is handed to %s: its length and content include the invisible bytes, so the outcome (padding, wrapping, a test of how it begins) differs between the colour schemes and the unstyled output", what)
					return
				}
			}
		})
	}
	r.ok(rule, "sinks", "-", "%d measuring sites examined, none receives a styled text (%d functions return styled text)", n, len(styledFn))
	// … nor compared or indexed
	for _, f := range inScope {
		idx := 0
		eachInstr(f, func(in ssa.Instruction) {
			var ops []ssa.Value
			what := ""
			switch x := in.(type) {
			case *ssa.BinOp:
				switch x.Op {
				case token.EQL, token.NEQ, token.LSS, token.GTR, token.LEQ, token.GEQ:
					if isStringish(x.X.Type()) {
						ops, what = []ssa.Value{x.X, x.Y}, "a comparison"
					}
				}
			case *ssa.Lookup:
				if isStringish(x.X.Type()) {
					ops, what = []ssa.Value{x.X}, "an index expression"
				}
			}
			if what == "" {
				return
			}
			idx++
			for _, a := range ops {
				if _, isK := a.(*ssa.Const); isK {
					continue
				}
				if tainted(a, 0, map[ssa.Value]bool{}) {
					r.bad(rule, fmt.Sprintf("%s:inspect#%d", fnName(f), idx), p.instrPos(in), "a text that already carries escape sequences is the operand of %s: the outcome depends on the colour scheme, so the styled and the unstyled output differ in more than escape sequences", what)
					return
				}
			}
		})
	}
	if n < 5 {
		r.undecided(rule, "floor", "-", "only %d measuring sites found in klog/app", n)
	}
}

// P15-week-reference — `YYYY-Www` is resolved by walking whole weeks from a reference day of
// the year YYYY and comparing week NUMBERS only. That denotes week ww of the ISO year YYYY only
// if the reference day itself lies in ISO year YYYY in every calendar year, i.e. between
// January 4th and December 28th (January 1st-3rd may belong to the last week of the previous
// ISO year, December 29th-31st to week 1 of the next).
func ruleP15WeekReference(p *Prog, r *Report) {
	const rule = "P15-week-reference"
	f := p.fn("klog/service/period", "NewWeekFromString")
	nd := p.fn("klog", "NewDate")
	if !r.anchorFn(rule, f, "period.NewWeekFromString") || !r.anchorFn(rule, nd, "klog.NewDate") {
		return
	}
	n := 0
	for _, g := range withAnons(f) {
		for _, c := range callsTo(g, nd) {
			n++
			a := c.Common().Args
			m, mK := constInt(a[1])
			d, dK := constInt(a[2])
			ok := mK && dK && m >= 1 && m <= 12 && d >= 1 && d <= daysInMonthMin[m] && !(m == 1 && d < 4) && !(m == 12 && d > 28)
			r.check(ok, rule, fmt.Sprintf("reference#%d", n), p.instrPos(c), fmt.Sprintf("the reference day (month %d, day %d) lies in the ISO year of its calendar year in every year", m, d), fmt.Sprintf("the reference day of a week pattern (month %s, day %s) does not lie in the ISO week-year YYYY in every year (it must be between January 4th and December 28th): in years in which it belongs to a week of the neighbouring ISO year, YYYY-Www denotes a week of that other year", describeConst(a[1]), describeConst(a[2])))
		}
	}
	// (every day NewWeekFromString constructs is one whose week number it reads: the day it steps
	// from, and the December day by which it knows the year's last week)
	if n < 1 {
		r.undecided(rule, "reference", p.pos(f.Pos()), "no reference date found in NewWeekFromString")
	}
}

// P07-mapparse-complete — mapParse (the block loop both engines are built on) goes through the
// whole text it is given: the only way out of its loop is that ParseBlock found no further block.
// Any other way out (a limit on errors, on blocks, on time) makes the result depend on how the
// text was divided among calls — the parallel engine calls mapParse once per batch and once per
// carried piece, the serial engine once.
func ruleP07MapParseComplete(p *Prog, r *Report) {
	const rule = "P07-mapparse-complete"
	mp := p.method("klog/parser/engine", "SerialParser", "mapParse")
	if !r.anchorFn(rule, mp, "engine.SerialParser.mapParse") {
		return
	}
	checked := 0
	for _, f := range []*ssa.Function{mp, originFn(mp)} {
		if f == nil || len(f.Blocks) == 0 {
			continue
		}
		var pb ssa.CallInstruction
		eachInstr(f, func(in ssa.Instruction) {
			if c, ok := in.(ssa.CallInstruction); ok {
				if g := staticCallee(c); g != nil && fnBase(g) == "ParseBlock" {
					pb = c
				}
			}
		})
		if pb == nil || !inLoopBlock(pb.Block()) {
			continue
		}
		checked++
		// the loop: blocks that can reach the ParseBlock call again
		inLoop := map[*ssa.BasicBlock]bool{}
		for _, b := range f.Blocks {
			if (b == pb.Block() || reachableFrom(pb.Block(), nil)[b]) && reachableFrom(b, nil)[pb.Block()] {
				inLoop[b] = true
			}
		}
		blockV, bytesV := resultOf(pb, 0), resultOf(pb, 1)
		bad := ""
		for b := range inLoop {
			for si, s := range b.Succs {
				if inLoop[s] {
					continue
				}
				// an exit edge: must be the outcome of a test of ParseBlock's results only
				iff, isIf := b.Instrs[len(b.Instrs)-1].(*ssa.If)
				okExit := false
				if isIf {
					okExit = true
					for _, g := range flattenCond(iff.Cond, si == 0, iff) {
						about := false
						if x, isNil, isG := nilFact(g); isG && isNil && blockV != nil && sameValue(x, blockV) {
							about = true
						}
						if bo, isB := g.Cond.(*ssa.BinOp); isB && bytesV != nil && (sameValue(bo.X, bytesV) || sameValue(bo.Y, bytesV)) {
							about = true
						}
						if !about {
							okExit = false
						}
					}
				}
				if !okExit {
					bad = p.instrPos(b.Instrs[len(b.Instrs)-1])
				}
			}
		}
		r.check(bad == "", rule, "exits:"+fnName(originFn(f)), p.instrPos(pb), "the block loop ends only when ParseBlock finds no further block", "the block loop of mapParse can also be left at "+bad+" for a reason other than 'no further block': text after that point is neither parsed nor returned, and where that point lies depends on how the parallel engine divided the text")
		break
	}
	if checked == 0 {
		r.undecided(rule, "loop", p.pos(mp.Pos()), "the block loop of mapParse (a loop around txt.ParseBlock) was not found")
	}
}

// P06-units — a length is tested in the units in which the cut is made. `[]rune(s)` has at most
// len(s) elements (fewer for every non-ASCII character): slicing or indexing the rune slice under
// a test of the BYTE length of the string is the unit confusion behind D1 and D9 once more, and
// here it panics (slice bounds out of range) for non-ASCII text of the right length.
func ruleP06Units(p *Prog, r *Report) {
	const rule = "P06-units"
	n := 0
	runeSliceOf := func(v ssa.Value) ssa.Value {
		v = strip(v)
		if u, ok := v.(*ssa.UnOp); ok && u.Op == token.MUL {
			if cell := cellOf(u.X); cell != nil {
				if sts := storesTo(cell); len(sts) == 1 {
					v = strip(sts[0].val)
				}
			}
		}
		cv, ok := v.(*ssa.Convert)
		if !ok {
			return nil
		}
		st, isSlice := cv.Type().Underlying().(*types.Slice)
		if !isSlice {
			return nil
		}
		if bt, isB := st.Elem().Underlying().(*types.Basic); !isB || bt.Kind() != types.Int32 {
			return nil
		}
		if bt, isB := cv.X.Type().Underlying().(*types.Basic); !isB || bt.Info()&types.IsString == 0 {
			return nil
		}
		return cv.X
	}
	for _, f := range p.srcFns {
		if !p.inMod(f) {
			continue
		}
		idx := 0
		eachInstr(f, func(in ssa.Instruction) {
			var x ssa.Value
			var bounded bool
			switch s := in.(type) {
			case *ssa.Slice:
				x, bounded = s.X, s.High != nil || s.Low != nil
			case *ssa.IndexAddr:
				x, bounded = s.X, true
			case *ssa.Index:
				x, bounded = s.X, true
			}
			if x == nil || !bounded {
				return
			}
			str := runeSliceOf(x)
			if str == nil {
				return
			}
			n++
			idx++
			// the length tests this instruction runs under
			byteTest := ""
			for _, g := range guardsOf(in.Block()) {
				bo, ok := normCmp(g.Cond)
				if !ok {
					continue
				}
				for _, side := range []ssa.Value{bo.X, bo.Y} {
					c, _ := callOf(strip(side))
					if c == nil {
						continue
					}
					if b, isB := c.Common().Value.(*ssa.Builtin); isB && b.Name() == "len" && sameValue(c.Common().Args[0], str) {
						byteTest = p.instrPos(g.If)
					}
				}
			}
			r.check(byteTest == "", rule, fmt.Sprintf("%s:runes#%d", fnName(f), idx), p.instrPos(in), "the rune slice is not cut under a test of the string's byte length", "the characters of a string ([]rune) are cut or indexed under a test of its length in BYTES ("+byteTest+"): text with non-ASCII characters has fewer characters than bytes, so the bound can lie beyond the end and the command panics")
		})
	}
	r.ok(rule, "sites", "-", "%d cuts of a []rune(string) examined", n)
}

// P02-fresh-parse — every evaluation works on records parsed for it: what ReadInputs hands out is,
// on every path, the result of a Parse call made in this very invocation. Records are mutable
// (`--now` closes open ranges in place), so records kept from an earlier read would carry the
// end times of the earlier evaluation into the later one (today --follow).
func ruleP02FreshParse(p *Prog, r *Report) {
	const rule = "P02-fresh-parse"
	n := 0
	for _, f := range p.implsOf("klog/app", "Context", "ReadInputs") {
		if pkgPathOfFn(f) != modPath+"/klog/app" {
			continue
		}
		for i, ret := range returnsOf(f) {
			if len(ret.Results) != 2 || isNilConst(retResult(ret, 0)) {
				continue
			}
			n++
			key := fmt.Sprintf("%s:return#%d", fnName(f), i)
			apps, leaves := accWeb(retResult(ret, 0))
			bad := ""
			for _, l := range leaves {
				if !isNilConst(l) {
					bad = "starts from " + describeValue(l)
				}
			}
			for _, a := range apps {
				if len(a.Call.Args) < 2 {
					continue
				}
				// (through a local function or private helper that parses one file)
				for _, rw := range valueRows(a.Call.Args[1], 0, map[ssa.Value]bool{}) {
					src := strip(rw.val)
					c, idx := callOf(src)
					if c == nil || idx != 0 || !c.Common().IsInvoke() || c.Common().Method.Name() != "Parse" || (c.Parent() != a.Parent() && rw.call == nil) {
						bad = "appends " + describeValue(rw.val) + " at " + p.instrPos(a)
					}
				}
			}
			if len(apps) == 0 {
				c, idx := callOf(retResult(ret, 0))
				if c == nil || idx != 0 || !c.Common().IsInvoke() || c.Common().Method.Name() != "Parse" {
					bad = "returns " + describeValue(retResult(ret, 0))
				}
			}
			r.check(bad == "", rule, key, p.instrPos(ret), "the records handed out were parsed in this invocation", "ReadInputs hands out records that were not parsed in this invocation ("+bad+"): records are changed in place by --now, so a later evaluation sees the open ranges as the earlier one closed them")
		}
	}
	if n == 0 {
		r.undecided(rule, "floor", "-", "no record-returning path of the real ReadInputs found")
	}
}

// P03-last-line — where a record ends is decided by the block parser's own notion of a blank
// line: the pointer behind the record's last line is OverallLineIndex(preceding + len(significant))
// with both numbers from one and the same SignificantLines() call of the block.
func ruleP03LastLine(p *Prog, r *Report) {
	const rule = "P03-last-line"
	f := p.fn("klog/parser/reconciling", "indexOfLastSignificantLine")
	if !r.anchorFn(rule, f, "reconciling.indexOfLastSignificantLine") {
		return
	}
	for i, ret := range returnsOf(f) {
		key := fmt.Sprintf("return#%d", i)
		nm, recv, args, _ := methodCall(retResult(ret, 0))
		if nm != "OverallLineIndex" || len(args) != 1 || strip(recv) != ssa.Value(f.Params[0]) {
			r.bad(rule, key, p.instrPos(ret), "the pointer is not the block's OverallLineIndex of a line count")
			continue
		}
		pl := polyOf(args[0])
		var sig ssa.CallInstruction
		ok := pl.C == 0 && len(pl.Terms) == 2
		for k, coef := range pl.Terms {
			if coef != 1 {
				ok = false
				continue
			}
			v := pl.leafV[k]
			// len(significant) or the preceding count
			if lc, _ := callOf(strip(v)); lc != nil {
				if b, isB := lc.Common().Value.(*ssa.Builtin); isB && b.Name() == "len" {
					v = lc.Common().Args[0]
				}
			}
			c, idx := callOf(strip(v))
			if c == nil || idx > 1 {
				ok = false
				continue
			}
			if n2, r2, _, _ := methodCallOf(c); n2 != "SignificantLines" || strip(r2) != ssa.Value(f.Params[0]) {
				ok = false
				continue
			}
			if sig != nil && sig != c {
				ok = false
			}
			sig = c
		}
		if !ok && pl.C == 0 && len(pl.Terms) == 2 {
			// the same position counted from the back: len(block.Lines()) - trailing blank lines
			all, tail := false, false
			for k, coef := range pl.Terms {
				v := strip(pl.leafV[k])
				if lc, _ := callOf(v); lc != nil && coef == 1 {
					if b, isB := lc.Common().Value.(*ssa.Builtin); isB && b.Name() == "len" {
						if n2, r2, _, _ := methodCall(lc.Common().Args[0]); n2 == "Lines" && r2 != nil && strip(r2) == ssa.Value(f.Params[0]) {
							all = true
						}
					}
				}
				if c, idx := callOf(v); c != nil && idx == 2 && coef == -1 {
					if n2, r2, _, _ := methodCallOf(c); n2 == "SignificantLines" && strip(r2) == ssa.Value(f.Params[0]) {
						tail = true
					}
				}
			}
			ok = all && tail
		}
		r.check(ok, rule, key, p.instrPos(ret), "end of record = preceding blank lines + significant lines, as the block itself counts them", "the end of the record is not computed from the block's own SignificantLines() (it is "+pl.String()+"): a whitespace-only line after the record counts as part of it, and lines are inserted below it")
	}
}

// P04-first-record — a command that names a date means the FIRST record of that date in the file
// (records may share a date; `create` always adds one): the search runs upwards from index 0 and
// stops at the first hit.
func ruleP04FirstRecord(p *Prog, r *Report) {
	const rule = "P04-first-record"
	f := p.fn("klog/parser/reconciling", "NewReconcilerAtRecord")
	if !r.anchorFn(rule, f, "reconciling.NewReconcilerAtRecord") {
		return
	}
	n := 0
	for _, g := range plainWithAnons(f) {
		eachVInstr(g, func(in ssa.Instruction) {
			c, ok := in.(ssa.CallInstruction)
			if !ok {
				return
			}
			nm, recv, args, _ := methodCallOf(c)
			if nm != "IsEqualTo" || len(args) != 1 || recv == nil {
				return
			}
			n2, r2, _, _ := methodCall(recv)
			if n2 != "Date" || r2 == nil {
				return
			}
			coll := rangeElemOf(r2)
			n++
			key := fmt.Sprintf("search#%d", n)
			if coll == nil {
				// an element picked with a hand-written index: the index must count up from 0
				var idxV ssa.Value
				if u, isU := strip(r2).(*ssa.UnOp); isU {
					if ia, isIA := u.X.(*ssa.IndexAddr); isIA {
						idxV = ia.Index
					}
				}
				up := false
				if ph, isPhi := strip(idxV).(*ssa.Phi); isPhi && idxV != nil {
					up = true
					for _, e := range ph.Edges {
						if k, isK := constInt(e); isK {
							if k != 0 {
								up = false
							}
							continue
						}
						d := polySub(polyOf(e), polyOf(ph))
						if !(d.isConst() && d.C == 1) {
							up = false
						}
					}
				}
				r.check(up, rule, key+":direction", p.instrPos(c), "the records are searched from the first one upwards", "the record of the target date is not searched from the start of the file upwards: with two records of one date the command edits the later one (stop after create no longer finds the open range)")
			} else {
				r.ok(rule, key+":direction", p.instrPos(c), "the records are searched in file order (range loop)")
			}
			// the search stops at the first hit: from the hit there is no way back to the test
			var hit *ssa.BasicBlock
			for _, ref := range *c.Value().Referrers() {
				if iff, isIf := ref.(*ssa.If); isIf {
					hit = iff.Block().Succs[0]
				}
			}
			again := hit == nil
			if hit != nil && reachableFrom(hit, nil)[c.Block()] {
				again = true
			}
			r.check(!again, rule, key+":first-hit", p.instrPos(c), "the search stops at the first record of that date", "the search goes on after a hit: the last record of the date wins, not the first")
		})
	}
	if n != 1 {
		r.undecided(rule, "search", p.pos(f.Pos()), "expected one date comparison in NewReconcilerAtRecord, found %d", n)
	}
}

// P12-row-labels — a report row names its period; a label that is left out means "as in the row
// above". In every aggregator that prints the year only when it changes, the year cell is printed
// exactly when the row's year differs from the year remembered from the previous row, and that
// year is remembered then.
func ruleP12RowLabels(p *Prog, r *Report) {
	const rule = "P12-row-labels"
	n := 0
	for _, kind := range []string{"day", "week", "month", "quarter"} {
		f := p.method("klog/app/cli/report", kind+"Aggregator", "OnRowPrefix")
		if !r.anchorFn(rule, f, kind+"Aggregator.OnRowPrefix") {
			continue
		}
		// the remembered year: a store to a field of the receiver whose value is the row's year
		isYear := func(v ssa.Value) bool {
			if nm, _, _, _ := methodCall(v); nm == "Year" {
				return true
			}
			c, idx := callOf(strip(v))
			if c != nil && idx == 0 {
				if nm, _, _, _ := methodCallOf(c); nm == "WeekNumber" {
					return true
				}
			}
			return false
		}
		// (the block may live in a helper shared by the aggregators that is handed the year and
		// the address of the field: its instructions count once per call, with its parameters
		// standing for that call's arguments)
		addrField := func(a ssa.Value) (string, bool) {
			a = strip(a)
			if fa, ok := a.(*ssa.FieldAddr); ok && strip(fa.X) == ssa.Value(f.Params[0]) {
				return fieldName(fa), true
			}
			return "", false
		}
		loadField := func(v ssa.Value) string {
			if u, ok := plainDeref(v).(*ssa.UnOp); ok && u.Op == token.MUL {
				if n, ok := addrField(u.X); ok {
					return n
				}
			}
			if u, ok := strip(v).(*ssa.UnOp); ok && u.Op == token.MUL {
				if n, ok := addrField(u.X); ok {
					return n
				}
			}
			return ""
		}
		var mem *ssa.Store
		var memChain []ssa.CallInstruction
		for _, vi := range virtualInstrs(f) {
			vi := vi
			vi.run(func() {
				if st, ok := vi.in.(*ssa.Store); ok {
					if _, isF := addrField(st.Addr); isF && isYear(st.Val) {
						mem, memChain = st, vi.chain
					}
				}
			})
		}
		key := kind + ":year"
		if mem == nil {
			r.bad(rule, key, p.pos(f.Pos()), "%sAggregator does not remember the year of the row it has just labelled: whether the next row repeats the year cannot depend on it", kind)
			continue
		}
		n++
		vcall{chain: memChain}.run(func() {
			fld, _ := addrField(mem.Addr)
			// the guard of the store (and of the year cell): year != remembered
			okGuard, extra := false, ""
			for _, g := range plainGuardsOf(mem.Block()) {
				bo, ok := g.Cond.(*ssa.BinOp)
				if ok && (bo.Op == token.NEQ || bo.Op == token.EQL) && (bo.Op == token.NEQ) == g.Pol {
					f1, f2 := loadField(bo.X), loadField(bo.Y)
					if (f1 == fld && isYear(bo.Y)) || (f2 == fld && isYear(bo.X)) {
						okGuard = true
						continue
					}
				}
				extra = g.Cond.String()
			}
			r.check(okGuard && extra == "", rule, key, p.instrPos(mem), "the year is labelled (and remembered) exactly when it differs from the row above", fmt.Sprintf("the year label of the %s report does not depend on exactly 'this row's year differs from the remembered one' (%s): a row can stand under the wrong year", kind, extra))
			// the year cell is printed in that branch: a cell whose text is made from the year
			printed := false
			for _, in := range mem.Block().Instrs {
				c, ok := in.(ssa.CallInstruction)
				if !ok {
					continue
				}
				if nm, _, args, _ := methodCallOf(c); (nm == "CellR" || nm == "CellL") && len(args) == 1 {
					var leaves []ssa.Value
					catLeaves(args[0], &leaves, 0)
					for _, l := range leaves {
						sc, _ := callOf(strip(l))
						if sc == nil {
							continue
						}
						for _, a := range sc.Common().Args {
							if isYear(a) {
								printed = true
							}
							if els, isL := sliceLitElems(a); isL {
								for _, e := range els {
									if isYear(e) {
										printed = true
									}
								}
							}
						}
					}
				}
			}
			r.check(printed, rule, key+":cell", p.instrPos(mem), "the year cell is printed in that branch", "the year is remembered but its cell is not printed in the same branch")
		})
	}
	if n < 4 {
		r.undecided(rule, "floor", "-", "expected the four aggregators with a year column, found %d", n)
	}
}

// isErrorType: the predeclared error interface, or a named interface that embeds Error() string.
func isErrorType(t types.Type) bool {
	if t == nil {
		return false
	}
	if t.String() == "error" {
		return true
	}
	if it, ok := t.Underlying().(*types.Interface); ok {
		for i := 0; i < it.NumMethods(); i++ {
			if it.Method(i).Name() == "Error" {
				return true
			}
		}
	}
	return false
}

// P07-renumber-complete — the parallel engine parses blocks with a provisional line numbering
// and corrects it afterwards with SetPrecedingLineCount (P07-renumber). That correction reaches
// everything a block keeps about its absolute position: every field of txt.block that
// ParseBlock fills from its precedingLineCount argument is written again by
// SetPrecedingLineCount.
func ruleP07RenumberComplete(p *Prog, r *Report) {
	const rule = "P07-renumber-complete"
	pb := p.fn("klog/parser/txt", "ParseBlock")
	set := p.method("klog/parser/txt", "block", "SetPrecedingLineCount")
	if !r.anchorFn(rule, pb, "txt.ParseBlock") || !r.anchorFn(rule, set, "txt.(*block).SetPrecedingLineCount") {
		return
	}
	if len(pb.Params) < 2 {
		r.undecided(rule, "param", p.pos(pb.Pos()), "ParseBlock has no preceding-line-count parameter")
		return
	}
	count := ssa.Value(pb.Params[1])
	var dependsOn func(v ssa.Value, depth int, seen map[ssa.Value]bool) bool
	dependsOn = func(v ssa.Value, depth int, seen map[ssa.Value]bool) bool {
		v = strip(v)
		if v == count {
			return true
		}
		if depth > 10 || seen[v] {
			return false
		}
		seen[v] = true
		switch x := v.(type) {
		case *ssa.BinOp:
			return dependsOn(x.X, depth+1, seen) || dependsOn(x.Y, depth+1, seen)
		case *ssa.UnOp:
			if x.Op == token.MUL {
				if cell := cellOf(x.X); cell != nil {
					for _, s := range storesTo(cell) {
						if dependsOn(s.val, depth+1, seen) {
							return true
						}
					}
					return false
				}
			}
			return dependsOn(x.X, depth+1, seen)
		case *ssa.Convert:
			return dependsOn(x.X, depth+1, seen)
		case *ssa.Phi:
			for _, e := range x.Edges {
				if dependsOn(e, depth+1, seen) {
					return true
				}
			}
		}
		return false
	}
	positional := map[string]string{}
	eachInstr(pb, func(in ssa.Instruction) {
		st, ok := in.(*ssa.Store)
		if !ok {
			return
		}
		fa, ok := st.Addr.(*ssa.FieldAddr)
		if !ok || typeNameOf(derefType(fa.X.Type())) != "block" {
			return
		}
		if dependsOn(st.Val, 0, map[ssa.Value]bool{}) {
			positional[fieldName(fa)] = p.instrPos(st)
		}
	})
	rewritten := map[string]bool{}
	eachInstr(set, func(in ssa.Instruction) {
		if st, ok := in.(*ssa.Store); ok {
			if fa, ok := st.Addr.(*ssa.FieldAddr); ok && strip(fa.X) == ssa.Value(set.Params[0]) {
				rewritten[fieldName(fa)] = true
			}
		}
	})
	if len(positional) == 0 {
		r.undecided(rule, "fields", p.pos(pb.Pos()), "ParseBlock stores nothing that depends on its preceding line count")
		return
	}
	for _, fld := range sortedKeys(positional) {
		r.check(rewritten[fld], rule, "field:"+fld, positional[fld], "block."+fld+" depends on the preceding line count and is rewritten by SetPrecedingLineCount", "block."+fld+" is computed from the preceding line count when the block is parsed, but SetPrecedingLineCount does not rewrite it: in blocks from the parallel engine it keeps the provisional (batch-relative) position, so whatever reads it works on another line than with the serial parser")
	}
}

// P03-creators-readonly — a reconciler creator is handed the records and the blocks of the file
// as two parallel lists (records[i] was parsed from blocks[i]) that the other creators of the same
// command see as well: it reads them, it never reorders or overwrites them.
func ruleP03CreatorsReadonly(p *Prog, r *Report) {
	const rule = "P03-creators-readonly"
	n := 0
	for _, f := range p.srcFns {
		if !p.inMod(f) || len(f.Params) < 2 {
			continue
		}
		// the Creator shape: (…, []klog.Record, []txt.Block) *reconciling.Reconciler
		sig := f.Signature
		if sig.Results().Len() != 1 || typeNameOf(sig.Results().At(0).Type()) != "Reconciler" {
			continue
		}
		var lists []*ssa.Parameter
		for _, prm := range f.Params {
			if isSliceOf(prm.Type(), "Record") || isSliceOf(prm.Type(), "Block") {
				lists = append(lists, prm)
			}
		}
		if len(lists) != 2 {
			continue
		}
		n++
		bad := ""
		for _, prm := range lists {
			// the parameter itself and, when a closure captures it, every load of its cell
			var uses []ssa.Instruction
			uses = append(uses, *prm.Referrers()...)
			for _, ref := range *prm.Referrers() {
				if st, ok := ref.(*ssa.Store); ok && st.Val == ssa.Value(prm) {
					if cell, isCell := st.Addr.(*ssa.Alloc); isCell {
						for _, g := range withAnons(f) {
							eachInstr(g, func(in ssa.Instruction) {
								if u, isU := in.(*ssa.UnOp); isU && u.Op == token.MUL && cellOf(u.X) == cell {
									uses = append(uses, *u.Referrers()...)
								}
							})
						}
					}
				}
			}
			for _, ref := range uses {
				switch x := ref.(type) {
				case ssa.CallInstruction:
					if g := staticCallee(x); g != nil && g.Pkg != nil && (g.Pkg.Pkg.Path() == "sort" || g.Pkg.Pkg.Path() == "slices") {
						switch g.Name() {
						case "Slice", "SliceStable", "Sort", "Stable", "SortFunc", "SortStableFunc", "Reverse":
							bad = "reorders " + prm.Name() + " in place with " + calleeName(x) + " at " + p.instrPos(x)
						}
					}
				case *ssa.MakeInterface:
					for _, r2 := range *x.Referrers() {
						if c2, ok := r2.(ssa.CallInstruction); ok {
							if g := staticCallee(c2); g != nil && g.Pkg != nil && g.Pkg.Pkg.Path() == "sort" {
								bad = "reorders " + prm.Name() + " in place with " + calleeName(c2) + " at " + p.instrPos(c2)
							}
						}
					}
				case *ssa.IndexAddr:
					for _, r2 := range *x.Referrers() {
						if st, ok := r2.(*ssa.Store); ok && st.Addr == ssa.Value(x) {
							bad = "overwrites an element of " + prm.Name() + " at " + p.instrPos(st)
						}
					}
				}
			}
		}
		r.check(bad == "", rule, fnName(f), p.pos(f.Pos()), "the creator only reads the record and block lists", "a reconciler creator "+bad+": records[i] and blocks[i] no longer belong together for the creators that run after it, and the edit lands in another record's lines")
	}
	if n < 3 {
		r.undecided(rule, "floor", "-", "found %d reconciler creators, expected at least 3", n)
	}
}

// P05-after-write — once ReconcileFile has returned without an error the file has been written:
// from there on the command can only succeed. util.Reconcile (through which every mutating
// command but pause runs) returns a failure only on the failing edge of ReconcileFile; a check
// of the result that can still refuse belongs in front of the write, not behind it.
func ruleP05AfterWrite(p *Prog, r *Report) {
	const rule = "P05-after-write"
	f := p.fn("klog/app/cli/util", "Reconcile")
	if !r.anchorFn(rule, f, "util.Reconcile") {
		return
	}
	var rc ssa.CallInstruction
	for _, vi := range virtualInstrs(f) {
		if c, ok := vi.in.(ssa.CallInstruction); ok && c.Common().IsInvoke() && c.Common().Method.Name() == "ReconcileFile" && c.Parent() == f {
			rc = c
		}
	}
	if rc == nil {
		r.undecided(rule, "call", p.pos(f.Pos()), "util.Reconcile does not call Context.ReconcileFile")
		return
	}
	e := resultOf(rc, 1)
	if e == nil {
		r.bad(rule, "error", p.instrPos(rc), "the error of ReconcileFile is discarded")
		return
	}
	n := 0
	for i, ret := range returnsOf(f) {
		if !knownNil(ret.Block(), e) {
			continue
		}
		n++
		r.check(isNilConst(retResult(ret, 0)), rule, fmt.Sprintf("return#%d", i), p.instrPos(ret), "after a successful write the command reports success", "util.Reconcile can still report a failure after ReconcileFile has succeeded, i.e. after the file has been rewritten: the command fails although its edit is on disk")
	}
	if n == 0 {
		r.undecided(rule, "success", p.pos(f.Pos()), "no return on the success edge of ReconcileFile found")
	}
	// … and it cannot crash either: whatever runs after the write (printing the record, the
	// warnings) reaches no panic that the totality check of C06 (P06-panics / P06-partial) leaves
	// open. A crash there is a failed command — exit status 2 — whose edit is already on disk.
	var after []*ssa.Function
	eachInstr(f, func(in ssa.Instruction) {
		c, ok := in.(ssa.CallInstruction)
		if !ok || c == rc || !(rc.Block() == c.Block() && instrIndex(rc) < instrIndex(c) || rc.Block().Dominates(c.Block()) && rc.Block() != c.Block()) {
			return
		}
		for _, g := range p.calleesAt(c) {
			if p.inModFn(g) {
				after = append(after, g)
			}
		}
	})
	if len(after) == 0 {
		return
	}
	sub := &Report{p: p}
	ruleP06Panics(p, sub)
	open := map[string]string{}
	for _, o := range sub.Obligs {
		if o.Verdict == Violated {
			open[o.Pos] = o.Key
		}
	}
	reach := p.reach(after, nil, nil)
	found := map[string]bool{}
	for _, g := range reach.moduleFuncs() {
		eachInstr(g, func(in ssa.Instruction) {
			pn, ok := in.(*ssa.Panic)
			if !ok {
				return
			}
			key, isOpen := open[p.instrPos(pn)]
			if !isOpen || found[key] {
				return
			}
			found[key] = true
			r.bad(rule, "crash-after-write:"+key, p.instrPos(pn), "a panic that C06 leaves open (%s) is reachable from what util.Reconcile does AFTER the file has been rewritten (path: %s): the command then crashes — a failure, exit status 2 — although its edit is on disk", key, strings.Join(reach.path(g), " -> "))
		})
	}
	if len(found) == 0 {
		r.ok(rule, "crash-after-write", p.instrPos(rc), "nothing that runs after the write reaches a panic that C06 leaves open (%d functions examined)", len(reach.moduleFuncs()))
	}
}

// P18-strip-measure-only — StripAllAnsiSequences exists to MEASURE styled text (a table cell's
// width). It is never applied to text that is printed: the user's own text may contain escape
// sequences, and removing them from the output makes `--no-style` differ from the other ways of
// switching styling off (and print no longer reproduces the file).
func ruleP18StripMeasureOnly(p *Prog, r *Report) {
	const rule = "P18-strip-measure-only"
	strip0 := p.fn("klog/app/cli/terminalformat", "StripAllAnsiSequences")
	if !r.anchorFn(rule, strip0, "terminalformat.StripAllAnsiSequences") {
		return
	}
	n := 0
	for _, f := range p.srcFns {
		if !p.inMod(f) {
			continue
		}
		for _, c := range callsTo(f, strip0) {
			n++
			// every use of the result is a length measurement
			okUse := c.Value() != nil && len(*c.Value().Referrers()) > 0
			what := ""
			if okUse {
				for _, ref := range *c.Value().Referrers() {
					cc, isCall := ref.(ssa.CallInstruction)
					measured := false
					if isCall {
						if b, isB := cc.Common().Value.(*ssa.Builtin); isB && b.Name() == "len" {
							measured = true
						}
						if g := staticCallee(cc); g != nil && (g.String() == "unicode/utf8.RuneCountInString" || g.String() == "unicode/utf8.RuneCount") {
							measured = true
						}
					}
					if _, isDbg := ref.(*ssa.DebugRef); isDbg {
						measured = true
					}
					if !measured {
						okUse = false
						what = p.instrPos(ref)
					}
				}
			}
			r.check(okUse, rule, fmt.Sprintf("%s#%d", fnName(f), n), p.instrPos(c), "the stripped text is only measured", "the text with escape sequences removed is used for something other than measuring its length ("+what+"): sequences that belong to the user's text are removed from what is printed")
		}
	}
	if n == 0 {
		r.undecided(rule, "floor", "-", "no use of StripAllAnsiSequences found (the table measures cells with it)")
	}
}

// inModType: t (or what it points to) is a named type declared in the module under analysis.
func (p *Prog) inModType(t types.Type) bool {
	if pt, ok := t.Underlying().(*types.Pointer); ok {
		t = pt.Elem()
	}
	if pt, ok := t.(*types.Pointer); ok {
		t = pt.Elem()
	}
	n, ok := t.(*types.Named)
	return ok && n.Obj().Pkg() != nil && strings.HasPrefix(n.Obj().Pkg().Path(), modPath)
}

// P20-input-order — the records of several input files are handed out in the order in which the
// files were named. Every append that builds the record list ReadInputs returns runs in
// ReadInputs' own thread of control (not in a function started with `go`) and appends a value
// that did not arrive over a channel: either of the two makes the order that of completion.
// Results that workers deposit by index and that are merged afterwards pass.
func ruleP20InputOrder(p *Prog, r *Report) {
	const rule = "P20-input-order"
	n := 0
	for _, f := range p.implsOf("klog/app", "Context", "ReadInputs") {
		if pkgPathOfFn(f) != modPath+"/klog/app" {
			continue
		}
		goTargets := map[*ssa.Function]string{}
		for _, g := range withAnons(f) {
			eachInstr(g, func(in ssa.Instruction) {
				st, ok := in.(*ssa.Go)
				if !ok {
					return
				}
				if t := rawStaticCallee(st); t != nil {
					goTargets[originFn(t)] = p.instrPos(st)
				} else if t := funcLiteral(st.Call.Value); t != nil {
					goTargets[t] = p.instrPos(st)
				}
			})
		}
		var fromChannel func(v ssa.Value, depth int) bool
		fromChannel = func(v ssa.Value, depth int) bool {
			if v == nil || depth > 8 {
				return false
			}
			switch x := v.(type) {
			case *ssa.UnOp:
				if x.Op == token.ARROW {
					return true
				}
				if c := cellOf(x.X); c != nil && x.Op == token.MUL {
					for _, s := range storesTo(c) {
						if fromChannel(s.val, depth+1) {
							return true
						}
					}
					return false
				}
				return fromChannel(x.X, depth+1)
			case *ssa.Select:
				return true
			case *ssa.Alloc:
				for _, s := range storesTo(x) {
					if fromChannel(s.val, depth+1) {
						return true
					}
				}
			case *ssa.Extract:
				return fromChannel(x.Tuple, depth+1)
			case *ssa.Field:
				return fromChannel(x.X, depth+1)
			case *ssa.FieldAddr:
				return fromChannel(x.X, depth+1)
			case *ssa.Phi:
				for _, e := range x.Edges {
					if fromChannel(e, depth+1) {
						return true
					}
				}
			case *ssa.Slice:
				return fromChannel(x.X, depth+1)
			case *ssa.ChangeType:
				return fromChannel(x.X, depth+1)
			}
			return false
		}
		for i, ret := range returnsOf(f) {
			if len(ret.Results) != 2 || isNilConst(retResult(ret, 0)) {
				continue
			}
			n++
			key := fmt.Sprintf("%s:return#%d", fnName(f), i)
			apps, _ := accWeb(retResult(ret, 0))
			bad := ""
			for _, a := range apps {
				for h := a.Parent(); h != nil; h = h.Parent() {
					if at, isGo := goTargets[originFn(h)]; isGo {
						bad = "the append at " + p.instrPos(a) + " runs in a function started with `go` at " + at
					}
				}
				if len(a.Call.Args) >= 2 && fromChannel(a.Call.Args[1], 0) {
					bad = "the append at " + p.instrPos(a) + " takes what arrives over a channel"
				}
			}
			r.check(bad == "", rule, key, p.instrPos(ret), "the record list is built in ReadInputs' own control flow, file by file", "the records of several input files are put together in the order in which their parsing completes ("+bad+"), not in the order in which the files were given: json, print and every other output list them differently from run to run")
		}
	}
	if n == 0 {
		r.undecided(rule, "floor", "-", "no record-returning path of the real ReadInputs found")
	}
}

// P15-week-bound — NewWeekFromString reaches the week asked for by stepping (week − w)·7 days
// from a day in the middle of the year. The step is taken only for a week number that exists in
// that year: at least 1, and at most the number of the week that contains December 28th (which
// always lies in the year's last week). Otherwise the step can leave the representable calendar
// (0000-W00, 9999-W53) and PlusDays panics instead of the pattern being rejected.
func ruleP15WeekBound(p *Prog, r *Report) {
	const rule = "P15-week-bound"
	f := p.fn("klog/service/period", "NewWeekFromString")
	if !r.anchorFn(rule, f, "period.NewWeekFromString") {
		return
	}
	isParsed := func(v ssa.Value) bool {
		c, idx := callOf(strip(v))
		return c != nil && idx == 0 && staticCallee(c) != nil && staticCallee(c).String() == "strconv.Atoi"
	}
	var isLastWeek func(v ssa.Value) bool
	isLastWeek = func(v ssa.Value) bool {
		// handed back by a private helper together with an error: the value of its successful returns
		if ex0, isEx := v.(*ssa.Extract); isEx {
			if hc, isCall := ex0.Tuple.(*ssa.Call); isCall {
				if g := rawStaticCallee(hc); g != nil && isHelper(g) {
					n := 0
					for _, rw := range valueRows(v, 0, map[ssa.Value]bool{}) {
						if rw.errv != nil && !isNilConst(rw.errv) {
							continue
						}
						if rw.val == nil || rw.val == v || !isLastWeek(rw.val) {
							return false
						}
						n++
					}
					return n > 0
				}
			}
		}
		ex, ok := strip(v).(*ssa.Extract)
		if !ok || ex.Index != 1 {
			return false
		}
		n, recv, _, _ := methodCall(ex.Tuple)
		if n != "WeekNumber" {
			return false
		}
		c, idx := callOf(strip(recv))
		if c == nil || idx != 0 || staticCallee(c) == nil || fnBase(staticCallee(c)) != "NewDate" || len(c.Common().Args) != 3 {
			return false
		}
		m, okM := constInt(c.Common().Args[1])
		d, okD := constInt(c.Common().Args[2])
		return okM && okD && m == 12 && d == 28
	}
	n := 0
	for _, g := range withAnons(f) {
		eachInstr(g, func(in ssa.Instruction) {
			c, ok := in.(ssa.CallInstruction)
			if !ok {
				return
			}
			nm, _, args, _ := methodCallOf(c)
			if nm != "PlusDays" || len(args) != 1 {
				return
			}
			pl := polyOf(args[0])
			var week ssa.Value
			for k := range pl.Terms {
				if isParsed(pl.leafV[k]) {
					week = strip(pl.leafV[k])
				}
			}
			if week == nil {
				return
			}
			n++
			gs := guardsOf(c.Block())
			for h := c.Parent(); h != nil && h != f; h = h.Parent() {
				if site := soleDirectCall(h); site != nil {
					gs = append(gs, guardsOf(site.Block())...)
				}
			}
			lower, upper := false, false
			for _, gd := range gs {
				bo, ok := gd.Cond.(*ssa.BinOp)
				if !ok {
					continue
				}
				op, x, y := bo.Op, bo.X, bo.Y
				if sameValue(y, week) && !sameValue(x, week) {
					// k OP week  ==  week OP' k
					x, y = y, x
					switch op {
					case token.LSS:
						op = token.GTR
					case token.LEQ:
						op = token.GEQ
					case token.GTR:
						op = token.LSS
					case token.GEQ:
						op = token.LEQ
					}
				}
				if !sameValue(x, week) {
					continue
				}
				if !gd.Pol {
					switch op {
					case token.LSS:
						op = token.GEQ
					case token.LEQ:
						op = token.GTR
					case token.GTR:
						op = token.LEQ
					case token.GEQ:
						op = token.LSS
					default:
						continue
					}
				}
				if k, isK := constInt(y); isK {
					if (op == token.GEQ && k >= 1) || (op == token.GTR && k >= 0) {
						lower = true
					}
				}
				if op == token.LEQ && isLastWeek(y) {
					upper = true
				}
			}
			key := fmt.Sprintf("step#%d", n)
			r.check(lower, rule, key+":lower", p.instrPos(c), "the step towards the week asked for is taken only for a week number of at least 1", "the step towards the week asked for is taken for week 0 as well: in year 0000 it leaves the calendar and PlusDays panics (0000-W00) instead of the pattern being rejected")
			r.check(upper, rule, key+":upper", p.instrPos(c), "… and of at most the year's last week (that of December 28th)", "the step towards the week asked for is taken for week numbers beyond the year's last week: in year 9999 it leaves the calendar and PlusDays panics (9999-W53) instead of the pattern being rejected")
		})
	}
	if n == 0 {
		r.undecided(rule, "step", p.pos(f.Pos()), "no PlusDays step by a multiple of the parsed week number found in NewWeekFromString")
	}
}

// P16-range-validity — whether two times form a range is decided in one place, the range
// constructor (`end is not before start`). No other function of the value package refuses a pair
// of times on a comparison of its own: a second test that is stricter (or laxer) than the
// constructor's makes a range valid in one way of producing it (parsing `8:00 - 8:00`) and
// invalid in another (closing `8:00 - ?` at 8:00).
func ruleP16RangeValidity(p *Prog, r *Report) {
	const rule = "P16-range-validity"
	ctor := p.fn("klog", "NewRangeWithFormat")
	if !r.anchorFn(rule, ctor, "klog.NewRangeWithFormat") {
		return
	}
	isTimeCmp := func(v ssa.Value) (ssa.CallInstruction, bool) {
		for {
			u, ok := v.(*ssa.UnOp)
			if !ok || u.Op != token.NOT {
				break
			}
			v = u.X
		}
		c, ok := v.(*ssa.Call)
		if !ok {
			return nil, false
		}
		nm, recv, _, _ := methodCallOf(c)
		if nm != "IsAfterOrEqual" && nm != "IsEqualTo" {
			return nil, false
		}
		tn := typeNameOf(derefType(recv.Type()))
		return c, tn == "Time" || tn == "time"
	}
	nCtor, nOther := 0, 0
	for _, f := range p.srcFns {
		if pkgPathOfFn(f) != modPath+"/klog" || len(f.Blocks) == 0 {
			continue
		}
		ei := errResultIndex(f.Signature)
		if ei < 0 {
			continue
		}
		for i, ret := range returnsOf(f) {
			if ei >= len(ret.Results) || isNilConst(retResult(ret, ei)) || p.nilnessAt(ret.Block(), retResult(ret, ei), 0) != nnNonNil {
				continue
			}
			for _, g := range guardsOf(ret.Block()) {
				c, ok := isTimeCmp(g.Cond)
				if !ok {
					continue
				}
				if sameFn(outermost(f), ctor) {
					nCtor++
					continue
				}
				nOther++
				r.bad(rule, fmt.Sprintf("%s:return#%d", fnName(f), i), p.instrPos(c), "%s refuses its operands on a comparison of two times of its own (%s): whether two times form a range is the range constructor's decision alone, and a second test that differs from it makes a range valid or not depending on how it is produced", fnName(f), calleeName(c))
			}
		}
	}
	r.check(nCtor >= 1, rule, "constructor", p.pos(ctor.Pos()), "the range constructor refuses a pair of times on its comparison", "the range constructor no longer refuses any pair of times")
	if nOther == 0 {
		r.ok(rule, "elsewhere", "-", "no other function of the value package refuses a pair of times on a comparison of its own")
	}
}

// P06-comma-ok — a module function that hands back (value, found) with a nil value when nothing
// was found obliges its callers: the value is not used — no method called on it, not passed on,
// not collected — where `found` is not known to hold. (A nil Record or Entry that travels on
// crashes the next thing that looks at it.)
func ruleP06CommaOk(p *Prog, r *Report) {
	const rule = "P06-comma-ok"
	// the functions: results (T, bool), T a pointer or interface, some return is (nil, false)
	givers := map[*ssa.Function]bool{}
	for _, g := range p.srcFns {
		res := g.Signature.Results()
		if res.Len() != 2 || len(g.Blocks) == 0 {
			continue
		}
		if b, ok := res.At(1).Type().Underlying().(*types.Basic); !ok || b.Kind() != types.Bool {
			continue
		}
		switch res.At(0).Type().Underlying().(type) {
		case *types.Pointer, *types.Interface:
		default:
			continue
		}
		for _, ret := range returnsOf(g) {
			if len(ret.Results) != 2 {
				continue
			}
			if k, isK := constBool(ret.Results[1]); isK && !k && isNilConst(ret.Results[0]) {
				givers[originFn(g)] = true
			}
		}
	}
	var holds func(cond ssa.Value, ok ssa.Value, depth int) bool
	holds = func(cond ssa.Value, ok ssa.Value, depth int) bool {
		if depth > 4 {
			return false
		}
		if cond == ok || sameValue(cond, ok) {
			return true
		}
		if ph, isPhi := cond.(*ssa.Phi); isPhi {
			// a flag that is `found` on one path and true on the others
			any := false
			for _, e := range ph.Edges {
				if k, isK := constBool(e); isK {
					if !k {
						return false
					}
					continue
				}
				if !holds(e, ok, depth+1) {
					return false
				}
				any = true
			}
			return any
		}
		return false
	}
	n := 0
	for _, f := range p.srcFns {
		if len(f.Blocks) == 0 {
			continue
		}
		idx := 0
		eachInstr(f, func(in ssa.Instruction) {
			c, isCall := in.(*ssa.Call)
			if !isCall {
				return
			}
			g := rawStaticCallee(c)
			if g == nil || !givers[originFn(g)] {
				return
			}
			v, ok := resultOf(c, 0), resultOf(c, 1)
			if v == nil {
				return
			}
			n++
			idx++
			key := fmt.Sprintf("%s<-%s#%d", fnName(f), fnName(originFn(g)), idx)
			if ok == nil {
				r.bad(rule, key, p.instrPos(c), "the value of %s is used although its `found` result is thrown away: it is nil when nothing was found", fnName(originFn(g)))
				return
			}
			// the uses of the value, through phis
			bad := ""
			seen := map[ssa.Value]bool{}
			var visit func(x ssa.Value, depth int)
			visit = func(x ssa.Value, depth int) {
				if seen[x] || depth > 4 || bad != "" {
					return
				}
				seen[x] = true
				refs := x.Referrers()
				if refs == nil {
					return
				}
				for _, ref := range *refs {
					switch u := ref.(type) {
					case *ssa.Phi:
						// safe when `found` holds on every edge over which the value comes in
						safe := true
						for i, e := range u.Edges {
							if e != x {
								continue
							}
							pb := u.Block().Preds[i]
							known := false
							for _, gd := range append(append([]Guard{}, guardsOf(pb)...), edgeGuard(pb, u.Block())...) {
								if gd.Pol && holds(gd.Cond, ok, 0) {
									known = true
								}
							}
							if !known {
								safe = false
							}
						}
						if !safe {
							visit(u, depth+1)
						}
						continue
					case *ssa.Return, *ssa.DebugRef:
						continue
					case *ssa.BinOp:
						continue // a comparison
					case *ssa.Store:
						if u.Val != x {
							continue
						}
					}
					known := false
					for _, gd := range guardsOf(ref.Block()) {
						if gd.Pol && holds(gd.Cond, ok, 0) {
							known = true
						}
					}
					if !known {
						bad = p.instrPos(ref)
						return
					}
				}
			}
			visit(v, 0)
			r.check(bad == "", rule, key, p.instrPos(c), "the value is used only where `found` holds", "the value handed back by "+fnName(originFn(g))+" is used at "+bad+" without `found` being known to hold: it is nil when nothing was found, and the next method call on it crashes")
		})
	}
	if n < 2 {
		r.undecided(rule, "floor", "-", "found %d calls of (value, found) functions that hand back nil, expected at least 2", n)
	}
}

// runePredicateSet: the runes for which the predicate value v (a module func(rune) bool, a
// closure, or txt.Is(a, b, …)) holds, as "{' ','\t'}".
func (p *Prog) runePredicateSet(v ssa.Value) (string, bool) {
	v = strip(v)
	switch x := v.(type) {
	case *ssa.Function:
		return runeSetOfPredicate(x)
	case *ssa.MakeClosure:
		return runeSetOfPredicate(x.Fn.(*ssa.Function))
	case *ssa.Call:
		if g := staticCallee(x); g != nil && sameFn(g, p.fn("klog/parser/txt", "Is")) {
			elems, ok := sliceLitElems(x.Call.Args[0])
			if !ok {
				return "", false
			}
			var runes []string
			for _, e := range elems {
				k, isK := constInt(e)
				if !isK {
					return "", false
				}
				runes = append(runes, fmt.Sprintf("%q", rune(k)))
			}
			sort.Strings(runes)
			return "{" + strings.Join(dedup(runes), ",") + "}", true
		}
	}
	return "", false
}

// P01-headline-blanks — "additional spaces MAY appear" between the parts of the headline: every
// look at the headline (Peek, PeekUntil, RemainingLength) is taken where no blank is left in front
// of the cursor — the last cursor move before it, on every path, skipped a run of blanks
// (SkipWhile over space and tab), or the cursor has not moved at all. A look that follows a
// counted Advance decides on whatever character happens to stand there: a second blank makes a
// should-total "unrecognised text".
func ruleP01HeadlineBlanks(p *Prog, r *Report) {
	const rule = "P01-headline-blanks"
	_, fam := parseFamily(p)
	var f *ssa.Function
	for _, g := range fam {
		eachInstr(g, func(in ssa.Instruction) {
			if c, ok := in.(ssa.CallInstruction); ok {
				if callee := staticCallee(c); callee != nil && fnBase(callee) == "ErrorUnrecognisedTextInHeadline" {
					f = g
				}
			}
		})
	}
	if f == nil {
		r.undecided(rule, "anchor", "-", "the function that parses the headline (raises ErrorUnrecognisedTextInHeadline) was not found")
		return
	}
	var h ssa.Value
	nNew := 0
	eachInstr(f, func(in ssa.Instruction) {
		if c, ok := in.(*ssa.Call); ok {
			if callee := staticCallee(c); callee != nil && fnBase(callee) == "NewParseable" {
				h = c
				nNew++
			}
		}
	})
	if h == nil || nNew != 1 {
		r.undecided(rule, "headline", p.pos(f.Pos()), "expected one Parseable for the headline, found %d", nNew)
		return
	}
	onH := func(in ssa.Instruction) (string, ssa.CallInstruction) {
		c, ok := in.(ssa.CallInstruction)
		if !ok {
			return "", nil
		}
		nm, recv, _, _ := methodCallOf(c)
		if nm == "" || recv == nil || !(strip(recv) == h || sameValue(recv, h)) {
			return "", nil
		}
		return nm, c
	}
	// the last cursor move before instruction index i of block b, on every path
	type state struct {
		b *ssa.BasicBlock
		i int
	}
	var lastMoves func(b *ssa.BasicBlock, i int, seen map[*ssa.BasicBlock]bool) map[string]string
	lastMoves = func(b *ssa.BasicBlock, i int, seen map[*ssa.BasicBlock]bool) map[string]string {
		out := map[string]string{}
		for j := i - 1; j >= 0; j-- {
			nm, c := onH(b.Instrs[j])
			switch nm {
			case "SkipWhile":
				set, ok := p.runePredicateSet(c.Common().Args[len(c.Common().Args)-1])
				if ok && set == "{' ','\\t'}" {
					out["skip-blanks"] = p.instrPos(c)
				} else {
					out["skip:"+set] = p.instrPos(c)
				}
				return out
			case "Advance":
				out["advance"] = p.instrPos(c)
				return out
			}
			// the headline handed to another function: not followed
			if c, ok := b.Instrs[j].(ssa.CallInstruction); ok && nm == "" {
				for _, a := range c.Common().Args {
					if strip(a) == h && p.inModFn(rawStaticCallee(c)) && fnBase(rawStaticCallee(c)) != "NewParseable" {
						out["unknown"] = p.instrPos(c)
						return out
					}
				}
			}
		}
		if len(b.Preds) == 0 {
			out["none"] = ""
			return out
		}
		for _, pb := range b.Preds {
			if seen[pb] {
				continue
			}
			seen[pb] = true
			for k, v := range lastMoves(pb, len(pb.Instrs), seen) {
				out[k] = v
			}
		}
		return out
	}
	n := 0
	for _, b := range f.Blocks {
		for i, in := range b.Instrs {
			nm, c := onH(in)
			if nm != "Peek" && nm != "PeekUntil" && nm != "RemainingLength" {
				continue
			}
			// only a look that decides something or cuts a token (its value is used)
			if v, ok := in.(ssa.Value); ok && (v.Referrers() == nil || len(*v.Referrers()) == 0) {
				continue
			}
			n++
			bad := ""
			for k, at := range lastMoves(b, i, map[*ssa.BasicBlock]bool{b: false}) {
				if k != "skip-blanks" && k != "none" {
					bad = k + " at " + at
				}
			}
			r.check(bad == "", rule, fmt.Sprintf("look#%d:%s", n, nm), p.instrPos(c), "the headline is looked at where no blank is left in front of the cursor", "the headline is looked at ("+nm+") right after a cursor move that does not skip blanks ("+bad+"): an additional blank between the parts of the headline — which the specification allows — is taken for the next part, and the record is rejected or its should-total missed")
		}
	}
	if n < 5 {
		r.undecided(rule, "floor", p.pos(f.Pos()), "found %d looks at the headline, expected at least 5", n)
	}
}

// P15-pattern-dispatch — "every period pattern denotes exactly that period": whether a text is
// a year, month, quarter or week pattern is decided by the four pattern parsers themselves, each
// of which is asked for every text that the ones before it refused. No parser is reached only
// under a condition on the text (its length, a character at some position): such a pre-selection
// has to agree with four regular expressions in every detail, and where it does not
// (`2022-W1` is seven characters long) a valid pattern is refused.
func ruleP15PatternDispatch(p *Prog, r *Report) {
	const rule = "P15-pattern-dispatch"
	f := p.fn("klog/service/period", "NewPeriodFromPatternString")
	if !r.anchorFn(rule, f, "period.NewPeriodFromPatternString") {
		return
	}
	pat := f.Params[0]
	var dependsOnText func(v ssa.Value, depth int) bool
	dependsOnText = func(v ssa.Value, depth int) bool {
		if v == nil || depth > 6 {
			return false
		}
		if strip(v) == ssa.Value(pat) || deref(v) == ssa.Value(pat) {
			return true
		}
		switch x := v.(type) {
		case *ssa.BinOp:
			return dependsOnText(x.X, depth+1) || dependsOnText(x.Y, depth+1)
		case *ssa.UnOp:
			return dependsOnText(x.X, depth+1)
		case *ssa.Lookup:
			return dependsOnText(x.X, depth+1)
		case *ssa.Slice:
			return dependsOnText(x.X, depth+1)
		case *ssa.Convert:
			return dependsOnText(x.X, depth+1)
		case *ssa.Extract:
			return dependsOnText(x.Tuple, depth+1)
		case *ssa.Call:
			// the outcome of one of the parsers is not a condition "on the text"
			if g := rawStaticCallee(x); g != nil && p.inModFn(g) && strings.HasSuffix(fnBase(g), "FromString") {
				return false
			}
			for _, a := range x.Call.Args {
				if dependsOnText(a, depth+1) {
					return true
				}
			}
		case *ssa.Phi:
			for _, e := range x.Edges {
				if dependsOnText(e, depth+1) {
					return true
				}
			}
		}
		return false
	}
	want := map[string]bool{"NewYearFromString": false, "NewMonthFromString": false, "NewQuarterFromString": false, "NewWeekFromString": false}
	for _, g := range withAnons(f) {
		eachInstr(g, func(in ssa.Instruction) {
			c, ok := in.(ssa.CallInstruction)
			if !ok {
				return
			}
			callee := rawStaticCallee(c)
			if callee == nil {
				return
			}
			name := fnBase(callee)
			if _, isParser := want[name]; !isParser {
				return
			}
			want[name] = true
			bad := ""
			gs := guardsOf(c.Block())
			for h := c.Parent(); h != nil && h != f; h = h.Parent() {
				if site := soleDirectCall(h); site != nil {
					gs = append(gs, guardsOf(site.Block())...)
				}
			}
			for _, gd := range gs {
				if dependsOnText(gd.Cond, 0) {
					bad = gd.Cond.String()
				}
			}
			r.check(bad == "", rule, "parser:"+name, p.instrPos(c), name+" is asked whatever the text looks like", name+" is asked only under a condition on the pattern text ("+bad+"): a pattern that the parser accepts but the condition does not let through is refused")
		})
	}
	for _, name := range sortedKeys(want) {
		if !want[name] {
			r.bad(rule, "parser:"+name, p.pos(f.Pos()), "%s is never asked: no pattern of that kind is recognised", name)
		}
	}
}

// P10-origin — an error names the file it was found in: SetOrigin(x.Path()) is applied to the
// errors that parsing x.Contents() produced, and to no others (not to the list accumulated over
// all files so far — SetOrigin changes the error in place, so the later file would take over the
// errors of the earlier ones: "line 40 of b.klg", a file of three lines).
func ruleP10Origin(p *Prog, r *Report) {
	const rule = "P10-origin"
	n := 0
	for _, f := range p.srcFns {
		if pkgPathOfFn(f) != modPath+"/klog/app" || len(f.Blocks) == 0 {
			continue
		}
		idx := 0
		eachInstr(f, func(in ssa.Instruction) {
			c, ok := in.(ssa.CallInstruction)
			if !ok {
				return
			}
			nm, recv, args, _ := methodCallOf(c)
			if nm != "SetOrigin" || len(args) != 1 {
				return
			}
			n++
			idx++
			key := fmt.Sprintf("%s:SetOrigin#%d", fnName(outermost(f)), idx)
			coll := rangeElemOf(recv)
			if coll == nil {
				r.bad(rule, key, p.instrPos(c), "the error that is given its origin is not an element of an error list that is gone through")
				return
			}
			// the list: the errors of one Parse call
			pc, pi := callOf(strip(coll))
			if pc == nil || pi < 1 {
				r.bad(rule, key, p.instrPos(c), "the origin is stamped onto the errors of %s, not onto the errors one parse call returned: the file named is the last one read, whichever file the error was found in", describeValue(coll))
				return
			}
			pn, _, pargs, _ := methodCallOf(pc)
			if pn != "Parse" || len(pargs) != 1 {
				r.bad(rule, key, p.instrPos(c), "the origin is stamped onto the errors of %s, not onto the errors one parse call returned", describeValue(coll))
				return
			}
			// same file: Path() and Contents() of one and the same value
			an, afile, _, _ := methodCall(args[0])
			cn, cfile, _, _ := methodCall(pargs[0])
			same := an == "Path" && cn == "Contents" && afile != nil && cfile != nil && (sameValue(afile, cfile) || strip(afile) == strip(cfile))
			r.check(same, rule, key, p.instrPos(c), "the errors of parsing x.Contents() are given x.Path() as their origin", "the origin given to the errors is not the path of the file whose contents were parsed")
		})
	}
	if n < 2 {
		r.undecided(rule, "floor", "-", "found %d places where parser errors are given their origin, expected 2 (ReadInputs, ReconcileFile)", n)
	}
}

// P04-pause-position — the pause that `klog pause` adds is the LAST entry of its record: the
// once-a-minute step (ExtendPause) finds "its" pause as the last entry that is a non-positive
// duration, so AppendPause and that selector agree only when the new pause goes to the end of
// the record (AppendEntry, or insert at lastLinePointer). Anywhere else — directly under the
// open range, say — an older pause further down is what gets extended, minute after minute.
func ruleP04PausePosition(p *Prog, r *Report) {
	const rule = "P04-pause-position"
	f := p.method("klog/parser/reconciling", "Reconciler", "AppendPause")
	if !r.anchorFn(rule, f, "Reconciler.AppendPause") {
		return
	}
	var atEnd []ssa.CallInstruction
	bad := ""
	for _, vi := range virtualInstrs(f) {
		c, ok := vi.in.(ssa.CallInstruction)
		if !ok {
			continue
		}
		nm, _, args, _ := methodCallOf(c)
		switch nm {
		case "AppendEntry":
			if len(vi.chain) == 0 {
				atEnd = append(atEnd, c)
			}
		case "insert":
			vi.run(func() {
				pl := polyOf(args[0])
				isEnd := pl.C == 0 && len(pl.Terms) == 1
				for k, coef := range pl.Terms {
					if coef != 1 || !strings.HasSuffix(k, ".lastLinePointer") {
						isEnd = false
					}
				}
				if isEnd {
					if len(vi.chain) == 0 {
						atEnd = append(atEnd, c)
					} else {
						atEnd = append(atEnd, vi.chain[0])
					}
				} else {
					bad = p.instrPos(c) + " (at " + pl.String() + ")"
				}
			})
		}
	}
	r.check(bad == "", rule, "position", p.pos(f.Pos()), "the new pause is inserted at the end of the record only", "AppendPause inserts the new pause at "+bad+", not at the end of the record: ExtendPause — which extends the LAST non-positive duration entry — then rewrites an older pause that stands further down, and the new one never moves")
	for i, ret := range returnsOf(f) {
		ev := retResult(ret, 0)
		if !isNilConst(ev) && p.nilnessAt(ret.Block(), ev, 0) == nnNonNil {
			continue
		}
		done := false
		for _, c := range atEnd {
			if c.Block() == ret.Block() || c.Block().Dominates(ret.Block()) {
				done = true
			}
			if cv, isV := c.(ssa.Value); isV && strip(ev) == cv {
				done = true
			}
		}
		r.check(done, rule, fmt.Sprintf("return#%d", i), p.instrPos(ret), "a successful return has appended the pause at the end of the record", "AppendPause can return successfully without having appended the pause at the end of the record")
	}
}

// P11-apply-always — wherever a reconciler writes a generated date or time, the reformat
// directive is consulted on every path that goes on to write: the call of
// ReformatDirective.apply is skipped only where the operation is refused altogether. A further
// condition in front of it ("the file has no records yet, so there is no style to follow")
// also skips the EXPLICIT directive — the configured format — and the value is written in
// the default notation instead.
func ruleP11ApplyAlways(p *Prog, r *Report) {
	const rule = "P11-apply-always"
	n := 0
	for _, f := range p.srcFns {
		if pkgPathOfFn(f) != modPath+"/klog/parser/reconciling" || len(f.Blocks) == 0 {
			continue
		}
		idx := 0
		eachInstr(f, func(in ssa.Instruction) {
			c, ok := in.(ssa.CallInstruction)
			if !ok {
				return
			}
			callee := rawStaticCallee(c)
			if callee == nil || callee.Signature.Recv() == nil || typeNameOf(callee.Signature.Recv().Type()) != "ReformatDirective" || fnBase(callee) == "" {
				return
			}
			if originFn(f).Signature.Recv() != nil && typeNameOf(originFn(f).Signature.Recv().Type()) == "ReformatDirective" {
				return // the directive's own methods calling each other
			}
			n++
			idx++
			key := fmt.Sprintf("%s:%s#%d", fnName(outermost(f)), fnBase(callee), idx)
			bad := ""
			for _, gd := range plainGuardsOf(c.Block()) {
				if gd.If == nil {
					continue
				}
				ib := gd.If.Block()
				other := ib.Succs[1]
				if !gd.Pol {
					other = ib.Succs[0]
				}
				if other == c.Block() || other.Dominates(c.Block()) {
					continue
				}
				msg := rejectComplete(other, func(ret *ssa.Return) string {
					for i := range ret.Results {
						v := retResult(ret, i)
						if isErrorLike(v.Type()) && p.nilnessAt(ret.Block(), v, 0) == nnNonNil {
							return ""
						}
					}
					if len(ret.Results) > 0 && isNilConst(retResult(ret, 0)) {
						return "" // "not applicable": no reconciler
					}
					return "goes on successfully"
				})
				if msg != "" {
					bad = gd.Cond.String()
				}
			}
			r.check(bad == "", rule, key, p.instrPos(c), "the directive is consulted on every path that goes on to write the value", "the reformat directive is consulted only under a further condition ("+bad+"), and the operation goes on without it otherwise: on those paths the value is written in the default notation whatever the configured format or the file's style says")
			// … and what the directive answers is applied: the callback that receives the format
			// stores the reformatted value on every way through it (a way out that skips the
			// store — "shifted times stay as they are" — ignores the directive for those values)
			for _, a := range c.Common().Args {
				lit := funcLiteral(a)
				if lit == nil {
					continue
				}
				var stores []*ssa.Store
				eachInstr(lit, func(in2 ssa.Instruction) {
					if st, isSt := in2.(*ssa.Store); isSt {
						if _, isFV := st.Addr.(*ssa.FreeVar); isFV {
							stores = append(stores, st)
						}
					}
				})
				skipped := ""
				for _, ret := range returnsOf(lit) {
					reached := false
					for _, st := range stores {
						if st.Block() == ret.Block() || st.Block().Dominates(ret.Block()) {
							reached = true
						}
					}
					if !reached {
						skipped = p.instrPos(ret)
					}
				}
				r.check(len(stores) > 0 && skipped == "", rule, key+":applied", p.instrPos(c), "the callback stores the reformatted value on every way through it", "the callback that receives the format can return ("+skipped+") without storing the reformatted value: for the values that take that way the directive — the file's style or the configured format — is ignored")
			}
		})
	}
	if n < 3 {
		r.undecided(rule, "floor", "-", "found %d uses of a reformat directive in package reconciling, expected at least 3", n)
	}
}

// P02-open-range-derived — which entry of a record is its open range is looked up in the entry
// list every time it is asked for (OpenRange, EndOpenRange): a search over r.entries, not a
// position or pointer remembered from when the entry was added. The entry list is replaced as a
// whole elsewhere (SetEntries, used by the tag and entry-type filters); anything remembered about
// it is stale afterwards, and --now then finds no open range to close in a filtered record.
func ruleP02OpenRangeDerived(p *Prog, r *Report) {
	const rule = "P02-open-range-derived"
	or := p.method("klog", "record", "OpenRange")
	eor := p.method("klog", "record", "EndOpenRange")
	if !r.anchorFn(rule, or, "(*record).OpenRange") || !r.anchorFn(rule, eor, "(*record).EndOpenRange") {
		return
	}
	// what the two methods look at, through whatever private helpers they use: of the record,
	// nothing but its entry list
	for _, m := range []*ssa.Function{or, eor} {
		name := fnBase(m)
		bad := ""
		nEntries := 0
		eachVInstr(m, func(in ssa.Instruction) {
			fa, ok := in.(*ssa.FieldAddr)
			if !ok || typeNameOf(derefType(fa.X.Type())) != "record" {
				return
			}
			if fieldName(fa) == "entries" {
				nEntries++
				return
			}
			bad = fieldName(fa) + " (" + p.instrPos(fa) + ")"
		})
		r.check(bad == "", rule, name+":reads", p.pos(m.Pos()), "of the record, "+name+" looks at the entry list only", name+"() relies on the record's field "+bad+" besides the entry list: whatever is remembered there about the entries is not kept up to date when the list is replaced as a whole (SetEntries, used by the tag and entry-type filters), and the open range of a filtered record is no longer found — --now leaves it open")
		if nEntries == 0 {
			r.undecided(rule, name+":entries", p.pos(m.Pos()), "%s does not read the record's entry list", name)
		}
	}
}

// P01-skips — what may be skipped where: between the parts of the headline any run of blanks
// (space or tab); around the dash of a range spaces only — "8:00 -<TAB>9:00" is not a range of
// the specification. Every SkipWhile of the parser is held to the set of its place.
func ruleP01Skips(p *Prog, r *Report) {
	const rule = "P01-skips"
	_, fam := parseFamily(p)
	var headlineFn *ssa.Function
	for _, g := range fam {
		eachInstr(g, func(in ssa.Instruction) {
			if c, ok := in.(ssa.CallInstruction); ok {
				if callee := staticCallee(c); callee != nil && fnBase(callee) == "ErrorUnrecognisedTextInHeadline" {
					headlineFn = g
				}
			}
		})
	}
	if headlineFn == nil {
		r.undecided(rule, "anchor", "-", "the function that parses the headline was not found")
		return
	}
	inHeadline := map[*ssa.Function]bool{headlineFn: true}
	for _, h := range helpersCalledFrom([]*ssa.Function{headlineFn}) {
		inHeadline[h] = true
	}
	nHead, nEntry := 0, 0
	for _, g := range fam {
		eachInstr(g, func(in ssa.Instruction) {
			c, ok := in.(ssa.CallInstruction)
			if !ok {
				return
			}
			nm, _, args, _ := methodCallOf(c)
			if nm != "SkipWhile" || len(args) != 1 {
				return
			}
			set, okSet := p.runePredicateSet(args[0])
			if !okSet {
				set = "?"
			}
			if inHeadline[g] {
				nHead++
				r.check(set == "{' ','\\t'}", rule, fmt.Sprintf("headline#%d", nHead), p.instrPos(c), "between the parts of the headline runs of spaces and tabs are skipped", "in the headline "+set+" is skipped, not spaces and tabs")
				return
			}
			nEntry++
			r.check(set == "{' '}", rule, fmt.Sprintf("entry#%d", nEntry), p.instrPos(c), "around the dash of a range only spaces are skipped", "in an entry value "+set+" is skipped around the dash instead of spaces only: a range written with a tab beside the dash (8:00 -<TAB>9:00), which the specification does not allow, is accepted")
		})
	}
	if nHead < 3 || nEntry < 2 {
		r.undecided(rule, "floor", "-", "found %d headline and %d entry skips, expected at least 3 and 2", nHead, nEntry)
	}
}

// P06-lower-index — an element is addressed as x[v − c] (c ≥ 1, v not a constant) only where v is
// known to be at least c: a test of v against a constant on the way (v == 0 → skip, v > 0,
// v >= c …), v being a length that is known to be positive, or v being a loop counter that
// starts at c or above and only grows. A "look at the neighbour before" without such a test
// indexes −1 for the first element — the commands panic on whatever input gets there.
func ruleP06LowerIndex(p *Prog, r *Report) {
	const rule = "P06-lower-index"
	n := 0
	for _, f := range p.srcFns {
		if len(f.Blocks) == 0 || !p.inMod(f) {
			continue
		}
		idx := 0
		eachInstr(f, func(in ssa.Instruction) {
			var index ssa.Value
			switch x := in.(type) {
			case *ssa.IndexAddr:
				index = x.Index
			case *ssa.Index:
				index = x.Index
			default:
				return
			}
			pl := polyOf(index)
			if len(pl.Terms) != 1 {
				return
			}
			var v ssa.Value
			for k, c := range pl.Terms {
				if c != 1 {
					return
				}
				v = pl.leafV[k]
			}
			if v == nil {
				return
			}
			need := -pl.C // v must be >= need
			// the hidden counter of a range loop runs one behind the index the source sees
			if ph, isPhi := strip(v).(*ssa.Phi); isPhi {
				for _, ref := range *ph.Referrers() {
					if bo, isB := ref.(*ssa.BinOp); isB && isRangeIndex(bo) && bo.X == ssa.Value(ph) {
						v, need = bo, need+1
					}
				}
			}
			if need <= 0 {
				return
			}
			pl.C = -need
			n++
			idx++
			key := fmt.Sprintf("%s#%d", fnName(f), idx)
			ok, how := lowerBoundKnown(in.Block(), v, need, 0)
			if !ok && pkgPathOfFn(f) == modPath+"/klog/parser/engine" && isPreviousByteOfChunkBoundary(in) {
				// reasoned exception, keyed by the construct (confirmed by reading; the comparison was
				// added with repair D11, and refactorings move it into helpers of various names):
				// the byte before the boundary is read only under `nextPointer < len(txt)`, and
				// nextPointer = pointer + ceil(len(txt)/n) with n >= 1 and pointer >= 0 is at least 1
				// whenever len(txt) >= 1 — which that very condition implies
				r.assume(rule, key, p.instrPos(in), "index %s: the boundary is at least one batch size (>= 1 byte of a non-empty text) behind the start", pl.String())
				return
			}
			r.check(ok, rule, key, p.instrPos(in), fmt.Sprintf("index %s: %s", pl.String(), how), fmt.Sprintf("an element is addressed at %s although nothing on the way establishes that the index is not negative (%s): for the first element this is index -1, and the command panics", pl.String(), how))
		})
	}
	if n == 0 {
		r.ok(rule, "none", "-", "no x[v - c] index expressions in the module")
	}
}

// lowerBoundKnown: reaching block b implies v >= need.
func lowerBoundKnown(b *ssa.BasicBlock, v ssa.Value, need int64, depth int) (bool, string) {
	if depth > 3 {
		return false, "too deep"
	}
	sv := strip(v)
	// tests on the way
	for _, g := range guardsOf(b) {
		bo, ok := normCmp(g.Cond)
		if !ok {
			continue
		}
		op, x, y := bo.Op, bo.X, bo.Y
		if _, isK := constInt(x); isK {
			x, y = y, x
			switch op {
			case token.LSS:
				op = token.GTR
			case token.LEQ:
				op = token.GEQ
			case token.GTR:
				op = token.LSS
			case token.GEQ:
				op = token.LEQ
			}
		}
		k, isK := constInt(y)
		if !isK {
			continue
		}
		if !(strip(x) == sv || sameValue(x, v)) {
			// a test of v plus or minus a constant (`last := len(x) - 1; if last >= 0`)
			px, pv := polyOf(x), polyOf(v)
			if len(px.Terms) != 1 || len(pv.Terms) != 1 {
				continue
			}
			same := false
			for kx, cx := range px.Terms {
				for kv, cv := range pv.Terms {
					if kx == kv && cx == 1 && cv == 1 {
						same = true
					}
				}
			}
			if !same {
				continue
			}
			k = k - px.C + pv.C // x = v' + px.C, v = v' + pv.C  =>  (x op k) <=> (v op k - px.C + pv.C)
		}
		if !g.Pol {
			inv := map[token.Token]token.Token{token.LSS: token.GEQ, token.GEQ: token.LSS, token.GTR: token.LEQ, token.LEQ: token.GTR, token.EQL: token.NEQ, token.NEQ: token.EQL}
			op = inv[op]
		}
		switch {
		case op == token.GEQ && k >= need, op == token.GTR && k >= need-1:
			return true, fmt.Sprintf("guarded by %s %s %d", describeValue(x), op, k)
		case op == token.NEQ && k == 0 && need == 1 && nonNegative(sv):
			return true, "guarded by " + describeValue(x) + " != 0 (a count)"
		case op == token.EQL && k >= need:
			return true, fmt.Sprintf("guarded by %s == %d", describeValue(x), k)
		}
	}
	// a length that is known not to be zero / to be large enough
	if c, ok := sv.(*ssa.Call); ok {
		if bi, isB := c.Call.Value.(*ssa.Builtin); isB && bi.Name() == "len" {
			for _, g := range guardsOf(b) {
				if xv, isNil, isG := nilFact(g); isG && !isNil && need == 1 && (sameValue(xv, c.Call.Args[0]) || strip(xv) == strip(c.Call.Args[0])) {
					return true, "the slice is known to be non-empty"
				}
			}
		}
	}
	// the length of a slice that is non-empty by construction, or of a sorted copy of one that
	// is known to be non-empty (service.Sort hands back a permutation of what it is given: P13-sortcopy)
	if c, ok := sv.(*ssa.Call); ok && need == 1 {
		if bi, isB := c.Call.Value.(*ssa.Builtin); isB && bi.Name() == "len" {
			x := strip(c.Call.Args[0])
			if nonEmptyByConstruction(x, map[ssa.Value]bool{}) {
				return true, "the slice is non-empty by construction (a literal with elements, or appended to on every way)"
			}
			if sc, isCall := x.(*ssa.Call); isCall {
				if g := rawStaticCallee(sc); g != nil && g.Pkg != nil && strings.HasSuffix(g.Pkg.Pkg.Path(), "/klog/service") && g.Name() == "Sort" && len(sc.Call.Args) > 0 {
					src := sc.Call.Args[0]
					for _, gd := range guardsOf(b) {
						if xv, isNil, isG := nilFact(gd); isG && !isNil && (sameValue(xv, src) || strip(xv) == strip(src)) {
							return true, "a sorted copy of a slice that is known to be non-empty"
						}
					}
				}
			}
		}
	}
	// a counter that starts at `need` or above and only grows
	if ph, ok := sv.(*ssa.Phi); ok {
		okAll := true
		for _, e := range ph.Edges {
			if k, isK := constInt(e); isK {
				if k < need {
					okAll = false
				}
				continue
			}
			ep := polyOf(e)
			grows := len(ep.Terms) == 1 && ep.C >= 0
			for kk, c := range ep.Terms {
				if c != 1 || strip(ep.leafV[kk]) != ssa.Value(ph) {
					grows = false
				}
			}
			if !grows {
				okAll = false
			}
		}
		if okAll {
			return true, "a counter that starts at or above the offset and only grows"
		}
	}
	return false, "no lower-bound test of " + describeValue(v)
}

// nonNegative: v is a count by construction — a range index or a length.
func nonNegative(v ssa.Value) bool {
	if isRangeIndex(v) {
		return true
	}
	if c, ok := v.(*ssa.Call); ok {
		if bi, isB := c.Call.Value.(*ssa.Builtin); isB && (bi.Name() == "len" || bi.Name() == "cap") {
			return true
		}
	}
	return false
}

// nonEmptyByConstruction: x is a slice literal with elements, the result of an append that adds
// something, or a merge (phi, variable) of such values only.
func nonEmptyByConstruction(x ssa.Value, seen map[ssa.Value]bool) bool {
	x = strip(x)
	if seen[x] {
		return true // a cycle through values that are all non-empty otherwise
	}
	seen[x] = true
	// a field of a struct in which a local function / private helper hands over several things
	if bc, fi, isComp := componentOf(x); isComp {
		if hc, isCall := bc.(*ssa.Call); isCall {
			if g := staticCallee(hc); g != nil && (g.Parent() != nil || isHelper(g) || (gp != nil && gp.inMod(g))) {
				rets := plainReturnsOf(originFn(g))
				for _, ret := range rets {
					if len(ret.Results) != 1 {
						return false
					}
					fv, isLit := compositeLitField(ret.Results[0], fi)
					if !isLit || fv == nil || !nonEmptyByConstruction(fv, seen) {
						return false
					}
				}
				return len(rets) > 0
			}
		}
	}
	switch y := x.(type) {
	case *ssa.MakeSlice:
		// make([]T, c + len(a) + …) with c >= 1
		pl := polyOf(y.Len)
		if pl.C >= 1 {
			okLen := true
			for k, coef := range pl.Terms {
				lc, _ := callOf(strip(pl.leafV[k]))
				isLen := false
				if lc != nil {
					if bi, isB := lc.Common().Value.(*ssa.Builtin); isB && bi.Name() == "len" {
						isLen = true
					}
				}
				if coef < 0 || !isLen {
					okLen = false
				}
			}
			if okLen {
				return true
			}
		}
	case *ssa.Slice:
		if a, ok := y.X.(*ssa.Alloc); ok && y.Low == nil && y.High == nil {
			if pt, ok := a.Type().Underlying().(*types.Pointer); ok {
				if at, ok := pt.Elem().Underlying().(*types.Array); ok && at.Len() > 0 {
					return true
				}
			}
		}
	case *ssa.Call:
		if bi, ok := y.Call.Value.(*ssa.Builtin); ok && bi.Name() == "append" && len(y.Call.Args) == 2 {
			if es, ok := sliceLitElems(y.Call.Args[1]); ok && len(es) > 0 {
				return true
			}
			return nonEmptyByConstruction(y.Call.Args[0], seen) || nonEmptyByConstruction(y.Call.Args[1], seen)
		}
		// the result of a function literal called on the spot / a private helper: every return
		if g := staticCallee(y); g != nil && (g.Parent() != nil || isHelper(g)) && g.Signature.Results().Len() == 1 {
			rets := returnsOf(originFn(g))
			for _, ret := range rets {
				if !nonEmptyByConstruction(ret.Results[0], seen) {
					return false
				}
			}
			return len(rets) > 0
		}
	case *ssa.Extract:
		if c, ok := y.Tuple.(*ssa.Call); ok {
			if g := staticCallee(c); g != nil && (g.Parent() != nil || isHelper(g)) {
				rets := returnsOf(originFn(g))
				for _, ret := range rets {
					if y.Index >= len(ret.Results) || !nonEmptyByConstruction(ret.Results[y.Index], seen) {
						return false
					}
				}
				return len(rets) > 0
			}
		}
	case *ssa.Phi:
		for _, e := range y.Edges {
			if !nonEmptyByConstruction(e, seen) {
				return false
			}
		}
		return len(y.Edges) > 0
	case *ssa.UnOp:
		if y.Op == token.MUL {
			if cell := cellOf(y.X); cell != nil {
				sts := storesTo(cell)
				if len(sts) == 0 {
					return false
				}
				for _, st := range sts {
					if overwrittenAtOnce(st, sts) {
						continue // `x := make(…); x = append(x, first)`: nobody sees the first value
					}
					if !nonEmptyByConstruction(st.val, seen) {
						return false
					}
				}
				return true
			}
		}
	}
	return false
}

// isPreviousByteOfChunkBoundary: in is the read s[v-1] of a string whose value is compared with
// '\r' — the look behind a chunk boundary that repair D11 introduced.
func isPreviousByteOfChunkBoundary(in ssa.Instruction) bool {
	ix, ok := in.(*ssa.Index)
	if !ok || !isStringType(ix.X.Type()) {
		return false
	}
	for _, ref := range *ix.Referrers() {
		if bo, isB := ref.(*ssa.BinOp); isB && (bo.Op == token.EQL || bo.Op == token.NEQ) {
			if k, isK := constInt(bo.Y); isK && k == '\r' {
				return true
			}
			if k, isK := constInt(bo.X); isK && k == '\r' {
				return true
			}
		}
	}
	return false
}

// P13-date-order — the order of dates is the order of (year, month, day): IsEqualTo holds exactly
// for equal triples, IsAfterOrEqual exactly when the receiver's triple is lexicographically not
// smaller. Both methods touch their operands through comparisons of the three accessors only, so
// they are decided by running their control flow under each of the 27 ways the components can
// compare (<, =, >) and comparing the answer with the lexicographic one. A single numeric key
// (year·a + month·b + day) is accepted when a and b leave room for every month and day
// (b > 30, a > 11·b + 30); anything else the rule cannot read is reported as undecided.
func ruleP13DateOrder(p *Prog, r *Report) {
	const rule = "P13-date-order"
	for _, m := range []string{"IsEqualTo", "IsAfterOrEqual"} {
		f := p.method("klog", "date", m)
		if !r.anchorFn(rule, f, "(*date)."+m) {
			continue
		}
		want := func(sy, sm, sd int) bool {
			if m == "IsEqualTo" {
				return sy == 0 && sm == 0 && sd == 0
			}
			switch {
			case sy != 0:
				return sy > 0
			case sm != 0:
				return sm > 0
			default:
				return sd >= 0
			}
		}
		bad, undecided := "", ""
		for sy := -1; sy <= 1 && undecided == ""; sy++ {
			for sm := -1; sm <= 1 && undecided == ""; sm++ {
				for sd := -1; sd <= 1 && undecided == ""; sd++ {
					got, ok, why := simulateDateCmp(f, map[string]int{"Year": sy, "Month": sm, "Day": sd})
					if !ok {
						undecided = why
						break
					}
					if got != want(sy, sm, sd) && bad == "" {
						rel := func(s int) string { return map[int]string{-1: "<", 0: "=", 1: ">"}[s] }
						bad = fmt.Sprintf("for year %s, month %s, day %s it answers %v", rel(sy), rel(sm), rel(sd), got)
					}
				}
			}
		}
		if undecided != "" && len(f.Params) == 2 {
			// written through other functions of the module (a three-way compareTo, a
			// compareInts(x, y)): the same 27 cases, followed into those functions
			bad2, all := "", true
			for sy := -1; sy <= 1 && all; sy++ {
				for sm := -1; sm <= 1 && all; sm++ {
					for sd := -1; sd <= 1 && all; sd++ {
						env := map[ssa.Value]cmpSym{f.Params[0]: {true, 1, ""}, f.Params[1]: {true, -1, ""}}
						got, ok := simCmpGeneric(f, env, map[string]int{"Year": sy, "Month": sm, "Day": sd}, 0)
						if !ok {
							all = false
							break
						}
						if (got != 0) != want(sy, sm, sd) && bad2 == "" {
							rel := func(s int) string { return map[int]string{-1: "<", 0: "=", 1: ">"}[s] }
							bad2 = fmt.Sprintf("for year %s, month %s, day %s it answers %v", rel(sy), rel(sm), rel(sd), got != 0)
						}
					}
				}
			}
			if all {
				r.check(bad2 == "", rule, m, p.pos(f.Pos()), m+" is the lexicographic comparison of (year, month, day) in all 27 cases (followed through the functions it calls)", m+" is not the lexicographic comparison of (year, month, day): "+bad2)
				continue
			}
		}
		if undecided != "" {
			// a single numeric key per date
			if okKey, whyKey := dateKeyComparison(p, f, m); okKey {
				r.ok(rule, m, p.pos(f.Pos()), "compares one numeric key per date whose weights leave room for every month and day")
				continue
			} else if whyKey != "" {
				r.bad(rule, m, p.pos(f.Pos()), "%s compares the dates through a numeric key that does not order (or separate) all dates: %s — two different dates get the same key, or a later date the smaller one (the end of a month or year against the start of the next), and every filter, sort and day comparison built on it is wrong for those dates", m, whyKey)
				continue
			}
			r.undecided(rule, m, p.pos(f.Pos()), "%s is not a comparison of the (year, month, day) accessors that can be evaluated case by case: %s", m, undecided)
			continue
		}
		r.check(bad == "", rule, m, p.pos(f.Pos()), m+" is the lexicographic comparison of (year, month, day) in all 27 cases", m+" is not the lexicographic comparison of (year, month, day): "+bad)
	}
}

// simulateDateCmp runs f (a bool function of the receiver and one other date) under the given
// signs of receiver-vs-other per accessor.
func simulateDateCmp(f *ssa.Function, sign map[string]int) (result bool, ok bool, why string) {
	if len(f.Params) != 2 || len(f.Blocks) == 0 {
		return false, false, "unexpected signature"
	}
	recv, other := ssa.Value(f.Params[0]), ssa.Value(f.Params[1])
	side := func(v ssa.Value) (string, int) { // accessor name, +1 receiver / -1 other
		// the receiver's own field, which the accessor of that name returns
		if base, fld := fieldLoad(v); base != nil && fld != "" {
			acc := map[string]string{"year": "Year", "month": "Month", "day": "Day"}[fld]
			if _, known := sign[acc]; known && acc != "" {
				switch strip(base) {
				case recv:
					return acc, 1
				case other:
					return acc, -1
				}
			}
		}
		nm, rv, args, _ := methodCall(v)
		if nm == "" || rv == nil || len(args) != 0 {
			return "", 0
		}
		if _, known := sign[nm]; !known {
			return "", 0
		}
		switch strip(rv) {
		case recv:
			return nm, 1
		case other:
			return nm, -1
		}
		return "", 0
	}
	phiVal := map[*ssa.Phi]ssa.Value{}
	var eval func(v ssa.Value, depth int) (bool, bool)
	eval = func(v ssa.Value, depth int) (bool, bool) {
		if depth > 8 {
			return false, false
		}
		if b, isB := constBool(v); isB {
			return b, true
		}
		switch x := v.(type) {
		case *ssa.UnOp:
			if x.Op == token.NOT {
				b, ok := eval(x.X, depth+1)
				return !b, ok
			}
		case *ssa.Phi:
			if e, known := phiVal[x]; known {
				return eval(e, depth+1)
			}
		case *ssa.BinOp:
			na, sa := side(x.X)
			nb, sb := side(x.Y)
			if na == "" || na != nb || sa == sb {
				return false, false
			}
			s := sign[na] * sa // sign of X relative to Y
			switch x.Op {
			case token.EQL:
				return s == 0, true
			case token.NEQ:
				return s != 0, true
			case token.LSS:
				return s < 0, true
			case token.LEQ:
				return s <= 0, true
			case token.GTR:
				return s > 0, true
			case token.GEQ:
				return s >= 0, true
			}
		}
		return false, false
	}
	cur := f.Blocks[0]
	var prev *ssa.BasicBlock
	for steps := 0; steps < 64; steps++ {
		for _, in := range cur.Instrs {
			ph, isPhi := in.(*ssa.Phi)
			if !isPhi {
				break
			}
			for i, pb := range cur.Preds {
				if pb == prev {
					phiVal[ph] = ph.Edges[i]
				}
			}
		}
		switch t := cur.Instrs[len(cur.Instrs)-1].(type) {
		case *ssa.Return:
			if len(t.Results) != 1 {
				return false, false, "not a single result"
			}
			b, ok := eval(t.Results[0], 0)
			if !ok {
				return false, false, "the value returned at " + f.Prog.Fset.Position(t.Pos()).String() + " is not a comparison of accessors"
			}
			return b, true, ""
		case *ssa.If:
			b, ok := eval(t.Cond, 0)
			if !ok {
				return false, false, "a branch condition is not a comparison of accessors"
			}
			prev = cur
			if b {
				cur = cur.Succs[0]
			} else {
				cur = cur.Succs[1]
			}
		case *ssa.Jump:
			prev, cur = cur, cur.Succs[0]
		default:
			return false, false, "unexpected control flow"
		}
	}
	return false, false, "does not terminate within 64 steps"
}

// dateKeyComparison: f returns key(receiver) OP key(other) with key = a·Year + b·Month + c·Day
// (+ constant) computed by one helper or written out; decides whether the weights order dates.
func dateKeyComparison(p *Prog, f *ssa.Function, m string) (bool, string) {
	rets := returnsOf(f)
	if len(rets) != 1 {
		return false, ""
	}
	bo, ok := rets[0].Results[0].(*ssa.BinOp)
	if !ok {
		return false, ""
	}
	wantOp := map[string]token.Token{"IsEqualTo": token.EQL, "IsAfterOrEqual": token.GEQ}[m]
	weights := func(v ssa.Value, who ssa.Value) (map[string]int64, bool, string) {
		// a helper applied to the date, or the expression itself
		expr, subject := v, who
		if c, isCall := v.(*ssa.Call); isCall {
			if g := rawStaticCallee(c); g != nil && p.inModFn(g) && len(c.Call.Args) == 1 && strip(c.Call.Args[0]) == who && len(returnsOf(g)) == 1 && len(g.Params) == 1 {
				expr, subject = returnsOf(g)[0].Results[0], g.Params[0]
			}
		}
		pl := polyOf(expr)
		out := map[string]int64{}
		for k, coef := range pl.Terms {
			nm, rv, _, _ := methodCall(pl.leafV[k])
			if (nm == "Year" || nm == "Month" || nm == "Day") && rv != nil && strip(rv) == subject {
				out[nm] += coef
				continue
			}
			return nil, false, "the key contains " + describeValue(pl.leafV[k]) + ", which is none of Year(), Month(), Day()"
		}
		return out, true, ""
	}
	wa, okA, whyA := weights(bo.X, f.Params[0])
	wb, okB, whyB := weights(bo.Y, f.Params[1])
	if !okA || !okB {
		if whyA == "" {
			whyA = whyB
		}
		return false, whyA
	}
	if bo.Op != wantOp {
		return false, "the keys are compared with " + bo.Op.String()
	}
	for _, k := range []string{"Year", "Month", "Day"} {
		if wa[k] != wb[k] {
			return false, "the two sides weigh " + k + " differently"
		}
	}
	a, b, c := wa["Year"], wa["Month"], wa["Day"]
	if c < 1 || b <= 30*c || a <= 11*b+30*c {
		return false, fmt.Sprintf("weights year·%d + month·%d + day·%d leave no room for 12 months of up to 31 days", a, b, c)
	}
	return true, ""
}

// P01-one-open-range — "a second open range" is refused wherever the first one stands in the
// record: record.Start decides by asking for the record's open range — a search over all its
// entries — not by looking at one position (the last entry, say: `8:00 - ?`, `1h`, `9:00 - ?`
// would then be accepted, two open ranges in one record).
func ruleP01OneOpenRange(p *Prog, r *Report) {
	const rule = "P01-one-open-range"
	f := p.method("klog", "record", "Start")
	if !r.anchorFn(rule, f, "(*record).Start") {
		return
	}
	searchesAll := func(v ssa.Value) bool {
		c, _ := callOf(strip(v))
		if c == nil {
			return false
		}
		g := rawStaticCallee(c)
		if g == nil || !p.inModFn(g) || len(c.Common().Args) == 0 || strip(c.Common().Args[0]) != ssa.Value(f.Params[0]) {
			return false
		}
		found := false
		eachVInstr(originFn(g), func(in ssa.Instruction) {
			ta, ok := in.(*ssa.TypeAssert)
			if !ok || typeNameOf(derefType(ta.AssertedType)) != "openRange" {
				return
			}
			base, fld := fieldLoad(ta.X)
			if fld != "value" || base == nil {
				return
			}
			if coll := rangeElemOf(base); coll != nil {
				if _, cf := fieldLoad(coll); cf == "entries" {
					found = true
				}
			}
		})
		return found
	}
	n := 0
	for i, ret := range returnsOf(f) {
		ev := retResult(ret, 0)
		if isNilConst(ev) || p.nilnessAt(ret.Block(), ev, 0) != nnNonNil {
			continue
		}
		n++
		ok := false
		for _, g := range guardsOf(ret.Block()) {
			if x, isNil, isG := nilFact(g); isG && !isNil && searchesAll(x) {
				ok = true
			}
		}
		r.check(ok, rule, fmt.Sprintf("refusal#%d", i), p.instrPos(ret), "a further open range is refused when a search over all entries of the record finds one", "record.Start refuses a further open range on a test that does not search all entries of the record: an open range that stands anywhere else in the record goes unnoticed, and the parser accepts a record with two open ranges")
	}
	if n == 0 {
		r.bad(rule, "refusal", p.pos(f.Pos()), "record.Start never refuses: a record can have any number of open ranges")
	}
}

// P03-insert-nonempty — Reconciler.insert is only ever asked to insert something. Besides
// splicing the new lines in, insert gives the line BEFORE the insertion point a line ending when
// it has none (the file's last line); called with nothing to insert it would still do that — a
// line the command has no business with changes. Every call passes a list that is non-empty by
// construction, the result of toMultilineEntryTexts (which always yields the value line), or one
// built from S[k:] under len(S) > k.
func ruleP03InsertNonEmpty(p *Prog, r *Report) {
	const rule = "P03-insert-nonempty"
	ins := p.method("klog/parser/reconciling", "Reconciler", "insert")
	if !r.anchorFn(rule, ins, "Reconciler.insert") {
		return
	}
	n := 0
	for _, f := range p.srcFns {
		if pkgPathOfFn(f) != modPath+"/klog/parser/reconciling" || len(f.Blocks) == 0 {
			continue
		}
		idx := 0
		for _, c := range callsTo(f, ins) {
			n++
			idx++
			key := fmt.Sprintf("%s#%d", fnName(outermost(f)), idx)
			texts := c.Common().Args[len(c.Common().Args)-1]
			ok, how := false, ""
			switch {
			case nonEmptyByConstruction(texts, map[ssa.Value]bool{}):
				ok, how = true, "non-empty by construction"
			default:
				// the result of a module function all of whose returns are non-empty by construction
				if hc, hi := callOf(strip(texts)); hc != nil && hi == 0 {
					if g := rawStaticCallee(hc); g != nil && p.inModFn(g) && len(returnsOf(originFn(g))) > 0 {
						all := true
						for _, ret := range returnsOf(originFn(g)) {
							if !nonEmptyByConstruction(ret.Results[0], map[ssa.Value]bool{}) {
								all = false
							}
						}
						if all {
							ok, how = true, "every return of "+fnBase(g)+" is a non-empty list"
						}
					}
				}
				// built element by element from S[k:], under len(S) > k
				if !ok {
					apps, _ := accWeb(texts)
					for _, a := range apps {
						atCall := map[ssa.Value]bool{}
						for _, cg := range guardsOf(c.Block()) {
							atCall[cg.Cond] = true
						}
						for _, g := range guardsOf(a.Block()) {
							bo, isB := g.Cond.(*ssa.BinOp)
							if !isB || bo.Op != token.LSS || !g.Pol {
								continue
							}
							// the append runs in every iteration: nothing but this loop test (and what
							// holds at the call anyway) decides about it
							every := true
							for _, g2 := range guardsOf(a.Block()) {
								if g2.Cond != g.Cond && !atCall[g2.Cond] {
									every = false
								}
							}
							if !every {
								continue
							}
							lc, isLen := bo.Y.(*ssa.Call)
							if !isLen || len(lc.Call.Args) != 1 {
								continue
							}
							if bi, isBi := lc.Call.Value.(*ssa.Builtin); !isBi || bi.Name() != "len" {
								continue
							}
							// `range S[k:]`, or `for i := k; i < len(S); i++`
							var subject ssa.Value
							var k int64
							isK := false
							if sl, isSl := strip(lc.Call.Args[0]).(*ssa.Slice); isSl && sl.Low != nil && isLoopGuard(g) {
								subject = sl.X
								k, isK = constInt(sl.Low)
							} else if ph, isPhi := bo.X.(*ssa.Phi); isPhi && len(ph.Edges) == 2 {
								for _, e := range ph.Edges {
									if kk, isC := constInt(e); isC {
										subject, k, isK = lc.Call.Args[0], kk, true
									} else if st, isSt := e.(*ssa.BinOp); !isSt || st.Op != token.ADD || st.X != ssa.Value(ph) {
										isK = false
										break
									}
								}
							}
							if !isK || subject == nil {
								continue
							}
							sl := struct{ X ssa.Value }{subject}
							// the guard at the call speaks of the very list that is walked
							// (`rest := S[1:]; if len(rest) == 0 { return }`)
							for _, cg := range guardsOf(c.Block()) {
								cb, okN := normCmp(cg.Cond)
								if !okN {
									continue
								}
								l0, isL0 := strip(cb.X).(*ssa.Call)
								kk, isKK := constInt(cb.Y)
								if !isL0 || !isKK || len(l0.Call.Args) != 1 || !(l0.Call.Args[0] == lc.Call.Args[0] || strip(l0.Call.Args[0]) == strip(lc.Call.Args[0])) {
									continue
								}
								if bi0, isB0 := l0.Call.Value.(*ssa.Builtin); !isB0 || bi0.Name() != "len" {
									continue
								}
								if _, isSl := strip(lc.Call.Args[0]).(*ssa.Slice); !isSl || !isLoopGuard(g) {
									continue
								}
								if (cg.Pol && ((cb.Op == token.GTR && kk == 0) || (cb.Op == token.NEQ && kk == 0) || (cb.Op == token.GEQ && kk == 1))) || (!cg.Pol && ((cb.Op == token.EQL && kk == 0) || (cb.Op == token.LSS && kk == 1) || (cb.Op == token.LEQ && kk == 0))) {
									ok, how = true, "one element per element of the list walked, which is not empty at the call"
								}
							}
							// the guard at the call: len(S) > k
							for _, cg := range guardsOf(c.Block()) {
								cb, okN := normCmp(cg.Cond)
								if !okN {
									continue
								}
								if !cg.Pol {
									// `if len(S) == k { return }` in front: S[k:] was taken (so
									// len(S) >= k) and len(S) is not k
									if l0, isL0 := strip(cb.X).(*ssa.Call); isL0 && cb.Op == token.EQL && len(l0.Call.Args) == 1 && (sameValue(l0.Call.Args[0], sl.X) || strip(l0.Call.Args[0]) == strip(sl.X)) {
										if kk, isKK := constInt(cb.Y); isKK && kk == k {
											ok, how = true, fmt.Sprintf("one element per element of S[%d:], called where len(S) != %d", k, k)
										}
									}
									// `if len(S) <= k { return }` in front
									if l0, isL0 := strip(cb.X).(*ssa.Call); isL0 && (cb.Op == token.LEQ || cb.Op == token.LSS) && len(l0.Call.Args) == 1 && (sameValue(l0.Call.Args[0], sl.X) || strip(l0.Call.Args[0]) == strip(sl.X)) {
										if kk, isKK := constInt(cb.Y); isKK && ((cb.Op == token.LEQ && kk >= k) || (cb.Op == token.LSS && kk > k)) {
											ok, how = true, fmt.Sprintf("one element per element of S[%d:], called where len(S) > %d", k, k)
										}
									}
									continue
								}
								l2, isLen2 := strip(cb.X).(*ssa.Call)
								kk, isKK := constInt(cb.Y)
								if !isLen2 || !isKK || len(l2.Call.Args) != 1 || !(sameValue(l2.Call.Args[0], sl.X) || strip(l2.Call.Args[0]) == strip(sl.X)) {
									continue
								}
								if (cb.Op == token.GTR && kk >= k) || (cb.Op == token.GEQ && kk > k) {
									ok, how = true, fmt.Sprintf("one element per element of S[%d:], called under len(S) > %d", k, k)
								}
							}
						}
					}
				}
			}
			r.check(ok, rule, key, p.instrPos(c), "insert is given something to insert ("+how+")", "Reconciler.insert can be called with nothing to insert: it then still gives the line before the insertion point a line ending when it has none — the last line of a file without final newline changes although nothing was added after it")
		}
	}
	if n < 3 {
		r.undecided(rule, "floor", "-", "found %d calls of Reconciler.insert, expected at least 3", n)
	}
}

// P10-errors-kept — every error the parser found is shown: NewParserErrors keeps the list it is
// given as it is (the field of the value it builds is its parameter), and All() hands that field
// back. Nothing in between drops "repeated" errors — two files can have the same mistake in the
// same place, and each of them is to be told.
func ruleP10ErrorsKept(p *Prog, r *Report) {
	const rule = "P10-errors-kept"
	ctor := p.fn("klog/app", "NewParserErrors")
	all := p.method("klog/app", "parserErrors", "All")
	if !r.anchorFn(rule, ctor, "app.NewParserErrors") || !r.anchorFn(rule, all, "parserErrors.All") {
		return
	}
	okStore, field := false, ""
	eachVInstr(ctor, func(in ssa.Instruction) {
		st, ok := in.(*ssa.Store)
		if !ok {
			return
		}
		fa, ok := st.Addr.(*ssa.FieldAddr)
		if !ok || typeNameOf(derefType(fa.X.Type())) != "parserErrors" || !isSliceOf(st.Val.Type(), "Error") {
			return
		}
		field = fieldName(fa)
		v := strip(st.Val)
		if v == ssa.Value(ctor.Params[0]) {
			okStore = true
			return
		}
		// a full copy: append(nil/empty, errs...)
		if c, isCall := v.(*ssa.Call); isCall {
			if bi, isB := c.Call.Value.(*ssa.Builtin); isB && bi.Name() == "append" && len(c.Call.Args) == 2 && strip(c.Call.Args[1]) == ssa.Value(ctor.Params[0]) && (isNilConst(c.Call.Args[0]) || isEmptySliceLit(c.Call.Args[0])) {
				okStore = true
			}
		}
	})
	r.check(okStore, rule, "NewParserErrors", p.pos(ctor.Pos()), "the errors given are kept as they are", "NewParserErrors does not keep the very list of errors it is given (errors are filtered, de-duplicated or rebuilt on the way): an error the parser found is not reported")
	okAll := false
	for _, ret := range returnsOf(all) {
		if _, fld := fieldLoad(retResult(ret, 0)); fld != "" && (field == "" || fld == field) {
			okAll = true
		}
	}
	r.check(okAll, rule, "All", p.pos(all.Pos()), "All() hands back the list that was stored", "ParserErrors.All() does not hand back the stored list of errors")
}

// overwrittenAtOnce: the stored value is replaced by a later store in the same block before any
// call of a function (which might read the variable) runs.
func overwrittenAtOnce(st storeSite, all []storeSite) bool {
	for _, o := range all {
		if o.in == st.in || o.in.Block() != st.in.Block() || instrIndex(o.in) <= instrIndex(st.in) {
			continue
		}
		clean := true
		for _, in := range st.in.Block().Instrs[instrIndex(st.in)+1 : instrIndex(o.in)] {
			if c, isC := in.(ssa.CallInstruction); isC {
				if _, isB := c.Common().Value.(*ssa.Builtin); !isB {
					clean = false
				}
			}
		}
		if clean {
			return true
		}
	}
	return false
}
