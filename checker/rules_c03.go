package main

// C03 — mutating commands touch only the lines they are defined to change; C08 — reading a
// file loses nothing.

import (
	"fmt"
	"go/constant"
	"go/token"
	"go/types"
	"regexp/syntax"
	"strings"

	"golang.org/x/tools/go/ssa"
)

func init() {
	register(&propSpec{
		id:    "C03",
		level: "other",
		explain: "Decides which stores can change an existing line and what they may do to it, and that the text written is the in-order concatenation of the (patched) original lines: (P03-linewrites) every store to the Text of an existing line writes a value derived from the old value of that same line — old + x, strings.Replace(old, a, b, 1), or a regexp replacement whose pattern is ^(prefix)X(suffix)$ with unrestricted groups and whose template re-emits both groups around the new token; " +
			"(P03-lineending) a line ending of an existing line is only set when that same line has none; (P03-insert) insert() builds the new line list from whole copies of the old lines, in order, plus lines made from the texts to insert, with length old+inserted; (P03-result) the result text is an unconditional in-order fold of Original() = Text + LineEnding over these lines and flatten() keeps every block's lines in order; (P03-write-arg = P05-guarded-write) exactly that text goes to the target file; (P08-nowriters) nothing outside package reconciling writes line fields. " +
			"Not covered: the line-index arithmetic (which line is patched, where lines are inserted, contiguity of inserted blocks) — value-level.",
		rules: []ruleFn{ruleP03LineWrites, ruleP03LineEnding, ruleP03Insert, ruleP03ConcatPosition, ruleP03EntryLine, ruleP03Result, ruleP08NoWriters, ruleP05GuardedWrite, ruleP04PauseToken},
	})
	register(&propSpec{
		id:    "C08",
		level: "other",
		explain: "Decided on the SSA program: (P08-cursor) ParseBlock cuts each line as text[previous end : next end], and on every path that keeps the line both the cursor and the byte count advance by that line; mapParse parses the next block from text[consumed:], adds the bytes the block consumed and the number of lines it holds, unconditionally; " +
			"(P08-original / P08-folds = P03-result) Original() = Text + LineEnding, the rebuilt text and flatten() are unconditional in-order folds; (P08-nowriters) outside their constructors line fields are only stored in package reconciling; (P08-split) splitOffLineEnding returns a prefix and the matching suffix of its argument. " +
			"Not covered: that 'last line' detection and block boundaries are right for every input (string arithmetic on positions).",
		rules: []ruleFn{ruleP08Cursor, ruleP08LoopExit, ruleP03Result, ruleP08NoWriters, ruleP08Split, ruleP06RuneWidth},
	})
}

// lineTextStores lists stores to field `fld` of a txt.Line in functions of package pkgSuffix.
type lineStore struct {
	f  *ssa.Function
	st *ssa.Store
	fa *ssa.FieldAddr
}

func (p *Prog) lineFieldStores(field string) []lineStore {
	var out []lineStore
	for _, f := range p.srcFns {
		eachInstr(f, func(in ssa.Instruction) {
			st, ok := in.(*ssa.Store)
			if !ok {
				return
			}
			fa, ok := st.Addr.(*ssa.FieldAddr)
			if !ok || typeNameOf(fa.X.Type()) != "Line" || typePkgPath(fa.X.Type()) != modPath+"/klog/parser/txt" || fieldName(fa) != field {
				return
			}
			out = append(out, lineStore{f, st, fa})
		})
	}
	return out
}

// isFreshLine: the line whose field is stored is a composite literal / local under construction.
func isFreshLine(fa *ssa.FieldAddr) bool {
	a, ok := fa.X.(*ssa.Alloc)
	if !ok {
		return false
	}
	// a local that was not initialised from an existing line
	for _, s := range storesTo(a) {
		if _, isLoad := strip(s.val).(*ssa.UnOp); isLoad {
			return false
		}
	}
	return true
}

// sameElemAddr: two addresses denote the same element: same IndexAddr instruction, or
// IndexAddr on loads of the same field with the same index value.
func sameElemAddr(a, b ssa.Value) bool {
	if a == b {
		return true
	}
	ia, ok1 := a.(*ssa.IndexAddr)
	ib, ok2 := b.(*ssa.IndexAddr)
	if !ok1 || !ok2 {
		return false
	}
	if !sameValue(ia.Index, ib.Index) && !polyOf(ia.Index).equal(polyOf(ib.Index)) {
		return false
	}
	if sameValue(ia.X, ib.X) {
		return true
	}
	b1, f1 := fieldLoad(ia.X)
	b2, f2 := fieldLoad(ib.X)
	return f1 != "" && f1 == f2 && b1 != nil && b2 != nil && sameValue(b1, b2)
}

// oldTextOf: v is a load of the Text field of the element at address elem.
func oldTextOf(v ssa.Value, elem ssa.Value) bool {
	u, ok := strip(v).(*ssa.UnOp)
	if !ok || u.Op != token.MUL {
		return false
	}
	fa, ok := u.X.(*ssa.FieldAddr)
	if !ok || fieldName(fa) != "Text" {
		return false
	}
	return sameElemAddr(fa.X, elem)
}

// tokenPatternShape: pattern is ^(G1)X(G2)$ with G1, G2 matching anything (.*? / .*) and X
// not able to match across... returns ok.
func tokenPatternShape(pat string) (bool, string) {
	re, err := syntax.Parse(pat, syntax.Perl)
	if err != nil {
		return false, "pattern does not parse"
	}
	if re.Op != syntax.OpConcat || len(re.Sub) < 5 {
		return false, "pattern is not ^(prefix)token(suffix)$"
	}
	subs := re.Sub
	if subs[0].Op != syntax.OpBeginText && subs[0].Op != syntax.OpBeginLine {
		return false, "pattern is not anchored at the start"
	}
	if last := subs[len(subs)-1]; last.Op != syntax.OpEndText && last.Op != syntax.OpEndLine {
		return false, "pattern is not anchored at the end"
	}
	anyGroup := func(x *syntax.Regexp, cap int) bool {
		if x.Op != syntax.OpCapture || x.Cap != cap {
			return false
		}
		s := x.Sub[0]
		return s.Op == syntax.OpStar && (s.Sub[0].Op == syntax.OpAnyCharNotNL || s.Sub[0].Op == syntax.OpAnyChar)
	}
	if !anyGroup(subs[1], 1) {
		return false, "group 1 does not match an arbitrary prefix"
	}
	if !anyGroup(subs[len(subs)-2], 2) {
		return false, "group 2 does not match an arbitrary suffix"
	}
	for _, m := range subs[2 : len(subs)-2] {
		if m.Op == syntax.OpCapture {
			return false, "the token part contains a further group"
		}
	}
	return true, ""
}

func ruleP03LineWrites(p *Prog, r *Report) {
	const rule = "P03-linewrites"
	n := 0
	ord := map[string]int{}
	for _, ls := range p.lineFieldStores("Text") {
		if isFreshLine(ls.fa) {
			continue
		}
		n++
		fn := fnName(ls.f)
		ord[fn]++
		key := fmt.Sprintf("%s:Text#%d", fn, ord[fn])
		if pkgPathOfFn(ls.f) != modPath+"/klog/parser/reconciling" {
			r.bad(rule, key, p.instrPos(ls.st), "the text of an existing line is overwritten outside package reconciling")
			continue
		}
		elem := ls.fa.X
		v := strip(ls.st.Val)
		switch x := v.(type) {
		case *ssa.BinOp:
			// prefix + new token + suffix, the two taken from a submatch of the line's own old
			// text over ^(prefix)X(suffix)$ — ReplaceAllString("${1}"+token+"${2}") spelled out
			if x.Op == token.ADD {
				var leaves []ssa.Value
				concatLeaves(x, &leaves, 0)
				group := func(v ssa.Value) (ssa.CallInstruction, int64) {
					u, isU := strip(v).(*ssa.UnOp)
					if !isU || u.Op != token.MUL {
						return nil, -1
					}
					ia, isIA := u.X.(*ssa.IndexAddr)
					if !isIA {
						return nil, -1
					}
					k, isK := constInt(ia.Index)
					c, ci := callOf(strip(ia.X))
					if !isK || c == nil || ci != 0 || staticCallee(c) == nil || staticCallee(c).String() != "(*regexp.Regexp).FindStringSubmatch" {
						return nil, -1
					}
					return c, k
				}
				if len(leaves) >= 3 {
					c1, k1 := group(leaves[0])
					c2, k2 := group(leaves[len(leaves)-1])
					if c1 != nil && c1 == c2 {
						okOld := oldTextOf(c1.Common().Args[1], elem)
						pat, okPat := p.regexOfValue(c1.Common().Args[0])
						shapeOK, why := false, "pattern is not a constant"
						if okPat {
							shapeOK, why = tokenPatternShape(pat)
						}
						mid := true
						for _, l := range leaves[1 : len(leaves)-1] {
							if gc, _ := group(l); gc != nil {
								mid = false
							}
						}
						// the slice is only indexed where the match succeeded
						matched := false
						for _, gd := range guardsOf(ls.st.Block()) {
							if xv, isNil, isG := nilFact(gd); isG && !isNil && sameValue(xv, c1.Value()) {
								matched = true
							}
						}
						r.check(okOld && shapeOK && k1 == 1 && k2 == 2 && mid && matched, rule, key, p.instrPos(ls.st), "line text = prefix + new token + suffix of its own old text ("+pat+")", "an existing line is not rewritten as group 1 + token + group 2 of a match of its own old text over ^(prefix)X(suffix)$: "+why)
						continue
					}
				}
			}
			ok := x.Op == token.ADD && oldTextOf(x.X, elem)
			r.check(ok, rule, key, p.instrPos(ls.st), "line text = its old text + appended text", "an existing line is overwritten with a string that does not start with its own old text")
			continue
		case *ssa.Call:
			callee := staticCallee(x)
			switch {
			case callee != nil && callee.String() == "strings.Replace":
				k, isK := constInt(x.Call.Args[3])
				ok := oldTextOf(x.Call.Args[0], elem) && isK && k == 1
				r.check(ok, rule, key, p.instrPos(ls.st), "line text = its old text with one occurrence of the old token replaced", "an existing line is not rewritten as strings.Replace(its own old text, token, new, 1)")
				// the token replaced was found in that same line
				tokOK := false
				if n2, recv, args, _ := methodCall(x.Call.Args[1]); (n2 == "FindString") && len(args) == 1 && oldTextOf(args[0], elem) {
					_ = recv
					tokOK = true
				}
				r.check(tokOK, rule, key+":token", p.instrPos(ls.st), "the replaced token was located in that same line", "the token that is replaced was not located in the line that is rewritten")
				continue
			case callee != nil && callee.String() == "(*regexp.Regexp).ReplaceAllString":
				okOld := oldTextOf(x.Call.Args[1], elem)
				pat, okPat := p.regexOfValue(x.Call.Args[0])
				shapeOK, why := false, "pattern is not a constant"
				if okPat {
					shapeOK, why = tokenPatternShape(pat)
				}
				// template: "${1}" + value + "${2}"
				var leaves []ssa.Value
				concatLeaves(x.Call.Args[2], &leaves, 0)
				tmplOK := len(leaves) >= 3
				if tmplOK {
					first, _ := constString(leaves[0])
					last, _ := constString(leaves[len(leaves)-1])
					tmplOK = first == "${1}" && last == "${2}"
					for _, l := range leaves[1 : len(leaves)-1] {
						if s, isS := constString(l); isS && strings.Contains(s, "$") {
							tmplOK = false
						}
					}
				}
				r.check(okOld && shapeOK && tmplOK, rule, key, p.instrPos(ls.st), "line text = prefix + new token + suffix of its own old text ("+pat+")", "an existing line is not rewritten as ${1}+token+${2} of its own old text over ^(prefix)X(suffix)$: "+why)
				continue
			}
		}
		r.bad(rule, key, p.instrPos(ls.st), "an existing line's text is replaced by a freshly built string (the original bytes of the line are not preserved)")
	}
	// an existing line is never replaced as a whole either (the replacement would carry a new
	// line ending and drop the line's own)
	for _, f := range p.srcFns {
		if !strings.HasPrefix(pkgPathOfFn(f), modPath+"/klog/parser/reconciling") && !strings.HasPrefix(pkgPathOfFn(f), modPath+"/klog/app") {
			continue
		}
		eachInstr(f, func(in ssa.Instruction) {
			st, ok := in.(*ssa.Store)
			if !ok {
				return
			}
			ia, ok := st.Addr.(*ssa.IndexAddr)
			if !ok || typeNameOf(st.Val.Type()) != "Line" {
				return
			}
			if _, fld := fieldLoad(ia.X); fld == "lines" {
				r.bad(rule, fnName(f)+":whole-line", p.instrPos(st), "an existing line of the reconciler is replaced by another Line value (its original bytes, including its own line ending, are not preserved)")
			}
		})
	}
	// (the reconcilers rewrite existing lines in four places today; statements may be merged, but
	// closing a range and extending a summary remain two different rewrites)
	if n < 2 {
		r.undecided(rule, "floor", "-", "found %d stores to the text of existing lines, expected at least 2", n)
	}
}

func ruleP03LineEnding(p *Prog, r *Report) {
	const rule = "P03-lineending"
	n := 0
	for _, ls := range p.lineFieldStores("LineEnding") {
		if isFreshLine(ls.fa) {
			continue
		}
		n++
		key := fnName(ls.f) + ":LineEnding"
		if pkgPathOfFn(ls.f) != modPath+"/klog/parser/reconciling" {
			r.bad(rule, key, p.instrPos(ls.st), "the line ending of an existing line is overwritten outside package reconciling")
			continue
		}
		ok := false
		for _, g := range guardsOf(ls.st.Block()) {
			// "this line has no ending" in any spelling (== "", len(...) == 0, …)
			x, isEmpty, isG := emptyGuard(g)
			if !isG || !isEmpty {
				continue
			}
			if u, isU := strip(x).(*ssa.UnOp); isU && u.Op == token.MUL {
				if fa, isFa := u.X.(*ssa.FieldAddr); isFa && fieldName(fa) == "LineEnding" && sameElemAddr(fa.X, ls.fa.X) {
					ok = true
				}
			}
		}
		r.check(ok, rule, key, p.instrPos(ls.st), "a line ending is only given to a line that has none", "the line ending of an existing line can be overwritten although it has one (e.g. CRLF replaced)")
	}
	if n < 1 {
		r.undecided(rule, "floor", "-", "no store to the line ending of an existing line found (insert() expected)")
	}
}

func ruleP03Insert(p *Prog, r *Report) {
	const rule = "P03-insert"
	f := p.method("klog/parser/reconciling", "Reconciler", "insert")
	newLine := p.fn("klog/parser/txt", "NewLineFromString")
	if !r.anchorFn(rule, f, "Reconciler.insert") || !r.anchorFn(rule, newLine, "txt.NewLineFromString") {
		return
	}
	texts := f.Params[2]
	var mk *ssa.MakeSlice
	eachVInstr(f, func(in ssa.Instruction) {
		if m, ok := in.(*ssa.MakeSlice); ok && isSliceOf(m.Type(), "Line") {
			mk = m
		}
	})
	if mk == nil {
		r.undecided(rule, "result", p.pos(f.Pos()), "insert does not build its result with make([]txt.Line, n)")
		return
	}
	// length = len(r.lines) + len(texts)
	pl := polyOf(mk.Len)
	okLen := pl.C == 0 && len(pl.Terms) == 2
	for k, c := range pl.Terms {
		if c != 1 || !strings.Contains(k, "len") {
			// leaf keys for len() calls are value-named; check the leaf value instead
			v := pl.leafV[k]
			lc, ok := strip(v).(*ssa.Call)
			if !ok || c != 1 {
				okLen = false
				continue
			}
			bi, ok := lc.Call.Value.(*ssa.Builtin)
			if !ok || bi.Name() != "len" {
				okLen = false
				continue
			}
			arg := lc.Call.Args[0]
			_, fld := fieldLoad(arg)
			if fld != "lines" && strip(arg) != ssa.Value(texts) {
				okLen = false
			}
		}
	}
	r.check(okLen, rule, "length", p.instrPos(mk), "new length = old lines + inserted texts", "the new line list does not have len(old)+len(inserted) elements: lines are lost or invented")
	// element stores
	nCopy, nNew := 0, 0
	var copyIdx, oldIdx *Poly
	var copyStore *ssa.Store
	eachVInstr(f, func(in ssa.Instruction) {
		st, ok := in.(*ssa.Store)
		if !ok {
			return
		}
		ia, ok := st.Addr.(*ssa.IndexAddr)
		if !ok || ia.X != ssa.Value(mk) {
			return
		}
		v := strip(st.Val)
		if c, ok := v.(*ssa.Call); ok && sameFn(staticCallee(c), newLine) {
			nNew++
			// built from texts[offset]
			var leaves []ssa.Value
			concatLeaves(c.Call.Args[0], &leaves, 0)
			fromTexts := false
			for _, l := range leaves {
				if base, fld := fieldLoad(l); fld == "text" && base != nil {
					if ia2, ok := strip(base).(*ssa.IndexAddr); ok && strip(ia2.X) == ssa.Value(texts) {
						fromTexts = true
					}
				}
			}
			r.check(fromTexts, rule, "new-line", p.instrPos(st), "an inserted line is built from the next text to insert", "an inserted line is not built from the texts to insert")
			return
		}
		// whole-struct copy of r.lines[i - offset]
		if u, ok := v.(*ssa.UnOp); ok && u.Op == token.MUL {
			if ia2, ok := u.X.(*ssa.IndexAddr); ok {
				if _, fld := fieldLoad(ia2.X); fld == "lines" {
					nCopy++
					d := newPoly()
					d.addScaled(polyOf(ia.Index), 1)
					d.addScaled(polyOf(ia2.Index), -1)
					copyIdx = d
					oldIdx, copyStore = polyOf(ia2.Index), st
					r.ok(rule, "copy", p.instrPos(st), "an old line is copied as a whole (text and line ending)")
					return
				}
			}
		}
		r.bad(rule, "element", p.instrPos(st), "an element of the new line list is neither a whole copy of an old line nor a line built from the inserted text")
	})
	r.check(nCopy == 1 && nNew == 1, rule, "elements", p.pos(f.Pos()), "one copy site and one construction site", fmt.Sprintf("%d copy sites and %d construction sites", nCopy, nNew))
	// order preserved: new index - old index = number of lines inserted so far (a counter that only grows by one per inserted line)
	okOrder := false
	if copyIdx != nil && copyIdx.C == 0 && len(copyIdx.Terms) == 1 {
		for k, c := range copyIdx.Terms {
			if ph, ok := strip(copyIdx.leafV[k]).(*ssa.Phi); ok && c == 1 {
				okOrder = true
				for _, e := range ph.Edges {
					if kk, isK := constInt(e); isK {
						if kk != 0 {
							okOrder = false
						}
						continue
					}
					if strip(e) == ssa.Value(ph) {
						continue
					}
					pe := polyOf(e)
					if !(pe.C == 1 && len(pe.Terms) == 1) {
						okOrder = false
					}
				}
			}
		}
	}
	// or: the old lines are read through a cursor of their own that starts at 0 and advances by
	// one exactly where a line is copied (0, 1, 2, … in order)
	if !okOrder && oldIdx != nil && oldIdx.C == 0 && len(oldIdx.Terms) == 1 && copyStore != nil {
		for k, c := range oldIdx.Terms {
			ph, ok := strip(oldIdx.leafV[k]).(*ssa.Phi)
			if !ok || c != 1 {
				continue
			}
			good, sawInc := true, false
			phis, ins := phiCycle(ph)
			for _, in := range ins {
				if kk, isK := constInt(in); isK {
					if kk != 0 {
						good = false
					}
					continue
				}
				bo, isBo := strip(in).(*ssa.BinOp)
				if !isBo || bo.Op != token.ADD {
					good = false
					continue
				}
				one, isK := constInt(bo.Y)
				base, isPhi := strip(bo.X).(*ssa.Phi)
				if !isK || one != 1 || !isPhi || !phis[base] {
					good = false
					continue
				}
				// the increment sits with the copy
				if bo.Block() == copyStore.Block() || copyStore.Block().Dominates(bo.Block()) {
					sawInc = true
				} else {
					good = false
				}
			}
			okOrder = good && sawInc
		}
	}
	r.check(okOrder, rule, "order", p.pos(f.Pos()), "old line i lands at i + (number of lines inserted before it): original order preserved", "the index arithmetic of the copy is not old = new - insertedSoFar (order of the original lines may change)")
	// the new list replaces r.lines
	okStore := false
	eachVInstr(f, func(in ssa.Instruction) {
		if st, ok := in.(*ssa.Store); ok {
			if fa, ok := st.Addr.(*ssa.FieldAddr); ok && fieldName(fa) == "lines" && strip(st.Val) == ssa.Value(mk) {
				okStore = true
			}
		}
	})
	r.check(okStore, rule, "installed", p.pos(f.Pos()), "the new list becomes the reconciler's lines", "insert does not install the list it built")
}

func ruleP03Result(p *Prog, r *Report) {
	const rule = "P03-result"
	mk := p.method("klog/parser/reconciling", "Reconciler", "MakeResult")
	orig := p.method("klog/parser/txt", "Line", "Original")
	flat := p.fn("klog/parser/reconciling", "flatten")
	if !r.anchorFn(rule, mk, "Reconciler.MakeResult") || !r.anchorFn(rule, orig, "txt.Line.Original") || !r.anchorFn(rule, flat, "reconciling.flatten") {
		return
	}
	// Original() = Text + LineEnding
	for _, ret := range returnsOf(orig) {
		var leaves []ssa.Value
		concatLeaves(retResult(ret, 0), &leaves, 0)
		var names []string
		for _, l := range leaves {
			if _, f := fieldLoad(l); f != "" {
				names = append(names, f)
			} else if s, isS := constString(l); !isS || s != "" {
				names = append(names, "?")
			}
		}
		r.check(strings.Join(names, "+") == "Text+LineEnding", rule, "Line.Original", p.instrPos(ret), "Original() = Text + LineEnding", "Original() is not Text + LineEnding: "+strings.Join(names, "+"))
	}
	// MakeResult: text = fold of l.Original() over r.lines
	var parse ssa.CallInstruction
	eachInstr(mk, func(in ssa.Instruction) {
		if c, ok := in.(ssa.CallInstruction); ok {
			if n, _, _, _ := methodCallOf(c); n == "Parse" {
				parse = c
			}
		}
	})
	if parse == nil {
		r.bad(rule, "MakeResult:text", p.pos(mk.Pos()), "MakeResult does not re-parse a text")
	} else {
		text := parse.Common().Args[len(parse.Common().Args)-1]
		// The text is an accumulator (`+=` or a strings.Builder, here or in a helper) that starts
		// empty and receives, on every iteration over r.lines and in this order, the line's Text
		// and LineEnding (or its Original(), which is the two).
		evs, init, ok := appendEvents(text)
		ok = ok && init == "" && orderedEvents(evs)
		var seq []string
		for _, e := range evs {
			var leaves []ssa.Value
			concatLeaves(e.val, &leaves, 0)
			for _, l := range leaves {
				if s, isS := constString(l); isS && s == "" {
					continue
				}
				var recv ssa.Value
				if c, isC := isCallTo(l, orig, 0); isC {
					recv = c.Common().Args[0]
					seq = append(seq, "Text", "LineEnding")
				} else if base, fld := fieldLoad(l); fld == "Text" || fld == "LineEnding" {
					recv = base
					seq = append(seq, fld)
				} else {
					ok = false
					continue
				}
				coll := rangeElemOf(recv)
				if coll == nil {
					ok = false
					continue
				}
				if _, fld := fieldLoad(coll); fld != "lines" {
					ok = false
				}
			}
			if only, _ := onlyLoopGuards(blockIn(mk, e.at)); !only {
				ok = false
			}
			if only, _ := onlyLoopGuards(e.at.Block()); !only {
				ok = false
			}
		}
		r.check(ok && strings.Join(seq, "+") == "Text+LineEnding", rule, "MakeResult:text", p.instrPos(parse), "text = concatenation of Text+LineEnding (Original()) of every line, in order", "the text MakeResult validates and returns is not the unconditional in-order concatenation of l.Original() over r.lines")
	}
	// flatten: result = append(result, b.Lines()...) for every block
	for _, ret := range returnsOf(flat) {
		apps, leaves := accWeb(retResult(ret, 0))
		ok := len(apps) == 1
		for _, l := range leaves {
			if !isNilConst(l) {
				ok = false
			}
		}
		if ok {
			a := apps[0]
			n, recv, _, _ := methodCall(a.Call.Args[1])
			coll := rangeElemOf(recv)
			only, _ := onlyLoopGuards(a.Block())
			ok = n == "Lines" && coll != nil && strip(coll) == ssa.Value(flat.Params[0]) && only
		}
		r.check(ok, rule, "flatten", p.instrPos(ret), "flatten = every block's lines, in order", "flatten does not append every block's Lines() in order")
	}
	// both creators take their lines from flatten(bs)
	n := 0
	for _, name := range []string{"NewReconcilerAtRecord", "NewReconcilerForNewRecord"} {
		cr := p.fn("klog/parser/reconciling", name)
		if cr == nil {
			continue
		}
		for _, g := range withAnons(cr) {
			eachInstr(g, func(in ssa.Instruction) {
				if st, ok := in.(*ssa.Store); ok {
					if fa, ok := st.Addr.(*ssa.FieldAddr); ok && typeNameOf(fa.X.Type()) == "Reconciler" && fieldName(fa) == "lines" {
						n++
						c, isC := isCallTo(st.Val, flat, 0)
						okArg := false
						if isC {
							// the blocks parameter of the creator's own function (also when the
							// construction sits in a helper that is handed the blocks)
							if par, isPar := deref(c.Common().Args[0]).(*ssa.Parameter); isPar {
								for _, h := range plainWithAnons(cr) {
									if h != cr && len(h.Params) == 2 && par == h.Params[1] {
										okArg = true
									}
								}
							}
						}
						r.check(okArg, rule, name+":lines", p.instrPos(st), "the reconciler starts from flatten(all blocks)", "the reconciler's lines are not flatten(blocks of the parsed file)")
					}
				}
			})
		}
	}
	if n < 2 {
		r.undecided(rule, "floor:creators", "-", "found %d reconciler constructions, expected 2", n)
	}
}

func ruleP08NoWriters(p *Prog, r *Report) {
	const rule = "P08-nowriters"
	n := 0
	for _, fld := range []string{"Text", "LineEnding"} {
		for _, ls := range p.lineFieldStores(fld) {
			n++
			pkg := pkgPathOfFn(ls.f)
			key := fmt.Sprintf("%s:%s", fnName(ls.f), fld)
			switch {
			case isFreshLine(ls.fa):
				r.ok(rule, key, p.instrPos(ls.st), "field of a line under construction")
			case pkg == modPath+"/klog/parser/reconciling":
				r.ok(rule, key, p.instrPos(ls.st), "patch inside package reconciling (decided by P03-linewrites / P03-lineending)")
			default:
				r.bad(rule, key, p.instrPos(ls.st), "a field of an existing line is written outside package reconciling (the parsing side must never mutate a line)")
			}
		}
	}
	if n < 5 {
		r.undecided(rule, "floor", "-", "found %d stores to line fields, expected at least 5", n)
	}
	_ = types.Typ
}

func ruleP08Cursor(p *Prog, r *Report) {
	const rule = "P08-cursor"
	pb := p.fn("klog/parser/txt", "ParseBlock")
	newLine := p.fn("klog/parser/txt", "NewLineFromString")
	if !r.anchorFn(rule, pb, "txt.ParseBlock") || !r.anchorFn(rule, newLine, "NewLineFromString") {
		return
	}
	text := pb.Params[0]
	cs := callsTo(pb, newLine)
	if len(cs) != 1 {
		r.undecided(rule, "line", p.pos(pb.Pos()), "expected one NewLineFromString call in ParseBlock")
		return
	}
	sl, ok := strip(cs[0].Common().Args[0]).(*ssa.Slice)
	if !ok || strip(sl.X) != ssa.Value(text) || sl.Low == nil || sl.High == nil {
		r.bad(rule, "line", p.instrPos(cs[0]), "a line is not cut as text[lo:hi]")
		return
	}
	lo, isPhi := strip(sl.Low).(*ssa.Phi)
	okLo := false
	if isPhi {
		okLo = true
		for _, e := range lo.Edges {
			if k, isK := constInt(e); isK {
				if k != 0 {
					okLo = false
				}
				continue
			}
			if strip(e) == ssa.Value(lo) {
				continue
			}
			if !sameValue(e, sl.High) {
				okLo = false
			}
		}
	}
	r.check(okLo, rule, "ParseBlock:cursor", p.instrPos(cs[0]), "each line starts where the previous kept line ended (initially 0)", "the start of a line is not the end of the previous kept line: bytes are skipped or repeated")
	// the append of the line and the byte count: same block, count += len(line text)
	var app *ssa.Call
	eachInstr(pb, func(in ssa.Instruction) {
		if c, ok := in.(*ssa.Call); ok {
			if bi, ok := c.Call.Value.(*ssa.Builtin); ok && bi.Name() == "append" && isSliceOf(c.Type(), "Line") {
				app = c
			}
		}
	})
	if app == nil {
		r.bad(rule, "ParseBlock:keep", p.pos(pb.Pos()), "lines are not collected")
		return
	}
	// on the path that appends: cursor phi edge from that block is hi, and bytesConsumed increases by len(currentLine) (or len(Text)+len(LineEnding))
	okAdv := false
	if isPhi {
		for i, e := range lo.Edges {
			pbk := lo.Block().Preds[i]
			if app.Block().Dominates(pbk) || pbk == app.Block() {
				if sameValue(e, sl.High) {
					okAdv = true
				}
			}
		}
	}
	r.check(okAdv, rule, "ParseBlock:advance", p.instrPos(app), "when a line is kept the cursor moves to its end", "a kept line does not advance the cursor to its end")
	rets := returnsOf(pb)
	okCount := len(rets) > 0
	for _, ret := range rets {
		phis, ins := phiCycle(retResult(ret, 1))
		if len(phis) == 0 {
			okCount = false
			continue
		}
		// The count may be the cursor itself (one variable for both): then it is 0 or the end of
		// the last kept line, which is what the cursor checks above establish, provided the end
		// of a line only flows in on the path that keeps the line.
		if isPhi && phis[lo] {
			for ph := range phis {
				for i, e := range ph.Edges {
					if q, isQ := strip(e).(*ssa.Phi); isQ && phis[q] {
						continue
					}
					if k, isK := constInt(e); isK && k == 0 {
						continue
					}
					pbk := ph.Block().Preds[i]
					if sameValue(e, sl.High) && (pbk == app.Block() || app.Block().Dominates(pbk)) {
						continue
					}
					okCount = false
				}
			}
			continue
		}
		nAdd := 0
		for _, in := range ins {
			if k, isK := constInt(in); isK {
				if k != 0 {
					okCount = false
				}
				continue
			}
			b, isB := in.(*ssa.BinOp)
			if !isB || b.Op != token.ADD || b.Block() != app.Block() {
				okCount = false
				continue
			}
			nAdd++
			// the increment derives from the current line only
			inc := b.Y
			if ph, isP := strip(b.X).(*ssa.Phi); !isP || !phis[ph] {
				inc = b.X
			}
			if !derivesFromLine(inc, cs[0].Common().Args[0], cs[0].Value(), 0) && !polyOf(inc).equal(polySub(polyOf(sl.High), polyOf(sl.Low))) {
				okCount = false
			}
		}
		if nAdd != 1 {
			okCount = false
		}
	}
	r.check(okCount, rule, "ParseBlock:count", p.instrPos(app), "bytes consumed grow by the kept line's length, together with the append", "the byte count is not increased by the kept line's own length on exactly the path that keeps the line")
	// mapParse
	mp := p.method("klog/parser/engine", "SerialParser", "mapParse")
	if !r.anchorFn(rule, mp, "SerialParser.mapParse") {
		return
	}
	pcs := callsTo(mp, pb)
	if len(pcs) != 1 {
		r.undecided(rule, "mapParse:parse", p.pos(mp.Pos()), "expected one ParseBlock call in mapParse")
		return
	}
	pc := pcs[0]
	sl2, ok := strip(pc.Common().Args[0]).(*ssa.Slice)
	total, isPhi2 := ssa.Value(nil), false
	if ok && sl2.Low != nil && sl2.High == nil && strip(sl2.X) == ssa.Value(mp.Params[1]) {
		total = sl2.Low
		_, isPhi2 = strip(total).(*ssa.Phi)
	}
	// the running-suffix spelling: rest = text; …ParseBlock(rest, …); rest = rest[bytesConsumed:];
	// the total returned is len(text) - len(rest)
	if !isPhi2 {
		if rest, isR := strip(pc.Common().Args[0]).(*ssa.Phi); isR {
			okRest := len(rest.Edges) > 0
			for _, e := range rest.Edges {
				if strip(e) == ssa.Value(mp.Params[1]) {
					continue
				}
				cut, isS := strip(e).(*ssa.Slice)
				if !isS || strip(cut.X) != ssa.Value(rest) || cut.High != nil || cut.Low == nil || !sameValue(cut.Low, resultOf(pc, 1)) {
					okRest = false
				}
			}
			r.check(okRest, rule, "mapParse:from", p.instrPos(pc), "the next block is parsed from the rest of the text after the bytes consumed so far", "the next block is not parsed from the text that follows the bytes consumed so far")
			okTotal := true
			for _, ret := range returnsOf(mp) {
				pl := polyOf(retResult(ret, 2))
				want := newPoly()
				want.Terms["len(param:"+mp.Params[1].Name()+")"] = 1
				want.Terms["len("+leafKey(rest)+")"] = -1
				if !pl.equal(want) {
					okTotal = false
				}
			}
			r.check(okTotal, rule, "mapParse:consumed", p.instrPos(pc), "bytes consumed = len(text) - len(rest)", "the byte total returned by mapParse is not the length of the text minus what is left of it")
			isPhi2 = false
			goto lines
		}
	}
	r.check(isPhi2, rule, "mapParse:from", p.instrPos(pc), "the next block is parsed from text[consumed:]", "the next block is not parsed from text[total bytes consumed:]")
	if isPhi2 {
		ph := strip(total).(*ssa.Phi)
		okT := true
		for _, e := range ph.Edges {
			if k, isK := constInt(e); isK {
				if k != 0 {
					okT = false
				}
				continue
			}
			pl := polyOf(e)
			// total + bytesConsumed
			want := newPoly()
			want.Terms[leafKey(ph)] = 1
			bc := resultOf(pc, 1)
			if bc == nil {
				okT = false
				continue
			}
			want.Terms[leafKey(bc)] = 1
			if !pl.equal(want) {
				okT = false
			}
		}
		r.check(okT, rule, "mapParse:consumed", p.instrPos(pc), "consumed += bytes consumed by the block", "the running byte offset is not increased by exactly the bytes the block consumed")
	}
lines:
	// line count: second argument of ParseBlock is a phi increased by len(block.Lines())
	lc, isPhi3 := strip(pc.Common().Args[1]).(*ssa.Phi)
	okL := isPhi3
	if isPhi3 {
		for _, e := range lc.Edges {
			if k, isK := constInt(e); isK {
				if k != 0 {
					okL = false
				}
				continue
			}
			pl := polyOf(e)
			if pl.C != 0 || len(pl.Terms) != 2 || pl.Terms[leafKey(lc)] != 1 {
				okL = false
				continue
			}
			for k, c := range pl.Terms {
				if k == leafKey(lc) {
					continue
				}
				v := pl.leafV[k]
				call, isC := strip(v).(*ssa.Call)
				if !isC || c != 1 {
					okL = false
					continue
				}
				bi, isB := call.Call.Value.(*ssa.Builtin)
				if !isB || bi.Name() != "len" {
					okL = false
					continue
				}
				if n, recv, _, _ := methodCall(call.Call.Args[0]); n != "Lines" || !sameValue(recv, resultOf(pc, 0)) {
					okL = false
				}
			}
		}
	}
	r.check(okL, rule, "mapParse:lines", p.instrPos(pc), "preceding line count += number of lines of the block", "the preceding-line count handed to the next block is not the running sum of len(block.Lines())")
}

// derivesFromLine: v is computed (len, +) from the raw line text or the Line built from it.
func derivesFromLine(v ssa.Value, raw ssa.Value, line ssa.Value, depth int) bool {
	if depth > 8 {
		return false
	}
	v = strip(v)
	if sameValue(v, raw) || v == line {
		return true
	}
	switch x := v.(type) {
	case *ssa.Call:
		if bi, ok := x.Call.Value.(*ssa.Builtin); ok && bi.Name() == "len" {
			return derivesFromLine(x.Call.Args[0], raw, line, depth+1)
		}
	case *ssa.BinOp:
		if x.Op == token.ADD {
			return derivesFromLine(x.X, raw, line, depth+1) && derivesFromLine(x.Y, raw, line, depth+1)
		}
	case *ssa.UnOp:
		if x.Op == token.MUL {
			if fa, ok := x.X.(*ssa.FieldAddr); ok {
				if a, ok := fa.X.(*ssa.Alloc); ok {
					for _, s := range storesTo(a) {
						if strip(s.val) == line {
							return true
						}
					}
				}
			}
		}
	case *ssa.Field:
		return derivesFromLine(x.X, raw, line, depth+1)
	}
	return false
}

func ruleP08Split(p *Prog, r *Report) {
	const rule = "P08-split"
	f := p.fn("klog/parser/txt", "splitOffLineEnding")
	nl := p.fn("klog/parser/txt", "NewLineFromString")
	if !r.anchorFn(rule, nl, "txt.NewLineFromString") {
		return
	}
	// one way of splitting: the (text, ending) pair chosen at `at`, for the raw text `text`
	checkPair := func(key string, at ssa.Instruction, a, b ssa.Value, text ssa.Value) {
		a, b = strip(a), strip(b)
		blk := at.Block()
		if a == text {
			s, isS := constString(b)
			r.check(isS && s == "", rule, key, p.instrPos(at), "no known ending: (text, \"\")", "without a line ending the text is not returned whole with an empty ending")
			return
		}
		// the library spelling: rest, found := strings.CutSuffix(text, e); if found { return rest, e }
		if cc, idx := callOf(a); cc != nil && idx == 0 && staticCallee(cc) != nil && staticCallee(cc).String() == "strings.CutSuffix" {
			okCut := strip(cc.Common().Args[0]) == text && sameValue(cc.Common().Args[1], b)
			found := false
			for _, g := range guardsOf(blk) {
				if gc, gi := callOf(strip(g.Cond)); gc == cc && gi == 1 && g.Pol {
					found = true
				}
			}
			r.check(okCut && found, rule, key, p.instrPos(at), "(text minus its suffix e, e) when text ends in e", "the line is not split into CutSuffix(text, e) and e under 'found'")
			return
		}
		// text[:len(text)-len(e)], e   guarded by HasSuffix(text, e)
		sl, ok := a.(*ssa.Slice)
		good := ok && strip(sl.X) == text && sl.Low == nil && sl.High != nil
		if good {
			pl := polyOf(sl.High)
			good = pl.C == 0 && len(pl.Terms) == 2
			sawText, sawE := false, false
			for k, c := range pl.Terms {
				lc, isC := strip(pl.leafV[k]).(*ssa.Call)
				if !isC || len(lc.Call.Args) != 1 {
					good = false
					continue
				}
				if c == 1 && strip(lc.Call.Args[0]) == text {
					sawText = true
				}
				if c == -1 && sameValue(lc.Call.Args[0], b) {
					sawE = true
				}
			}
			good = good && sawText && sawE
		}
		suffix := false
		for _, g := range guardsOf(blk) {
			if c, isC := g.Cond.(*ssa.Call); isC && g.Pol && staticCallee(c) != nil && staticCallee(c).String() == "strings.HasSuffix" {
				if strip(c.Call.Args[0]) == text && sameValue(c.Call.Args[1], b) {
					suffix = true
				}
			}
		}
		r.check(good && suffix, rule, key, p.instrPos(at), "(text minus its suffix e, e) when text ends in e", "the line is not split into text[:len(text)-len(e)] and e for a suffix e of text")
	}
	if f != nil {
		for i, ret := range returnsOf(f) {
			checkPair(fmt.Sprintf("return#%d", i), ret, retResult(ret, 0), retResult(ret, 1), f.Params[0])
		}
		// NewLineFromString stores both parts in place
		cs := callsTo(nl, f)
		ok := len(cs) == 1
		if ok {
			t, e := resultOf(cs[0], 0), resultOf(cs[0], 1)
			nOK := 0
			eachInstr(nl, func(in ssa.Instruction) {
				if st, isSt := in.(*ssa.Store); isSt {
					if fa, isFa := st.Addr.(*ssa.FieldAddr); isFa {
						if fieldName(fa) == "Text" && t != nil && sameValue(st.Val, t) {
							nOK++
						}
						if fieldName(fa) == "LineEnding" && e != nil && sameValue(st.Val, e) {
							nOK++
						}
					}
				}
			})
			ok = nOK == 2 && strip(cs[0].Common().Args[0]) == ssa.Value(nl.Params[0])
		}
		r.check(ok, rule, "NewLineFromString", p.pos(nl.Pos()), "Line{Text, LineEnding} = splitOffLineEnding(raw)", "NewLineFromString does not store the two parts of its argument as Text and LineEnding")
		return
	}
	// no separate splitting function: NewLineFromString builds the Line from its argument itself.
	// Every Line literal it returns is one way of splitting.
	n := 0
	for i, ret := range plainReturnsOf(nl) {
		u, isU := plainDeref(ret.Results[0]).(*ssa.UnOp)
		var lit *ssa.Alloc
		if isU && u.Op == token.MUL {
			lit, _ = u.X.(*ssa.Alloc)
		}
		if lit == nil || lit.Referrers() == nil {
			r.undecided(rule, fmt.Sprintf("return#%d", i), p.instrPos(ret), "NewLineFromString does not return a Line literal")
			continue
		}
		var tv, ev ssa.Value = ssa.NewConst(constant.MakeString(""), types.Typ[types.String]), ssa.NewConst(constant.MakeString(""), types.Typ[types.String])
		var at ssa.Instruction = ret
		for _, ref := range *lit.Referrers() {
			if fa, isFa := ref.(*ssa.FieldAddr); isFa && fa.Referrers() != nil {
				for _, r2 := range *fa.Referrers() {
					if st, isSt := r2.(*ssa.Store); isSt && st.Addr == ssa.Value(fa) {
						switch fieldName(fa) {
						case "Text":
							tv, at = st.Val, st
						case "LineEnding":
							ev = st.Val
						}
					}
				}
			}
		}
		n++
		checkPair(fmt.Sprintf("return#%d", i), at, tv, ev, nl.Params[0])
	}
	if n < 2 {
		r.undecided(rule, "floor", p.pos(nl.Pos()), "expected NewLineFromString to split its argument itself in at least two ways (with and without a line ending), found %d", n)
	}
}
