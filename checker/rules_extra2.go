package main

// Rules added after reviewing the variant sweep (DESIGN §7): behaviour-changing variants that
// survive the test suite and that the first rule set left silent.

import (
	"fmt"
	"go/token"

	"golang.org/x/tools/go/ssa"
)

// readerBody: the function that does the work of f when f merely forwards (`return h(args…)`,
// one block); with the forwarding call. Otherwise f itself.
func readerBody(f *ssa.Function) (*ssa.Function, *ssa.Call) {
	if f == nil || len(f.Blocks) != 1 {
		return f, nil
	}
	rets := plainReturnsOf(f)
	if len(rets) != 1 || len(rets[0].Results) == 0 {
		return f, nil
	}
	var fwd *ssa.Call
	for i, res := range rets[0].Results {
		var c *ssa.Call
		switch x := res.(type) {
		case *ssa.Extract:
			if cc, ok := x.Tuple.(*ssa.Call); ok && x.Index == i {
				c = cc
			}
		case *ssa.Call:
			if len(rets[0].Results) == 1 {
				c = x
			}
		}
		if c == nil || (fwd != nil && fwd != c) {
			return f, nil
		}
		fwd = c
	}
	h := rawStaticCallee(fwd)
	if h == nil || len(h.Blocks) == 0 || gp == nil || !gp.inMod(h) {
		return f, nil
	}
	return originFn(h), fwd
}

// isBookmarkRead: c reads the bookmark database — Context.ReadBookmarks, or the function an
// implementation of it forwards to.
func (p *Prog) isBookmarkRead(c ssa.CallInstruction) bool {
	if c == nil {
		return false
	}
	if n, _, _, _ := methodCallOf(c); n == "ReadBookmarks" {
		return true
	}
	g := rawStaticCallee(c)
	if g == nil {
		return false
	}
	for _, impl := range p.implsOf("klog/app", "Context", "ReadBookmarks") {
		if body, fwd := readerBody(impl); fwd != nil && body == originFn(g) {
			return true
		}
	}
	return false
}

// P19-absent-db — an absent bookmark database is an empty one; any other read failure is returned.
func ruleP19AbsentDb(p *Prog, r *Report) {
	const rule = "P19-absent-db"
	for _, impl := range p.implsOf("klog/app", "Context", "ReadBookmarks") {
		key := fnName(impl)
		f, _ := readerBody(impl)
		var read ssa.CallInstruction
		eachInstr(f, func(in ssa.Instruction) {
			if c, ok := in.(ssa.CallInstruction); ok && staticCallee(c) != nil && fnBase(staticCallee(c)) == "ReadFile" {
				read = c
			}
		})
		if read == nil {
			r.undecided(rule, key, p.pos(f.Pos()), "ReadBookmarks does not read the database with ReadFile")
			continue
		}
		e := resultOf(read, 1)
		if e == nil {
			r.bad(rule, key, p.instrPos(read), "the read error of the bookmark database is discarded")
			continue
		}
		okAbsent, okOther := false, false
		for _, b := range f.Blocks {
			iff, isIf := b.Instrs[len(b.Instrs)-1].(*ssa.If)
			if !isIf {
				continue
			}
			gs := flattenCond(iff.Cond, true, iff)
			c, isC := gs[0].Cond.(*ssa.Call)
			if !isC || staticCallee(c) == nil || staticCallee(c).String() != "os.IsNotExist" {
				continue
			}
			absent, other := b.Succs[0], b.Succs[1]
			if !gs[0].Pol {
				absent, other = other, absent
			}
			if rejectComplete(absent, func(ret *ssa.Return) string {
				rc, _ := callOf(retResult(ret, 0))
				if rc == nil || staticCallee(rc) == nil || fnBase(staticCallee(rc)) != "NewEmptyBookmarksCollection" || !isNilConst(retResult(ret, 1)) {
					return "not (empty collection, nil)"
				}
				return ""
			}) == "" {
				okAbsent = true
			}
			if rejectComplete(other, func(ret *ssa.Return) string {
				if !isNilConst(retResult(ret, 0)) || p.nilnessAt(ret.Block(), retResult(ret, 1), 0) != nnNonNil {
					return "not (nil, error)"
				}
				return ""
			}) == "" {
				okOther = true
			}
		}
		r.check(okAbsent, rule, key+":absent", p.instrPos(read), "an absent database file is an empty collection", "an absent bookmark database is not treated as an empty collection (the first `bookmarks set` would fail)")
		r.check(okOther, rule, key+":other", p.instrPos(read), "any other read failure is returned", "a read failure other than 'absent' is not returned")
		// the database text is what gets parsed
		okParse := false
		for _, ret := range returnsOf(f) {
			if rc, _ := callOf(retResult(ret, 0)); rc != nil && staticCallee(rc) != nil && fnBase(staticCallee(rc)) == "NewBookmarksCollectionFromJson" {
				okParse = sameValue(rc.Common().Args[0], resultOf(read, 0)) && knownNil(ret.Block(), e)
			}
		}
		r.check(okParse, rule, key+":parse", p.instrPos(read), "the text read is parsed as the database", "the text read from the database is not what is parsed")
		// reading is reading: the collection is not edited on the way (whatever is dropped here
		// is lost for good with the next set/unset, which writes back what it read)
		edited := ""
		eachVInstr(f, func(in ssa.Instruction) {
			if c, isC := in.(ssa.CallInstruction); isC && c.Common().IsInvoke() && typeNameOf(c.Common().Value.Type()) == "BookmarksCollection" {
				switch c.Common().Method.Name() {
				case "Set", "Remove", "Clear":
					edited = c.Common().Method.Name() + " at " + p.instrPos(c)
				}
			}
		})
		r.check(edited == "", rule, key+":read-only", p.instrPos(read), "the collection is handed out as parsed", "reading the bookmark database edits the collection ("+edited+")")
	}
	// CreateEmptyFile (bookmarks set --create): failure reported exactly when os.Create failed
	cf := p.fn("klog/app", "CreateEmptyFile")
	if r.anchorFn(rule, cf, "app.CreateEmptyFile") {
		for _, ps := range primSitesIn(cf) {
			if fnBase(ps.prim) != "Create" {
				continue
			}
			e := resultOf(ps.site, 1)
			if e == nil {
				r.bad(rule, "CreateEmptyFile:error", p.instrPos(ps.site), "the error of os.Create is discarded")
				continue
			}
			msg, how := p.checkForwarding(cf, e, lastResultIdx)
			okNil := true
			for _, ret := range returnsOf(cf) {
				if knownNil(ret.Block(), e) && p.nilnessAt(ret.Block(), retResult(ret, 0), 0) != nnNil {
					okNil = false
				}
			}
			r.check(msg == "" && okNil, rule, "CreateEmptyFile:error", p.instrPos(ps.site), "creation failure is reported, success is not ("+how+")", "CreateEmptyFile reports the outcome of os.Create with the wrong polarity: "+msg)
		}
	}
}

// P01-lex:summary-empty — the summary constructors reject exactly the empty line besides the
// blank pattern (length compared with 0).
func ruleP01SummaryEmpty(p *Prog, r *Report) {
	const rule = "P01-lex"
	for _, fnm := range []string{"NewRecordSummary", "NewEntrySummary"} {
		f := p.fn("klog", fnm)
		if !r.anchorFn(rule, f, "klog."+fnm) {
			continue
		}
		n := 0
		eachInstr(f, func(in ssa.Instruction) {
			bo, ok := in.(*ssa.BinOp)
			if !ok {
				return
			}
			x, exact, desc, isT := emptinessTest(bo)
			if !isT || elemCollection(x) == nil || strip(elemCollection(x)) != ssa.Value(f.Params[0]) {
				return
			}
			n++
			r.check(exact, rule, fnm+":empty-line", p.pos(bo.Pos()), "only the empty line is rejected by length", fmt.Sprintf("%s rejects lines by length with %s: non-empty summary lines are rejected (or the empty one accepted)", fnm, desc))
		})
		if n == 0 {
			r.bad(rule, fnm+":empty-line", p.pos(f.Pos()), "%s does not reject empty lines", fnm)
		}
	}
}

// P08-loop-exit — mapParse stops exactly when ParseBlock consumed nothing or found no block.
func ruleP08LoopExit(p *Prog, r *Report) {
	const rule = "P08-cursor"
	mp := p.method("klog/parser/engine", "SerialParser", "mapParse")
	pb := p.fn("klog/parser/txt", "ParseBlock")
	if !r.anchorFn(rule, mp, "SerialParser.mapParse") || !r.anchorFn(rule, pb, "txt.ParseBlock") {
		return
	}
	cs := callsTo(mp, pb)
	if len(cs) != 1 {
		return
	}
	bc := resultOf(cs[0], 1)
	if bc == nil {
		r.bad(rule, "mapParse:exit", p.instrPos(cs[0]), "the byte count of ParseBlock is discarded (the loop would not terminate)")
		return
	}
	// The place where a parsed block is taken over (the append of the block) is reached exactly
	// under "consumed != 0" (spelled ==, !=, >, >=, <, <= with 0 or 1, in either polarity, alone or
	// inside && / ||): no other restriction on the byte count, and the restriction is present.
	var takeOver *ssa.BasicBlock
	eachInstr(mp, func(in ssa.Instruction) {
		if c, ok := in.(*ssa.Call); ok {
			if bi, isB := c.Call.Value.(*ssa.Builtin); isB && bi.Name() == "append" && isSliceOf(c.Type(), "Block") && takeOver == nil {
				takeOver = c.Block()
			}
		}
	})
	if takeOver == nil {
		r.undecided(rule, "mapParse:exit", p.pos(mp.Pos()), "the append of the parsed block was not found in mapParse")
		return
	}
	nonZero, other := false, ""
	for _, g := range guardsOf(takeOver) {
		bo, ok := g.Cond.(*ssa.BinOp)
		if !ok {
			continue
		}
		x, y, op := bo.X, bo.Y, bo.Op
		if sameValue(y, bc) {
			x, y = y, x
			op = map[token.Token]token.Token{token.LSS: token.GTR, token.GTR: token.LSS, token.LEQ: token.GEQ, token.GEQ: token.LEQ, token.EQL: token.EQL, token.NEQ: token.NEQ}[op]
		}
		if !sameValue(x, bc) {
			continue
		}
		k, isK := constInt(y)
		if !isK {
			other = bo.String()
			continue
		}
		if !g.Pol {
			op = map[token.Token]token.Token{token.LSS: token.GEQ, token.GEQ: token.LSS, token.GTR: token.LEQ, token.LEQ: token.GTR, token.EQL: token.NEQ, token.NEQ: token.EQL}[op]
		}
		switch {
		case op == token.NEQ && k == 0, op == token.GTR && k == 0, op == token.GEQ && k == 1:
			nonZero = true
		default:
			other = fmt.Sprintf("consumed %s %d", op, k)
		}
	}
	if other != "" {
		r.bad(rule, "mapParse:exit", p.pos(mp.Pos()), "a parsed block is taken over only if %s: a text whose block has another size is silently dropped (accepted as empty)", other)
	} else if !nonZero {
		r.bad(rule, "mapParse:exit", p.pos(mp.Pos()), "mapParse does not stop when ParseBlock consumed nothing (the loop would not terminate)")
	} else {
		r.ok(rule, "mapParse:exit", p.instrPos(cs[0]), "a block is taken over exactly when something was consumed; otherwise the loop ends")
	}
}

// P07-slice-guard — x[:len(x)-1] / x[len(x)-1] in the parallel worker are only evaluated when
// the block list is known to be non-empty (an empty remainder must take the other branch).
func ruleP07SliceGuard(p *Prog, r *Report) {
	const rule = "P07-carry"
	parse, async, ok := p.parallelFns(r, rule)
	if !ok {
		return
	}
	var work *ssa.Function
	work = p.workerLiteral(parse, async)
	if work == nil {
		return
	}
	n := 0
	// (also inside a small helper such as dropLast(xs), once per call, with the helper's
	// parameter standing for that call's argument)
	eachVInstrCtx(work, func(in ssa.Instruction) {
		var idx, coll ssa.Value
		switch x := in.(type) {
		case *ssa.Slice:
			idx, coll = x.High, x.X
		case *ssa.IndexAddr:
			idx, coll = x.Index, x.X
		default:
			return
		}
		if idx == nil {
			return
		}
		pl := polyOf(idx)
		if pl.C != -1 || len(pl.Terms) != 1 {
			return
		}
		isLen := false
		for k := range pl.Terms {
			if lc, ok := strip(pl.leafV[k]).(*ssa.Call); ok {
				if bi, ok := lc.Call.Value.(*ssa.Builtin); ok && bi.Name() == "len" {
					isLen = true
				}
			}
		}
		if !isLen {
			return
		}
		n++
		// some slice of the same mapParse call is known non-empty here
		guarded := false
		mc, _ := callOf(coll)
		for _, g := range guardsOf(in.Block()) {
			if x, isNil, ok := nilFact(g); ok && !isNil {
				if gc, _ := callOf(x); gc != nil && mc != nil && gc == mc {
					guarded = true
				}
			}
			// any comparison that cannot hold for an empty list: len(x)-1 >= 0, len(x) > 0, …
			if x, ok := nonEmptyFact(g); ok {
				if gc, _ := callOf(x); gc != nil && mc != nil && gc == mc {
					guarded = true
				}
			}
		}
		r.check(guarded, rule, fmt.Sprintf("slice-guard#%d", n), p.instrPos(in), "the last block is only split off when the remainder produced at least one block", "x[:len(x)-1] is evaluated although the remainder may have produced no block (an all-blank remainder panics)")
	})
	if n < 3 {
		r.undecided(rule, "slice-guard", p.pos(work.Pos()), "expected the worker to split off the last value/block/error list (found %d such slices)", n)
	}
}

// nonEmptyFact: the guard is an integer comparison in len(x) (plus constants) that is false for
// len(x) == 0, so that it establishes a non-empty x. Returns x.
func nonEmptyFact(g Guard) (ssa.Value, bool) {
	bo, ok := g.Cond.(*ssa.BinOp)
	if !ok {
		return nil, false
	}
	switch bo.Op {
	case token.EQL, token.NEQ, token.LSS, token.LEQ, token.GTR, token.GEQ:
	default:
		return nil, false
	}
	if !isIntType(bo.X.Type()) {
		return nil, false
	}
	d := polySub(polyOf(bo.X), polyOf(bo.Y))
	if len(d.Terms) != 1 {
		return nil, false
	}
	var coef int64
	var arg ssa.Value
	for k, c := range d.Terms {
		lc, isC := strip(d.leafV[k]).(*ssa.Call)
		if !isC {
			return nil, false
		}
		bi, isB := lc.Call.Value.(*ssa.Builtin)
		if !isB || bi.Name() != "len" {
			return nil, false
		}
		coef, arg = c, lc.Call.Args[0]
	}
	if coef == 0 {
		return nil, false
	}
	// value of the left-hand side minus the right-hand side at len == 0
	v := d.C
	holds := map[token.Token]bool{token.EQL: v == 0, token.NEQ: v != 0, token.LSS: v < 0, token.LEQ: v <= 0, token.GTR: v > 0, token.GEQ: v >= 0}[bo.Op]
	if !g.Pol {
		holds = !holds
	}
	if holds {
		return nil, false // true for the empty list: establishes nothing
	}
	// monotone in len for the inequalities; for == it pins a positive length, for != 0 likewise
	if bo.Op == token.EQL && g.Pol {
		// len*coef + c == 0 with c != 0: a specific non-zero length
		return arg, true
	}
	return arg, true
}

// emptinessTest: bo compares a string with "" or the length of x with a constant.  exact reports
// whether the comparison separates exactly the empty value from all others (in either polarity:
// which edge is taken is the business of the nilness / error-path rules).
func emptinessTest(bo *ssa.BinOp) (x ssa.Value, exact bool, desc string, ok bool) {
	switch bo.Op {
	case token.EQL, token.NEQ, token.LSS, token.LEQ, token.GTR, token.GEQ:
	default:
		return nil, false, "", false
	}
	if isStringType(bo.X.Type()) {
		a, b := bo.X, bo.Y
		if s, isS := constString(a); isS && s == "" {
			a, b = b, a
		}
		if s, isS := constString(b); isS && s == "" && (bo.Op == token.EQL || bo.Op == token.NEQ) {
			return a, true, "", true
		}
		return nil, false, "", false
	}
	if !isIntType(bo.X.Type()) {
		return nil, false, "", false
	}
	d := polySub(polyOf(bo.X), polyOf(bo.Y))
	if len(d.Terms) != 1 {
		return nil, false, "", false
	}
	var coef int64
	for k, c := range d.Terms {
		lc, isC := strip(d.leafV[k]).(*ssa.Call)
		if !isC {
			return nil, false, "", false
		}
		bi, isB := lc.Call.Value.(*ssa.Builtin)
		if !isB || bi.Name() != "len" {
			return nil, false, "", false
		}
		coef, x = c, lc.Call.Args[0]
	}
	at := func(n int64) bool {
		v := coef*n + d.C
		return map[token.Token]bool{token.EQL: v == 0, token.NEQ: v != 0, token.LSS: v < 0, token.LEQ: v <= 0, token.GTR: v > 0, token.GEQ: v >= 0}[bo.Op]
	}
	t0 := at(0)
	exact = at(1) != t0 && at(2) != t0 && at(1000000) != t0
	return x, exact, fmt.Sprintf("len %s (difference %s)", bo.Op, d.String()), true
}

// elemCollection: v is an element coll[i] (any index), possibly through the copy into a local
// or iteration variable; returns coll.
func elemCollection(v ssa.Value) ssa.Value {
	v = strip(v)
	for hops := 0; hops < 3; hops++ {
		switch x := v.(type) {
		case *ssa.Alloc:
			sts := storesTo(x)
			if len(sts) != 1 {
				return nil
			}
			v = strip(sts[0].val)
			continue
		case *ssa.UnOp:
			if x.Op != token.MUL {
				return nil
			}
			if a := cellOf(x.X); a != nil {
				sts := storesTo(a)
				if len(sts) != 1 {
					return nil
				}
				v = strip(sts[0].val)
				continue
			}
			if ia, ok := x.X.(*ssa.IndexAddr); ok {
				return ia.X
			}
			return nil
		case *ssa.IndexAddr:
			return x.X
		case *ssa.Index:
			return x.X
		}
		return nil
	}
	return nil
}

// emptyGuard: the guard establishes that x is empty (isEmpty) or not empty (!isEmpty), through a
// comparison with "" or any comparison of len(x) that separates exactly 0 from the rest.
func emptyGuard(g Guard) (x ssa.Value, isEmpty bool, ok bool) {
	bo, isB := normCmp(g.Cond)
	if !isB {
		return nil, false, false
	}
	x, exact, _, isT := emptinessTest(bo)
	if !isT || !exact {
		return nil, false, false
	}
	var trueAtEmpty bool
	if isStringType(bo.X.Type()) {
		trueAtEmpty = bo.Op == token.EQL
	} else {
		d := polySub(polyOf(bo.X), polyOf(bo.Y))
		v := d.C
		trueAtEmpty = map[token.Token]bool{token.EQL: v == 0, token.NEQ: v != 0, token.LSS: v < 0, token.LEQ: v <= 0, token.GTR: v > 0, token.GEQ: v >= 0}[bo.Op]
	}
	return x, trueAtEmpty == g.Pol, true
}

// lookupOf: v is m[k], directly or through a module accessor whose body is `return recv.m[param]`
// (its arguments then stand for the key).
func lookupOf(v ssa.Value) (key ssa.Value, ok bool) {
	v = strip(v)
	if lk, isL := v.(*ssa.Lookup); isL {
		return lk.Index, true
	}
	c, isC := v.(*ssa.Call)
	if !isC || c.Call.IsInvoke() || gp == nil {
		return nil, false
	}
	g := rawStaticCallee(c)
	if g == nil || !gp.inMod(g) {
		return nil, false
	}
	lk := getterLookup(g)
	if lk == nil {
		return nil, false
	}
	idx := lk.Index
	if cv, isCv := idx.(*ssa.ChangeType); isCv {
		idx = cv.X
	}
	for i, prm := range g.Params {
		if idx == ssa.Value(prm) && i < len(c.Call.Args) {
			return c.Call.Args[i], true
		}
	}
	return nil, false
}

// getterLookup: g answers with one map lookup — `return m[k]`, or the comma-ok form that returns
// the element when present and the zero value otherwise (which is what m[k] yields anyway).
func getterLookup(g *ssa.Function) *ssa.Lookup {
	var lk *ssa.Lookup
	rets := plainReturnsOf(g)
	if len(rets) == 0 || len(g.Blocks) > 4 {
		return nil
	}
	for _, ret := range rets {
		if len(ret.Results) != 1 {
			return nil
		}
		v := plainDeref(ret.Results[0])
		if ex, isEx := v.(*ssa.Extract); isEx && ex.Index == 0 {
			if l, isL := ex.Tuple.(*ssa.Lookup); isL && l.CommaOk {
				// returned where the key was found
				found := false
				for _, gd := range guardsOf(ret.Block()) {
					if e2, isE2 := gd.Cond.(*ssa.Extract); isE2 && e2.Index == 1 && e2.Tuple == ssa.Value(l) && gd.Pol {
						found = true
					}
				}
				if !found || (lk != nil && lk != l) {
					return nil
				}
				lk = l
				continue
			}
			return nil
		}
		if l, isL := v.(*ssa.Lookup); isL && !l.CommaOk {
			if lk != nil && lk != l {
				return nil
			}
			lk = l
			continue
		}
		if isNilConst(v) {
			continue // the zero value for an absent key
		}
		return nil
	}
	if lk == nil {
		return nil
	}
	// a zero-value return only where the key is absent
	for _, ret := range rets {
		if !isNilConst(plainDeref(ret.Results[0])) {
			continue
		}
		absent := false
		for _, gd := range guardsOf(ret.Block()) {
			if e2, isE2 := gd.Cond.(*ssa.Extract); isE2 && e2.Index == 1 && e2.Tuple == ssa.Value(lk) && !gd.Pol {
				absent = true
			}
		}
		if !absent {
			return nil
		}
	}
	return lk
}

// eachVInstrCtx visits the instructions of root and of the transparent helpers it calls, each
// helper once per chain of call sites, with that chain installed as the resolution context.
func eachVInstrCtx(root *ssa.Function, fn func(ssa.Instruction)) {
	for _, vi := range virtualInstrs(root) {
		vi := vi
		vi.run(func() { fn(vi.in) })
	}
}
