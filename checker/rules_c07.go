package main

// C07 — the parallel parser is indistinguishable from the serial parser.

import (
	"fmt"
	"go/token"
	"go/types"
	"strings"

	"golang.org/x/tools/go/ssa"
)

func init() {
	register(&propSpec{
		id:    "C07",
		level: "other",
		explain: "Schedule-independence and the merge's bookkeeping shape, decided on the SSA program: (P07-index-order) a batch result received from the channel is stored at an index that is a field of that value, and that field is initialised from the batch index given to the worker, which is the range index at the go statement; no result is placed by arrival order; " +
			"(P07-hb) WaitGroup.Add(len(batches)) precedes one goroutine per batch, each worker sends before Done, the channel is closed once after Wait, the function returns after the receive loop ends; (P07-noshare) the worker goroutines and all they reach write no captured or package-level variable and read no package-level variable written outside init; " +
			"(P07-renumber) after the merge every block is renumbered with the running line count, before both returns; (P07-errmerge / P07-merge-order) every mapParse call's errors reach the merged error list, carried text is parsed before the batch's own results are appended; (P07-carry) head and tail texts are slices of the batch text and the whole remainder is carried when it produced no block; " +
			"(P07-engine-select) both engines share one ParseOne and the parallel engine is only built with a worker count proven >= 1. " +
			"Not covered: that head/tail carrying reconstructs exactly the serial block sequence for every chunk alignment (byte arithmetic).",
		rules:   []ruleFn{ruleP07IndexOrder, ruleP07HB, ruleP07NoShare, ruleP07Renumber, ruleP07ErrMerge, ruleP07MergeOrderAll, ruleP07Carry, ruleP07Head, ruleP07Tail, ruleP07SliceGuard, ruleP07Chunks, ruleP07EngineSelect},
		trusted: []string{"Go memory model: channel send/receive and WaitGroup establish happens-before"},
	})
}

func (p *Prog) parallelFns(r *Report, rule string) (parse, async *ssa.Function, ok bool) {
	parse = p.method("klog/parser/engine", "ParallelBatchParser", "Parse")
	async = p.method("klog/parser/engine", "ParallelBatchParser", "processAsync")
	if parse != nil && async == nil {
		// the fan-out/collect part written out in Parse itself: the go statements are there
		if len(goSites(parse)) > 0 {
			async = parse
		}
	}
	ok = r.anchorFn(rule, parse, "engine.ParallelBatchParser.Parse") && r.anchorFn(rule, async, "engine.ParallelBatchParser.processAsync")
	return
}

// workerLiteral: the per-batch worker — the function literal handed to processAsync, or, where
// the fan-out is written out in Parse itself, the literal of type func(int, string) batchResult
// that the goroutines call.
func (p *Prog) workerLiteral(parse, async *ssa.Function) *ssa.Function {
	var work *ssa.Function
	if async != parse {
		for _, c := range callsTo(parse, async) {
			work = funcLiteral(c.Common().Args[len(c.Common().Args)-1])
		}
		return work
	}
	for _, a := range parse.AnonFuncs {
		if len(a.Params) == 2 && a.Signature.Results().Len() == 1 && typeNameOf(a.Signature.Results().At(0).Type()) == "batchResult" {
			work = a
		}
	}
	return work
}

// goSites lists the go statements of f with the function literal they start.
func goSites(f *ssa.Function) []*ssa.Go {
	var out []*ssa.Go
	eachInstr(f, func(in ssa.Instruction) {
		if g, ok := in.(*ssa.Go); ok {
			out = append(out, g)
		}
	})
	return out
}

func ruleP07IndexOrder(p *Prog, r *Report) {
	const rule = "P07-index-order"
	parse, async, ok := p.parallelFns(r, rule)
	if !ok {
		return
	}
	// receive sites in the collector
	nRecv := 0
	eachVInstr(async, func(in ssa.Instruction) {
		u, ok := in.(*ssa.UnOp)
		if !ok || u.Op != token.ARROW {
			return
		}
		nRecv++
		// the received value: extract #0 (comma-ok) or the value itself
		var recv ssa.Value = u
		if u.CommaOk {
			recv = nil
			for _, ref := range *u.Referrers() {
				if ex, ok := ref.(*ssa.Extract); ok && ex.Index == 0 {
					recv = ex
				}
			}
		}
		if recv == nil {
			r.bad(rule, "collector:value", p.instrPos(u), "received results are discarded")
			return
		}
		// every use: stored into a local copy; from there stored to results[copy.index]
		okPlace := false
		bad := ""
		var visit func(v ssa.Value)
		seen := map[ssa.Value]bool{}
		visit = func(v ssa.Value) {
			if seen[v] || v.Referrers() == nil {
				return
			}
			seen[v] = true
			for _, ref := range *v.Referrers() {
				switch x := ref.(type) {
				case *ssa.Store:
					if x.Val != v {
						continue
					}
					switch a := x.Addr.(type) {
					case *ssa.Alloc:
						// local copy: follow loads and field reads
						for _, r2 := range *a.Referrers() {
							if l, ok := r2.(*ssa.UnOp); ok && l.Op == token.MUL {
								visit(l)
							}
						}
					case *ssa.IndexAddr:
						_, fld := fieldLoad(a.Index)
						base, _ := fieldLoad(a.Index)
						if fld == "index" && base != nil && isCopyOf(base, recv) {
							okPlace = true
						} else {
							bad = "a received result is stored at an index that is not its own index field"
						}
					default:
						bad = "a received result is stored somewhere unexpected"
					}
				case *ssa.Call:
					if bi, ok := x.Call.Value.(*ssa.Builtin); ok && bi.Name() == "append" {
						bad = "received results are appended in arrival order"
					}
				}
			}
		}
		visit(recv)
		r.check(okPlace && bad == "", rule, "collector:placement", p.instrPos(u), "a received batch result is stored at results[result.index]", "results are not placed by their own index: "+bad)
	})
	if nRecv != 1 {
		r.undecided(rule, "collector", p.pos(async.Pos()), "expected exactly one receive site in processAsync, found %d", nRecv)
	}
	// the index field is initialised from the worker function's batch-index parameter
	var work *ssa.Function
	work = p.workerLiteral(parse, async)
	if work == nil {
		r.undecided(rule, "work", p.pos(parse.Pos()), "the work function passed to processAsync is not a function literal")
		return
	}
	okInit, nIdxStores := false, 0
	eachInstr(work, func(in ssa.Instruction) {
		st, ok := in.(*ssa.Store)
		if !ok {
			return
		}
		if fa, ok := st.Addr.(*ssa.FieldAddr); ok && typeNameOf(fa.X.Type()) == "batchResult" && fieldName(fa) == "index" {
			nIdxStores++
			if len(work.Params) >= 2 && strip(st.Val) == ssa.Value(work.Params[len(work.Params)-2]) {
				okInit = true
			}
		}
	})
	// or the goroutine stamps its own index on the result of work before sending it
	stampedByWorker := false
	for _, g := range goSites(async) {
		lit := funcLiteral(g.Call.Value)
		if lit == nil || len(lit.Params) != 2 || !isIntType(lit.Params[0].Type()) || !isStringType(lit.Params[1].Type()) {
			continue // (the goroutine that closes the channel is not a worker)
		}
		eachInstr(lit, func(in ssa.Instruction) {
			st, ok := in.(*ssa.Store)
			if !ok {
				return
			}
			fa, ok := st.Addr.(*ssa.FieldAddr)
			if !ok || typeNameOf(fa.X.Type()) != "batchResult" || fieldName(fa) != "index" {
				return
			}
			nIdxStores++
			a, isAlloc := fa.X.(*ssa.Alloc)
			if !isAlloc || strip(st.Val) != ssa.Value(lit.Params[0]) {
				return
			}
			sts := storesTo(a)
			if len(sts) != 1 {
				return
			}
			if c, _ := callOf(sts[0].val); c == nil || len(c.Common().Args) != 1 || strip(c.Common().Args[0]) != ssa.Value(lit.Params[1]) {
				return
			}
			// what is sent is that very variable, after the stamp
			for _, in2 := range st.Block().Instrs[instrIndex(st):] {
				if sd, isSend := in2.(*ssa.Send); isSend {
					if l, isL := strip(sd.X).(*ssa.UnOp); isL && l.Op == token.MUL && l.X == ssa.Value(a) {
						okInit, stampedByWorker = true, true
					}
				}
			}
		})
	}
	r.check(okInit && nIdxStores == 1, rule, "work:index", p.pos(work.Pos()), "result.index = the batch index given to the worker", "the result's index field is not (only) initialised from the worker's batch-index parameter")
	// the goroutine forwards its parameters to work in order; the go statement passes (range index, element)
	for _, g := range goSites(async) {
		lit := funcLiteral(g.Call.Value)
		if lit == nil || len(lit.Params) != 2 || !isIntType(lit.Params[0].Type()) || !isStringType(lit.Params[1].Type()) {
			continue // (the goroutine that closes the channel is not a worker)
		}
		okFwd := false
		eachInstr(lit, func(in ssa.Instruction) {
			c, ok := in.(*ssa.Call)
			if !ok || c.Call.IsInvoke() || !(len(c.Call.Args) == 2 || stampedByWorker && len(c.Call.Args) == 1) {
				return
			}
			if _, isB := c.Call.Value.(*ssa.Builtin); isB {
				return
			}
			if (len(c.Call.Args) == 2 && strip(c.Call.Args[0]) == ssa.Value(lit.Params[0]) && strip(c.Call.Args[1]) == ssa.Value(lit.Params[1])) || (len(c.Call.Args) == 1 && strip(c.Call.Args[0]) == ssa.Value(lit.Params[1])) {
				// callee is the captured work function
				if fv, ok := deref(c.Call.Value).(*ssa.Parameter); ok && async != parse && fv == async.Params[2] {
					okFwd = true
				} else if async == parse && funcLiteral(deref(c.Call.Value)) == work {
					okFwd = true
				} else if _, ok := strip(c.Call.Value).(*ssa.UnOp); ok {
					okFwd = true
				}
			}
		})
		r.check(okFwd, rule, "worker:forward", p.pos(lit.Pos()), "the goroutine calls work(batchIndex, batchText) with its own parameters", "the goroutine does not call the work function with its own (index, text) parameters")
		okArgs := len(g.Call.Args) == 2 && isRangeIndex(g.Call.Args[0])
		if okArgs {
			coll := rangeElemOf(g.Call.Args[1])
			okArgs = coll != nil && strip(coll) == p.batchesValue(parse, async)
			if ia := indexOfLoad(g.Call.Args[1]); ia == nil || ia != g.Call.Args[0] {
				okArgs = false
			}
		}
		r.check(okArgs, rule, "go:args", p.instrPos(g), "go worker(i, batches[i]) with i the range index", "the goroutine is not started with (range index, batches[that index])")
	}
}

func indexOfLoad(v ssa.Value) ssa.Value {
	if u, ok := strip(v).(*ssa.UnOp); ok && u.Op == token.MUL {
		if ia, ok := u.X.(*ssa.IndexAddr); ok {
			return ia.Index
		}
	}
	return nil
}

// isCopyOf: base (an address or value) denotes a local copy of v or v itself.
func isCopyOf(base ssa.Value, v ssa.Value) bool {
	base = strip(base)
	if base == v {
		return true
	}
	if a, ok := base.(*ssa.Alloc); ok {
		sts := storesTo(a)
		return len(sts) == 1 && strip(sts[0].val) == v
	}
	return false
}

func ruleP07HB(p *Prog, r *Report) {
	const rule = "P07-hb"
	parse0, async, ok := p.parallelFns(r, rule)
	if !ok {
		return
	}
	batches := p.batchesValue(parse0, async)
	if batches == nil {
		r.undecided(rule, "batches", p.pos(async.Pos()), "the list of batches was not found")
		return
	}
	isWG := func(c ssa.CallInstruction, name string) bool {
		g := staticCallee(c)
		return g != nil && g.String() == "(*sync.WaitGroup)."+name
	}
	var add ssa.CallInstruction
	eachInstr(async, func(in ssa.Instruction) {
		if c, ok := in.(ssa.CallInstruction); ok && isWG(c, "Add") {
			add = c
		}
	})
	gos := goSites(async)
	var worker, closer *ssa.Go
	for _, g := range gos {
		lit := funcLiteral(g.Call.Value)
		if lit == nil {
			continue
		}
		hasSend, hasClose := false, false
		eachInstr(lit, func(in ssa.Instruction) {
			if _, ok := in.(*ssa.Send); ok {
				hasSend = true
			}
			if c, ok := in.(*ssa.Call); ok {
				if bi, ok := c.Call.Value.(*ssa.Builtin); ok && bi.Name() == "close" {
					hasClose = true
				}
			}
		})
		if hasSend {
			worker = g
		}
		if hasClose {
			closer = g
		}
	}
	if add == nil || worker == nil || closer == nil {
		r.undecided(rule, "shape", p.pos(async.Pos()), "expected WaitGroup.Add, a sending worker goroutine and a closing goroutine (found %v %v %v)", add != nil, worker != nil, closer != nil)
		return
	}
	// Add(len(batches)) before the spawn loop, or Add(1) per spawn
	okAdd := false
	if c, isC := strip(add.Common().Args[1]).(*ssa.Call); isC {
		if bi, isB := c.Call.Value.(*ssa.Builtin); isB && bi.Name() == "len" && strip(c.Call.Args[0]) == batches {
			okAdd = add.Block().Dominates(worker.Block()) && !reachableFrom(worker.Block(), nil)[add.Block()]
		}
	} else if k, isK := constInt(add.Common().Args[1]); isK && k == 1 {
		okAdd = add.Block() == worker.Block()
	}
	r.check(okAdd, rule, "add", p.instrPos(add), "WaitGroup.Add accounts for every worker before it is started", "WaitGroup.Add does not account for exactly the workers started")
	// one goroutine per batch: the go is in the range loop over batches, unconditional
	only, _ := onlyLoopGuards(worker.Block())
	coll := rangeElemOf(worker.Call.Args[len(worker.Call.Args)-1])
	r.check(only && coll != nil && strip(coll) == batches, rule, "spawn", p.instrPos(worker), "one worker per batch", "not exactly one worker per batch")
	// worker: send happens before Done on all paths: Done deferred, or Done post-dominates the send and does not precede it
	wl := funcLiteral(worker.Call.Value)
	var send *ssa.Send
	deferredDone, plainDone := false, false
	var doneInstr ssa.Instruction
	eachInstr(wl, func(in ssa.Instruction) {
		switch x := in.(type) {
		case *ssa.Send:
			send = x
		case *ssa.Defer:
			if isWG(x, "Done") {
				deferredDone = true
			}
		case *ssa.Call:
			if isWG(x, "Done") {
				plainDone = true
				doneInstr = x
			}
		}
	})
	okDone := false
	if deferredDone && !plainDone {
		okDone = true
	} else if plainDone && !deferredDone && send != nil {
		// Done after the send in the same block, or in a block dominated by the send's block
		if doneInstr.Block() == send.Block() {
			okDone = instrIndex(doneInstr) > instrIndex(send)
		} else {
			okDone = send.Block().Dominates(doneInstr.Block())
		}
	}
	r.check(okDone && send != nil, rule, "send-before-done", p.pos(wl.Pos()), "every worker sends its result before signalling Done", "a worker can signal Done before (or without) sending its result: the channel may be closed early")
	if send != nil {
		// (unconditional inside the worker; the conditions under which the worker is started
		// are the "spawn" obligation)
		onlyS := true
		for _, g := range guardsOf(send.Block()) {
			if g.If == nil || g.If.Parent() == send.Parent() {
				onlyS = false
			}
		}
		r.check(onlyS, rule, "send-always", p.instrPos(send), "every worker sends exactly one result", "a worker may skip sending its result (the collector would miss a batch)")
	}
	// closer: Wait then close, single close site
	cl := funcLiteral(closer.Call.Value)
	var wait, cls ssa.Instruction
	nClose := 0
	for _, f := range withAnons(async) {
		eachInstr(f, func(in ssa.Instruction) {
			if c, ok := in.(*ssa.Call); ok {
				if bi, ok := c.Call.Value.(*ssa.Builtin); ok && bi.Name() == "close" {
					nClose++
				}
			}
		})
	}
	eachInstr(cl, func(in ssa.Instruction) {
		if c, ok := in.(*ssa.Call); ok {
			if isWG(c, "Wait") {
				wait = c
			}
			if bi, ok := c.Call.Value.(*ssa.Builtin); ok && bi.Name() == "close" {
				cls = c
			}
		}
	})
	okClose := nClose == 1 && wait != nil && cls != nil && wait.Block().Dominates(cls.Block()) && (wait.Block() != cls.Block() || instrIndex(wait) < instrIndex(cls))
	r.check(okClose, rule, "close-after-wait", p.pos(cl.Pos()), "the channel is closed exactly once, after Wait", "the channel is not closed exactly once after all workers are done")
	r.check(!reachableFrom(closer.Block(), nil)[worker.Block()] || closer.Block() == worker.Block() && false, rule, "closer-after-spawn", p.instrPos(closer), "the closing goroutine is started after all workers", "the closing goroutine can be started before all workers were added")
	// return only after the receive loop ended (channel closed)
	for _, ret := range returnsOf(async) {
		okRet := false
		for _, g := range guardsOf(ret.Block()) {
			if ex, ok := g.Cond.(*ssa.Extract); ok && ex.Index == 1 && !g.Pol {
				if u, ok := ex.Tuple.(*ssa.UnOp); ok && u.Op == token.ARROW {
					okRet = true
				}
			}
		}
		r.check(okRet, rule, "return-after-drain", p.instrPos(ret), "returns only when the channel is drained and closed", "processAsync can return before all results were received")
	}
}

func ruleP07NoShare(p *Prog, r *Report) {
	const rule = "P07-noshare"
	parse, async, ok := p.parallelFns(r, rule)
	if !ok {
		return
	}
	var roots []*ssa.Function
	for _, g := range goSites(async) {
		if lit := funcLiteral(g.Call.Value); lit != nil {
			hasSend := false
			eachInstr(lit, func(in ssa.Instruction) {
				if _, ok := in.(*ssa.Send); ok {
					hasSend = true
				}
			})
			if hasSend {
				roots = append(roots, lit)
			}
		}
	}
	var work *ssa.Function
	work = p.workerLiteral(parse, async)
	if work != nil {
		roots = append(roots, work)
	}
	// the serial machinery the workers run
	for _, n := range []string{"mapParse"} {
		if f := p.method("klog/parser/engine", "SerialParser", n); f != nil {
			roots = append(roots, f)
		}
	}
	if f := p.fn("klog/parser", "parse"); f != nil {
		roots = append(roots, withAnons(f)...)
	}
	if f := p.fn("klog/parser/txt", "ParseBlock"); f != nil {
		roots = append(roots, f)
	}
	if len(roots) < 4 {
		r.undecided(rule, "roots", "-", "worker closures not found")
		return
	}
	rc := p.reach(roots, nil, nil)
	// globals written outside init anywhere in the module
	written := map[*ssa.Global]string{}
	for _, f := range p.srcFns {
		if f.Name() == "init" || strings.HasPrefix(f.Name(), "init#") {
			continue
		}
		eachInstr(f, func(in ssa.Instruction) {
			if st, ok := in.(*ssa.Store); ok {
				addr := st.Addr
				for i := 0; i < 4; i++ {
					switch y := addr.(type) {
					case *ssa.FieldAddr:
						addr = y.X
						continue
					case *ssa.IndexAddr:
						addr = y.X
						continue
					}
					break
				}
				if g, ok := addr.(*ssa.Global); ok {
					written[g] = p.instrPos(in)
				}
			}
		})
	}
	nFns := 0
	for _, f := range rc.moduleFuncs() {
		nFns++
		eachInstr(f, func(in ssa.Instruction) {
			switch x := in.(type) {
			case *ssa.Store:
				// store to a captured variable of a goroutine/work closure
				addr := x.Addr
				for i := 0; i < 4; i++ {
					switch y := addr.(type) {
					case *ssa.FieldAddr:
						addr = y.X
						continue
					case *ssa.IndexAddr:
						addr = y.X
						continue
					}
					break
				}
				if g, ok := addr.(*ssa.Global); ok {
					r.bad(rule, fnName(f)+":global-write:"+g.Name(), p.instrPos(in), "package-level variable %s is written by code the parser workers run; path: %s", g.Name(), strings.Join(rc.path(f), " -> "))
				}
				if fv, ok := addr.(*ssa.FreeVar); ok {
					// closures of parse() write parse's own locals: private to one ParseOne call.
					// Only the goroutine and work closures share their captures across workers.
					for _, root := range roots[:min(len(roots), 2)] {
						if f == root {
							r.bad(rule, fnName(f)+":captured-write:"+fv.Name(), p.instrPos(in), "the worker writes the captured variable %s, which is shared between workers", fv.Name())
						}
					}
				}
			case *ssa.MapUpdate:
				// an entry put into a package-level map (a memo, a cache): Go's maps are not safe for
				// concurrent use — the runtime aborts the process ("concurrent map writes")
				if u, ok := strip(x.Map).(*ssa.UnOp); ok && u.Op == token.MUL {
					if g, isG := u.X.(*ssa.Global); isG && p.inModGlobal(g) {
						r.bad(rule, fnName(f)+":global-map-write:"+g.Name(), p.instrPos(in), "an entry is put into the package-level map %s by code the parser workers run concurrently (path: %s): unsynchronised map writes abort the process, and what one worker stored another one reads", g.Name(), strings.Join(rc.path(f), " -> "))
					}
				}
			case *ssa.UnOp:
				if x.Op == token.MUL {
					if g, ok := x.X.(*ssa.Global); ok && p.inModGlobal(g) {
						if at, w := written[g]; w {
							r.bad(rule, fnName(f)+":global-read:"+g.Name(), p.instrPos(in), "workers read package-level variable %s, which is written outside init at %s", g.Name(), at)
						}
					}
				}
			}
		})
	}
	r.ok(rule, "reach:workers", p.pos(roots[0].Pos()), "%d functions reachable from the parser workers examined: no write to captured or package-level variables, no read of a mutable package-level variable", nFns)
	if nFns < 30 {
		r.undecided(rule, "floor", "-", "only %d functions reachable from the workers", nFns)
	}
}

func (p *Prog) inModGlobal(g *ssa.Global) bool {
	return g.Pkg != nil && strings.HasPrefix(g.Pkg.Pkg.Path(), modPath)
}

func ruleP07Renumber(p *Prog, r *Report) {
	const rule = "P07-renumber"
	parse, _, ok := p.parallelFns(r, rule)
	if !ok {
		return
	}
	var set ssa.CallInstruction
	var setAt vinstr
	n := 0
	for _, vi := range virtualInstrs(parse) {
		if c, ok := vi.in.(ssa.CallInstruction); ok && c.Common().IsInvoke() && c.Common().Method.Name() == "SetPrecedingLineCount" {
			set, setAt = c, vi
			n++
		}
	}
	if n != 1 {
		r.bad(rule, "renumber", p.pos(parse.Pos()), "the merged blocks are not renumbered exactly once (found %d SetPrecedingLineCount calls)", n)
		return
	}
	// the loop may live in a helper that receives the merged blocks: its parameters then stand
	// for the arguments of that one call
	setAt.run(func() { ruleP07RenumberAt(p, r, parse, set) })
}

func ruleP07RenumberAt(p *Prog, r *Report, parse *ssa.Function, set ssa.CallInstruction) {
	const rule = "P07-renumber"
	coll := rangeElemOf(set.Common().Value)
	only, _ := onlyLoopGuards(set.Block())
	r.check(coll != nil && only, rule, "every-block", p.instrPos(set), "every merged block is renumbered", "not every merged block is renumbered")
	// the collection is the blocks value returned
	for i, ret := range returnsOf(parse) {
		if isNilConst(retResult(ret, 1)) {
			// error return: the loop must still have run (errors carry their blocks)
			continue
		}
		r.check(coll != nil && sameValue(retResult(ret, 1), coll), rule, fmt.Sprintf("returned-blocks#%d", i), p.instrPos(ret), "the renumbered slice is the one returned", "the blocks returned are not the ones that were renumbered")
	}
	// accumulator: acc starts at 0, += len(b.Lines())
	acc, isPhi := strip(set.Common().Args[0]).(*ssa.Phi)
	okAcc := false
	if isPhi {
		okAcc = true
		for _, e := range acc.Edges {
			if k, isK := constInt(e); isK {
				if k != 0 {
					okAcc = false
				}
				continue
			}
			pl := polyOf(e)
			// acc + len(Lines())
			if len(pl.Terms) != 2 || pl.C != 0 {
				okAcc = false
				continue
			}
			sawAcc, sawLen := false, false
			for k, c := range pl.Terms {
				v := pl.leafV[k]
				if c == 1 && strip(v) == ssa.Value(acc) {
					sawAcc = true
				}
				if c == 1 {
					if lc, ok := strip(v).(*ssa.Call); ok {
						if bi, ok := lc.Call.Value.(*ssa.Builtin); ok && bi.Name() == "len" {
							if nm, recv, _, _ := methodCall(lc.Call.Args[0]); nm == "Lines" && sameValue(recv, set.Common().Value) {
								sawLen = true
							}
						}
					}
				}
			}
			if !sawAcc || !sawLen {
				okAcc = false
			}
		}
	}
	r.check(okAcc, rule, "running-count", p.instrPos(set), "line count starts at 0 and grows by len(b.Lines()) per block", "the preceding-line count is not the running sum of the blocks' line counts starting at 0")
	// dominates both returns: the loop's exit dominates every return
	var header *ssa.BasicBlock
	if isPhi {
		header = blockIn(parse, acc)
	}
	for i, ret := range returnsOf(parse) {
		okDom := header != nil && header.Dominates(ret.Block()) && !reachableFrom(ret.Block(), nil)[header]
		r.check(okDom, rule, fmt.Sprintf("before-return#%d", i), p.instrPos(ret), "renumbering happens before this return", "this return can be reached without renumbering the blocks (errors would carry batch-local line numbers)")
	}
}

func ruleP07ErrMerge(p *Prog, r *Report) {
	const rule = "P07-errmerge"
	parse, async, ok := p.parallelFns(r, rule)
	if !ok {
		return
	}
	mapParse := p.method("klog/parser/engine", "SerialParser", "mapParse")
	flat := p.fn("klog/parser/engine", "flatten")
	if !r.anchorFn(rule, mapParse, "SerialParser.mapParse") || !r.anchorFn(rule, flat, "engine.flatten") {
		return
	}
	// the merged error list: result #2 of the error return
	var allErrs ssa.Value
	for _, ret := range returnsOf(parse) {
		if !isNilConst(retResult(ret, 2)) {
			allErrs = retResult(ret, 2)
		}
	}
	if allErrs == nil {
		r.bad(rule, "errors", p.pos(parse.Pos()), "the parallel parser never returns errors")
		return
	}
	apps, _ := accWeb(allErrs)
	appended := map[ssa.Value]bool{} // flatten() arguments that reach the list
	for _, a := range apps {
		if len(a.Call.Args) < 2 {
			continue
		}
		if c, ok := isCallTo(a.Call.Args[1], flat, 0); ok {
			appended[strip(c.Common().Args[0])] = true
		} else if _, fld := fieldLoad(a.Call.Args[1]); fld == "errs" {
			appended[strip(a.Call.Args[1])] = true // a list the worker flattened already
		}
	}
	// outer mapParse calls (a local function of the merge counts once per call of it)
	nOuter := 0
	outer := virtualCallsTo(parse, mapParse)
	{
		var own []vcall
		for _, vc := range outer {
			top := vc.call.Parent()
			if len(vc.chain) > 0 {
				top = vc.chain[0].Parent()
			}
			if top == parse {
				own = append(own, vc)
			}
		}
		outer = own
	}
	for _, vc := range outer {
		c := vc.call
		nOuter++
		key := fmt.Sprintf("mapParse#%d", nOuter)
		vc.run(func() {
			e := resultOf(c, 3)
			r.check(e != nil && appended[strip(e)], rule, key, p.instrPos(c), "the errors of this mapParse call are appended to the merged list", "the errors of this mapParse call never reach the merged error list")
			// the text left over after the last batch is parsed whatever it looks like (the serial
			// parser has no notion of "nothing worth parsing" other than the empty text)
			if inLoopBlock(vc.where()) {
				return
			}
			why := ""
			common := map[ssa.Value]bool{} // conditions that hold for the whole merge alike
			for _, vc2 := range outer {
				if inLoopBlock(vc2.where()) {
					vc2.run(func() {
						for _, g := range guardsOf(vc2.call.Block()) {
							common[g.Cond] = true
						}
					})
				}
			}
			for _, g := range guardsOf(c.Block()) {
				if common[g.Cond] || isLoopGuard(g) || isLoopGuard(Guard{Cond: g.Cond, Pol: !g.Pol, If: g.If}) {
					continue
				}
				if x, isEmpty, isG := emptyGuard(g); isG && !isEmpty && isStringType(x.Type()) && sameValue(x, c.Common().Args[len(c.Common().Args)-1]) {
					continue
				}
				why = g.Cond.String()
			}
			r.check(why == "", rule, key+":unconditional", p.instrPos(c), "the final carried text is always parsed", "the text carried past the last batch is parsed only under a condition ("+why+"): when it does not hold, that text — which the serial parser would parse, and report if faulty — is neither parsed nor returned as a block")
		})
		// and its values / blocks reach the merged values / blocks
	}
	// worker: result.errs derives from its mapParse's errors; merged via flatten(result.errs)
	var work *ssa.Function
	work = p.workerLiteral(parse, async)
	okWorker := false
	if work != nil {
		for _, c := range callsTo(work, mapParse) {
			e := resultOf(c, 3)
			eachInstr(work, func(in ssa.Instruction) {
				if st, ok := in.(*ssa.Store); ok {
					if fa, ok := st.Addr.(*ssa.FieldAddr); ok && fieldName(fa) == "errs" {
						kept := strip(st.Val)
						if fc, ok := isCallTo(kept, flat, 0); ok {
							kept = strip(fc.Common().Args[0])
						}
						if sl, ok := kept.(*ssa.Slice); ok && e != nil && sameValue(sl.X, e) {
							okWorker = true
						}
					}
				}
			})
		}
	}
	okMerged := false
	for v := range appended {
		if _, fld := fieldLoad(v); fld == "errs" {
			okMerged = true
		}
	}
	r.check(okWorker && okMerged, rule, "worker-errors", p.pos(parse.Pos()), "each batch's errors are carried in its result and appended to the merged list", "the errors found by the workers do not reach the merged error list")
	r.check(nOuter == 2, rule, "carry-parses", p.pos(parse.Pos()), "carried text is parsed inside the merge loop and once after it", fmt.Sprintf("expected 2 carry parses in the merge, found %d", nOuter))
	// records xor errors
	for i, ret := range returnsOf(parse) {
		if isNilConst(retResult(ret, 2)) {
			// success: only when the merged error list is empty
			r.check(knownNil(ret.Block(), allErrs), "P01-norecord", fmt.Sprintf("parallel:return#%d", i), p.instrPos(ret), "records are returned only when the merged error list is empty", "records can be returned although errors were collected")
		} else {
			r.check(isNilConst(retResult(ret, 0)) && isNilConst(retResult(ret, 1)), "P01-norecord", fmt.Sprintf("parallel:return#%d", i), p.instrPos(ret), "errors -> no records, no blocks", "errors are returned together with records")
		}
	}
	// P07-merge-order: within the merge loop, carry results are appended before the batch's own
	okOrder := carryBeforeBatch(parse, apps, func(a *ssa.Call) (bool, bool) {
		if _, fld := fieldLoad(a.Call.Args[1]); fld == "errs" {
			return false, true
		}
		if c, ok := isCallTo(a.Call.Args[1], flat, 0); ok {
			arg := strip(c.Common().Args[0])
			if _, fld := fieldLoad(arg); fld == "errs" {
				return false, true
			} else if mc, idx := callOf(arg); mc != nil && idx == 3 && sameFn(staticCallee(mc), mapParse) {
				return true, false
			}
		}
		return false, false
	})
	r.check(okOrder, "P07-merge-order", "errors", p.pos(parse.Pos()), "errors of the carried text precede the batch's own errors", "the merge does not append the carried text's errors before the batch's own errors")
}

// reachableWithout: can `to` be reached from `from` (after leaving it) before passing `stop` again?
func reachableWithout(from, to, stop *ssa.BasicBlock) bool {
	seen := map[*ssa.BasicBlock]bool{}
	var walk func(b *ssa.BasicBlock) bool
	walk = func(b *ssa.BasicBlock) bool {
		if b == to {
			return true
		}
		if seen[b] || b == stop {
			return false
		}
		seen[b] = true
		for _, s := range b.Succs {
			if walk(s) {
				return true
			}
		}
		return false
	}
	for _, s := range from.Succs {
		if walk(s) {
			return true
		}
	}
	return false
}

func inLoopBlock(b *ssa.BasicBlock) bool {
	for _, s := range b.Succs {
		if reachableFrom(s, nil)[b] {
			return true
		}
	}
	return false
}

func ruleP07Carry(p *Prog, r *Report) {
	const rule = "P07-carry"
	parse, async, ok := p.parallelFns(r, rule)
	if !ok {
		return
	}
	var work *ssa.Function
	work = p.workerLiteral(parse, async)
	if work == nil {
		r.undecided(rule, "work", p.pos(parse.Pos()), "work function literal not found")
		return
	}
	text := work.Params[len(work.Params)-1]
	// the batch text variable may be reassigned to a suffix of itself: cell or SSA slices
	fromText := func(v ssa.Value) bool {
		for i := 0; i < 6; i++ {
			v = strip(v)
			if v == ssa.Value(text) {
				return true
			}
			if sl, ok := v.(*ssa.Slice); ok {
				v = sl.X
				continue
			}
			if ph, ok := v.(*ssa.Phi); ok {
				all := true
				for _, e := range ph.Edges {
					if !fromTextShallow(e, text) {
						all = false
					}
				}
				return all
			}
			if u, ok := v.(*ssa.UnOp); ok && u.Op == token.MUL {
				if c := cellOf(u.X); c != nil {
					all := true
					for _, s := range storesTo(c) {
						if !fromTextShallow(s.val, text) {
							all = false
						}
					}
					return all
				}
			}
			return false
		}
		return false
	}
	n := 0
	eachInstr(work, func(in ssa.Instruction) {
		st, ok := in.(*ssa.Store)
		if !ok {
			return
		}
		fa, ok := st.Addr.(*ssa.FieldAddr)
		if !ok || typeNameOf(fa.X.Type()) != "batchResult" {
			return
		}
		fld := fieldName(fa)
		if fld != "headText" && fld != "tailText" {
			return
		}
		if s, isS := constString(st.Val); isS && s == "" && len(guardsOf(st.Block())) == 0 {
			return // zero initialisation of the literal
		}
		n++
		r.check(fromText(st.Val), rule, fmt.Sprintf("%s#%d", fld, n), p.instrPos(st), fld+" is (a slice of) the batch text", fld+" is assigned something that is not a slice of the batch text: bytes of the chunk are lost")
		// when the remainder produced no block the whole remainder is the tail
		if fld == "tailText" {
			for _, g := range guardsOf(st.Block()) {
				if x, isNil, ok := nilFact(g); ok && isNil && isSliceOf(x.Type(), "Block") {
					// the whole remainder = the very text that was given to mapParse
					whole := false
					if mc, idx := callOf(x); mc != nil && idx == 1 {
						whole = sameValue(st.Val, mc.Common().Args[len(mc.Common().Args)-1])
					}
					r.check(whole, rule, "tail:no-block", p.instrPos(st), "no block in the remainder -> the whole remainder is carried", "when the remainder has no block, what is carried is not the whole text that was parsed")
				}
			}
		}
	})
	if n < 3 {
		r.bad(rule, "stores", p.pos(work.Pos()), "expected the head text and both tail-text cases to be assigned (found %d assignments): a part of the chunk is in neither head, a parsed block, nor tail", n)
	}
	// merge: carry text accumulates head and tail of every result, in order
	okHead, okTail := false, false
	eachInstr(parse, func(in ssa.Instruction) {
		// the piece appended: `carry += x`, or carry.WriteString(x) on a strings.Builder
		var piece ssa.Value
		switch x := in.(type) {
		case *ssa.BinOp:
			if x.Op == token.ADD {
				piece = x.Y
			}
		case ssa.CallInstruction:
			if g := staticCallee(x); g != nil && g.String() == "(*strings.Builder).WriteString" && len(x.Common().Args) == 2 {
				piece = x.Common().Args[1]
			}
		}
		if piece == nil {
			return
		}
		if _, fld := fieldLoad(piece); fld == "headText" {
			if only, _ := onlyLoopGuards(in.Block()); only {
				okHead = true
			}
		}
		if _, fld := fieldLoad(piece); fld == "tailText" {
			okTail = true
		}
	})
	r.check(okHead && okTail, rule, "merge:carry", p.pos(parse.Pos()), "every result's head text is appended to the carry before, and its tail after, its own blocks", "the merge does not carry every result's head and tail text")
}

func fromTextShallow(v ssa.Value, text ssa.Value) bool {
	for i := 0; i < 6; i++ {
		v = strip(v)
		if v == text {
			return true
		}
		if sl, ok := v.(*ssa.Slice); ok {
			v = sl.X
			continue
		}
		if u, ok := v.(*ssa.UnOp); ok && u.Op == token.MUL {
			if c := cellOf(u.X); c != nil {
				// self reference through the same cell is fine
				for _, s := range storesTo(c) {
					sv := strip(s.val)
					if sv == text {
						continue
					}
					if sl, ok := sv.(*ssa.Slice); ok {
						if u2, ok := strip(sl.X).(*ssa.UnOp); ok && cellOf(u2.X) == c {
							continue
						}
						if strip(sl.X) == text {
							continue
						}
					}
					return false
				}
				return true
			}
		}
		return false
	}
	return false
}

func ruleP07EngineSelect(p *Prog, r *Report) {
	const rule = "P07-engine-select"
	nsp := p.fn("klog/parser", "NewSerialParser")
	npp := p.fn("klog/parser", "NewParallelParser")
	if !r.anchorFn(rule, nsp, "parser.NewSerialParser") || !r.anchorFn(rule, npp, "parser.NewParallelParser") {
		return
	}
	// Both engines are built on a SerialParser value whose ParseOne is parser.parse — wherever
	// that value comes from (a package-level variable, a literal, a constructor helper).
	parse := p.fn("klog/parser", "parse")
	okS := len(returnsOf(nsp)) > 0
	for _, ret := range returnsOf(nsp) {
		if g := p.parseOneOf(retResult(ret, 0)); g == nil || g != parse {
			okS = false
		}
	}
	okP, nP := true, 0
	eachInstr(npp, func(in ssa.Instruction) {
		if st, ok := in.(*ssa.Store); ok {
			if fa, ok := st.Addr.(*ssa.FieldAddr); ok && fieldName(fa) == "SerialParser" {
				nP++
				if g := p.parseOneOf(st.Val); g == nil || g != parse {
					okP = false
				}
			}
		}
	})
	r.check(parse != nil && okS && okP && nP == 1, "P07-same-parseone", "engines", p.pos(npp.Pos()), "both engines are built on a serial parser whose ParseOne is parser.parse", "the two engines do not share one ParseOne (parser.parse)")
	r.check(parse != nil && okS, "P07-same-parseone", "parse-one", p.pos(nsp.Pos()), "ParseOne is parser.parse", "the serial parser's ParseOne is not parser.parse")
	// worker count: stored as given; every call site proves n >= 1
	eachInstr(npp, func(in ssa.Instruction) {
		if st, ok := in.(*ssa.Store); ok {
			if fa, ok := st.Addr.(*ssa.FieldAddr); ok && fieldName(fa) == "NumberOfWorkers" {
				r.check(strip(st.Val) == ssa.Value(npp.Params[0]), rule, "workers:stored", p.instrPos(st), "the worker count given is the one used", "the worker count used is not the one given")
			}
		}
	})
	n := 0
	for _, f := range p.srcFns {
		for _, c := range callsTo(f, npp) {
			n++
			arg := c.Common().Args[0]
			proven := false
			if k, isK := constInt(arg); isK && k >= 1 {
				proven = true
			}
			for _, g := range guardsOf(c.Block()) {
				b, ok := g.Cond.(*ssa.BinOp)
				if !ok {
					continue
				}
				k, isK := constInt(b.Y)
				if !isK || leafKey(b.X) != leafKey(arg) && !sameValue(b.X, arg) && !sameCallShape(b.X, arg) {
					continue
				}
				switch {
				case b.Op == token.GTR && g.Pol && k >= 0, b.Op == token.GEQ && g.Pol && k >= 1,
					b.Op == token.LEQ && !g.Pol && k >= 0, b.Op == token.LSS && !g.Pol && k >= 1:
					proven = true
				}
			}
			r.check(proven, rule, "workers:"+fnName(f), p.instrPos(c), "the parallel engine is built only with a worker count proven >= 1", "the parallel engine can be built with a worker count that is not provably >= 1 (Parse panics for <= 0)")
		}
	}
	if n == 0 {
		r.note("NewParallelParser is never called in the analysed configuration")
	}
	_ = types.Typ
}

// sameCallShape: two values are calls of the same accessor on loads of the same field
// (cfg.CpuKernels.Value() evaluated twice).
func sameCallShape(a, b ssa.Value) bool {
	ca, _ := callOf(a)
	cb, _ := callOf(b)
	if ca == nil || cb == nil {
		return false
	}
	fa, fb := staticCallee(ca), staticCallee(cb)
	if fa == nil || fb == nil || originFn(fa) != originFn(fb) || len(ca.Common().Args) != len(cb.Common().Args) {
		return false
	}
	for i := range ca.Common().Args {
		x, y := ca.Common().Args[i], cb.Common().Args[i]
		if sameValue(x, y) {
			continue
		}
		bx, fx := fieldLoad(x)
		by, fy := fieldLoad(y)
		if fx != "" && fx == fy && bx != nil && by != nil && (sameValue(bx, by) || leafKey(bx) == leafKey(by)) {
			continue
		}
		return false
	}
	return true
}

// parseOneOf: the function stored in the ParseOne field of the SerialParser value v, which is a
// load of a package-level variable (initialised once, never written again) or of a local literal,
// possibly behind a constructor helper.
func (p *Prog) parseOneOf(v ssa.Value) *ssa.Function {
	u, ok := strip(v).(*ssa.UnOp)
	if !ok || u.Op != token.MUL {
		return nil
	}
	var where []*ssa.Function
	switch base := u.X.(type) {
	case *ssa.Global:
		if base.Pkg == nil {
			return nil
		}
		init := base.Pkg.Func("init")
		for _, f := range p.srcFns {
			if f == init {
				continue
			}
			written := false
			eachInstr(f, func(in ssa.Instruction) {
				if st, isS := in.(*ssa.Store); isS {
					if st.Addr == ssa.Value(base) {
						written = true
					}
					if fa, isF := st.Addr.(*ssa.FieldAddr); isF && fa.X == ssa.Value(base) {
						written = true
					}
				}
			})
			if written {
				return nil
			}
		}
		if init != nil {
			where = []*ssa.Function{init}
		}
	case *ssa.Alloc:
		where = []*ssa.Function{base.Parent()}
	default:
		return nil
	}
	var found *ssa.Function
	n := 0
	for _, f := range where {
		eachInstr(f, func(in ssa.Instruction) {
			st, isS := in.(*ssa.Store)
			if !isS {
				return
			}
			if st.Addr == u.X {
				n += 2 // the whole value is overwritten
			}
			if fa, isF := st.Addr.(*ssa.FieldAddr); isF && fa.X == u.X && fieldName(fa) == "ParseOne" {
				n++
				if fn, isFn := plainDeref(st.Val).(*ssa.Function); isFn {
					found = boundTarget(fn)
				}
			}
		})
	}
	if n != 1 {
		return nil
	}
	return found
}

// carryBeforeBatch: of the appends apps of one accumulator of the merge, the one inside the merge
// loop that kind classifies as "carry" runs before the one classified as "batch" in every
// iteration. The position of an append is its own, or — when it sits in a local function or
// private helper of the merge — that of the call through which it is entered.
func carryBeforeBatch(parse *ssa.Function, apps []*ssa.Call, kind func(a *ssa.Call) (carry, batch bool)) bool {
	var carryApp, batchApp ssa.Instruction
	isApp := map[ssa.Instruction]bool{}
	for _, a := range apps {
		isApp[a] = true
	}
	for _, vi := range virtualInstrs(parse) {
		a, isCall := vi.in.(*ssa.Call)
		if !isCall || !isApp[a] || len(a.Call.Args) < 2 {
			continue
		}
		var at ssa.Instruction = a
		if len(vi.chain) > 0 {
			at = vi.chain[0]
		}
		if !inLoopBlock(at.Block()) {
			continue
		}
		vi.run(func() {
			c, b := kind(a)
			if c {
				carryApp = at
			}
			if b {
				batchApp = at
			}
		})
	}
	if carryApp == nil || batchApp == nil {
		return false
	}
	var header *ssa.BasicBlock
	for _, g := range guardsOf(batchApp.Block()) {
		if isLoopGuard(g) {
			header = g.If.Block()
			break
		}
	}
	if header == nil {
		return false
	}
	if carryApp.Block() == batchApp.Block() {
		return instrIndex(carryApp) < instrIndex(batchApp)
	}
	return reachableWithout(carryApp.Block(), batchApp.Block(), header) && !reachableWithout(batchApp.Block(), carryApp.Block(), header)
}

// batchesValue: the list of batch texts the workers are started for — the parameter of
// processAsync, or, where the fan-out is written out in Parse, the result of splitIntoChunks.
func (p *Prog) batchesValue(parse, async *ssa.Function) ssa.Value {
	if async != parse {
		if len(async.Params) > 1 {
			return async.Params[1]
		}
		return nil
	}
	split := p.fn("klog/parser/engine", "splitIntoChunks")
	for _, c := range callsTo(parse, split) {
		return c.Value()
	}
	return nil
}
