package main

// C11 — inserted text follows the file's own style, deterministically.

import (
	"fmt"
	"go/ast"
	"go/constant"
	"go/token"
	"go/types"
	"sort"
	"strings"

	"golang.org/x/tools/go/ssa"
)

func init() {
	register(&propSpec{
		id:    "C11",
		level: "other",
		explain: "Decided on the SSA program and call graph: (P11-det) everything reachable from ApplyReconciler, the reconciler creators/methods and the commands' step closures is deterministic — no clock/random/environment/OS access, no goroutines or channels, no writes to package-level variables and no order-sensitive iteration over a map (a map range is accepted only for map inserts, commutative integer accumulation, or collect-then-sort); " +
			"(P11-style-src) every line the reconciler creates is Repeat(style.indentation, level) + text + style.lineEnding with level 0/1/2 by role, no string constant contributes indentation or a line ending, and the line-ending fix-up uses style.lineEnding; " +
			"(P11-precedence) the target record's own style is the base of the election, an explicit base value wins over the tally, the tally falls back to the default; explicit --date/--time values are not reformatted, configured preferences reformat explicitly, otherwise auto-style; " +
			"(P11-determine-first) the indentation is read off the first indented line of the block; (P11-defaults) the default style is LF and four spaces and both are accepted by the parser's tables; (P11-valid = P05-makeresult-guard) the result is always re-parsed. " +
			"Not covered: that determine() reads the right style values off a record, the majority arithmetic itself.",
		rules: []ruleFn{ruleP11Det, ruleP11ArgsPure, ruleP11StyleSrc, ruleP11Precedence, ruleP11ElectWiring, ruleP11DetermineFirst, ruleP11Defaults, ruleP05MakeResultGuard},
	})
}

// nondetCall: callee whose result depends on something other than its arguments.
func nondetCallee(f *ssa.Function) string {
	if f == nil {
		return ""
	}
	pkg := ""
	if f.Pkg != nil {
		pkg = f.Pkg.Pkg.Path()
	} else if f.Object() != nil && f.Object().Pkg() != nil {
		pkg = f.Object().Pkg().Path()
	}
	name := fnBase(f)
	switch pkg {
	case "time":
		switch name {
		case "Now", "Since", "Until", "After", "Tick", "NewTimer", "NewTicker", "Sleep", "AfterFunc":
			return "clock"
		}
	case "math/rand", "math/rand/v2", "crypto/rand":
		return "random"
	case "os":
		if f.Signature.Recv() == nil {
			switch name {
			case "Getenv", "LookupEnv", "Environ", "Getwd", "Hostname", "Getpid", "ReadFile", "ReadDir", "Stat", "Lstat", "Open", "UserHomeDir", "Executable", "Exit":
				return "environment/OS"
			}
		}
		if isFileMutationPrim(f) {
			return "environment/OS"
		}
	case "os/exec", "os/user", "os/signal", "net", "net/http", "syscall":
		return "environment/OS"
	case "runtime":
		switch name {
		case "NumCPU", "GOMAXPROCS", "NumGoroutine", "Gosched":
			return "runtime"
		}
	}
	return ""
}

// mapRangeOrderSensitive decides B7 for one `range` over a map; returns "" when the loop's
// effect cannot depend on the iteration order, otherwise the offending construct.
func (p *Prog) mapRangeOrderSensitive(rng *ssa.Range) string {
	f := rng.Parent()
	// loop = blocks dominated by the block containing the Next instruction that can reach it again
	var next *ssa.Next
	for _, ref := range *rng.Referrers() {
		if n, ok := ref.(*ssa.Next); ok {
			next = n
		}
	}
	if next == nil {
		return "iterator is never advanced"
	}
	header := next.Block()
	inLoop := map[*ssa.BasicBlock]bool{}
	for _, b := range f.Blocks {
		if header.Dominates(b) && reachableFrom(b, nil)[header] {
			inLoop[b] = true
		}
	}
	// early exit: an edge from a loop block (other than the header's exhaustion edge) leaving the loop
	for b := range inLoop {
		for _, s := range b.Succs {
			if !inLoop[s] && b != header {
				return "the loop can be left early at " + p.instrPos(b.Instrs[len(b.Instrs)-1]) + " (which element is seen first matters)"
			}
		}
	}
	sortedLater := func(v ssa.Value) bool {
		// v (a slice accumulated in the loop) is passed to sort.* / slices.Sort* after the loop
		// before any other use outside the loop
		ok := false
		seen := map[ssa.Value]bool{}
		var uses func(x ssa.Value)
		uses = func(x ssa.Value) {
			if seen[x] || x.Referrers() == nil {
				return
			}
			seen[x] = true
			for _, ref := range *x.Referrers() {
				if inLoop[ref.Block()] && ref.Block() != header {
					continue
				}
				switch y := ref.(type) {
				case *ssa.Phi:
					uses(y)
				case *ssa.Store:
					// stored into a local cell: follow the cell's loads
					if c := cellOf(y.Addr); c != nil {
						for _, f2 := range withAnons(c.Parent()) {
							eachInstr(f2, func(in ssa.Instruction) {
								if u, isU := in.(*ssa.UnOp); isU && u.Op == token.MUL && cellOf(u.X) == c {
									uses(u)
								}
							})
						}
					}
				case *ssa.MakeInterface:
					uses(y)
				case ssa.CallInstruction:
					if g := staticCallee(y); g != nil {
						s := g.String()
						if strings.HasPrefix(s, "sort.") || strings.HasPrefix(s, "slices.Sort") {
							ok = true
						}
					}
				}
			}
		}
		uses(v)
		return ok
	}
	for b := range inLoop {
		for _, in := range b.Instrs {
			switch x := in.(type) {
			case *ssa.Phi:
				if b != header {
					// phi inside the body: fine unless it is loop-carried through the header
					continue
				}
				// loop-carried variable
				for i, e := range x.Edges {
					pb := header.Preds[i]
					if !inLoop[pb] {
						continue
					}
					e = strip(e)
					if e == ssa.Value(x) {
						continue
					}
					if isIntType(x.Type()) {
						if bo, ok := e.(*ssa.BinOp); ok && (bo.Op == token.ADD || bo.Op == token.OR || bo.Op == token.XOR || bo.Op == token.MUL || bo.Op == token.AND) && (strip(bo.X) == ssa.Value(x) || strip(bo.Y) == ssa.Value(x)) {
							continue // commutative accumulation
						}
						return fmt.Sprintf("variable %s carries a non-commutative update across iterations (%s)", x.Comment, p.pos(x.Pos()))
					}
					if _, isSlice := x.Type().Underlying().(*types.Slice); isSlice {
						if c, ok := e.(*ssa.Call); ok {
							if bi, ok := c.Call.Value.(*ssa.Builtin); ok && bi.Name() == "append" && sortedLater(x) {
								continue // collect-then-sort
							}
						}
						return fmt.Sprintf("slice %s is filled in map order and not sorted before use (%s)", x.Comment, p.pos(x.Pos()))
					}
					return fmt.Sprintf("variable %s is assigned from the iteration (arg-max / last-wins idiom), ties depend on map order (%s)", x.Comment, p.pos(x.Pos()))
				}
			case *ssa.Store:
				// store to memory that outlives the iteration
				if a := cellOf(x.Addr); a != nil && inLoop[a.Block()] && a.Parent() == f {
					continue // per-iteration variable
				}
				if ia, ok := x.Addr.(*ssa.IndexAddr); ok {
					if a, ok := ia.X.(*ssa.Alloc); ok && inLoop[a.Block()] {
						continue // varargs array of this iteration
					}
				}
				return "a store inside the loop writes memory that outlives the iteration at " + p.instrPos(x)
			case *ssa.MapUpdate:
				continue
			case *ssa.Send, *ssa.Go, *ssa.Defer:
				return "effect inside the loop at " + p.instrPos(in)
			case ssa.CallInstruction:
				if _, isB := x.Common().Value.(*ssa.Builtin); isB {
					continue
				}
				// a call is accepted if every callee is effect-free on shared state: we accept
				// interface/getter calls without pointer-typed arguments into outer memory
				for _, g := range p.calleesAt(x) {
					if why := p.writesSharedState(g, 0); why != "" {
						return "call of " + fnName(g) + " inside the loop " + why + " at " + p.instrPos(in)
					}
				}
			}
		}
	}
	return ""
}

// writesSharedState: does g (transitively, bounded) store through pointers it did not allocate,
// append to fields, write globals or perform I/O?  "" = no.
func (p *Prog) writesSharedState(g *ssa.Function, depth int) string {
	if g == nil || len(g.Blocks) == 0 {
		if nd := nondetCallee(g); nd != "" {
			return "accesses " + nd
		}
		return "" // standard-library leaf without body information: assumed pure (strings, fmt.Sprintf, ...)
	}
	if !p.inMod(g) {
		return ""
	}
	if depth > 3 {
		return "is too deep to summarise"
	}
	res := ""
	eachInstr(g, func(in ssa.Instruction) {
		if res != "" {
			return
		}
		switch x := in.(type) {
		case *ssa.Store:
			if a := cellOf(x.Addr); a != nil && a.Parent() == g {
				return
			}
			addr := x.Addr
			for i := 0; i < 4; i++ {
				switch y := addr.(type) {
				case *ssa.FieldAddr:
					addr = y.X
					continue
				case *ssa.IndexAddr:
					addr = y.X
					continue
				}
				break
			}
			if a, ok := addr.(*ssa.Alloc); ok && a.Parent() == g {
				return
			}
			if _, ok := addr.(*ssa.Global); ok {
				res = "writes a package-level variable"
				return
			}
			res = "stores through a pointer it did not allocate (" + p.instrPos(x) + ")"
		case *ssa.Go, *ssa.Send:
			res = "starts goroutines / sends on channels"
		case ssa.CallInstruction:
			if _, isB := x.Common().Value.(*ssa.Builtin); isB {
				return
			}
			for _, h := range p.calleesAt(x) {
				if why := p.writesSharedState(h, depth+1); why != "" {
					res = "-> " + fnName(h) + " " + why
					return
				}
			}
		}
	})
	return res
}

func ruleP11Det(p *Prog, r *Report) {
	const rule = "P11-det"
	var roots []*ssa.Function
	add := func(f *ssa.Function) {
		if f != nil && len(f.Blocks) > 0 {
			roots = append(roots, withAnons(f)...)
		}
	}
	add(p.fn("klog/app", "ApplyReconciler"))
	add(p.fn("klog/parser/reconciling", "NewReconcilerAtRecord"))
	add(p.fn("klog/parser/reconciling", "NewReconcilerForNewRecord"))
	if rt := p.namedType("klog/parser/reconciling", "Reconciler"); rt != nil {
		for i := 0; i < rt.NumMethods(); i++ {
			add(p.prog.FuncValue(rt.Method(i)))
		}
	}
	mut, _, _ := p.mutatingCommands()
	for _, name := range sortedKeys(mut) {
		for _, f := range withAnons(mut[name]) {
			if len(f.Params) == 1 && typeNameOf(f.Params[0].Type()) == "Reconciler" {
				add(f)
			}
		}
		for _, rc := range findReconcileCalls(mut[name]) {
			if els, ok := sliceLitElems(rc.creators); ok {
				for _, e := range els {
					if lit := funcLiteral(e); lit != nil {
						add(lit)
					}
					if c, _ := callOf(e); c != nil {
						if g := staticCallee(c); g != nil && p.inMod(g) {
							add(g)
						}
					}
				}
			}
		}
	}
	if len(roots) < 10 {
		r.undecided(rule, "roots", "-", "only %d entry points of the reconcile path found", len(roots))
		return
	}
	rc := p.reach(roots, nil, nil)
	fns := rc.moduleFuncs()
	nRanges := 0
	for _, f := range fns {
		eachInstr(f, func(in ssa.Instruction) {
			switch x := in.(type) {
			case *ssa.Go:
				r.bad(rule, fnName(f)+":go", p.instrPos(in), "goroutine started on the reconcile path; path: %s", strings.Join(rc.path(f), " -> "))
			case *ssa.Send, *ssa.Select, *ssa.MakeChan:
				r.bad(rule, fnName(f)+":chan", p.instrPos(in), "channel operation on the reconcile path; path: %s", strings.Join(rc.path(f), " -> "))
			case *ssa.Store:
				if g, ok := x.Addr.(*ssa.Global); ok {
					r.bad(rule, fnName(f)+":global:"+g.Name(), p.instrPos(in), "package-level variable %s written on the reconcile path", g.Name())
				}
			case *ssa.Range:
				if _, isMap := x.X.Type().Underlying().(*types.Map); isMap {
					nRanges++
					key := fnName(originFn(f)) + ":maprange"
					if why := p.mapRangeOrderSensitive(x); why != "" {
						r.bad(rule, key, p.instrPos(in), "order-sensitive iteration over a map on the reconcile path: %s; path: %s", why, strings.Join(rc.path(f), " -> "))
					} else {
						r.ok(rule, key, p.instrPos(in), "map iteration whose effect does not depend on the order")
					}
				}
			case ssa.CallInstruction:
				for _, g := range p.calleesAt(x) {
					if nd := nondetCallee(g); nd != "" {
						r.bad(rule, fnName(f)+":"+g.String(), p.instrPos(in), "%s access (%s) on the reconcile path; path: %s", nd, g, strings.Join(rc.path(f), " -> "))
					}
				}
			}
		})
	}
	r.ok(rule, "reach:reconcile-path", p.pos(roots[0].Pos()), "%d module functions reachable from %d entry points examined; %d map ranges among them", len(fns), len(roots), nRanges)
	// inventory of all map ranges in the module (evidence that the classifier is live)
	var inv []string
	seen := map[string]bool{}
	for _, f := range p.srcFns {
		eachInstr(f, func(in ssa.Instruction) {
			if x, ok := in.(*ssa.Range); ok {
				if _, isMap := x.X.Type().Underlying().(*types.Map); isMap {
					k := fnName(originFn(f))
					if seen[k+p.instrPos(in)] {
						return
					}
					seen[k+p.instrPos(in)] = true
					why := p.mapRangeOrderSensitive(x)
					cls := "order-insensitive"
					if why != "" {
						cls = "order-sensitive (" + why + ")"
					}
					reach := "not on the reconcile path"
					if rc.has(f) {
						reach = "ON the reconcile path"
					}
					inv = append(inv, fmt.Sprintf("%s %s: %s; %s", p.instrPos(in), k, cls, reach))
				}
			}
		})
	}
	sort.Strings(inv)
	for _, s := range inv {
		r.note("map range inventory: %s", s)
	}
	if len(fns) < 40 {
		r.undecided(rule, "floor", "-", "only %d functions reachable on the reconcile path (call graph incomplete?)", len(fns))
	}
}

// concatLeaves flattens a string concatenation tree.
func concatLeaves(v ssa.Value, out *[]ssa.Value, depth int) {
	concatLeavesV(v, out, depth, map[*ssa.Phi]bool{})
}

// (a string grown in a loop is a phi cycle: each phi is expanded once per path, so that the
// parts appended in the loop body are listed once instead of until the depth runs out)
func concatLeavesV(v ssa.Value, out *[]ssa.Value, depth int, onPath map[*ssa.Phi]bool) {
	v = strip(v)
	if depth < 12 {
		if b, ok := v.(*ssa.BinOp); ok && b.Op == token.ADD {
			concatLeavesV(b.X, out, depth+1, onPath)
			concatLeavesV(b.Y, out, depth+1, onPath)
			return
		}
		if u, ok := v.(*ssa.UnOp); ok && u.Op == token.MUL {
			if c := cellOf(u.X); c != nil {
				// string built in a local variable: union of all stores
				for _, s := range storesTo(c) {
					concatLeavesV(s.val, out, depth+1, onPath)
				}
				return
			}
		}
		if ph, ok := v.(*ssa.Phi); ok {
			if onPath[ph] {
				return // back at a phi that is being expanded: nothing new
			}
			onPath[ph] = true
			for _, e := range ph.Edges {
				concatLeavesV(e, out, depth+1, onPath)
			}
			delete(onPath, ph)
			return
		}
	}
	*out = append(*out, v)
}

// styleGet: v == <style>.<prop>.Get() -> prop name.
func styleGet(v ssa.Value) string {
	c, idx := callOf(v)
	if c == nil || idx != 0 {
		return ""
	}
	g := staticCallee(c)
	if g == nil || fnBase(g) != "Get" || len(c.Common().Args) != 1 {
		return ""
	}
	if fa, ok := strip(c.Common().Args[0]).(*ssa.FieldAddr); ok && typeNameOf(fa.X.Type()) == "style" {
		return fieldName(fa)
	}
	return ""
}

func ruleP11StyleSrc(p *Prog, r *Report) {
	const rule = "P11-style-src"
	newLine := p.fn("klog/parser/txt", "NewLineFromString")
	if !r.anchorFn(rule, newLine, "txt.NewLineFromString") {
		return
	}
	n := 0
	for _, f := range p.srcFns {
		if pkgPathOfFn(f) != modPath+"/klog/parser/reconciling" {
			continue
		}
		for _, c := range callsTo(f, newLine) {
			n++
			key := fnName(f) + ":new-line"
			var leaves []ssa.Value
			concatLeaves(c.Common().Args[0], &leaves, 0)
			okInd, okEnd, okText := false, false, false
			bad := ""
			for _, l := range leaves {
				if s, isS := constString(l); isS {
					if s != "" {
						bad = fmt.Sprintf("string constant %q is part of a created line", s)
					}
					continue
				}
				if styleGet(l) == "lineEnding" {
					okEnd = true
					continue
				}
				if call, idx := callOf(l); call != nil && idx == 0 && staticCallee(call) != nil && staticCallee(call).String() == "strings.Repeat" {
					if styleGet(call.Common().Args[0]) == "indentation" {
						if _, fld := fieldLoad(call.Common().Args[1]); fld == "indentation" {
							okInd = true
							continue
						}
					}
					bad = "indentation is not Repeat(style.indentation, text.indentation)"
					continue
				}
				if _, fld := fieldLoad(l); fld == "text" {
					okText = true
					continue
				}
				bad = "a created line contains a part that is neither indentation, the text nor the line ending (" + l.String() + ")"
			}
			r.check(bad == "" && okInd && okEnd && okText, rule, key, p.instrPos(c), "created line = Repeat(style.indentation, level) + text + style.lineEnding", "a created line is not built from the elected style: "+bad)
		}
		// line-ending fix-up: stores to LineEnding of a txt.Line use style.lineEnding
		eachInstr(f, func(in ssa.Instruction) {
			st, ok := in.(*ssa.Store)
			if !ok {
				return
			}
			fa, ok := st.Addr.(*ssa.FieldAddr)
			if !ok || typeNameOf(fa.X.Type()) != "Line" || fieldName(fa) != "LineEnding" {
				return
			}
			n++
			r.check(styleGet(st.Val) == "lineEnding", rule, fnName(f)+":line-ending-fixup", p.instrPos(st), "a missing line ending is filled with style.lineEnding", "a line ending is set to something other than the elected style's line ending")
		})
		// indentation levels of insertable texts
		eachInstr(f, func(in ssa.Instruction) {
			st, ok := in.(*ssa.Store)
			if !ok {
				return
			}
			fa, ok := st.Addr.(*ssa.FieldAddr)
			if !ok || typeNameOf(fa.X.Type()) != "insertableText" || fieldName(fa) != "indentation" {
				return
			}
			k, isK := constInt(st.Val)
			r.check(isK && k >= 0 && k <= 2, rule, fnName(f)+":level", p.instrPos(st), fmt.Sprintf("indentation level %d", k), "indentation level of an inserted line is not 0, 1 or 2")
		})
	}
	// role -> level table
	type role struct {
		fn    string
		want  []int64 // levels in order of appearance
		label string
	}
	for _, ro := range []role{
		{"toMultilineEntryTexts", []int64{1, 2}, "entry line 1, further summary lines 2"},
		{"concatenateSummary", []int64{2}, "continuation lines of a summary 2"},
	} {
		var f *ssa.Function
		if ro.fn == "concatenateSummary" {
			f = p.method("klog/parser/reconciling", "Reconciler", ro.fn)
		} else {
			f = p.fn("klog/parser/reconciling", ro.fn)
		}
		if !r.anchorFn(rule, f, ro.fn) {
			continue
		}
		var got []int64
		for _, g := range withAnons(f) {
			eachInstr(g, func(in ssa.Instruction) {
				if st, ok := in.(*ssa.Store); ok {
					if fa, ok := st.Addr.(*ssa.FieldAddr); ok && typeNameOf(fa.X.Type()) == "insertableText" && fieldName(fa) == "indentation" {
						k, _ := constInt(st.Val)
						got = append(got, k)
					}
				}
			})
		}
		r.check(fmt.Sprint(got) == fmt.Sprint(ro.want), rule, ro.fn+":levels", p.pos(f.Pos()), ro.label, fmt.Sprintf("%s uses indentation levels %v, expected %v (%s)", ro.fn, got, ro.want, ro.label))
	}
	// record lines are level 0: in the new-record creator every insertableText has level 0
	cr := p.fn("klog/parser/reconciling", "NewReconcilerForNewRecord")
	if r.anchorFn(rule, cr, "NewReconcilerForNewRecord") {
		ok, cnt := true, 0
		for _, g := range withAnons(cr) {
			eachInstr(g, func(in ssa.Instruction) {
				if st, isSt := in.(*ssa.Store); isSt {
					if fa, isFa := st.Addr.(*ssa.FieldAddr); isFa && typeNameOf(fa.X.Type()) == "insertableText" && fieldName(fa) == "indentation" {
						cnt++
						if k, isK := constInt(st.Val); !isK || k != 0 {
							ok = false
						}
					}
				}
			})
		}
		r.check(ok && cnt >= 2, rule, "new-record:levels", p.pos(cr.Pos()), "headline and record summary lines are not indented", "a line of a new record's head is indented")
	}
	if n < 2 {
		r.undecided(rule, "floor", "-", "found %d line constructions in package reconciling", n)
	}
}

func ruleP11Precedence(p *Prog, r *Report) {
	const rule = "P11-precedence"
	elect := p.fn("klog/parser/reconciling", "elect")
	determine := p.fn("klog/parser/reconciling", "determine")
	defStyle := p.fn("klog/parser/reconciling", "defaultStyle")
	at := p.fn("klog/parser/reconciling", "NewReconcilerAtRecord")
	nr := p.fn("klog/parser/reconciling", "NewReconcilerForNewRecord")
	asc := p.fn("klog/parser/reconciling", "ascertain")
	for _, pr := range []struct {
		f *ssa.Function
		n string
	}{{elect, "elect"}, {determine, "determine"}, {defStyle, "defaultStyle"}, {at, "NewReconcilerAtRecord"}, {nr, "NewReconcilerForNewRecord"}, {asc, "ascertain"}} {
		if !r.anchorFn(rule, pr.f, pr.n) {
			return
		}
	}
	// the style stored into a Reconciler literal is elect(base, rs, bs)
	styleOf := func(f *ssa.Function) (ssa.CallInstruction, bool) {
		var out ssa.CallInstruction
		for _, g := range withAnons(f) {
			eachInstr(g, func(in ssa.Instruction) {
				if st, ok := in.(*ssa.Store); ok {
					if fa, ok := st.Addr.(*ssa.FieldAddr); ok && typeNameOf(fa.X.Type()) == "Reconciler" && fieldName(fa) == "style" {
						if c, ok := isCallTo(st.Val, elect, 0); ok {
							out = c
						}
					}
				}
			})
		}
		return out, out != nil
	}
	if c, ok := styleOf(at); ok {
		// base = *determine(rs[index], bs[index]) for the matched index
		base := strip(c.Common().Args[0])
		good := false
		if u, isU := base.(*ssa.UnOp); isU && u.Op == token.MUL {
			if dc, isD := isCallTo(u.X, determine, 0); isD {
				// both arguments index with the same value
				i0 := indexOf(dc.Common().Args[0])
				i1 := indexOf(dc.Common().Args[1])
				good = i0 != nil && i1 != nil && sameValue(i0, i1)
				// and the reconciler's Record is rs[that index]
			}
		}
		r.check(good, rule, "at-record:base", p.instrPos(c), "election base = determine(target record, its block)", "the style of the target record itself is not the base of the election")
	} else {
		r.bad(rule, "at-record:elect", p.pos(at.Pos()), "the reconciler for an existing record does not elect its style")
	}
	if c, ok := styleOf(nr); ok {
		base := strip(c.Common().Args[0])
		good := false
		if u, isU := base.(*ssa.UnOp); isU && u.Op == token.MUL {
			_, good = isCallTo(u.X, defStyle, 0)
		}
		r.check(good, rule, "new-record:base", p.instrPos(c), "election base = default style", "a new record does not start the election from the default style")
	} else {
		r.bad(rule, "new-record:elect", p.pos(nr.Pos()), "the reconciler for a new record does not elect its style")
	}
	// ascertain: explicit -> base itself; otherwise {tallyUp(base.Get()), true}
	sawExplicit, sawTally := false, false
	for _, ret := range returnsOf(asc) {
		expl := false
		for _, g := range guardsOf(ret.Block()) {
			if _, fld := fieldLoad(g.Cond); fld == "isExplicit" && g.Pol {
				expl = true
			}
		}
		if expl {
			sawExplicit = true
			r.check(deref(retResult(ret, 0)) == ssa.Value(asc.Params[1]), rule, "ascertain:explicit", p.instrPos(ret), "an explicit base value is returned unchanged", "an explicit base value is not what ascertain returns")
			continue
		}
		// composite literal with value = tallyUp(default.Get())
		sawTally = true
		good := false
		if u, ok := strip(retResult(ret, 0)).(*ssa.UnOp); ok && u.Op == token.MUL {
			if a, ok := u.X.(*ssa.Alloc); ok {
				for _, ref := range *a.Referrers() {
					if fa, ok := ref.(*ssa.FieldAddr); ok && fieldName(fa) == "value" {
						for _, r2 := range *fa.Referrers() {
							if st, ok := r2.(*ssa.Store); ok {
								if c, _ := callOf(st.Val); c != nil && staticCallee(c) != nil && fnBase(staticCallee(c)) == "tallyUp" {
									// fallback argument = base.Get()
									if gc, _ := callOf(c.Common().Args[1]); gc != nil && staticCallee(gc) != nil && fnBase(staticCallee(gc)) == "Get" {
										good = true
									}
								}
							}
						}
					}
				}
			}
		}
		r.check(good, rule, "ascertain:tally", p.instrPos(ret), "otherwise the tally, with the base value as fallback", "without an explicit base the result is not tallyUp(base value)")
	}
	// completeness: on every path where the base value is explicit it is returned
	okComplete := false
	for _, b := range asc.Blocks {
		iff, ok := b.Instrs[len(b.Instrs)-1].(*ssa.If)
		if !ok {
			continue
		}
		gs := flattenCond(iff.Cond, true, iff)
		if _, fld := fieldLoad(gs[0].Cond); fld != "isExplicit" {
			continue
		}
		succ := b.Succs[0]
		if !gs[0].Pol {
			succ = b.Succs[1]
		}
		if rejectComplete(succ, func(ret *ssa.Return) string {
			if deref(retResult(ret, 0)) != ssa.Value(asc.Params[1]) {
				return "returns something else"
			}
			return ""
		}) == "" {
			okComplete = true
		}
	}
	r.check(okComplete, rule, "ascertain:explicit-always", p.pos(asc.Pos()), "whenever the base value is explicit it wins", "an explicit base value does not win on every path (a further condition is involved)")
	r.check(sawExplicit && sawTally, rule, "ascertain:cases", p.pos(asc.Pos()), "both cases present", "ascertain lacks the explicit or the tally case")
	// tallyUp: strict maximum, default when no votes
	// elect: every record votes with determine(r, bs[i])
	okVotes := false
	eachInstr(elect, func(in ssa.Instruction) {
		if c, ok := in.(ssa.CallInstruction); ok && sameFn(staticCallee(c), determine) {
			a0 := rangeElemOf(c.Common().Args[0])
			if a0 != nil && strip(a0) == ssa.Value(elect.Params[1]) {
				if only, _ := onlyLoopGuards(c.Block()); only {
					okVotes = true
				}
			}
		}
	})
	r.check(okVotes, rule, "elect:all-records", p.pos(elect.Pos()), "every record of the file votes", "not every record takes part in the election")
	// directive.apply: mode 0 -> nothing; 1 -> Value; else auto style
	ap := p.method("klog/parser/reconciling", "ReformatDirective", "apply")
	if r.anchorFn(rule, ap, "ReformatDirective.apply") {
		var calls []ssa.CallInstruction
		eachInstr(ap, func(in ssa.Instruction) {
			if c, ok := in.(ssa.CallInstruction); ok && !c.Common().IsInvoke() && staticCallee(c) == nil {
				if prm, ok := strip(c.Common().Value).(*ssa.Parameter); ok && prm == ap.Params[2] {
					calls = append(calls, c)
				}
			}
		})
		modeGuard := func(gs []Guard, k int64, pol bool) bool {
			for _, g := range gs {
				if bo, ok := g.Cond.(*ssa.BinOp); ok {
					_, fld := fieldLoad(bo.X)
					kk, isK := constInt(bo.Y)
					if fld == "mode" && isK && kk == k && ((bo.Op == token.EQL && g.Pol == pol) || (bo.Op == token.NEQ && g.Pol != pol)) {
						return true
					}
				}
			}
			return false
		}
		// apply may be a thin wrapper around a method that decides (format, whether to reformat):
		// the callback is called with that format exactly when the flag holds; the three cases
		// are then read off the returns of the deciding method
		viaDecider := false
		if len(calls) == 1 {
			c := calls[0]
			var flagCall ssa.CallInstruction
			onlyFlag := true
			for _, g := range guardsOf(c.Block()) {
				ex, isEx := g.Cond.(*ssa.Extract)
				if !isEx || ex.Index != 1 || !g.Pol {
					onlyFlag = false
					continue
				}
				if dc, isCall := ex.Tuple.(*ssa.Call); isCall {
					flagCall = dc
				}
			}
			if flagCall != nil && onlyFlag {
				d := rawStaticCallee(flagCall)
				argEx, isEx := c.Common().Args[0].(*ssa.Extract)
				if d != nil && p.inModFn(d) && isEx && argEx.Tuple == ssa.Value(flagCall.(*ssa.Call)) && argEx.Index == 0 &&
					len(flagCall.Common().Args) == 2 && strip(flagCall.Common().Args[0]) == ssa.Value(ap.Params[0]) && strip(flagCall.Common().Args[1]) == ssa.Value(ap.Params[1]) {
					df := originFn(d)
					if len(df.Blocks) == 0 {
						df = d
					}
					goodD, skipD := len(df.Params) == 2, true
					sawV, sawA, nEmit := false, false, 0
					for _, ret := range returnsOf(df) {
						if len(ret.Results) != 2 {
							goodD = false
							continue
						}
						gs := guardsOf(ret.Block())
						flag, isK := constBool(ret.Results[1])
						if !isK {
							goodD = false
							continue
						}
						if !flag {
							// not reformatted: for the no-reformat directive and under no other condition
							if !(len(gs) == 1 && modeGuard(gs, 0, true)) {
								skipD = false
							}
							continue
						}
						nEmit++
						if !modeGuard(gs, 0, false) {
							goodD = false
						}
						val := strip(ret.Results[0])
						if ph, ok := val.(*ssa.Phi); ok && len(ph.Edges) == 2 {
							for i, e := range ph.Edges {
								pb := ph.Block().Preds[i]
								egs := append(guardsOf(pb), edgeGuard(pb, ph.Block())...)
								if deref(e) == ssa.Value(df.Params[1]) {
									sawA = true
								}
								if _, fld := fieldLoad(e); fld == "Value" && modeGuard(egs, 1, true) {
									sawV = true
								}
							}
							continue
						}
						if _, fld := fieldLoad(val); fld == "Value" {
							if modeGuard(gs, 1, true) {
								sawV = true
							} else {
								goodD = false
							}
							continue
						}
						if deref(val) == ssa.Value(df.Params[1]) {
							if modeGuard(gs, 1, false) {
								sawA = true
							} else {
								goodD = false
							}
							continue
						}
						goodD = false
					}
					r.check(skipD && nEmit > 0, rule, "directive:apply:always", p.pos(df.Pos()), "the reformatting is skipped for the no-reformat directive only", fnName(df)+" skips the reformatting in more cases than the no-reformat directive (e.g. an explicit format that equals the zero value: 12-hour clock, slash dates)")
					r.check(goodD && sawV && sawA, rule, "directive:apply", p.pos(df.Pos()), "no-reformat does nothing; explicit uses its own value; auto uses the elected style", fnName(df)+" does not implement none / explicit / auto-style")
					calls, viaDecider = nil, true
				}
			}
		}
		good := len(calls) >= 1
		sawValue, sawAuto := false, false
		stops := map[*ssa.BasicBlock]bool{}
		for _, c := range calls {
			stops[c.Block()] = true
			gs := guardsOf(c.Block())
			// never executed when mode == 0
			if !modeGuard(gs, 0, false) {
				good = false
			}
			arg := strip(c.Common().Args[0])
			if ph, ok := arg.(*ssa.Phi); ok && len(ph.Edges) == 2 {
				// one call: phi {autoStyle, r.Value when mode == 1}
				for i, e := range ph.Edges {
					pb := ph.Block().Preds[i]
					egs := append(guardsOf(pb), edgeGuard(pb, ph.Block())...)
					if deref(e) == ssa.Value(ap.Params[1]) {
						sawAuto = true
					}
					if _, fld := fieldLoad(e); fld == "Value" && modeGuard(egs, 1, true) {
						sawValue = true
					}
				}
				continue
			}
			// one call per case
			if _, fld := fieldLoad(arg); fld == "Value" {
				if modeGuard(gs, 1, true) {
					sawValue = true
				} else {
					good = false
				}
				continue
			}
			if deref(arg) == ssa.Value(ap.Params[1]) {
				if modeGuard(gs, 1, false) {
					sawAuto = true
				} else {
					good = false
				}
				continue
			}
			good = false
		}
		good = good && sawValue && sawAuto
		if len(calls) >= 1 {
			// and it IS executed in every other case: a return that can be reached without passing
			// a call is guarded by mode == 0 and nothing else
			skipOK := true
			bypass := reachableFrom(ap.Blocks[0], stops)
			for _, ret := range returnsOf(ap) {
				if !bypass[ret.Block()] || stops[ret.Block()] {
					continue
				}
				// paths into this return that avoid every call: each such entry edge must carry mode == 0
				okRet := false
				gs := guardsOf(ret.Block())
				if len(gs) == 1 && modeGuard(gs, 0, true) {
					okRet = true
				}
				if !okRet {
					// a join block (end of a switch): every predecessor that is reachable without a
					// call must itself be guarded by mode == 0 only
					okRet = true
					nBy := 0
					for _, pb := range ret.Block().Preds {
						if !bypass[pb] || stops[pb] {
							continue
						}
						nBy++
						pgs := append(guardsOf(pb), edgeGuard(pb, ret.Block())...)
						if !(modeGuard(pgs, 0, true)) {
							okRet = false
						}
						for _, g := range pgs {
							if bo, isBo := g.Cond.(*ssa.BinOp); isBo {
								if _, fld := fieldLoad(bo.X); fld == "mode" {
									continue
								}
							}
							okRet = false
						}
					}
					if nBy == 0 {
						okRet = false
					}
				}
				if !okRet {
					skipOK = false
				}
			}
			r.check(skipOK, rule, "directive:apply:always", p.pos(ap.Pos()), "the reformat callback is skipped for the no-reformat directive only", "ReformatDirective.apply skips the reformatting in more cases than the no-reformat directive (e.g. an explicit format that equals the zero value: 12-hour clock, slash dates)")
		}
		if !viaDecider {
			r.check(good, rule, "directive:apply", p.pos(ap.Pos()), "no-reformat does nothing; explicit uses its own value; auto uses the elected style", "ReformatDirective.apply does not implement none / explicit / auto-style")
		}
	}
	for name, mode := range map[string]int64{"NoReformat": 0, "ReformatExplicitly": 1, "ReformatAutoStyle": 2} {
		f := p.fn("klog/parser/reconciling", name)
		if !r.anchorFn(rule, f, name) {
			continue
		}
		ok := false
		eachInstr(f, func(in ssa.Instruction) {
			if st, isSt := in.(*ssa.Store); isSt {
				if fa, isFa := st.Addr.(*ssa.FieldAddr); isFa && fieldName(fa) == "mode" {
					if k, isK := constInt(st.Val); isK && (k == mode || (mode == 2 && k != 0 && k != 1)) {
						ok = true
					}
				}
			}
		})
		if mode == 0 && !ok {
			// zero value: no store needed
			ok = true
			eachInstr(f, func(in ssa.Instruction) {
				if st, isSt := in.(*ssa.Store); isSt {
					if fa, isFa := st.Addr.(*ssa.FieldAddr); isFa && fieldName(fa) == "mode" {
						if k, isK := constInt(st.Val); !isK || k != 0 {
							ok = false
						}
					}
				}
			})
		}
		r.check(ok, rule, "directive:"+name, p.pos(f.Pos()), fmt.Sprintf("%s has mode %d", name, mode), fmt.Sprintf("%s does not carry mode %d", name, mode))
	}
	// DateFormat()/TimeFormat() of the argument structs
	for _, m := range []struct{ typ, meth, flag, cfg string }{
		{"AtDateArgs", "DateFormat", "date", "DateUseDashes"},
		{"AtDateAndTimeArgs", "TimeFormat", "time", "TimeUse24HourClock"},
	} {
		f := p.method("klog/app/cli/util", m.typ, m.meth)
		if !r.anchorFn(rule, f, m.typ+"."+m.meth) {
			continue
		}
		sawNo, sawDefault := false, false
		for _, ret := range returnsOf(f) {
			explicit := false
			for _, g := range guardsOf(ret.Block()) {
				if x, isNil, ok := nilFact(g); ok && !isNil {
					if tag, _ := fieldTagOfLoad(x); tag == m.flag {
						explicit = true
					}
				}
			}
			c, _ := callOf(retResult(ret, 0))
			if explicit {
				sawNo = true
				r.check(c != nil && staticCallee(c) != nil && fnBase(staticCallee(c)) == "NoReformat", rule, m.meth+":explicit-arg", p.instrPos(ret), "an explicit --"+m.flag+" value is taken as is", "an explicit --"+m.flag+" value is reformatted")
				continue
			}
			// single exit: one variable that starts as NoReformat and is overwritten — by the
			// auto-style directive and the configured preference — only when the flag is absent
			if u, ok := strip(retResult(ret, 0)).(*ssa.UnOp); ok && u.Op == token.MUL {
				if cell := cellOf(u.X); cell != nil {
					absent := func(b *ssa.BasicBlock) bool {
						for _, g := range guardsOf(b) {
							if x, isNil, ok := nilFact(g); ok && isNil {
								if tag, _ := fieldTagOfLoad(x); tag == m.flag {
									return true
								}
							}
						}
						return false
					}
					hasNo, okNo, okOthers := false, true, true
					for _, st := range storesTo(cell) {
						sc, _ := callOf(st.val)
						if sc == nil || staticCallee(sc) == nil {
							continue
						}
						at := st.in.Block()
						if st.in.Parent() != f {
							// a store inside the Unwrap callback: where the callback is handed over
							at = nil
							for _, mc := range closureUses(f, st.in.Parent()) {
								if in, isIn := mc.(ssa.Instruction); isIn {
									at = in.Block()
								}
							}
						}
						switch fnBase(staticCallee(sc)) {
						case "NoReformat":
							hasNo = true
							if at == nil || len(guardsOf(at)) != 0 {
								okNo = false
							}
						default:
							if at == nil || !absent(at) {
								okOthers = false
							}
						}
					}
					if hasNo {
						sawNo = true
						r.check(okNo && okOthers, rule, m.meth+":explicit-arg", p.instrPos(ret), "an explicit --"+m.flag+" value is taken as is (the directive stays NoReformat unless the flag is absent)", "an explicit --"+m.flag+" value can be reformatted: the directive is overwritten although the flag was given")
					}
				}
			}
			sawDefault = true
			// value is a cell: initial store AutoStyle, overwritten in a closure passed to config.<cfg>.Unwrap with ReformatExplicitly
			good := false
			if u, ok := strip(retResult(ret, 0)).(*ssa.UnOp); ok && u.Op == token.MUL {
				if cell := cellOf(u.X); cell != nil {
					var auto, expl bool
					for _, s := range storesTo(cell) {
						sc, _ := callOf(s.val)
						if sc == nil || staticCallee(sc) == nil {
							continue
						}
						switch fnBase(staticCallee(sc)) {
						case "ReformatAutoStyle":
							auto = s.in.Parent() == f
						case "ReformatExplicitly":
							if s.in.Parent() != f {
								for _, mc := range closureUses(f, s.in.Parent()) {
									for _, ref := range *mc.(*ssa.MakeClosure).Referrers() {
										if call, ok := ref.(ssa.CallInstruction); ok && staticCallee(call) != nil && fnBase(staticCallee(call)) == "Unwrap" {
											if _, fld := fieldLoad(call.Common().Args[0]); fld == m.cfg {
												// the format passed carries the configured value (the closure's parameter)
												if u2, ok := strip(sc.Common().Args[0]).(*ssa.UnOp); ok && u2.Op == token.MUL {
													if a2, ok := u2.X.(*ssa.Alloc); ok {
														for _, ref2 := range *a2.Referrers() {
															if fa2, ok := ref2.(*ssa.FieldAddr); ok {
																for _, r3 := range *fa2.Referrers() {
																	if st3, ok := r3.(*ssa.Store); ok && len(s.in.Parent().Params) == 1 && strip(st3.Val) == ssa.Value(s.in.Parent().Params[0]) {
																		expl = true
																	}
																}
															}
														}
													}
												}
											}
										}
									}
								}
							}
						}
					}
					good = auto && expl
				}
			}
			r.check(good, rule, m.meth+":preference", p.instrPos(ret), "configured preference -> explicit reformat, otherwise auto-style", m.meth+" does not honour the configured preference before falling back to auto-style")
		}
		r.check(sawNo && sawDefault, rule, m.meth+":cases", p.pos(f.Pos()), "explicit-argument and default cases present", m.meth+" lacks the explicit-argument or the default case")
	}
}

// indexOf: v == X[i] (load through IndexAddr or Index) -> i.
func indexOf(v ssa.Value) ssa.Value {
	v = strip(v)
	if u, ok := v.(*ssa.UnOp); ok && u.Op == token.MUL {
		if ia, ok := u.X.(*ssa.IndexAddr); ok {
			return ia.Index
		}
	}
	if ix, ok := v.(*ssa.Index); ok {
		return ix.Index
	}
	return nil
}

func ruleP11DetermineFirst(p *Prog, r *Report) {
	const rule = "P11-determine-first"
	f := p.fn("klog/parser/reconciling", "determine")
	if !r.anchorFn(rule, f, "reconciling.determine") {
		return
	}
	// the Set call on the indentation property inside the loop over b.Lines()
	var set ssa.CallInstruction
	eachVInstr(f, func(in ssa.Instruction) {
		c, ok := in.(ssa.CallInstruction)
		if !ok || staticCallee(c) == nil || fnBase(staticCallee(c)) != "Set" {
			return
		}
		if fa, ok := strip(c.Common().Args[0]).(*ssa.FieldAddr); ok && fieldName(fa) == "indentation" {
			set = c
		}
	})
	if set == nil {
		r.bad(rule, "set", p.pos(f.Pos()), "determine never records the block's indentation")
		return
	}
	// value: l.Indentation() of the loop's line, guarded by != ""
	n, recv, _, _ := methodCall(set.Common().Args[1])
	okVal := n == "Indentation" && rangeElemOf(recv) != nil
	r.check(okVal, rule, "value", p.instrPos(set), "indentation is read off a line of the record's block", "the indentation recorded is not a line's Indentation()")
	// … of the record's OWN lines: the blank lines of a block (those before and after the record)
	// may hold any whitespace and may end differently. Reading the style off block.Lines() made
	// `track` fail on "  \n1855-04-25\n    1h\n" and insert LF lines into the CRLF record of
	// "\n1855-04-25\r\n    1h\r\n" (D14).
	ownLines := func(coll ssa.Value) bool {
		c, idx := callOf(coll)
		if c == nil || idx != 0 {
			return false
		}
		nm, _, _, _ := methodCallOf(c)
		return nm == "SignificantLines"
	}
	if okVal {
		r.check(ownLines(rangeElemOf(recv)), rule, "value:own-lines", p.instrPos(set), "only the record's own (significant) lines are searched for the indentation", "the indentation is searched in all lines of the block, blank lines included: a whitespace-only line before or after the record is taken for the record's indentation")
	}
	nonEmpty := false
	for _, g := range guardsOf(set.Block()) {
		if bo, ok := g.Cond.(*ssa.BinOp); ok {
			if s, isS := constString(bo.Y); isS && s == "" && (bo.Op == token.NEQ) == g.Pol {
				nonEmpty = true
			}
		}
	}
	r.check(nonEmpty, rule, "indented-only", p.instrPos(set), "only indented lines are considered", "an unindented line can set the indentation")
	// first: the loop is left after the Set (no path back to the Set block)
	again := false
	for _, s := range set.Block().Succs {
		if reachableFrom(s, nil)[set.Block()] {
			again = true
		}
	}
	r.check(!again, rule, "first-line", p.instrPos(set), "the loop stops at the first indented line", "a later (deeper indented) line can overwrite the indentation read from the first one")
	// line ending from the first line of the record
	okLE, okLEOwn := false, false
	var leAt ssa.CallInstruction
	eachVInstr(f, func(in ssa.Instruction) {
		c, ok := in.(ssa.CallInstruction)
		if !ok || staticCallee(c) == nil || fnBase(staticCallee(c)) != "Set" {
			return
		}
		if fa, ok := strip(c.Common().Args[0]).(*ssa.FieldAddr); ok && fieldName(fa) == "lineEnding" {
			base, fld := fieldLoad(c.Common().Args[1])
			if fld == "LineEnding" && base != nil {
				if ia, ok := strip(base).(*ssa.IndexAddr); ok {
					if k, isK := constInt(ia.Index); isK && k == 0 {
						okLE = true
						okLEOwn = ownLines(ia.X)
						leAt = c
					}
				}
			}
		}
	})
	r.check(okLE, rule, "line-ending", p.pos(f.Pos()), "the line ending is read off the block's first line", "the line ending is not taken from the first line of the record's block")
	if okLE {
		r.check(okLEOwn, rule, "line-ending:own-lines", p.instrPos(leAt), "the line ending is that of the record's own first line (the headline)", "the line ending is read off the first line of the block, which is a blank line when blank lines precede the record: lines inserted into a CRLF record after a leading LF blank line end in LF")
		// … for every record: no way through determine() goes round the test that leads to it
		// (an early return for, say, records without entries leaves them with the default ending)
		// (the only reasons not to record it: there is no line, or the line has no ending)
		round := ""
		for _, g := range guardsOf(leAt.Block()) {
			if g.If == nil || isLoopGuard(g) || isLoopGuard(Guard{Cond: g.Cond, Pol: !g.Pol, If: g.If}) {
				continue
			}
			okG := false
			if x, isEmpty, isG := emptyGuard(g); isG && !isEmpty {
				if _, fld := fieldLoad(x); fld == "LineEnding" {
					okG = true
				} else if c, idx := callOf(x); c != nil && idx == 0 {
					if nm, _, _, _ := methodCallOf(c); nm == "SignificantLines" || nm == "Lines" {
						okG = true
					}
				}
			}
			if !okG {
				round = g.Cond.String() + " at " + p.instrPos(g.If)
			}
		}
		r.check(round == "", rule, "line-ending:every-record", p.instrPos(leAt), "the line ending is recorded unless there is no line or the line has no ending", "whether determine() looks at the record's line ending also depends on "+round+": records for which that does not hold neither exhibit nor vote for their own line ending, and lines added to them end in the default \\n")
	}
}

// globalStrings evaluates `var name = []string{...}` / `var name = "..."` in a module package.
func (p *Prog) globalStrings(pkgSuffix, name string) ([]string, bool) {
	pk := p.pkg(pkgSuffix)
	if pk == nil {
		return nil, false
	}
	for _, file := range pk.Syntax {
		for _, d := range file.Decls {
			gd, ok := d.(*ast.GenDecl)
			if !ok || gd.Tok != token.VAR {
				continue
			}
			for _, sp := range gd.Specs {
				vs := sp.(*ast.ValueSpec)
				for i, id := range vs.Names {
					if id.Name != name || i >= len(vs.Values) {
						continue
					}
					switch e := vs.Values[i].(type) {
					case *ast.CompositeLit:
						var out []string
						for _, el := range e.Elts {
							tv, ok := pk.TypesInfo.Types[el]
							if !ok || tv.Value == nil || tv.Value.Kind() != constant.String {
								return nil, false
							}
							out = append(out, constant.StringVal(tv.Value))
						}
						return out, true
					default:
						tv, ok := pk.TypesInfo.Types[e]
						if ok && tv.Value != nil && tv.Value.Kind() == constant.String {
							return []string{constant.StringVal(tv.Value)}, true
						}
					}
				}
			}
		}
	}
	return nil, false
}

func contains(xs []string, s string) bool {
	for _, x := range xs {
		if x == s {
			return true
		}
	}
	return false
}

func ruleP11Defaults(p *Prog, r *Report) {
	const rule = "P11-defaults"
	f := p.fn("klog/parser/reconciling", "defaultStyle")
	if !r.anchorFn(rule, f, "reconciling.defaultStyle") {
		return
	}
	inds, ok1 := p.globalStrings("klog/parser/txt", "Indentations")
	ends, ok2 := p.globalStrings("klog/parser/txt", "LineEndings")
	if !ok1 || !ok2 {
		r.undecided(rule, "tables", "-", "txt.Indentations / txt.LineEndings are not constant string tables")
		return
	}
	got := map[string]string{}
	explicit := map[string]bool{}
	eachInstr(f, func(in ssa.Instruction) {
		st, ok := in.(*ssa.Store)
		if !ok {
			return
		}
		fa, ok := st.Addr.(*ssa.FieldAddr)
		if !ok {
			return
		}
		// a whole property built by a constructor helper: style.<prop> = newProp(value)
		if typeNameOf(fa.X.Type()) == "style" {
			if val, expl, isLit := styleLitOf(st.Val); isLit {
				if s, isS := constString(val); isS {
					got[fieldName(fa)] = s
				}
				if expl {
					explicit[fieldName(fa)] = true
				}
			}
		}
		// styleProp literal stores: t.value / t.isExplicit where t = &style.<prop>
		if outer, ok := fa.X.(*ssa.FieldAddr); ok && typeNameOf(outer.X.Type()) == "style" {
			switch fieldName(fa) {
			case "value":
				if s, isS := constString(st.Val); isS {
					got[fieldName(outer)] = s
				}
			case "isExplicit":
				if b, isB := constBool(st.Val); isB && b {
					explicit[fieldName(outer)] = true
				}
			}
		}
	})
	r.check(got["lineEnding"] == "\n" && contains(ends, got["lineEnding"]), rule, "line-ending", p.pos(f.Pos()), "default line ending is LF and is in txt.LineEndings", fmt.Sprintf("default line ending %q is not LF / not accepted by the parser", got["lineEnding"]))
	r.check(got["indentation"] == "    " && contains(inds, got["indentation"]), rule, "indentation", p.pos(f.Pos()), "default indentation is four spaces and is in txt.Indentations", fmt.Sprintf("default indentation %q is not four spaces / not accepted by the parser", got["indentation"]))
	r.check(len(explicit) == 0, rule, "not-explicit", p.pos(f.Pos()), "defaults are not marked explicit (so the file's style can override them)", "a default style value is marked explicit and can never be overridden by the file's own style")
}

// styleLitOf: v is a styleProp built by a constructor function whose body is
// `return styleProp[T]{<param or constant>, <constant>}`: the value (mapped to the call's
// argument) and the explicit flag.
func styleLitOf(v ssa.Value) (value ssa.Value, explicit bool, ok bool) {
	c, isC := plainDeref(v).(*ssa.Call)
	if !isC || c.Call.IsInvoke() || gp == nil {
		return nil, false, false
	}
	g := rawStaticCallee(c)
	if g == nil || !gp.inMod(g) || len(g.Blocks) != 1 {
		return nil, false, false
	}
	rets := plainReturnsOf(g)
	if len(rets) != 1 || len(rets[0].Results) != 1 {
		return nil, false, false
	}
	u, isU := plainDeref(rets[0].Results[0]).(*ssa.UnOp)
	if !isU || u.Op != token.MUL {
		return nil, false, false
	}
	lit, isA := u.X.(*ssa.Alloc)
	if !isA || lit.Referrers() == nil {
		return nil, false, false
	}
	for _, ref := range *lit.Referrers() {
		fa, isFA := ref.(*ssa.FieldAddr)
		if !isFA || fa.Referrers() == nil {
			continue
		}
		for _, r2 := range *fa.Referrers() {
			st, isS := r2.(*ssa.Store)
			if !isS || st.Addr != ssa.Value(fa) {
				continue
			}
			switch fieldName(fa) {
			case "value":
				value = st.Val
				for i, prm := range g.Params {
					if plainDeref(st.Val) == ssa.Value(prm) && i < len(c.Call.Args) {
						value = c.Call.Args[i]
					}
				}
				ok = true
			case "isExplicit":
				if b, isB := constBool(st.Val); isB {
					explicit = b
				} else {
					return nil, false, false
				}
			}
		}
	}
	return value, explicit, ok
}
