package main

import (
	"fmt"
	"go/constant"
	"go/token"
	"go/types"
	"reflect"
	"sort"
	"strings"
	"unicode"

	"golang.org/x/tools/go/ssa"
)

// Rules added after the eleventh (short) seeding round.

func init() {
	extend("C06", "(P06-dummy-date) the dummy record the parser continues with after a rejected headline has no date (NewDate(0, 0, 0), error discarded): no record method the parser uses, and no code of the parser, calls a method on that date.", ruleP06DummyDate)
	extend("C12", "(P12-aggregate-enum) every spelling the `--aggregate` flag admits (the values of its enum tag: DAY, day, d, WEEK, …) is carried by canonicaliseOpts and aggregator() to the aggregator of its kind — evaluated for each admitted value; a spelling that falls through to the default groups the rows by day although a longer period was asked for.", ruleP12AggregateEnum)
	extend("C19", "(P19-blank-args) of the file arguments only blank ones are dropped before they are resolved: the test in removeBlankEntries strips white space and nothing else — a bare `@` is the default bookmark, not an absent argument.", ruleP19BlankArgs)
	extend("C10", "(P07-tail-bytes) the text handed from one batch to the next starts at the byte where the batch's last block starts (the exact original length of its lines, line endings of either kind included): cut elsewhere, the parallel engine reports errors for text that is no line of the file.", ruleP07TailBytes)
}

// evalConstString evaluates a string expression built from the flag's own value (input), string
// constants, slicing with constant bounds and strings.ToLower/ToUpper/TrimSpace.
func evalConstString(v ssa.Value, isInput func(ssa.Value) bool, input string, depth int) (string, bool) {
	if depth > 8 {
		return "", false
	}
	if s, ok := constString(v); ok {
		return s, true
	}
	if isInput(v) {
		return input, true
	}
	switch x := v.(type) {
	case *ssa.Slice:
		s, ok := evalConstString(x.X, isInput, input, depth+1)
		if !ok || x.Max != nil {
			return "", false
		}
		lo, hi := int64(0), int64(len(s))
		if x.Low != nil {
			k, isK := constInt(x.Low)
			if !isK {
				return "", false
			}
			lo = k
		}
		if x.High != nil {
			k, isK := constInt(x.High)
			if !isK {
				return "", false
			}
			hi = k
		}
		if lo < 0 || hi > int64(len(s)) || lo > hi {
			return "", false // would panic; not a value
		}
		return s[lo:hi], true
	case *ssa.Call:
		g := staticCallee(x)
		if g == nil || len(x.Call.Args) != 1 {
			return "", false
		}
		s, ok := evalConstString(x.Call.Args[0], isInput, input, depth+1)
		if !ok {
			return "", false
		}
		switch g.String() {
		case "strings.ToLower":
			return strings.ToLower(s), true
		case "strings.ToUpper":
			return strings.ToUpper(s), true
		case "strings.TrimSpace":
			return strings.TrimSpace(s), true
		}
	case *ssa.ChangeType:
		return evalConstString(x.X, isInput, input, depth+1)
	case *ssa.Convert:
		if isStringType(x.X.Type()) && isStringType(x.Type()) {
			return evalConstString(x.X, isInput, input, depth+1)
		}
	}
	return "", false
}

// P12-aggregate-enum
func ruleP12AggregateEnum(p *Prog, r *Report) {
	const rule = "P12-aggregate-enum"
	canon := p.method("klog/app/cli", "Report", "canonicaliseOpts")
	agg := p.method("klog/app/cli", "Report", "aggregator")
	if agg == nil {
		// (as in P12-hash: whichever function of package cli hands back one of the aggregators)
		for _, f := range p.srcFns {
			if pkgPathOfFn(f) != modPath+"/klog/app/cli" || f.Signature.Results().Len() != 1 || typeNameOf(f.Signature.Results().At(0).Type()) != "Aggregator" {
				continue
			}
			n := 0
			for _, ret := range returnsOf(f) {
				if c, _ := callOf(retResult(ret, 0)); c != nil && staticCallee(c) != nil && strings.HasSuffix(fnBase(staticCallee(c)), "Aggregator") {
					n++
				}
			}
			if n >= 2 {
				agg = f
			}
		}
	}
	nt := p.namedType("klog/app/cli", "Report")
	if !r.anchorFn(rule, canon, "Report.canonicaliseOpts") || !r.anchorFn(rule, agg, "Report.aggregator") {
		return
	}
	if nt == nil {
		r.undecided(rule, "type", "-", "type cli.Report not found")
		return
	}
	st, _ := nt.Underlying().(*types.Struct)
	var enum []string
	fieldName_ := ""
	for i := 0; st != nil && i < st.NumFields(); i++ {
		tag := reflect.StructTag(st.Tag(i))
		if tag.Get("name") == "aggregate" {
			fieldName_ = st.Field(i).Name()
			for _, v := range strings.Split(tag.Get("enum"), ",") {
				enum = append(enum, v)
			}
		}
	}
	if fieldName_ == "" || len(enum) < 5 {
		r.undecided(rule, "enum", p.pos(canon.Pos()), "the --aggregate flag and its enum tag were not found on cli.Report")
		return
	}
	isFieldLoadIn := func(f *ssa.Function) func(ssa.Value) bool {
		return func(v ssa.Value) bool {
			// (a selector that is handed the letter instead of reading the field)
			if par, isPar := v.(*ssa.Parameter); isPar && isStringType(par.Type()) && par.Parent() == f {
				return true
			}
			u, ok := v.(*ssa.UnOp)
			if !ok || u.Op != token.MUL {
				return false
			}
			fa, ok := u.X.(*ssa.FieldAddr)
			return ok && fieldName(fa) == fieldName_ && len(f.Params) > 0 && strip(fa.X) == ssa.Value(f.Params[0])
		}
	}
	// simulate: walk f from its entry with the field holding `cur`; comparisons of the field with
	// string constants decide the branches; returns the block-terminating Return reached and the
	// final field value (stores to the field are applied in order)
	simulate := func(f *ssa.Function, cur string) (*ssa.Return, string, string) {
		isIn := isFieldLoadIn(f)
		b := f.Blocks[0]
		var prev *ssa.BasicBlock
		phiVal := map[*ssa.Phi]ssa.Value{}
		for steps := 0; steps < 200; steps++ {
			for _, in := range b.Instrs {
				switch x := in.(type) {
				case *ssa.Phi:
					for i, pb := range b.Preds {
						if pb == prev {
							phiVal[x] = x.Edges[i]
						}
					}
				case *ssa.Store:
					if fa, ok := x.Addr.(*ssa.FieldAddr); ok && fieldName(fa) == fieldName_ && len(f.Params) > 0 && strip(fa.X) == ssa.Value(f.Params[0]) {
						nv, ok := evalConstString(x.Val, isIn, cur, 0)
						if !ok {
							return nil, cur, "the value stored into " + fieldName_ + " at " + p.instrPos(x) + " is not a function of the flag's text that can be evaluated"
						}
						cur = nv
					}
				}
			}
			switch t := b.Instrs[len(b.Instrs)-1].(type) {
			case *ssa.Return:
				return t, cur, ""
			case *ssa.Jump:
				prev, b = b, b.Succs[0]
			case *ssa.If:
				cond := t.Cond
				neg := false
				for {
					if u, ok := cond.(*ssa.UnOp); ok && u.Op == token.NOT {
						cond, neg = u.X, !neg
						continue
					}
					break
				}
				bo, ok := cond.(*ssa.BinOp)
				if !ok {
					// a condition about something else (chart options …): both ways must agree,
					// which we do not explore — follow the false edge only when the condition
					// does not involve the field
					touches := false
					var ops []*ssa.Value
					for _, op := range t.Operands(ops) {
						if *op != nil && isIn(*op) {
							touches = true
						}
					}
					if touches {
						return nil, cur, "a branch on " + fieldName_ + " at " + p.instrPos(t) + " is not a comparison with a constant"
					}
					prev, b = b, b.Succs[1]
					continue
				}
				l, okL := evalConstString(bo.X, isIn, cur, 0)
				rr, okR := evalConstString(bo.Y, isIn, cur, 0)
				if !okL || !okR || (bo.Op != token.EQL && bo.Op != token.NEQ) {
					// not about the field: either edge leads on; prefer the one that does not return at once
					if isIn(bo.X) || isIn(bo.Y) {
						return nil, cur, "a branch on " + fieldName_ + " at " + p.instrPos(t) + " cannot be evaluated"
					}
					prev, b = b, b.Succs[1]
					continue
				}
				res := (l == rr) == (bo.Op == token.EQL)
				if neg {
					res = !res
				}
				prev = b
				if res {
					b = b.Succs[0]
				} else {
					b = b.Succs[1]
				}
			default:
				return nil, cur, "unexpected control flow in " + f.Name()
			}
		}
		return nil, cur, "did not finish"
	}
	kindOf := map[byte]string{'d': "Day", 'w': "Week", 'm': "Month", 'q': "Quarter", 'y': "Year"}
	n := 0
	for _, v := range enum {
		want := "Day"
		if v != "" {
			k, known := kindOf[strings.ToLower(v)[0]]
			if !known {
				r.undecided(rule, "value:"+v, p.pos(canon.Pos()), "enum value %q of --aggregate is of no known kind", v)
				continue
			}
			want = k
		}
		n++
		key := fmt.Sprintf("value:%q", v)
		_, canonical, why := simulate(canon, v)
		if why != "" {
			r.undecided(rule, key, p.pos(canon.Pos()), "%s", why)
			continue
		}
		ret, _, why2 := simulate(agg, canonical)
		if why2 != "" || ret == nil || len(ret.Results) != 1 {
			r.undecided(rule, key, p.pos(agg.Pos()), "aggregator() could not be evaluated for %q: %s", canonical, why2)
			continue
		}
		got := "?"
		if c, _ := callOf(ret.Results[0]); c != nil && staticCallee(c) != nil {
			got = strings.TrimSuffix(strings.TrimPrefix(fnBase(staticCallee(c)), "New"), "Aggregator")
		}
		r.check(got == want, rule, key, p.instrPos(ret), fmt.Sprintf("--aggregate %s -> %q -> %s aggregator", v, canonical, got), fmt.Sprintf("--aggregate %s is admitted by the flag's enum, becomes %q and selects the %s aggregator instead of the %s one: the report groups its rows by the wrong period", v, canonical, strings.ToLower(got), strings.ToLower(want)))
	}
	if n < 10 {
		r.undecided(rule, "floor", "-", "evaluated %d enum values of --aggregate, expected at least 10", n)
	}
}

// P19-blank-args
func ruleP19BlankArgs(p *Prog, r *Report) {
	const rule = "P19-blank-args"
	f := p.fn("klog/app", "removeBlankEntries")
	if f == nil {
		// inlined into the retrievers: nothing to say here (P19-resolve sees the arguments)
		r.ok(rule, "absent", "-", "no separate blank-argument filter")
		return
	}
	markAnchor(f)
	n := 0
	// every way an argument is left out of the result: an edge back to the loop header that does
	// not pass the append
	var appendBlocks = map[*ssa.BasicBlock]bool{}
	eachInstr(f, func(in ssa.Instruction) {
		if c, ok := in.(*ssa.Call); ok {
			if bi, isB := c.Call.Value.(*ssa.Builtin); isB && bi.Name() == "append" {
				appendBlocks[c.Block()] = true
			}
		}
	})
	if len(appendBlocks) == 0 {
		r.undecided(rule, "shape", p.pos(f.Pos()), "removeBlankEntries does not build its result by appending")
		return
	}
	for _, b := range f.Blocks {
		iff, ok := b.Instrs[len(b.Instrs)-1].(*ssa.If)
		if !ok || !inLoopBlock(b) {
			continue
		}
		for si, succ := range b.Succs {
			// does this edge skip the append? (it reaches the loop header again without it)
			if appendBlocks[succ] || reachesAppendFirst(succ, appendBlocks) {
				continue
			}
			if succ != b && !reachableFrom(succ, nil)[b] {
				continue // the edge leaves the loop
			}
			gs := flattenCond(iff.Cond, si == 0, iff)
			if isLoopGuard(gs[0]) {
				continue
			}
			n++
			key := fmt.Sprintf("skip#%d", n)
			bo, isB := gs[0].Cond.(*ssa.BinOp)
			good, why := false, "the condition is not `strings.Trim…(argument, blanks) == \"\"`"
			if isB && ((bo.Op == token.EQL && gs[0].Pol) || (bo.Op == token.NEQ && !gs[0].Pol)) {
				x, y := bo.X, bo.Y
				if s, isS := constString(x); isS && s == "" {
					x, y = y, x
				}
				// len(strings.Trim…(x, …)) == 0 says the same
				if k, isK := constInt(y); isK && k == 0 {
					if lc, _ := callOf(strip(x)); lc != nil {
						if bi, isBi := lc.Common().Value.(*ssa.Builtin); isBi && bi.Name() == "len" && len(lc.Common().Args) == 1 && isStringType(lc.Common().Args[0].Type()) {
							x, y = lc.Common().Args[0], emptyStringConst
						}
					}
				}
				if s, isS := constString(y); isS && s == "" {
					if c, _ := callOf(strip(x)); c != nil && staticCallee(c) != nil {
						switch staticCallee(c).String() {
						case "strings.TrimSpace":
							good = rangeElemOf(unconvString(c.Common().Args[0])) != nil
						case "strings.TrimLeft", "strings.TrimRight", "strings.Trim":
							cut, isC := constString(c.Common().Args[1])
							allSpace := isC && cut != ""
							for _, ch := range cut {
								if !unicode.IsSpace(ch) {
									allSpace = false
									why = fmt.Sprintf("the characters stripped before the test (%q) are not all white space", cut)
								}
							}
							good = allSpace && rangeElemOf(unconvString(c.Common().Args[0])) != nil
						}
					}
				}
			}
			r.check(good, rule, key, p.instrPos(iff), "an argument is dropped only when it consists of white space", "removeBlankEntries drops an argument that is not blank: "+why+" — a bare `@` (the default bookmark) or a file of such a name is silently left out, or standard input is read in its place")
		}
	}
	if n == 0 {
		r.undecided(rule, "floor", p.pos(f.Pos()), "no skip edge found in removeBlankEntries")
	}
}

func unconvString(v ssa.Value) ssa.Value {
	for i := 0; i < 4; i++ {
		switch x := v.(type) {
		case *ssa.Convert:
			v = x.X
		case *ssa.ChangeType:
			v = x.X
		default:
			return v
		}
	}
	return v
}

// reachesAppendFirst: from b an append block is reached before the loop is re-entered.
func reachesAppendFirst(b *ssa.BasicBlock, appendBlocks map[*ssa.BasicBlock]bool) bool {
	seen := map[*ssa.BasicBlock]bool{}
	var walk func(x *ssa.BasicBlock) bool
	walk = func(x *ssa.BasicBlock) bool {
		if appendBlocks[x] {
			return true
		}
		if seen[x] {
			return false
		}
		seen[x] = true
		// a loop header (target of a back edge) ends the pass
		for _, pb := range x.Preds {
			if x.Dominates(pb) {
				return false
			}
		}
		for _, s := range x.Succs {
			if walk(s) {
				return true
			}
		}
		return false
	}
	return walk(b)
}

var emptyStringConst = ssa.NewConst(constant.MakeString(""), types.Typ[types.String])

// ---------------------------------------------------------------------------------------------
// simCmpGeneric — the interprocedural sibling of simulateDateCmp / simTimeCmp: runs f, whose
// parameters stand for two objects a (side +1) and b (side −1) or for keys read from them, under
// the assumption sign[name] = sgn(key_name(a) − key_name(b)) for every key name. Keys are the
// accessor calls / own fields named in sign, and "offset" for MidnightOffset().InMinutes(). A
// call of a module function is run the same way with its parameters bound to the objects or keys
// it is handed (a three-way compareTo, a compareInts(x, y int)). The result is a bool (1/0) or an
// int; ok=false when anything else decides.
type cmpSym struct {
	obj  bool // the object itself; otherwise a key read from it
	side int
	name string
}

func simCmpGeneric(f *ssa.Function, env map[ssa.Value]cmpSym, sign map[string]int, depth int) (int64, bool) {
	if depth > 4 || f == nil || len(f.Blocks) == 0 {
		return 0, false
	}
	unwrap := func(v ssa.Value) ssa.Value {
		for i := 0; i < 6; i++ {
			switch x := v.(type) {
			case *ssa.MakeInterface:
				v = x.X
			case *ssa.ChangeInterface:
				v = x.X
			case *ssa.ChangeType:
				v = x.X
			default:
				return v
			}
		}
		return v
	}
	objOf := func(v ssa.Value) (cmpSym, bool) {
		s, ok := env[unwrap(v)]
		return s, ok && s.obj
	}
	var keyOf func(v ssa.Value) (cmpSym, bool)
	keyOf = func(v ssa.Value) (cmpSym, bool) {
		v = unwrap(v)
		if s, ok := env[v]; ok && !s.obj {
			return s, true
		}
		switch x := v.(type) {
		case *ssa.Call:
			n, recv, args, _ := methodCallOf(x)
			if recv == nil || len(args) != 0 {
				return cmpSym{}, false
			}
			if o, ok := objOf(recv); ok {
				if _, known := sign[n]; known {
					return cmpSym{false, o.side, n}, true
				}
			}
			// a.MidnightOffset().InMinutes()
			if n == "InMinutes" {
				if c2, ok := recv.(*ssa.Call); ok {
					n2, recv2, args2, _ := methodCallOf(c2)
					if n2 == "MidnightOffset" && len(args2) == 0 && recv2 != nil {
						if o, ok := objOf(recv2); ok {
							if _, known := sign["offset"]; known {
								return cmpSym{false, o.side, "offset"}, true
							}
						}
					}
				}
			}
		case *ssa.UnOp:
			if x.Op == token.MUL {
				if fa, ok := x.X.(*ssa.FieldAddr); ok {
					if o, ok := objOf(fa.X); ok {
						acc := map[string]string{"year": "Year", "month": "Month", "day": "Day"}[fieldName(fa)]
						if _, known := sign[acc]; known && acc != "" {
							return cmpSym{false, o.side, acc}, true
						}
					}
				}
			}
		}
		return cmpSym{}, false
	}
	phiVal := map[*ssa.Phi]ssa.Value{}
	var eval func(v ssa.Value, d int) (int64, bool)
	eval = func(v ssa.Value, d int) (int64, bool) {
		if d > 10 {
			return 0, false
		}
		if bv, isB := constBool(v); isB {
			if bv {
				return 1, true
			}
			return 0, true
		}
		if k, isK := constInt(v); isK {
			return k, true
		}
		switch x := v.(type) {
		case *ssa.UnOp:
			switch x.Op {
			case token.NOT:
				y, ok := eval(x.X, d+1)
				return 1 - y, ok
			case token.SUB:
				y, ok := eval(x.X, d+1)
				return -y, ok
			}
		case *ssa.Phi:
			if e, known := phiVal[x]; known {
				return eval(e, d+1)
			}
		case *ssa.Call:
			g := rawStaticCallee(x)
			if g == nil || gp == nil || !gp.inMod(g) || len(g.Blocks) == 0 {
				return 0, false
			}
			if _, isKey := keyOf(x); isKey {
				return 0, false // a key on its own has no value
			}
			sub := map[ssa.Value]cmpSym{}
			bound := 0
			for i, arg := range x.Call.Args {
				if i >= len(g.Params) {
					break
				}
				if o, ok := objOf(arg); ok {
					sub[g.Params[i]] = o
					bound++
				} else if k, ok := keyOf(arg); ok {
					sub[g.Params[i]] = k
					bound++
				}
			}
			if bound < 2 {
				return 0, false
			}
			return simCmpGeneric(g, sub, sign, depth+1)
		case *ssa.BinOp:
			var l, rr int64
			ka, okA := keyOf(x.X)
			kb, okB := keyOf(x.Y)
			if okA && okB {
				if ka.name != kb.name || ka.side == kb.side {
					return 0, false
				}
				l, rr = int64(sign[ka.name]*ka.side), 0
			} else if okA || okB {
				return 0, false // a key against something that is not the other object's key
			} else {
				var ok1, ok2 bool
				l, ok1 = eval(x.X, d+1)
				rr, ok2 = eval(x.Y, d+1)
				if !ok1 || !ok2 {
					return 0, false
				}
			}
			res := false
			switch x.Op {
			case token.EQL:
				res = l == rr
			case token.NEQ:
				res = l != rr
			case token.LSS:
				res = l < rr
			case token.LEQ:
				res = l <= rr
			case token.GTR:
				res = l > rr
			case token.GEQ:
				res = l >= rr
			default:
				return 0, false
			}
			if res {
				return 1, true
			}
			return 0, true
		}
		return 0, false
	}
	cur := f.Blocks[0]
	var prev *ssa.BasicBlock
	for steps := 0; steps < 64; steps++ {
		for _, in := range cur.Instrs {
			ph, isPhi := in.(*ssa.Phi)
			if !isPhi {
				break
			}
			for i, pb := range cur.Preds {
				if pb == prev {
					phiVal[ph] = ph.Edges[i]
				}
			}
		}
		switch t := cur.Instrs[len(cur.Instrs)-1].(type) {
		case *ssa.Return:
			if len(t.Results) != 1 {
				return 0, false
			}
			return eval(t.Results[0], 0)
		case *ssa.If:
			c, ok := eval(t.Cond, 0)
			if !ok {
				return 0, false
			}
			prev = cur
			if c != 0 {
				cur = cur.Succs[0]
			} else {
				cur = cur.Succs[1]
			}
		case *ssa.Jump:
			prev, cur = cur, cur.Succs[0]
		default:
			return 0, false
		}
	}
	return 0, false
}

// ---- P09-tostring: what a duration is rendered as, evaluated per public method ----------------
//
// renderAlt is one way the text handed to Format comes about: under DecimalDuration (decimal == 1),
// without it (0) or regardless of it (-1), as the minutes ("minutes") or as the named notation
// method of the value ("ToString", "ToStringWithSign"); of is the value it is the notation of.
type renderAlt struct {
	decimal int
	kind    string
	of      ssa.Value
}

// durationRenderAlts follows v through module helpers (one binding level per call: parameters are
// bound to the arguments of the call entered) to the notation calls it can stand for. A helper's
// return is infeasible — and skipped — when it is guarded by a boolean parameter bound to the
// opposite constant; a parameter of function type is followed into the bound method value
// (d.ToString) or the function literal given for it. ok=false: something else flows in.
func durationRenderAlts(v ssa.Value, bind map[*ssa.Parameter]ssa.Value, depth int) ([]renderAlt, bool) {
	if depth > 6 {
		return nil, false
	}
	resolve := func(x ssa.Value) ssa.Value {
		x = strip(x)
		if d := deref(x); d != nil {
			x = strip(d)
		}
		if prm, isP := x.(*ssa.Parameter); isP {
			if b, bound := bind[prm]; bound {
				return b
			}
		}
		return x
	}
	v = strip(v)
	if ph, isPhi := v.(*ssa.Phi); isPhi {
		var out []renderAlt
		for _, e := range ph.Edges {
			a, ok := durationRenderAlts(e, bind, depth+1)
			if !ok {
				return nil, false
			}
			out = append(out, a...)
		}
		return out, true
	}
	c, idx := callOf(v)
	if c == nil || idx != 0 {
		return nil, false
	}
	if g := staticCallee(c); g != nil && g.String() == "strconv.Itoa" {
		if n, recv, _, _ := methodCall(c.Common().Args[0]); n == "InMinutes" && recv != nil {
			return []renderAlt{{-1, "minutes", resolve(recv)}}, true
		}
		return nil, false
	}
	if n, recv, args, _ := methodCallOf(c); (n == "ToString" || n == "ToStringWithSign") && recv != nil && len(args) == 0 {
		return []renderAlt{{-1, n, resolve(recv)}}, true
	}
	// a call of a function value: a parameter bound to d.ToString / d.ToStringWithSign or a literal
	if !c.Common().IsInvoke() && staticCallee(c) == nil {
		fv := resolve(c.Common().Value)
		if mc, isMC := fv.(*ssa.MakeClosure); isMC {
			fn, _ := mc.Fn.(*ssa.Function)
			if fn != nil && strings.HasSuffix(fn.Name(), "$bound") && len(mc.Bindings) == 1 {
				n := strings.TrimSuffix(fn.Name(), "$bound")
				if n == "ToString" || n == "ToStringWithSign" {
					rv := strip(mc.Bindings[0])
					if d := deref(rv); d != nil {
						rv = strip(d)
					}
					return []renderAlt{{-1, n, rv}}, true
				}
				return nil, false
			}
		}
		return nil, false
	}
	g := staticCallee(c)
	if g == nil || len(g.Blocks) == 0 || !strings.HasPrefix(pkgPathOfFn(g), modPath) {
		return nil, false
	}
	inner := map[*ssa.Parameter]ssa.Value{}
	for i, prm := range g.Params {
		if i < len(c.Common().Args) {
			a := c.Common().Args[i]
			if ap, isP := strip(a).(*ssa.Parameter); isP {
				if b, bound := bind[ap]; bound {
					a = b
				}
			}
			inner[prm] = a
		}
	}
	var out []renderAlt
	for _, ret := range returnsOf(g) {
		decimal, feasible := -1, true
		for _, gd := range guardsOf(ret.Block()) {
			if _, fld := fieldLoad(gd.Cond); fld == "DecimalDuration" {
				decimal = 0
				if gd.Pol {
					decimal = 1
				}
				continue
			}
			cv := strip(gd.Cond)
			if d := deref(cv); d != nil {
				cv = strip(d)
			}
			if prm, isP := cv.(*ssa.Parameter); isP {
				if b, isB := constBool(inner[prm]); inner[prm] != nil && isB {
					if b != gd.Pol {
						feasible = false
					}
					continue
				}
			}
			return nil, false // a guard this evaluation cannot read
		}
		if !feasible {
			continue
		}
		alts, ok := durationRenderAlts(retResult(ret, 0), inner, depth+1)
		if !ok {
			return nil, false
		}
		for _, a := range alts {
			if a.decimal == -1 {
				a.decimal = decimal
			} else if decimal != -1 && a.decimal != decimal {
				continue // contradictory nesting
			}
			out = append(out, a)
		}
	}
	return out, true
}

// durationRenderedRight: the text f hands to Format is, for f's own duration parameter, the minutes
// under DecimalDuration and notation `want` otherwise — nothing else.
func durationRenderedRight(f *ssa.Function, want string) bool {
	if f == nil || len(f.Params) < 2 {
		return false
	}
	rets := returnsOf(f)
	if len(rets) == 0 {
		return false
	}
	for _, ret := range rets {
		c, _ := callOf(retResult(ret, 0))
		if c == nil || staticCallee(c) == nil || fnBase(staticCallee(c)) != "Format" || len(c.Common().Args) < 2 {
			return false
		}
		alts, ok := durationRenderAlts(c.Common().Args[1], map[*ssa.Parameter]ssa.Value{}, 0)
		if !ok || len(alts) == 0 {
			return false
		}
		seenDec, seenPlain := false, false
		for _, a := range alts {
			own := a.of == ssa.Value(f.Params[1])
			if !own {
				if d := deref(a.of); d == nil || d != ssa.Value(f.Params[1]) {
					return false
				}
			}
			switch {
			case a.decimal == 1 && a.kind == "minutes":
				seenDec = true
			case a.decimal == 0 && a.kind == want:
				seenPlain = true
			default:
				return false
			}
		}
		if !seenDec || !seenPlain {
			return false
		}
	}
	return true
}

// P06-dummy-date — after a rejected headline the parser goes on with a dummy record whose date
// comes from a NewDate call with its error discarded (NewDate(0, 0, 0): the date is nil). Every
// record method the parser calls (and the record methods those call on the same receiver) must
// therefore not call a method on the record's date, and the parser must not call one on Date()
// of its record: a nil interface there crashes on a text with a faulty headline.
func ruleP06DummyDate(p *Prog, r *Report) {
	const rule = "P06-dummy-date"
	parse := p.fn("klog/parser", "parse")
	if !r.anchorFn(rule, parse, "parser.parse") {
		return
	}
	var premise ssa.Instruction
	names := map[string]bool{}
	for _, f := range withAnons(parse) {
		f := f
		eachInstr(f, func(in ssa.Instruction) {
			c, ok := in.(ssa.CallInstruction)
			if !ok {
				return
			}
			if g := staticCallee(c); g != nil && fnBase(g) == "NewRecord" && pkgPathOfFn(g) == modPath+"/klog" && len(c.Common().Args) == 1 {
				if dc, idx := callOf(c.Common().Args[0]); dc != nil && idx == 0 && staticCallee(dc) != nil && fnBase(staticCallee(dc)) == "NewDate" {
					if cl, _ := p.classifyErr(dc); cl != errChecked {
						premise = in
					}
				}
			}
			if c.Common().IsInvoke() && typeNameOf(c.Common().Value.Type()) == "Record" {
				names[c.Common().Method.Name()] = true
			}
			// a method of the record's Date() called by the parser itself
			if c.Common().IsInvoke() {
				if n, recv, _, _ := methodCall(c.Common().Value); n == "Date" && recv != nil && typeNameOf(recv.Type()) == "Record" {
					if p.nilnessAt(c.Block(), c.Common().Value, 0) != nnNonNil {
						r.bad(rule, "parse:Date()."+c.Common().Method.Name(), p.instrPos(c), "the parser calls %s on the date of its record, which is nil for the dummy record that stands in after a rejected headline: klog crashes on such a text", c.Common().Method.Name())
					}
				}
			}
		})
	}
	if premise == nil {
		r.ok(rule, "premise", p.pos(parse.Pos()), "the parser builds no record from a date whose construction error is discarded")
		return
	}
	if len(names) < 3 {
		r.undecided(rule, "floor", p.pos(parse.Pos()), "only %d record methods found in use by the parser, expected at least 3", len(names))
		return
	}
	var order []string
	for n := range names {
		order = append(order, n)
	}
	sort.Strings(order)
	seen := map[*ssa.Function]bool{}
	var visit func(m *ssa.Function, via string)
	visit = func(m *ssa.Function, via string) {
		if m == nil || seen[m] || len(m.Params) == 0 {
			return
		}
		seen[m] = true
		bad := false
		eachInstr(m, func(in ssa.Instruction) {
			c, ok := in.(ssa.CallInstruction)
			if !ok {
				return
			}
			if c.Common().IsInvoke() {
				if _, fld := fieldLoad(c.Common().Value); fld == "date" && typeNameOf(c.Common().Value.Type()) == "Date" {
					if p.nilnessAt(c.Block(), c.Common().Value, 0) != nnNonNil && !dateFieldTestedNonNil(c.Block()) {
						bad = true
						r.bad(rule, "record."+m.Name()+":date."+c.Common().Method.Name(), p.instrPos(c), "record.%s (used by the parser%s) calls %s on the record's date, which is nil for the dummy record that stands in after a rejected headline: klog crashes on such a text", m.Name(), via, c.Common().Method.Name())
					}
				}
				return
			}
			if g := staticCallee(c); g != nil && g.Signature.Recv() != nil && len(c.Common().Args) > 0 {
				a0 := strip(c.Common().Args[0])
				if a0 == ssa.Value(m.Params[0]) && typeNameOf(derefType(g.Signature.Recv().Type())) == "record" {
					visit(g, " through "+m.Name())
				}
			}
		})
		if !bad {
			r.ok(rule, "record."+m.Name(), p.pos(m.Pos()), "calls no method on the record's date")
		}
	}
	for _, n := range order {
		visit(p.method("klog", "record", n), "")
	}
}

// dateFieldTestedNonNil: block b is only reached where a test `<record>.date != nil` held (or
// `== nil` failed) — another load of the same field than the one used, which nilnessAt does not
// correlate.
func dateFieldTestedNonNil(b *ssa.BasicBlock) bool {
	for _, g := range guardsOf(b) {
		bo, ok := strip(g.Cond).(*ssa.BinOp)
		if !ok || (bo.Op != token.NEQ && bo.Op != token.EQL) {
			continue
		}
		isNil := func(v ssa.Value) bool {
			k, isK := strip(v).(*ssa.Const)
			return isK && k.Value == nil
		}
		isDate := func(v ssa.Value) bool {
			_, fld := fieldLoad(v)
			return fld == "date"
		}
		if !((isDate(bo.X) && isNil(bo.Y)) || (isDate(bo.Y) && isNil(bo.X))) {
			continue
		}
		if (bo.Op == token.NEQ) == g.Pol {
			return true
		}
	}
	return false
}
