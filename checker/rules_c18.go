package main

// C18 — colour and styling never change what is printed.

import (
	"fmt"
	"go/token"
	"go/types"
	"sort"
	"strings"

	"golang.org/x/tools/go/ssa"
)

func init() {
	register(&propSpec{
		id:    "C18",
		level: "other",
		explain: "Decided on source constants and the SSA program: (P18-sgr) every byte sequence a Styler can emit — reset, foreground/background prefix + every colour code of every theme + suffix, underline, bold — fully matches the pattern StripAllAnsiSequences removes and contains no '%' (writer's tables vs. reader's pattern); " +
			"(P18-format) Format(t) = seqs + t + reset, FormatAndRestore adds only the previous style's sequences, seqs() concatenates only Styler fields and table entries, and the summary serialiser replaces each tag by a styled copy of that very match; (P18-width) table cells are measured as rune count of the ANSI-stripped text and padded by that measure; print --with-totals measures the unstyled value; " +
			"(P18-nostyle-applied) every command embedding NoStyleArgs applies it before obtaining the serialiser and Apply installs the no_colour styler exactly when the flag is set; (P18-confine) Styler fields are only read by Styler's own methods. " +
			"Not covered: NO_COLOR / configuration plumbing beyond NoStyleArgs.Apply, East-Asian display widths, a general taint analysis of styled strings into measuring sinks (tier B, not built).",
		rules: []ruleFn{ruleP18Sgr, ruleP18Format, ruleP18Width, ruleP18Cells, ruleP18PrintVerbatim, ruleP18NoStyleApplied, ruleP18Confine},
	})
}

// stylerLiteral: constant string fields stored into a Styler composite literal in f.
func stylerLiteralFields(f *ssa.Function) map[string]string {
	out := map[string]string{}
	found := false
	eachInstr(f, func(in ssa.Instruction) {
		// a Styler literal: every string field that is not set is the empty sequence
		if a, isA := in.(*ssa.Alloc); isA && typeNameOf(a.Type()) == "Styler" {
			if st, isS := a.Type().Underlying().(*types.Pointer).Elem().Underlying().(*types.Struct); isS && !found {
				found = true
				for i := 0; i < st.NumFields(); i++ {
					if isStringType(st.Field(i).Type()) {
						if _, set := out[st.Field(i).Name()]; !set {
							out[st.Field(i).Name()] = ""
						}
					}
				}
			}
		}
		st, ok := in.(*ssa.Store)
		if !ok {
			return
		}
		fa, ok := st.Addr.(*ssa.FieldAddr)
		if !ok || typeNameOf(fa.X.Type()) != "Styler" {
			return
		}
		if s, isS := constString(st.Val); isS {
			out[fieldName(fa)] = s
		} else if isStringType(st.Val.Type()) {
			out[fieldName(fa)] = "%non-constant%" // rejected by the check (contains a %)
		}
	})
	return out
}

// mapLiteralStrings: values of a map literal (MakeMap + MapUpdates with constant values).
func mapLiteralStrings(v ssa.Value) ([]string, bool) {
	mm, ok := strip(v).(*ssa.MakeMap)
	if !ok {
		return nil, false
	}
	var out []string
	for _, ref := range *mm.Referrers() {
		switch x := ref.(type) {
		case *ssa.MapUpdate:
			s, isS := constString(x.Value)
			if !isS {
				return nil, false
			}
			out = append(out, s)
		case *ssa.ChangeType, *ssa.Call, *ssa.Store, *ssa.MakeInterface:
		}
	}
	sort.Strings(out)
	return out, true
}

// stylerLiterals: the Styler composite literals written in f, each with its string fields
// (unset ones are the empty sequence) and, when its colour table is a literal too, the codes.
type stylerLit struct {
	fields map[string]string
	codes  []string
}

func stylerLiterals(f *ssa.Function) []stylerLit {
	var out []stylerLit
	eachInstr(f, func(in ssa.Instruction) {
		a, isA := in.(*ssa.Alloc)
		if !isA || typeNameOf(a.Type()) != "Styler" {
			return
		}
		st, isS := a.Type().Underlying().(*types.Pointer).Elem().Underlying().(*types.Struct)
		if !isS {
			return
		}
		lit := stylerLit{fields: map[string]string{}}
		for i := 0; i < st.NumFields(); i++ {
			if isStringType(st.Field(i).Type()) {
				lit.fields[st.Field(i).Name()] = ""
			}
		}
		nStores := 0
		for _, ref := range *a.Referrers() {
			fa, isFA := ref.(*ssa.FieldAddr)
			if !isFA {
				continue
			}
			for _, r2 := range *fa.Referrers() {
				sto, isSt := r2.(*ssa.Store)
				if !isSt || sto.Addr != ssa.Value(fa) {
					continue
				}
				nStores++
				if s, isStr := constString(sto.Val); isStr {
					lit.fields[fieldName(fa)] = s
				} else if isStringType(sto.Val.Type()) {
					lit.fields[fieldName(fa)] = "%non-constant%" // rejected by the check (contains a %)
				} else if codes, ok := mapLiteralStrings(sto.Val); ok {
					lit.codes = codes
				}
			}
		}
		if nStores == 0 && len(*a.Referrers()) > 0 {
			// the zero literal Styler{}: still a theme (no_colour), all fields empty
		}
		out = append(out, lit)
	})
	return out
}

func ruleP18Sgr(p *Prog, r *Report) {
	const rule = "P18-sgr"
	g := p.global("klog/app/cli/terminalformat", "ansiSequencePattern")
	if g == nil {
		r.undecided(rule, "pattern", "-", "terminalformat.ansiSequencePattern not found")
		return
	}
	pat, ok := p.regexOfGlobal(g)
	if !ok {
		r.undecided(rule, "pattern", p.pos(g.Pos()), "ansiSequencePattern is not initialised once with regexp.MustCompile(constant)")
		return
	}
	// StripAllAnsiSequences removes exactly the matches of that pattern
	strip0 := p.fn("klog/app/cli/terminalformat", "StripAllAnsiSequences")
	if r.anchorFn(rule, strip0, "StripAllAnsiSequences") {
		ok := false
		for _, ret := range returnsOf(strip0) {
			// (with an empty replacement the literal and the expanding variant are the same)
			if n, recv, args, _ := methodCall(retResult(ret, 0)); (n == "ReplaceAllString" || n == "ReplaceAllLiteralString") && len(args) == 2 {
				if u, isU := strip(recv).(*ssa.UnOp); isU && u.X == ssa.Value(g) {
					if s, isS := constString(args[1]); isS && s == "" && strip(args[0]) == ssa.Value(strip0.Params[0]) {
						ok = true
					}
				}
			}
		}
		r.check(ok, rule, "strip", p.pos(strip0.Pos()), "StripAllAnsiSequences deletes every match of "+pat, "StripAllAnsiSequences does not delete exactly the matches of the ANSI pattern")
	}
	// … and nothing else: whatever the pattern can match is made of whole control sequences
	// (ECMA-48: ESC [, parameter bytes 0x30-0x3F, intermediate bytes 0x20-0x2F, one final byte
	// 0x40-0x7E), so a match never extends into the visible text that follows a sequence
	const csiRun = `(\x1b\[[0-9:;<=>?]*[ -/]*[@-~])+`
	if inc, w, err := reIncluded(pat, csiRun); err != nil {
		r.undecided(rule, "pattern:only-sequences", p.pos(g.Pos()), "cannot evaluate pattern: %v", err)
	} else {
		r.check(inc, rule, "pattern:only-sequences", p.pos(g.Pos()), "every match of the strip pattern is a run of complete control sequences", fmt.Sprintf("the strip pattern %s also matches %q, which is not a run of complete control sequences: visible text next to a sequence is removed from the 'unstyled' text and from the measured cell widths", pat, w))
	}
	check := func(key, seq, pos string) {
		if seq == "" {
			r.ok(rule, key, pos, "empty sequence")
			return
		}
		m, err := reMatchesFully(pat, seq)
		if err != nil {
			r.undecided(rule, key, pos, "cannot evaluate pattern: %v", err)
			return
		}
		if strings.Contains(seq, "%") {
			r.bad(rule, key, pos, "sequence %q contains a %% (it passes through fmt.Sprintf format strings)", seq)
			return
		}
		r.check(m, rule, key, pos, fmt.Sprintf("%q is removed by the strip pattern", seq), fmt.Sprintf("%q is emitted by the styler but is not (completely) matched by the strip pattern %s: it stays in the 'unstyled' text and in measured widths", seq, pat))
	}
	newStyler := p.fn("klog/app/cli/terminalformat", "NewStyler")
	if !r.anchorFn(rule, newStyler, "terminalformat.NewStyler") {
		return
	}
	nThemes := 0
	// a theme: every string field it carries is a sequence the styler may emit — except the three
	// that are only parts of the colour sequences, which are checked put together with every
	// colour code of the theme's table
	parts := map[string]bool{"foregroundPrefix": true, "backgroundPrefix": true, "colourSuffix": true}
	evalTheme := func(theme string, fl map[string]string, codes []string, pos string) {
		for _, k := range sortedKeys(fl) {
			if !parts[k] || len(codes) == 0 {
				check(theme+":"+k, fl[k], pos)
			}
		}
		seen := map[string]bool{}
		for _, code := range codes {
			if seen[code] {
				continue
			}
			seen[code] = true
			check(fmt.Sprintf("%s:fg:%s", theme, code), fl["foregroundPrefix"]+code+fl["colourSuffix"], pos)
			check(fmt.Sprintf("%s:bg:%s", theme, code), fl["backgroundPrefix"]+code+fl["colourSuffix"], pos)
		}
	}
	// themes written out in NewStyler itself (no_colour; a theme whose constructor was inlined)
	lits := stylerLiterals(newStyler)
	for i, lit := range lits {
		nThemes++
		name := "NewStyler"
		if len(lits) > 1 {
			name = fmt.Sprintf("NewStyler#%d", i+1)
		}
		if len(lits) == 1 || len(lit.codes) == 0 {
			name = "NewStyler"
		}
		evalTheme(name, lit.fields, lit.codes, p.pos(newStyler.Pos()))
	}
	// constructors called from NewStyler with a table
	eachInstr(newStyler, func(in ssa.Instruction) {
		c, ok := in.(ssa.CallInstruction)
		if !ok {
			return
		}
		ctor := staticCallee(c)
		if ctor == nil || !p.inMod(ctor) || typeNameOf(c.Common().Signature().Results().At(0).Type()) != "Styler" {
			return
		}
		fl := stylerLiteralFields(ctor)
		if len(fl) == 0 {
			r.undecided(rule, fnBase(ctor), p.instrPos(c), "styler constructor %s does not build a literal of constants", fnBase(ctor))
			return
		}
		codes, ok2 := mapLiteralStrings(c.Common().Args[0])
		if !ok2 {
			r.undecided(rule, fnBase(ctor)+":codes", p.instrPos(c), "colour table passed to %s is not a literal of constants", fnBase(ctor))
			return
		}
		nThemes++
		theme := fmt.Sprintf("%s@%s", fnBase(ctor), p.instrPos(c))
		// (A field that is added later, say a screen-control sequence that only the coloured
		// themes have, is held to the same standard: what a theme emits and the unstyled output
		// lacks must be removable.)
		evalTheme(theme, fl, codes, p.instrPos(c))
	})
	if nThemes < 4 {
		r.undecided(rule, "floor:themes", "-", "evaluated %d themes, expected 4 (no_colour, dark, light, basic)", nThemes)
	}
}

func ruleP18Format(p *Prog, r *Report) {
	const rule = "P18-format"
	format := p.method("klog/app/cli/terminalformat", "Styler", "Format")
	far := p.method("klog/app/cli/terminalformat", "Styler", "FormatAndRestore")
	seqs := p.method("klog/app/cli/terminalformat", "Styler", "seqs")
	if !r.anchorFn(rule, format, "Styler.Format") || !r.anchorFn(rule, far, "Styler.FormatAndRestore") || !r.anchorFn(rule, seqs, "Styler.seqs") {
		return
	}
	var describe func(f *ssa.Function, v ssa.Value) []string
	describeDepth := 0
	describe = func(f *ssa.Function, v ssa.Value) []string {
		var leaves []ssa.Value
		concatLeaves(v, &leaves, 0)
		var out []string
		for _, l := range leaves {
			if s, isS := constString(l); isS {
				if s != "" {
					out = append(out, fmt.Sprintf("const(%q)", s))
				}
				continue
			}
			// a transparent helper that assembles a part: the union of what its returns contain
			if hc, _ := l.(*ssa.Call); hc != nil && isHelper(rawStaticCallee(hc)) {
				h := originFn(rawStaticCallee(hc))
				vcall{call: hc, chain: []ssa.CallInstruction{hc}}.run(func() {
					for _, hr := range returnsOf(h) {
						out = append(out, describe(h, retResult(hr, 0))...)
					}
				})
				continue
			}
			if prm, ok := strip(l).(*ssa.Parameter); ok {
				out = append(out, "param:"+prm.Name())
				continue
			}
			if c, idx := callOf(l); c != nil && idx == 0 && staticCallee(c) != nil {
				recv := "?"
				if len(c.Common().Args) > 0 {
					if pr, ok := deref(c.Common().Args[0]).(*ssa.Parameter); ok {
						recv = pr.Name()
					}
				}
				out = append(out, recv+"."+fnBase(staticCallee(c))+"()")
				continue
			}
			// a field of a row of a local table of struct literals ({condition, sequence} pairs
			// walked in a loop): whatever the field holds in any row
			if base, fld := fieldLoad(l); fld != "" && base != nil {
				if coll := rangeElemOf(base); coll != nil {
					if vals, okT := tableFieldValues(coll, fld); okT && describeDepth < 3 {
						describeDepth++
						for _, tv := range vals {
							out = append(out, describe(f, tv)...)
						}
						describeDepth--
					} else {
						out = append(out, "?")
					}
					continue
				}
			}
			if _, fld := fieldLoad(l); fld != "" {
				out = append(out, "field:"+fld)
				continue
			}
			if lk, ok := strip(l).(*ssa.Lookup); ok {
				if _, fld := fieldLoad(lk.X); fld != "" {
					out = append(out, "table:"+fld)
					continue
				}
			}
			out = append(out, "?")
		}
		return out
	}
	for _, ret := range returnsOf(format) {
		d := describe(format, retResult(ret, 0))
		r.check(strings.Join(d, "+") == "s.seqs()+param:text+field:reset", rule, "Format", p.instrPos(ret), "Format(t) = seqs() + t + reset", "Format(t) is not seqs() + t + reset: "+strings.Join(d, "+"))
	}
	for _, ret := range returnsOf(far) {
		d := describe(far, retResult(ret, 0))
		prev := far.Params[2].Name()
		r.check(strings.Join(d, "+") == "s.Format()+previousStyle.seqs()" || strings.Join(d, "+") == "s.Format()+"+prev+".seqs()" ||
			strings.Join(d, "+") == "s.seqs()+param:"+far.Params[1].Name()+"+field:reset+"+prev+".seqs()", rule, "FormatAndRestore", p.instrPos(ret), "FormatAndRestore(t, p) = Format(t) + p.seqs()", "FormatAndRestore is not Format(t) + previous.seqs(): "+strings.Join(d, "+"))
		// Format is applied to the text parameter
		if c, _ := callOf(func() ssa.Value {
			var leaves []ssa.Value
			concatLeaves(retResult(ret, 0), &leaves, 0)
			return leaves[0]
		}()); c != nil && len(c.Common().Args) == 2 {
			r.check(strip(c.Common().Args[1]) == ssa.Value(far.Params[1]), rule, "FormatAndRestore:text", p.instrPos(ret), "the text given is what gets formatted", "FormatAndRestore does not format the text it is given")
		}
	}
	for _, ret := range returnsOf(seqs) {
		d := describe(seqs, retResult(ret, 0))
		ok := len(d) > 0
		for _, x := range d {
			if !strings.HasPrefix(x, "field:") && !strings.HasPrefix(x, "table:") {
				ok = false
			}
		}
		r.check(ok, rule, "seqs", p.instrPos(ret), "seqs() is built from Styler fields and colour-table entries only: "+strings.Join(d, "+"), "seqs() contains something that is not a Styler field or table entry: "+strings.Join(d, "+"))
	}
	// Props only replaces the props
	props := p.method("klog/app/cli/terminalformat", "Styler", "Props")
	if r.anchorFn(rule, props, "Styler.Props") {
		ok := true
		eachInstr(props, func(in ssa.Instruction) {
			if st, isSt := in.(*ssa.Store); isSt {
				if fa, isFa := st.Addr.(*ssa.FieldAddr); isFa && typeNameOf(fa.X.Type()) == "Styler" && fieldName(fa) != "props" {
					ok = false
				}
			}
		})
		r.check(ok, rule, "Props", p.pos(props.Pos()), "Props() changes nothing but the style properties", "Props() alters escape sequences or tables of the styler")
	}
	// summary serialiser: each tag match is replaced by a styled copy of itself
	sum := p.method("klog/app", "TextSerialiser", "Summary")
	if r.anchorFn(rule, sum, "TextSerialiser.Summary") {
		ok := false
		var cl *ssa.Function
		eachInstr(sum, func(in ssa.Instruction) {
			if c, isC := in.(ssa.CallInstruction); isC && staticCallee(c) != nil && fnBase(staticCallee(c)) == "ReplaceAllStringFunc" {
				cl = funcLiteral(c.Common().Args[2])
			}
		})
		if cl != nil {
			ok = true
			for _, ret := range returnsOf(cl) {
				c, _ := callOf(retResult(ret, 0))
				if c == nil || staticCallee(c) == nil || fnBase(staticCallee(c)) != "FormatAndRestore" || len(cl.Params) == 0 || strip(c.Common().Args[1]) != ssa.Value(cl.Params[len(cl.Params)-1]) {
					ok = false
				}
			}
		}
		r.check(ok, rule, "Summary:tags", p.pos(sum.Pos()), "each tag is replaced by a styled copy of the match itself", "the summary serialiser does not replace each tag match by FormatAndRestore(the match, ...)")
		// and the whole is Format(text) of the summary text
		for _, ret := range returnsOf(sum) {
			c, _ := callOf(retResult(ret, 0))
			r.check(c != nil && staticCallee(c) != nil && fnBase(staticCallee(c)) == "Format", rule, "Summary:format", p.instrPos(ret), "the summary is the formatted text", "the summary is not Format(text)")
			// … of the summary's own text: what is styled is s.ToString(), character for character
			// (tags wrapped in place), not a cleaned, trimmed or otherwise rewritten copy of it
			if c == nil || len(c.Common().Args) == 0 {
				continue
			}
			text := strip(c.Common().Args[len(c.Common().Args)-1])
			via := ""
			for hops := 0; hops < 3; hops++ {
				rc, _ := callOf(text)
				if rc == nil || staticCallee(rc) == nil {
					break
				}
				if fnBase(staticCallee(rc)) == "ReplaceAllStringFunc" && len(rc.Common().Args) == 3 {
					text = strip(rc.Common().Args[1])
					continue
				}
				break
			}
			nm, recv, _, _ := methodCall(text)
			okText := nm == "ToString" && recv != nil && len(sum.Params) > 0 && strip(recv) == ssa.Value(sum.Params[len(sum.Params)-1])
			if !okText {
				via = describeValue(text)
			}
			r.check(okText, rule, "Summary:text", p.instrPos(ret), "what is styled is the summary's own text (ToString), tags wrapped in place", "the text the summary serialiser styles is not the summary's own ToString() but "+via+": characters of the summary are dropped or altered on the way to the output (print no longer reproduces the summary, with or without colours)")
		}
	}
}

func ruleP18Width(p *Prog, r *Report) {
	const rule = "P18-width"
	cell := p.method("klog/app/cli/terminalformat", "Table", "Cell")
	collect := p.method("klog/app/cli/terminalformat", "Table", "Collect")
	if !r.anchorFn(rule, cell, "Table.Cell") || !r.anchorFn(rule, collect, "Table.Collect") {
		return
	}
	okLen := false
	eachVInstr(cell, func(in ssa.Instruction) {
		st, ok := in.(*ssa.Store)
		if !ok {
			return
		}
		fa, ok := st.Addr.(*ssa.FieldAddr)
		if !ok || fieldName(fa) != "len" || typeNameOf(fa.X.Type()) != "cell" {
			return
		}
		c, _ := callOf(st.Val)
		if c != nil && staticCallee(c) != nil && staticCallee(c).String() == "unicode/utf8.RuneCountInString" {
			if c2, _ := callOf(c.Common().Args[0]); c2 != nil && staticCallee(c2) != nil && fnBase(staticCallee(c2)) == "StripAllAnsiSequences" && strip(c2.Common().Args[0]) == ssa.Value(cell.Params[1]) {
				okLen = true
			}
		}
	})
	r.check(okLen, rule, "Cell:measure", p.pos(cell.Pos()), "cell width = rune count of the ANSI-stripped text", "a cell's width is not RuneCountInString(StripAllAnsiSequences(text)): styled and unstyled tables would differ in layout")
	// longest cell tracks that len
	okMax := false
	eachVInstrCtx(cell, func(in ssa.Instruction) {
		if st, ok := in.(*ssa.Store); ok {
			if ia, ok := st.Addr.(*ssa.IndexAddr); ok {
				if _, fld := fieldLoad(ia.X); fld == "longestCell" {
					if cand, isMax := runningMax(st); isMax {
						if _, f2 := fieldLoad(cand); f2 == "len" {
							okMax = true
						}
					}
				}
			}
		}
	})
	r.check(okMax, rule, "Cell:longest", p.pos(cell.Pos()), "the column width is the maximum of the measured widths", "the column width is not tracked from the measured cell width")
	// Collect: padding = Repeat(" ", longestCell[col] - c.len)
	okPad := false
	eachVInstr(collect, func(in ssa.Instruction) {
		c, ok := in.(ssa.CallInstruction)
		if !ok || staticCallee(c) == nil || staticCallee(c).String() != "strings.Repeat" {
			return
		}
		if s, isS := constString(c.Common().Args[0]); !isS || s != " " {
			return
		}
		b, isB := strip(c.Common().Args[1]).(*ssa.BinOp)
		if !isB || b.Op != token.SUB {
			return
		}
		_, fy := fieldLoad(b.Y)
		lx := false
		if u, ok := strip(b.X).(*ssa.UnOp); ok {
			if ia, ok := u.X.(*ssa.IndexAddr); ok {
				if _, f := fieldLoad(ia.X); f == "longestCell" {
					lx = true
				}
			}
		}
		if lx && fy == "len" {
			okPad = true
		}
	})
	r.check(okPad, rule, "Collect:padding", p.pos(collect.Pos()), "padding = column width - measured cell width", "padding is not computed from the measured (unstyled) widths")
	// … and the cell's text itself — which may carry escape sequences — is only handed on as it
	// is (or repeated, for a fill cell): it is never measured or padded by a library routine that
	// counts its bytes (a `%-*s`, a len()), which would pad styled cells less than plain ones
	badUse := ""
	eachVInstr(collect, func(in ssa.Instruction) {
		u, ok := in.(*ssa.UnOp)
		if !ok || u.Op != token.MUL {
			return
		}
		fa, ok := u.X.(*ssa.FieldAddr)
		if !ok || fieldName(fa) != "value" || typeNameOf(derefType(fa.X.Type())) != "cell" {
			return
		}
		var follow func(v ssa.Value, depth int)
		follow = func(v ssa.Value, depth int) {
			if depth > 3 || v.Referrers() == nil {
				return
			}
			for _, ref := range *v.Referrers() {
				switch x := ref.(type) {
				case *ssa.DebugRef:
				case *ssa.MakeInterface:
					follow(x, depth+1)
				case *ssa.Store:
					// an element of a variadic argument list
					if ia, isIA := x.Addr.(*ssa.IndexAddr); isIA {
						if al, isAl := ia.X.(*ssa.Alloc); isAl {
							for _, r2 := range *al.Referrers() {
								if sl, isSl := r2.(*ssa.Slice); isSl {
									follow(sl, depth+1)
								}
							}
						}
					}
				case ssa.CallInstruction:
					if g := rawStaticCallee(x); g != nil {
						if g.String() == "strings.Repeat" {
							continue
						}
						badUse = calleeName(x) + " at " + p.instrPos(x)
						continue
					}
					if bi, isB := x.Common().Value.(*ssa.Builtin); isB {
						badUse = bi.Name() + "() at " + p.instrPos(x)
					}
					// a dynamic call: the output function
				default:
					if _, isV := ref.(ssa.Value); isV {
						if bo, isBo := ref.(*ssa.BinOp); isBo && bo.Op == token.ADD {
							follow(bo, depth+1)
						}
					}
				}
			}
		}
		follow(u, 0)
	})
	r.check(badUse == "", rule, "Collect:value", p.pos(collect.Pos()), "a cell's text is handed to the output as it is", "Collect hands a cell's text to "+badUse+": the text may carry escape sequences, whose bytes such a routine counts — styled cells are padded less than plain ones, and the rows no longer line up under a colour scheme")
	// print --with-totals: the width is measured on the unstyled ToString()
	pw := p.fn("klog/app/cli", "printWithDurations")
	if r.anchorFn(rule, pw, "cli.printWithDurations") {
		okAll, n := true, 0
		for _, f := range withAnons(pw) {
			eachInstr(f, func(in ssa.Instruction) {
				c, ok := in.(*ssa.Call)
				if !ok {
					return
				}
				bi, ok := c.Call.Value.(*ssa.Builtin)
				if !ok || bi.Name() != "len" {
					return
				}
				if bt := c.Call.Args[0].Type().Underlying().String(); bt != "string" {
					return
				}
				n++
				nm, _, _, _ := methodCall(c.Call.Args[0])
				if nm != "ToString" {
					okAll = false
				}
			})
		}
		r.check(okAll && n >= 2, rule, "print:measure", p.pos(pw.Pos()), "prefix widths are measured on the unstyled ToString()", "print --with-totals measures a string that may carry escape sequences")
	}
}

func ruleP18NoStyleApplied(p *Prog, r *Report) {
	const rule = "P18-nostyle-applied"
	for name, calls := range p.argsApplied(r, rule, "NoStyleArgs", "Apply") {
		for i, c := range calls {
			key := fmt.Sprintf("%s:NoStyleArgs.Apply#%d", name, i)
			okBefore := true
			eachInstr(c.Parent(), func(in ssa.Instruction) {
				if c2, ok := in.(ssa.CallInstruction); ok && c2.Common().IsInvoke() && c2.Common().Method.Name() == "Serialise" {
					if !c.Block().Dominates(c2.Block()) || (c.Block() == c2.Block() && instrIndex(c) > instrIndex(c2)) {
						okBefore = false
					}
				}
			})
			unconditional := len(guardsOf(c.Block())) == 0 && skippableAt(c.Block(), nil) == nil
			r.check(okBefore && unconditional, rule, key, p.instrPos(c), "--no-style is applied, unconditionally, before the serialiser is obtained", "--no-style is applied only conditionally or after the serialiser was obtained")
		}
	}
	ap := p.method("klog/app/cli/util", "NoStyleArgs", "Apply")
	if !r.anchorFn(rule, ap, "NoStyleArgs.Apply") {
		return
	}
	var cfg ssa.CallInstruction
	eachInstr(ap, func(in ssa.Instruction) {
		if c, ok := in.(ssa.CallInstruction); ok && c.Common().IsInvoke() && c.Common().Method.Name() == "ConfigureSerialisation" {
			cfg = c
		}
	})
	if cfg == nil {
		r.bad(rule, "Apply:configure", p.pos(ap.Pos()), "NoStyleArgs.Apply never reconfigures the serialisation")
		return
	}
	flag := false
	gs := guardsOf(cfg.Block())
	for _, g := range gs {
		if tag, _ := fieldTagOfLoad(g.Cond); tag == "no-style" && g.Pol {
			flag = true
		}
	}
	r.check(flag && len(gs) == 1, rule, "Apply:polarity", p.instrPos(cfg), "the plain styler is installed exactly when --no-style is set", "the plain styler is not installed exactly when --no-style is set (inverted or extra condition)")
	cl := funcLiteral(cfg.Common().Args[0])
	okTheme := false
	if cl != nil {
		for _, ret := range returnsOf(cl) {
			c, _ := callOf(retResult(ret, 0))
			if c != nil && staticCallee(c) != nil && fnBase(staticCallee(c)) == "NewStyler" {
				if s, isS := constString(c.Common().Args[0]); isS && s == "no_colour" {
					okTheme = strip(retResult(ret, 1)) == ssa.Value(cl.Params[1])
				}
			}
		}
	}
	r.check(okTheme, rule, "Apply:theme", p.instrPos(cfg), "installs NewStyler(no_colour), keeping the decimal setting", "--no-style does not install the no_colour styler (or changes the decimal setting)")
	// ConfigureSerialisation installs what the callback returns
	for _, f := range p.implsOf("klog/app", "Context", "ConfigureSerialisation") {
		var cb ssa.CallInstruction
		eachInstr(f, func(in ssa.Instruction) {
			if c, ok := in.(ssa.CallInstruction); ok && !c.Common().IsInvoke() && staticCallee(c) == nil {
				if prm, ok := strip(c.Common().Value).(*ssa.Parameter); ok && prm == f.Params[1] {
					cb = c
				}
			}
		})
		ok := false
		if cb != nil {
			st := resultOf(cb, 0)
			eachInstr(f, func(in ssa.Instruction) {
				if s, isSt := in.(*ssa.Store); isSt {
					if fa, isFa := s.Addr.(*ssa.FieldAddr); isFa && fieldName(fa) == "styler" && st != nil && sameValue(s.Val, st) {
						ok = true
					}
				}
			})
			// and the serialiser is rebuilt from it
			ok2 := false
			eachInstr(f, func(in ssa.Instruction) {
				if c, isC := in.(ssa.CallInstruction); isC && staticCallee(c) != nil && fnBase(staticCallee(c)) == "NewSerialiser" && st != nil && sameValue(c.Common().Args[0], st) {
					ok2 = true
				}
			})
			ok = ok && ok2
		}
		r.check(ok, rule, fnName(f), p.pos(f.Pos()), "the configured styler is installed for both styler and serialiser", "ConfigureSerialisation does not install the styler the callback returned in both places")
	}
}

func ruleP18Confine(p *Prog, r *Report) {
	const rule = "P18-confine"
	n := 0
	for _, f := range p.srcFns {
		eachInstr(f, func(in ssa.Instruction) {
			var name string
			var x ssa.Value
			switch v := in.(type) {
			case *ssa.FieldAddr:
				name, x = fieldName(v), v.X
			case *ssa.Field:
				st := v.X.Type().Underlying()
				_ = st
				b, fld := fieldLoad(v)
				name, x = fld, b
				if b == nil {
					return
				}
			default:
				return
			}
			if typeNameOf(x.Type()) != "Styler" || typePkgPath(x.Type()) != modPath+"/klog/app/cli/terminalformat" {
				return
			}
			n++
			okOwner := f.Signature.Recv() != nil && typeNameOf(f.Signature.Recv().Type()) == "Styler"
			okCtor := pkgPathOfFn(f) == modPath+"/klog/app/cli/terminalformat" && (strings.HasPrefix(fnBase(f), "newStyler") || fnBase(f) == "NewStyler")
			if !okOwner && !okCtor {
				r.bad(rule, fnName(f)+":"+name, p.instrPos(in), "field %s of a Styler is accessed outside Styler's own methods and constructors (output may depend on the styler's contents)", name)
			}
		})
	}
	r.ok(rule, "accesses", "-", "%d accesses to Styler fields, all in Styler methods or constructors", n)
	if n < 10 {
		r.undecided(rule, "floor", "-", "found %d accesses to Styler fields, expected at least 10", n)
	}
}

// tableFieldValues: coll is a slice literal of structs built field by field; returns what the
// named field is set to in its rows (ok=false when a row is written in any other way).
func tableFieldValues(coll ssa.Value, field string) ([]ssa.Value, bool) {
	sl, ok := strip(coll).(*ssa.Slice)
	if !ok {
		return nil, false
	}
	arr, ok := sl.X.(*ssa.Alloc)
	if !ok {
		return nil, false
	}
	var vals []ssa.Value
	for _, ref := range *arr.Referrers() {
		switch x := ref.(type) {
		case *ssa.Slice:
		case *ssa.IndexAddr:
			for _, r2 := range *x.Referrers() {
				fa, isFA := r2.(*ssa.FieldAddr)
				if !isFA {
					return nil, false
				}
				st, isStruct := fa.X.Type().Underlying().(*types.Pointer).Elem().Underlying().(*types.Struct)
				if !isStruct {
					return nil, false
				}
				for _, r3 := range *fa.Referrers() {
					s3, isSt := r3.(*ssa.Store)
					if !isSt || s3.Addr != ssa.Value(fa) {
						return nil, false
					}
					if st.Field(fa.Field).Name() == field {
						vals = append(vals, s3.Val)
					}
				}
			}
		default:
			return nil, false
		}
	}
	return vals, len(vals) > 0
}
